/-
  C20 — property theorems (DESIGN.md 5.20).

  Modelled (Model/C20.lean): port parsing on the decimal rendering of any integer + the uint16 cast; the numeric
  settings of the three chain configs through defaults → decode → Validate → Duration conversion →
  CalculateStartingBlock; the local-over-shared merge on flat maps.
  Assumed / partial: written numbers are integers that JSON/float64 carries exactly (|n| ≤ 2^53); port texts other
  than plain decimal integers (0x.., 0o.., underscores) are compared model-vs-code on a few fixed strings only;
  `RetryFits` (blockRetryInterval·10⁹ < 2⁶³) and `NoEmptyClash` (no empty local value over a different shared value)
  are hypotheses whose excluded points are stated below (`retry_wrap_point`, `empty_local_point`) and are KNOWN
  FINDINGS on the real code (findings/C20.json). time.ParseDuration: texts of integer terms only (`1h30m`, `-5s`),
  no fractions; hypothesis: the written total stays below 2^64 ns (excluded point `dur_wrap_point`).
-/
import SygmaModel.Model.C20
import SygmaModel.Proofs.C20Dur
namespace Sygma.C20

section Helpers

theorem get_append (a b : Chain) (k : String) : Chain.get (a ++ b) k = (Chain.get a k).orElse fun _ => Chain.get b k := by
  simp only [Chain.get, List.find?_append]
  cases List.find? (fun x => x.1 == k) a <;> simp

theorem get_map_val (l : Chain) (g : String → V → V) (k : String) :
    Chain.get (l.map fun (p : String × V) => (p.1, g p.1 p.2)) k = (Chain.get l k).map (g k) := by
  induction l with
  | nil => rfl
  | cons x xs ih =>
    simp only [Chain.get, List.map_cons, List.find?_cons] at ih ⊢
    by_cases h : x.1 == k
    · simp [h, eq_of_beq h]
    · simp [h]; simpa using ih

theorem get_filter_key (l : Chain) (q : String → Bool) (k : String) :
    Chain.get (l.filter fun (p : String × V) => q p.1) k = if q k then Chain.get l k else none := by
  induction l with
  | nil => simp [Chain.get]
  | cons x xs ih =>
    simp only [Chain.get, List.filter_cons] at ih ⊢
    by_cases hx : x.1 == k
    · have e := eq_of_beq hx
      by_cases hq : q x.1
      · simp [hq, List.find?_cons, hx, ← e]
      · simp only [hq, Bool.false_eq_true, if_false]
        rw [ih, ← e]; simp [hq]
    · by_cases hq : q x.1
      · simp only [hq, if_true, List.find?_cons, hx]
        rw [ih]
      · simp only [hq, Bool.false_eq_true, if_false, List.find?_cons, hx]
        rw [ih]

end Helpers

section Property

/-! #### ports -/

/-- **Ports.** For EVERY integer written as the port: 1 … 65535 are accepted, negative and larger values are
    rejected, and an accepted port is the value written (no wrap). -/
theorem port_property (n : Int) : PPort n (port n) := by
  have e : (2 : Int) ^ 16 = 65536 := by decide
  unfold PPort port portOf parseIntLike
  simp only [Bool.false_eq_true, if_false, e]
  refine ⟨?_, ?_, ?_⟩
  · intro h
    have : (0 ≤ n ∧ n < 65536) := by omega
    simp only [this, and_self, if_true, Option.map_some]
    congr 1; omega
  · intro h
    have : ¬ (0 ≤ n ∧ n < 65536) := by omega
    simp only [this, if_false, Option.map_none]
  · split
    · next h =>
      simp only [Option.map_some, Option.all_some, decide_eq_true_eq]
      rw [Int.emod_eq_of_lt h.1 h.2]
      exact Int.toNat_of_nonneg h.1
    · simp

/-- port 0 (not covered by the statement) is accepted as 0 -/
theorem port_zero : port 0 = some 0 := by decide

/-- the defect as found (`ParseInt(s, 0, 16)` then `uint16`): 40000 is rejected and −1 becomes 65535 -/
theorem port_as_found_violates :
    portAsFound 40000 = none ∧ portAsFound (-1) = some 65535 ∧
    ¬ PPort 40000 (portAsFound 40000) ∧ ¬ PPort (-1) (portAsFound (-1)) := by decide

example : PPort 65535 (port 65535) ∧ port 65535 = some 65535 ∧ port 65536 = none ∧ port (-1) = none := by decide

/-! #### chain settings -/

/-- the executable predicate means what the readable one says -/
theorem PChainB_sound (c : ChainIn) (out : Option ChainOut) (h : PChainB c out = true) : PChain c out := by
  cases out with
  | none => trivial
  | some o =>
    simp only [PChainB, Bool.and_eq_true, beq_iff_eq, decide_eq_true_eq] at h
    obtain ⟨⟨⟨⟨⟨⟨⟨h1, h2⟩, h3⟩, h4⟩, h5⟩, h6⟩, h7⟩, h8⟩ := h
    refine ⟨h1, h2, h3, h4, ?_, h6, h7, ?_⟩
    · intro b hb; rw [hb] at h5; simpa using h5
    · cases ha : o.aligned with
      | none => rw [ha] at h8; cases h8
      | some a =>
        rw [ha] at h8
        simp only [Bool.and_eq_true, decide_eq_true_eq] at h8
        exact ⟨a, rfl, h8.1.1, h8.1.2, h8.2⟩

/-- **Chain settings.** For EVERY combination of written / unwritten blockConfirmations, blockInterval, startBlock
    and blockRetryInterval (any integers; retry interval fitting a Duration) and every chain kind, loading either
    fails or yields exactly the written values (defaults only where nothing was written), with confirmations ≥ 1,
    interval ≥ 1, and a start block aligned down to the interval grid without a division by zero. -/
theorem chain_property (c : ChainIn) (hf : RetryFits c) : PChainB c (loadChain c) = true := by
  unfold loadChain
  simp only
  split
  · next h =>
    have : ¬ (0 ≤ c.ri.getD defRi) := by omega
    simp [PChainB, chainValid, this]
  · next hri =>
    split
    · next h =>
      simp only [Bool.and_eq_true, decide_eq_true_eq] at h
      have : ¬ (1 ≤ c.bc.getD defBc) := by omega
      simp [PChainB, chainValid, h.1, this]
    · next hbc =>
      split
      · next h =>
        have : ¬ (1 ≤ c.bi.getD defBi) := by omega
        simp [PChainB, chainValid, this]
      · next hbi =>
        have hri' : 0 ≤ c.ri.getD defRi := by omega
        have hbi' : 1 ≤ c.bi.getD defBi := by omega
        have hfit : c.ri.getD defRi * 1000000000 < 2 ^ 63 := hf
        have hns : toInt64 (c.ri.getD defRi * 1000000000 % 2 ^ 64) = c.ri.getD defRi * 1000000000 := by
          unfold toInt64; omega
        have hne : c.bi.getD defBi ≠ 0 := by omega
        have hmod := Int.emod_nonneg (c.sb.getD defSb) hne
        have hlt := Int.emod_lt_of_pos (c.sb.getD defSb) (show 0 < c.bi.getD defBi by omega)
        have hdvd : (c.sb.getD defSb - c.sb.getD defSb % c.bi.getD defBi) % c.bi.getD defBi = 0 := by
          have h1 : c.sb.getD defSb - c.sb.getD defSb % c.bi.getD defBi
              = c.bi.getD defBi * (c.sb.getD defSb / c.bi.getD defBi) := by
            have := Int.mul_ediv_add_emod (c.sb.getD defSb) (c.bi.getD defBi)
            omega
          rw [h1]; exact Int.mul_emod_right _ _
        simp only [PChainB, alignStart, hne, if_false, hns, beq_self_eq_true, Bool.true_and, Bool.and_true]
        cases hk : c.kind.hasConf
        · simp [hk]; omega
        · simp [hk] at hbc ⊢; omega

/-- non-vacuity: written values are kept, the start block 17 is aligned down to 16 on the interval 2 -/
example : RetryFits ⟨.evm, some 3, some 2, some 17, some 7⟩ ∧
    loadChain ⟨.evm, some 3, some 2, some 17, some 7⟩ = some ⟨some 3, 2, 17, 7000000000, some 16⟩ ∧
    loadChain ⟨.sub, none, none, some 17, none⟩ = some ⟨none, 5, 17, 5000000000, some 15⟩ := by
  unfold RetryFits; decide

/-- **Non-positive interval / confirmations are rejected at load time**, written or defaulted, for every kind. -/
theorem chain_rejects_nonpositive (c : ChainIn) :
    (c.bi.getD defBi ≤ 0 → loadChain c = none) ∧
    (c.kind.hasConf = true → c.bc.getD defBc ≤ 0 → loadChain c = none) := by
  unfold loadChain
  refine ⟨fun h => ?_, fun hk h => ?_⟩
  · simp only
    split; · rfl
    split; · rfl
    have : c.bi.getD defBi < 1 := by omega
    simp [this]
  · simp only
    split; · rfl
    have : c.bc.getD defBc < 1 := by omega
    simp [hk, this]

example : loadChain ⟨.evm, some 0, none, none, none⟩ = none ∧ loadChain ⟨.sub, none, some (-5), none, none⟩ = none ∧
    loadChain ⟨.btc, none, some 0, none, none⟩ = none := by decide

/-- excluded point of `chain_property` (KNOWN FINDING on the real code): a retry interval of 9223372037 s does not
    fit a time.Duration; it is accepted and wraps to a negative duration -/
theorem retry_wrap_point :
    ¬ RetryFits ⟨.sub, none, none, none, some 9223372037⟩ ∧
    (loadChain ⟨.sub, none, none, none, some 9223372037⟩).map (·.riNs) = some (-9223372036709551616) ∧
    PChainB ⟨.sub, none, none, none, some 9223372037⟩ (loadChain ⟨.sub, none, none, none, some 9223372037⟩) = false := by
  unfold RetryFits; decide

/-! #### local-over-shared merge -/

/-- **What `mergo.Merge` does at every key, for ALL local and shared entries**: the local value if it is written and
    non-empty, else the shared value if there is one, else the (empty) local value. -/
theorem merge_get (loc shared : Chain) (k : String) :
    Chain.get (mergeChain loc shared) k =
      match Chain.get loc k with
      | some v => some (mergeVal shared k v)
      | none => Chain.get shared k := by
  unfold mergeChain
  rw [get_append, get_map_val loc (mergeVal shared) k, get_filter_key shared (fun k => (Chain.get loc k).isNone) k]
  cases Chain.get loc k <;> simp

/-- **Merge.** For all local and shared entries without an empty local value over a different shared one: at EVERY
    key the merged entry holds the locally written value if there is one, otherwise the shared value — local settings
    override, shared-only settings are kept, nothing else appears. -/
theorem merge_property (loc shared : Chain) (h : NoEmptyClash loc shared) (k : String) :
    Chain.get (mergeChain loc shared) k = wanted loc shared k := by
  rw [merge_get]
  unfold wanted
  cases hl : Chain.get loc k with
  | none => rfl
  | some v =>
    simp only [mergeVal]
    cases hs : Chain.get shared k with
    | none => rfl
    | some sv =>
      simp only
      by_cases he : v.isEmpty = true
      · rcases h k v hl he with h' | h'
        · rw [hs] at h'; cases h'
        · rw [hs] at h'; simp [he, Option.some.inj h']
      · simp [he]

/-- the executable predicate the driver evaluates follows from the pointwise statement -/
theorem merge_property_B (loc shared : Chain) (h : NoEmptyClash loc shared) :
    PMerge loc shared (mergeChain loc shared) = true := by
  unfold PMerge
  rw [List.all_eq_true]
  intro k _
  rw [merge_property loc shared h k]; simp

/-- the ideal merge satisfies the property for ALL entries (it is what the driver expects of the real code) -/
theorem mergeIdeal_get (loc shared : Chain) (k : String) :
    Chain.get (mergeIdeal loc shared) k = wanted loc shared k := by
  unfold mergeIdeal wanted
  rw [get_append, get_filter_key shared (fun k => (Chain.get loc k).isNone) k]
  cases Chain.get loc k <;> simp

/-- non-vacuity: local `d=5` overrides shared `d=6`, shared-only `e=9` is kept -/
example :
    let loc : Chain := [("id", .num 1 false), ("type", .str "evm"), ("d", .num 5 false)]
    let sh : Chain := [("id", .num 1 true), ("d", .num 6 false), ("e", .num 9 false)]
    noEmptyClashB loc sh = true ∧
    mergeChain loc sh = [("id", .num 1 false), ("type", .str "evm"), ("d", .num 5 false), ("e", .num 9 false)] ∧
    PMerge loc sh (mergeChain loc sh) = true := by decide

/-- excluded point of `merge_property` (KNOWN FINDING on the real code): a local `startBlock: 0`, `fresh: false` or
    `""` does not override the shared value -/
theorem empty_local_point :
    let loc : Chain := [("id", .num 1 false), ("type", .str "evm"), ("a", .num 0 false), ("c", .bool false)]
    let sh : Chain := [("id", .num 1 true), ("a", .num 7 false), ("c", .bool true)]
    noEmptyClashB loc sh = false ∧ Chain.get (mergeChain loc sh) "a" = some (.num 7 false) ∧
    Chain.get (mergeChain loc sh) "c" = some (.bool true) ∧ PMerge loc sh (mergeChain loc sh) = false := by decide

/-! #### durations (integer terms) -/

/-- **Durations.** For every sign and every list of written terms `<integer><unit>` whose total stays below 2^64 ns:
    `time.ParseDuration` either fails or returns exactly the signed sum of what was written (no truncation, no wrap). -/
theorem dur_property (neg : Bool) (terms : List (Nat × DUnit)) (hfit : durTotal terms < 2 ^ 64) :
    PDur neg terms (parseDur neg terms) = true := by
  unfold parseDur
  split
  · next h => simp [PDur, durValid, h]
  · next hne =>
    cases hg : durGo 0 terms with
    | none =>
      -- a rejected loop means the total does not fit (acceptance lemma, contrapositive)
      have : ¬ (durTotal terms ≤ 2 ^ 63) := by
        intro hle
        have := durGo_accepts terms 0 (by omega)
        rw [hg] at this; cases this
      have h2 : ¬ (durTotal terms ≤ 2 ^ 63 - 1) := by omega
      cases neg <;> simp [PDur, durValid, this, h2]
    | some d =>
      have hd := durGo_sum terms 0 d hg (by omega)
      simp only [Nat.zero_add] at hd
      simp only
      split
      · simp [PDur, hd, *]
      · split
        · next hnn hbig =>
          have : ¬ (durTotal terms ≤ 2 ^ 63 - 1) := by omega
          simp [PDur, durValid, hnn, this]
        · simp [PDur, hd, *]

/-- **Durations, positive direction.** Every duration text of integer terms whose total fits int64 nanoseconds
    (down to the most negative value) IS accepted, with exactly the written total. -/
theorem dur_accepts (neg : Bool) (terms : List (Nat × DUnit)) (h : durValid neg terms = true) :
    parseDur neg terms = some (if neg then -(durTotal terms : Int) else (durTotal terms : Int)) := by
  simp only [durValid, Bool.and_eq_true, bne_iff_ne, ne_eq] at h
  obtain ⟨hne, hfit⟩ := h
  have hle : durTotal terms ≤ 2 ^ 63 := by cases neg <;> simp at hfit <;> omega
  unfold parseDur
  rw [if_neg hne, durGo_accepts terms 0 (by omega)]
  cases neg
  · simp at hfit; simp; omega
  · simp

/-- non-vacuity: `1h30m` is 5400 s; `-9223372036854775808ns` is the smallest Duration; one more overflows -/
example : parseDur false [(1, .h), (30, .m)] = some 5400000000000 ∧
    parseDur true [(9223372036854775808, .ns)] = some (-9223372036854775808) ∧
    parseDur false [(9223372036854775808, .ns)] = none ∧ parseDur false [(2562048, .h)] = none := by decide

/-- excluded point of `dur_property` (a quirk of Go's ParseDuration, reproduced by the real code in the corpus):
    two terms of 2^63 ns wrap the uint64 accumulator to 0 and the text is accepted as the zero duration -/
theorem dur_wrap_point :
    parseDur false [(9223372036854775808, .ns), (9223372036854775808, .ns)] = some 0 ∧
    PDur false [(9223372036854775808, .ns), (9223372036854775808, .ns)]
      (parseDur false [(9223372036854775808, .ns), (9223372036854775808, .ns)]) = false := by decide

/-! #### which shared entry a local entry is merged with -/

/-- `compareDomainID` is numeric equality of the two ids (int or float64, fractional values included) and nothing
    else: no truncation, no match for non-numeric ids -/
theorem sameId_iff (a b : Option V) : sameId a b = true ↔ ∃ x, idVal a = some x ∧ idVal b = some x := by
  unfold sameId
  cases ha : idVal a <;> cases hb : idVal b <;> simp
  exact eq_comm

/-- an entry that loads was merged with a shared entry of numerically EQUAL id -/
theorem processOne_sound (merge : Chain → Chain → Chain) (shareds : List Chain) (c m : Chain)
    (h : processOne merge shareds c = some m) :
    ∃ s ∈ shareds, sameId (c.get "id") (s.get "id") = true ∧ m = merge c s := by
  unfold processOne at h
  split at h; · cases h
  split at h; · cases h
  split at h
  · cases h
  · next s hs =>
    refine ⟨s, List.mem_of_find?_eq_some hs, ?_, (Option.some.inj h).symm⟩
    have := List.find?_some hs
    simpa using this

/-- without a shared entry of equal id the entry fails to load, whatever else it contains -/
theorem processOne_missing (merge : Chain → Chain → Chain) (shareds : List Chain) (c : Chain)
    (h : ∀ s ∈ shareds, sameId (c.get "id") (s.get "id") = false) : processOne merge shareds c = none := by
  unfold processOne
  split; · rfl
  split; · rfl
  have : shareds.find? (fun s => sameId (c.get "id") (s.get "id")) = none := by
    rw [List.find?_eq_none]; intro s hs; simp [h s hs]
  rw [this]

/-- **Merge partner.** For all local and shared chain lists: if loading succeeds, the results correspond one to one
    to the local entries, each merged with a shared entry whose id is numerically equal to its own. -/
theorem processChains_sound (merge : Chain → Chain → Chain) (locals shareds rs : List Chain)
    (h : processChains merge locals shareds = some rs) :
    rs.length = locals.length ∧
    ∀ p ∈ locals.zip rs, ∃ s ∈ shareds, sameId (p.1.get "id") (s.get "id") = true ∧ p.2 = merge p.1 s := by
  induction locals generalizing rs with
  | nil => simp [processChains] at h; subst h; simp
  | cons c cs ih =>
    simp only [processChains] at h
    cases h1 : processOne merge shareds c with
    | none => rw [h1] at h; cases h
    | some m =>
      rw [h1] at h
      cases h2 : processChains merge cs shareds with
      | none => rw [h2] at h; cases h
      | some ms =>
        rw [h2] at h
        simp only [Option.map_some, Option.some.injEq] at h
        subst h
        obtain ⟨hl, hz⟩ := ih ms h2
        refine ⟨by simp [hl], ?_⟩
        intro p hp
        simp only [List.zip_cons_cons, List.mem_cons] at hp
        rcases hp with rfl | hp
        · exact processOne_sound merge shareds c m h1
        · exact hz p hp

/-- … and one local entry whose id equals no shared id (e.g. the fractional 2.5 next to the domains 2 and 3) fails
    the whole load -/
theorem processChains_missing (merge : Chain → Chain → Chain) (locals shareds : List Chain) (c : Chain)
    (hc : c ∈ locals) (h : ∀ s ∈ shareds, sameId (c.get "id") (s.get "id") = false) :
    processChains merge locals shareds = none := by
  induction locals with
  | nil => cases hc
  | cons x xs ih =>
    simp only [processChains]
    rcases List.mem_cons.1 hc with rfl | hx
    · rw [processOne_missing merge shareds c h]
    · cases processOne merge shareds x with
      | none => rfl
      | some m => simp [ih hx]

/-- non-vacuity: id 2.5 matches neither domain 2 nor 3 (int or float64); float64 2.0 matches int 2 -/
example :
    let sh : List Chain := [[("id", .num 2 false), ("bridge", .str "b2")], [("id", .num 3 true), ("bridge", .str "b3")]]
    processChains mergeChain [[("id", .frac 2500), ("type", .str "evm")]] sh = none ∧
    processChains mergeChain [[("id", .frac (-2500)), ("type", .str "evm")]] sh = none ∧
    processChains mergeChain [[("id", .num 2 true), ("type", .str "evm")]] sh
      = some [[("id", .num 2 true), ("type", .str "evm"), ("bridge", .str "b2")]] ∧
    sameId (some (.frac 2500)) (some (.frac 2500)) = true := by decide

/-- **Merge, without hypotheses.** For ALL local and shared entries the code's merge satisfies the property at every
    key except exactly the known point: an empty local value (0, "", false) where the shared entry has the key, which
    receives the shared value. -/
theorem merge_excused (loc shared : Chain) : PMergeExc loc shared (mergeChain loc shared) = true := by
  unfold PMergeExc
  rw [List.all_eq_true]
  intro k _
  rw [merge_get]
  unfold wanted mergeVal
  cases hl : Chain.get loc k with
  | none => simp
  | some v =>
    cases hs : Chain.get shared k with
    | none => simp
    | some sv =>
      by_cases he : v.isEmpty = true <;> simp [he]

/-! #### string settings; numeric settings written as strings -/

/-- **Strings.** For every string setting and EVERY byte string written (any `=`, `:`, `,`, quotes, `#`, blanks at either
    end, any length), loading fails or yields exactly that string; only the empty string is replaced, by the declared default. -/
theorem str_property (f : SField) (v : Bytes) : PStr f v (loadStr f v) = true := by
  unfold loadStr PStr
  by_cases h : v = []
  · subst h; cases hr : f.required <;> simp
  · simp [h]

example : loadStr .enckey [81, 61, 61] = some [81, 61, 61] ∧ loadStr .enckey [] = none ∧
    loadStr .logfile [] = some SField.logfile.dflt ∧ loadStr .key [32, 61, 32] = some [32, 61, 32] := by decide

theorem scanDigits_spec (cs : Bytes) (acc : Nat) (seen : Bool) :
    scanDigits acc seen cs =
      if cs.all isDig = true then (if seen = true ∨ cs ≠ [] then some (acc * 10 ^ cs.length + positional cs) else none) else none := by
  induction cs generalizing acc seen with
  | nil => cases seen <;> simp [scanDigits, positional]
  | cons c cs ih =>
    simp only [scanDigits, List.all_cons, Bool.and_eq_true]
    by_cases hc : isDig c = true
    · simp only [hc, if_true, true_and, ih]
      by_cases ha : cs.all isDig = true
      · simp only [ha, if_true, true_or, List.length_cons, positional, ne_eq, reduceCtorEq, not_false_eq_true, or_true]
        congr 1
        rw [Nat.pow_succ]
        have : (acc * 10 + (c.toNat - 48)) * 10 ^ cs.length = acc * (10 ^ cs.length * 10) + (c.toNat - 48) * 10 ^ cs.length := by
          rw [Nat.add_mul, Nat.mul_assoc, Nat.mul_comm 10]
        omega
      · simp [ha]
    · simp [hc]

/-- **The fee parser computes the decimal value.** `big.Int.SetString(s, 10)` as modelled (sign, digit loop, fails on
    the first non-digit: no underscores, no base prefixes) returns, for EVERY byte string, exactly the positional
    decimal value of `[+-]?digits` and fails on everything else — both directions: no reinterpretation, and every
    decimal numeral is accepted. -/
theorem setString10_eq_spec (s : Bytes) : loadFee s = decimalSpec s := by
  unfold loadFee setString10 decimalSpec
  simp only [scanDigits_spec]
  by_cases ha : (splitSign s).2.all isDig = true
  · by_cases hn : (splitSign s).2 = []
    · simp [ha, hn]
    · simp [ha, hn]
  · simp [ha]

theorem fee_property (s : Bytes) : PFee s (loadFee s) = true := by
  simp [PFee, setString10_eq_spec]

/-- `0100000` is one hundred thousand (not 32768), `010` is ten, `0x10` / `1_000` / `1e3` / ` 5` are rejected -/
example : loadFee [48, 49, 48, 48, 48, 48, 48] = some 100000 ∧ loadFee [48, 49, 48] = some 10 ∧
    loadFee [48, 120, 49, 48] = none ∧ loadFee [49, 95, 48, 48, 48] = none ∧ loadFee [49, 101, 51] = none ∧
    loadFee [32, 53] = none ∧ loadFee [43, 53] = some 5 ∧ loadFee [45, 53] = some (-5) ∧ loadFee [] = none ∧
    PNumStr [48, 49, 48] (some 8) = false ∧ PFee [48, 49, 48] none = false := by decide

/-! #### port texts (base-0 parsing as coded) -/

theorem digitLoop_digits (s : Bytes) (acc : Nat) (h : ∀ c ∈ s, 48 ≤ c.toNat ∧ c.toNat ≤ 57) :
    digitLoop 10 acc false s =
      (s.foldl (fun a c => a.bind fun a => if 48 ≤ c.toNat ∧ c.toNat ≤ 57 then some (a * 10 + (c.toNat - 48)) else none)
        (some acc)).map fun v => (v, false) := by
  induction s generalizing acc with
  | nil => rfl
  | cons c cs ih =>
    have hc := h c (List.mem_cons_self ..)
    have hne : c ≠ 95 := by intro e; subst e; simp at hc
    have hd : digitOf c = some (c.toNat - 48) := by simp [digitOf, hc]
    have hlt : c.toNat - 48 < 10 := by omega
    simp only [digitLoop, hne, if_false, hd, hlt, if_true, List.foldl_cons, Option.bind_some, hc, and_self]
    exact ih _ (fun x hx => h x (List.mem_cons_of_mem _ hx))

/-- **Port texts, plain decimals.** For every text made of digits only that does not start with `0` (what a port
    normally looks like), base-0 parsing yields exactly its decimal reading or fails (out of range): `PPortText` holds. -/
theorem port_text_plain (c : UInt8) (r : Bytes) (hc : 49 ≤ c.toNat ∧ c.toNat ≤ 57)
    (hr : ∀ x ∈ r, 48 ≤ x.toNat ∧ x.toNat ≤ 57) : PPortText (c :: r) (portText (c :: r)) = true := by
  have hall : ∀ x ∈ c :: r, 48 ≤ x.toNat ∧ x.toNat ≤ 57 := by
    intro x hx
    rcases List.mem_cons.1 hx with rfl | hx
    · omega
    · exact hr x hx
  have hne : c ≠ 48 := by intro e; subst e; simp at hc
  have hbase : parseUintBase0 16 (c :: r) =
      match digitLoop 10 0 false (c :: r) with
      | none => none
      | some (v, us) => if us && !underscoreOK (c :: r) then none else if v < 2 ^ 16 then some v else none := by
    unfold parseUintBase0
    simp only [List.cons_ne_nil, if_false]
    split <;> simp_all
  unfold portText PPortText
  rw [hbase, digitLoop_digits (c :: r) 0 hall]
  unfold decDigits
  simp only [List.cons_ne_nil, if_false]
  cases hf : List.foldl (fun a c => a.bind fun a => if 48 ≤ c.toNat ∧ c.toNat ≤ 57 then some (a * 10 + (c.toNat - 48)) else none)
      (some 0) (c :: r) with
  | none => simp
  | some v =>
    simp only [Option.map_some, Bool.false_and, Bool.false_eq_true, if_false]
    by_cases hv : v < 2 ^ 16
    · simp only [hv, if_true, Option.map_some]
      have : v % 65536 = v := Nat.mod_eq_of_lt (by simpa using hv)
      simp [this]; omega
    · simp [hv]
      have : (2 : Nat) ^ 16 = 65536 := by decide
      omega

/-- the KNOWN base-0 point (findings: C20-port-base0): `010` loads as port 8, `0x50` as 80, `1_000` as 1000, `0b11` as 3 —
    values that are not the decimal reading of what was written; `08080` and `0x` fail, `007` happens to be 7 -/
theorem port_base0_point :
    portText [48, 49, 48] = some 8 ∧ PPortText [48, 49, 48] (portText [48, 49, 48]) = false ∧
    portText [48, 120, 53, 48] = some 80 ∧ portText [49, 95, 48, 48, 48] = some 1000 ∧ portText [48, 98, 49, 49] = some 3 ∧
    portText [48, 56, 48, 56, 48] = none ∧ portText [48, 120] = none ∧ portText [48, 48, 55] = some 7 ∧
    portText [49, 95, 95, 48] = none ∧ portText [56, 48, 56, 48] = some 8080 := by decide

/-! #### all numeric fields; describing a configuration; flag-overridable general settings -/

theorem loadFields_wanted (specs : List FSpec) (ws : List (Option Int)) (fs : List Int)
    (h : loadFields specs ws = some fs) : fs = fieldsWanted specs ws := by
  induction specs generalizing ws fs with
  | nil => cases ws <;> simp [loadFields] at h; subst h; rfl
  | cons sp sps ih =>
    cases ws with
    | nil => simp [loadFields] at h
    | cons w ws =>
      simp only [loadFields] at h
      cases h1 : loadField sp w with
      | none => rw [h1] at h; cases h
      | some v =>
        cases h2 : loadFields sps ws with
        | none => rw [h1, h2] at h; cases h
        | some vs =>
          rw [h1, h2] at h
          simp only [Option.some.injEq] at h
          subst h
          have hv : v = w.getD sp.dflt * sp.scale := by
            unfold loadField at h1
            simp only at h1
            split at h1; · cases h1
            split at h1
            · split at h1; · cases h1
              exact (Option.some.inj h1).symm
            · exact (Option.some.inj h1).symm
          simp [fieldsWanted, hv, ih ws vs h2]

/-- **Fields stay what was written.** For every chain kind's numeric settings (any written / unwritten integers): if
    the configuration loads, the fields read after loading, after describing it any number of times and after the
    start-block computation are exactly the written values (defaults where nothing was written). -/
theorem describe_property (specs : List FSpec) (ws : List (Option Int)) (fs : List Int)
    (h : loadFields specs ws = some fs) :
    PDescribe specs ws (some [fs, describe fs, describe (describe fs), describe fs]) = true := by
  have := loadFields_wanted specs ws fs h
  simp [PDescribe, describe, this]

example : loadFields evmSpecs [some 20000000000, none, none, none, some 17, some 3, some 2, some 7]
    = some [20000000000, 15, 15000000, 250000, 17, 3, 2, 7000000000] ∧
    loadFields evmSpecs [none, none, none, some (-1), none, none, none, none] = none ∧
    PDescribe evmSpecs [some 20000000000, none, none, none, none, none, none, none]
      (some [[20000000000, 15, 15000000, 250000, 0, 10, 5, 5000000000], [20, 15, 15000000, 250000, 0, 10, 5, 5000000000]]) = false := by
  decide

/-- **General settings.** fresh / latest / blockstorePath of a chain entry load as written unless the flag is given. -/
theorem general_property (g : GenIn) : PGeneral g (loadGeneral g) = true := by
  simp [PGeneral, loadGeneral]

example : loadGeneral ⟨some true, none, some [97], false, false, []⟩ = ⟨true, false, [97]⟩ ∧
    loadGeneral ⟨some false, some true, some [97], true, false, [98]⟩ = ⟨true, true, [98]⟩ ∧
    PGeneral ⟨some true, none, none, false, false, []⟩ ⟨false, false, []⟩ = false := by decide

/-- **Substrate network prefix.** Every value 0 … 65535 loads unchanged. -/
theorem subnet_property (n : Int) (h0 : 0 ≤ n) (h1 : n ≤ 65535) : PSubNet n (some (loadSubNet n)) = true := by
  unfold PSubNet loadSubNet
  rw [Int.emod_eq_of_lt h0 (by omega)]
  simp [Int.toNat_of_nonneg h0]

/-- excluded point (KNOWN FINDING C20-substrate-network-wrap): outside 0 … 65535 the value is accepted and wraps -/
theorem subnet_wrap_point : loadSubNet 65536 = 0 ∧ loadSubNet (-1) = 65535 ∧ loadSubNet 65578 = 42 ∧
    PSubNet 65578 (some (loadSubNet 65578)) = false := by decide

/-! #### positive direction (acceptance) for the chain settings and strings; numbers written with a fraction -/

/-- **Every valid chain configuration loads.** -/
theorem chain_accepts (c : ChainIn) (h : chainValid c = true) : (loadChain c).isSome = true := by
  simp only [chainValid, Bool.and_eq_true, decide_eq_true_eq, Bool.or_eq_true, Bool.not_eq_true'] at h
  obtain ⟨⟨h1, h2⟩, h3⟩ := h
  unfold loadChain
  simp only
  have a1 : ¬ (c.ri.getD defRi < 0) := by omega
  have a3 : ¬ (c.bi.getD defBi < 1) := by omega
  have a2 : (c.kind.hasConf && decide (c.bc.getD defBc < 1)) = false := by
    rcases h2 with h2 | h2
    · simp [h2]
    · have : ¬ (c.bc.getD defBc < 1) := by omega
      simp [this]
  simp [a1, a2, a3]

theorem loadField_some_iff (sp : FSpec) (w : Option Int) : (loadField sp w).isSome = fieldValid sp w := by
  unfold loadField fieldValid
  simp only
  cases hu : (sp.unsigned && decide (w.getD sp.dflt < 0))
  · cases hm : sp.minv with
    | none => simp
    | some m =>
      by_cases hlt : w.getD sp.dflt < m
      · have : ¬ (m ≤ w.getD sp.dflt) := by omega
        simp [hlt, this]
      · have : m ≤ w.getD sp.dflt := by omega
        simp [hlt, this]
  · simp

/-- **Every valid field list loads, and only those** -/
theorem loadFields_some_iff (specs : List FSpec) (ws : List (Option Int)) :
    (loadFields specs ws).isSome = fieldsValid specs ws := by
  induction specs generalizing ws with
  | nil => cases ws <;> simp [loadFields, fieldsValid]
  | cons sp sps ih =>
    cases ws with
    | nil => simp [loadFields, fieldsValid]
    | cons w ws =>
      simp only [loadFields, fieldsValid]
      rw [← loadField_some_iff, ← ih ws]
      cases loadField sp w <;> cases loadFields sps ws <;> simp

/-- the failure case of the predicate the driver evaluates: the constructor fails only on invalid settings -/
theorem describe_none (specs : List FSpec) (ws : List (Option Int)) (h : loadFields specs ws = none) :
    PDescribe specs ws none = true := by
  have := loadFields_some_iff specs ws
  rw [h] at this
  simp [PDescribe, ← this]

/-- every non-empty string is accepted unchanged -/
theorem str_accepts (f : SField) (v : Bytes) (h : v ≠ []) : loadStr f v = some v := by
  simp [loadStr, h]

/-- **Integers written as numbers load exactly** (int or float64 representation), for every field kind, whenever the
    field's type can hold them: no truncation, no wrap, and they are accepted (validation permitting). -/
theorem num_integer_exact (k : NKind) (n : Int) (hs : k = .u64 ∨ k = .u8 → 0 ≤ n) (h8 : k = .u8 → n ≤ 255) :
    decodeNum k (n * 1000) = some (if k = .f64 then n * 1000 else n) := by
  have ht : Int.tdiv (n * 1000) 1000 = n := Int.mul_tdiv_cancel n (by decide)
  cases k with
  | f64 => simp [decodeNum]
  | i64 => simp [decodeNum, ht]
  | u64 =>
    have := hs (Or.inl rfl)
    have h0 : ¬ (n * 1000 < 0) := by omega
    simp [decodeNum, ht, h0]
  | u8 =>
    have := hs (Or.inr rfl)
    have := h8 rfl
    have h0 : ¬ (n * 1000 < 0) := by omega
    have hm : n % 256 = n := Int.emod_eq_of_lt (by omega) (by omega)
    simp [decodeNum, ht, h0, hm]

/-- the model satisfies the predicate on valid input and on integers generally … -/
theorem num_property_int (f : NField) (n : Int) (hf : f.kind ≠ .f64) (h8 : f.kind = .u8 → n ≤ 255) :
    PNum f (n * 1000) (loadNum f (n * 1000)) = true := by
  have hmod : n * 1000 % 1000 = 0 := Int.mul_emod_left n 1000
  have hdiv : n * 1000 / 1000 = n := Int.mul_ediv_cancel n (by decide)
  have ht : Int.tdiv (n * 1000) 1000 = n := Int.mul_tdiv_cancel n (by decide)
  unfold loadNum PNum numValid numWanted decodeNum
  cases hk : f.kind with
  | f64 => exact absurd hk hf
  | i64 =>
    simp only [ht, hmod, hdiv]
    cases hm : f.minv with
    | none => simp
    | some m => by_cases hlt : n < m
                · have : ¬ (m ≤ n) := by omega
                  simp [hlt, this]
                · simp [hlt]
  | u64 =>
    by_cases h0 : n * 1000 < 0
    · have : ¬ (0 ≤ n * 1000) := by omega
      simp [h0, this]
    · simp only [h0, if_false, ht, hmod, hdiv]
      have h0' : 0 ≤ n * 1000 := by omega
      cases hm : f.minv with
      | none => simp
      | some m => by_cases hlt : n < m
                  · have : ¬ (m ≤ n) := by omega
                    simp [hlt, this]
                  · simp [hlt]
  | u8 =>
    have h255 := h8 hk
    by_cases h0 : n * 1000 < 0
    · have : ¬ (0 ≤ n * 1000) := by omega
      simp [h0, this]
    · have hn : 0 ≤ n := by omega
      have hm8 : n % 256 = n := Int.emod_eq_of_lt hn (by omega)
      simp only [h0, if_false, ht, hmod, hdiv, hm8]
      cases hm : f.minv with
      | none => simp [h255]
      | some m => by_cases hlt : n < m
                  · have : ¬ (m ≤ n) := by omega
                    simp [hlt, this]
                  · simp [hlt, h255]

/-- … and the two KNOWN points where it does not (findings C20-fraction-truncated, C20-domain-id-wrap): 2.7 loads as 2,
    domain id 257 loads as 1 and 300 as 44 -/
theorem fraction_point_and_id_wrap_point :
    loadNum ⟨.i64, some 1, 1⟩ 2700 = some 2 ∧ PNum ⟨.i64, some 1, 1⟩ 2700 (loadNum ⟨.i64, some 1, 1⟩ 2700) = false ∧
    loadNum ⟨.u8, none, 1⟩ 257000 = some 1 ∧ loadNum ⟨.u8, none, 1⟩ 300000 = some 44 ∧
    PNum ⟨.u8, none, 1⟩ 257000 (loadNum ⟨.u8, none, 1⟩ 257000) = false ∧
    loadNum ⟨.i64, none, 1⟩ (-2700) = some (-2) ∧ loadNum ⟨.u64, none, 1⟩ (-500) = none ∧
    loadNum ⟨.f64, none, 1⟩ 2500 = some 2500 := by decide

end Property
end Sygma.C20
