/-
  C08 — threshold signing: the repository-logic part (DESIGN.md 5.8 (i)–(iv)). PARTIAL BY NATURE.

  FULL STATEMENT (not provable about this code base): any threshold+1 key holders completing a session obtain a
  signature over exactly the requested digest that verifies under the group key; ECDSA: only the coordinator's
  process releases it; after keygen all hold shares of one key; after a refresh with changed committee/threshold the
  key is unchanged and the new committee can sign.

  WHAT IS PROVED HERE (for all inputs of the model Model/C08.lean, tied to the real code by Drv/C08.lean on every run):
   * party mapping: `partiesFromPeers` returns the committee itself, ascending by key, Index = position; every relayer
     computes the SAME party list from any ordering of the same committee (keys injective);
   * resharing order `sortParties`: if the old subset lies inside the new committee (both duplicate-free) the result
     has no nil entry, never indexes out of range, is exactly the new committee, Index = position, and the old
     parties keep indexes 0..|old|-1 in their own order (`sortParties_spec` + corollaries); the excluded point
     (old ⊄ new) panics — stated, and replayed on the real code by a corpus line;
   * resharing start parameters: `validate_iff` characterises acceptance order-free; an honest coordinator's
     parameters are accepted by every holder of the same key share whatever the order of its stored peers; accepted
     parameters of a key holder satisfy the precondition of `sortParties`;
   * release rule: the ECDSA signature leaves exactly the processes whose coordinator flag is set; readiness is
     "exactly threshold+1 ready key holders".
  WHAT IS NOT PROVED HERE: everything cryptographic. The MPC protocols (threshlib GG20, multi-party-sig FROST) are
  third-party code: Props/C08Algebra.lean proves the Shamir/Lagrange/Schnorr relations over an abstract field
  (about the libraries' mathematics, not their code); thorough-tier runs of the real protocols over the fixture
  shares check the relations on actual outputs — labelled tests, not proofs. That the tweak reaches the share
  (iv) is checked against btcec's independent arithmetic on every run (op `tweak`), not modelled in Lean.
-/
import SygmaModel.Model.C08
namespace Sygma.C08
open List

section Helpers

theorem reindexFrom_map_id (k : Nat) (ps : List Peer) : (reindexFrom k ps).map (·.id) = ps := by
  induction ps generalizing k with
  | nil => rfl
  | cons p ps ih => simp [reindexFrom, ih]

theorem reindexFrom_length (k : Nat) (ps : List Peer) : (reindexFrom k ps).length = ps.length := by
  induction ps generalizing k with
  | nil => rfl
  | cons p ps ih => simp [reindexFrom, ih]

theorem reindexFrom_append (k : Nat) (a b : List Peer) :
    reindexFrom k (a ++ b) = reindexFrom k a ++ reindexFrom (k + a.length) b := by
  induction a generalizing k with
  | nil => simp [reindexFrom]
  | cons p ps ih => simp [reindexFrom, ih, Nat.add_assoc, Nat.add_comm 1]

theorem reindexFrom_getElem (k : Nat) (ps : List Peer) (i : Nat) (h : i < (reindexFrom k ps).length) :
    (reindexFrom k ps)[i] = ⟨ps[i]'(by simpa [reindexFrom_length] using h), k + i⟩ := by
  induction ps generalizing k i with
  | nil => simp [reindexFrom] at h
  | cons p ps ih =>
    cases i with
    | zero => simp [reindexFrom]
    | succ i =>
      simp only [reindexFrom, List.getElem_cons_succ]
      rw [ih]; simp; omega

theorem keyLE_trans (a b c : Peer) : keyLE a b → keyLE b c → keyLE a c := by
  simp only [keyLE, decide_eq_true_eq]; omega

theorem keyLE_total (a b : Peer) : (keyLE a b || keyLE b a) = true := by
  simp only [keyLE, Bool.or_eq_true, decide_eq_true_eq]; omega

theorem sortPeers_perm (ps : List Peer) : sortPeers ps ~ ps := List.mergeSort_perm ps keyLE
theorem sortPeers_sorted (ps : List Peer) : (sortPeers ps).Pairwise (fun a b => keyLE a b) :=
  List.pairwise_mergeSort keyLE_trans keyLE_total ps

/-- keys are injective on the list -/
def KeyInj (ps : List Peer) : Prop := ∀ a ∈ ps, ∀ b ∈ ps, pkey a = pkey b → a = b

theorem sortPeers_agree (ps ps' : List Peer) (hinj : KeyInj ps) (hp : ps ~ ps') : sortPeers ps = sortPeers ps' := by
  apply List.Perm.eq_of_pairwise (le := fun a b => keyLE a b) _ (sortPeers_sorted ps) (sortPeers_sorted ps')
  · exact (sortPeers_perm ps).trans (hp.trans (sortPeers_perm ps').symm)
  · intro a b ha hb hab hba
    have ha' : a ∈ ps := (sortPeers_perm ps).mem_iff.1 ha
    have hb' : b ∈ ps := hp.mem_iff.2 ((sortPeers_perm ps').mem_iff.1 hb)
    simp only [keyLE, decide_eq_true_eq] at hab hba
    exact hinj a ha' b hb' (by omega)

theorem filter_length_split (l : List Peer) (p : Peer → Bool) :
    (l.filter p).length + (l.filter (fun x => !p x)).length = l.length := by
  induction l with
  | nil => rfl
  | cons a l ih => cases h : p a <;> simp [h] <;> omega

/-- a duplicate-free list inside another duplicate-free list: the members of the big one that are in the small one
    are as many as the small one -/
theorem filter_mem_length (P O : List Peer) (hP : P.Nodup) (hO : O.Nodup) (hsub : ∀ a ∈ O, a ∈ P) :
    (P.filter (O.contains ·)).length = O.length := by
  have h1 : (P.filter (O.contains ·)).Nodup := hP.filter _
  have : (P.filter (O.contains ·)) ~ O := by
    rw [List.perm_ext_iff_of_nodup h1 hO]
    intro a; simp only [List.mem_filter, List.contains_iff_mem]
    exact ⟨fun h => h.2, fun h => ⟨hsub a h, h⟩⟩
  exact this.length_eq

theorem writeAt_append (pre : Slots) (k : Nat) (p : Party) (hk : 0 < k) :
    writeAt (pre ++ List.replicate k none) pre.length p = some ((pre ++ [some p]) ++ List.replicate (k - 1) none) := by
  unfold writeAt
  have : pre.length < (pre ++ List.replicate k none).length := by simp; omega
  rw [if_pos this]
  cases k with
  | zero => omega
  | succ k => simp [List.replicate_succ]

/-- the loop: with `idx` slots filled and `k` free ones, `m ≤ k` newcomers land in order right after the filled part -/
theorem fill_spec (O : List Peer) (ps : List Peer) (j : Nat) (pre : Slots) (k : Nat)
    (hm : (ps.filter (fun p => !O.contains p)).length ≤ k) :
    fill O (reindexFrom j ps) pre.length (pre ++ List.replicate k none) =
      some (pre ++ (reindexFrom pre.length (ps.filter (fun p => !O.contains p))).map some ++
        List.replicate (k - (ps.filter (fun p => !O.contains p)).length) none) := by
  induction ps generalizing j pre k with
  | nil => simp [reindexFrom, fill]
  | cons p ps ih =>
    simp only [reindexFrom, fill]
    cases h : O.contains p with
    | true =>
      simp only [if_true, List.filter_cons, h, Bool.not_true] at hm ⊢
      exact ih (j + 1) pre k (by simpa using hm)
    | false =>
      simp only [List.filter_cons, h, Bool.not_false, if_true, List.length_cons] at hm ⊢
      simp only [Bool.false_eq_true, if_false]
      rw [writeAt_append pre k _ (by omega)]
      simp only
      have := ih (j + 1) (pre ++ [some ⟨p, pre.length⟩]) (k - 1) (by omega)
      simp only [List.length_append, List.length_cons, List.length_nil] at this
      rw [this]
      simp [reindexFrom, Nat.sub_sub, Nat.add_comm 1]

theorem lexLE_total (a b : Peer) : (lexLE a b || lexLE b a) = true := by
  induction a generalizing b with
  | nil => simp [lexLE]
  | cons x xs ih =>
    cases b with
    | nil => simp [lexLE]
    | cons y ys =>
      simp only [lexLE]
      by_cases h1 : x < y
      · simp [h1]
      · by_cases h2 : y < x
        · simp [h2]
        · simp only [h1, h2, if_false]; exact ih ys

theorem lexLE_antisymm (a b : Peer) : lexLE a b = true → lexLE b a = true → a = b := by
  induction a generalizing b with
  | nil => cases b <;> simp [lexLE]
  | cons x xs ih =>
    cases b with
    | nil => simp [lexLE]
    | cons y ys =>
      simp only [lexLE]
      by_cases h1 : x < y
      · have : ¬ y < x := by simp only [UInt8.lt_iff_toNat_lt] at *; omega
        simp [h1, this]
      · by_cases h2 : y < x
        · simp [h1, h2]
        · simp only [h1, h2, if_false]
          intro ha hb
          have : x = y := by
            apply UInt8.toNat_inj.1
            simp only [UInt8.lt_iff_toNat_lt] at *; omega
          rw [this, ih ys ha hb]

theorem lexLE_trans (a b c : Peer) : lexLE a b = true → lexLE b c = true → lexLE a c = true := by
  induction a generalizing b c with
  | nil => simp [lexLE]
  | cons x xs ih =>
    cases b with
    | nil => simp [lexLE]
    | cons y ys =>
      cases c with
      | nil => simp [lexLE]
      | cons z zs =>
        simp only [lexLE]
        simp only [UInt8.lt_iff_toNat_lt]
        intro h1 h2
        split at h1
        · split at h2
          · rw [if_pos (by omega)]
          · split at h2
            · cases h2
            · rw [if_pos (by omega)]
        · split at h1
          · cases h1
          · split at h2
            · rw [if_pos (by omega)]
            · split at h2
              · cases h2
              · rw [if_neg (by omega), if_neg (by omega)]
                exact ih ys zs h1 h2

theorem lexSort_perm (l : List Peer) : lexSort l ~ l := List.mergeSort_perm l lexLE
theorem lexSort_sorted (l : List Peer) : (lexSort l).Pairwise (fun a b => lexLE a b) :=
  List.pairwise_mergeSort lexLE_trans lexLE_total l

/-- comparing sorted lists is comparing multisets -/
theorem lexSort_eq_filter_iff (x kp store : List Peer) :
    lexSort x = peersIntersection (lexSort kp) store ↔ x ~ peersIntersection kp store := by
  constructor
  · intro h
    exact (lexSort_perm x).symm.trans (h ▸ (lexSort_perm kp).filter _)
  · intro h
    apply List.Perm.eq_of_pairwise (le := fun a b => lexLE a b) _ (lexSort_sorted x)
      ((lexSort_sorted kp).filter _)
    · exact (lexSort_perm x).trans (h.trans ((lexSort_perm kp).filter _).symm)
    · intro a b _ _ hab hba; exact lexLE_antisymm a b hab hba


theorem sortPeers_nodup (ps : List Peer) (h : ps.Nodup) : (sortPeers ps).Nodup := h.perm (sortPeers_perm ps).symm

theorem initSlots_of_le (n : Nat) (old : List Party) (h : old.length ≤ n) :
    initSlots n old = old.map some ++ List.replicate (n - old.length) none := by
  simp [initSlots, List.take_of_length_le h]

end Helpers

section Property

/-! ### (ii) party mapping -/

/-- the parties are the committee itself … -/
theorem partiesFromPeers_ids_perm (ps : List Peer) : (partiesFromPeers ps).map (·.id) ~ ps := by
  rw [partiesFromPeers, reindexFrom_map_id]; exact sortPeers_perm ps

/-- … ascending by key … -/
theorem partiesFromPeers_sorted (ps : List Peer) :
    ((partiesFromPeers ps).map (·.id)).Pairwise (fun a b => pkey a ≤ pkey b) := by
  rw [partiesFromPeers, reindexFrom_map_id]
  exact (sortPeers_sorted ps).imp (by intro a b h; simpa [keyLE] using h)

/-- … and every party's `Index` is its position -/
theorem partiesFromPeers_index (ps : List Peer) (i : Nat) (h : i < (partiesFromPeers ps).length) :
    (partiesFromPeers ps)[i].index = i := by
  simp [partiesFromPeers, reindexFrom_getElem]

/-- `PeersFromParties ∘ PartiesFromPeers` returns the committee in key order -/
theorem peersFromParties_partiesFromPeers (ps : List Peer) :
    peersFromParties (partiesFromPeers ps) = sortPeers ps := by
  simp [peersFromParties, partiesFromPeers, reindexFrom_map_id]

/-- **agreement.** Two relayers holding the same committee in different orders build the same party list, with the
    same indexes — provided the keys are injective on the committee -/
theorem partiesFromPeers_agree (ps ps' : List Peer) (hinj : KeyInj ps) (hp : ps ~ ps') :
    partiesFromPeers ps = partiesFromPeers ps' := by
  simp [partiesFromPeers, sortPeers_agree ps ps' hinj hp]

/-- the hypothesis `KeyInj` holds for textual ids of one length (all "Qm…" ids have 46 characters) -/
theorem keyInj_of_same_length (ps : List Peer) (n : Nat) (h : ∀ a ∈ ps, a.length = n) : KeyInj ps := by
  intro a ha b hb hk
  have hl : a.length = b.length := by rw [h a ha, h b hb]
  clear ha hb h
  induction a generalizing b with
  | nil => cases b with
    | nil => rfl
    | cons _ _ => simp at hl
  | cons x xs ih =>
    cases b with
    | nil => simp at hl
    | cons y ys =>
      simp only [List.length_cons, Nat.add_right_cancel_iff] at hl
      simp only [pkey, beToNat_cons] at hk
      have h1 := beToNat_lt xs
      have h2 := beToNat_lt ys
      rw [hl] at h1 hk
      have hx : x.toNat = y.toNat := by
        rcases Nat.lt_trichotomy x.toNat y.toNat with hlt | heq | hgt
        · exfalso
          have := Nat.mul_le_mul_right (256 ^ ys.length) (show x.toNat + 1 ≤ y.toNat by omega)
          rw [Nat.add_mul] at this; omega
        · exact heq
        · exfalso
          have := Nat.mul_le_mul_right (256 ^ ys.length) (show y.toNat + 1 ≤ x.toNat by omega)
          rw [Nat.add_mul] at this; omega
      have hxy : x = y := UInt8.toNat_inj.1 hx
      subst hxy
      have : beToNat xs = beToNat ys := by omega
      rw [ih ys (by simpa [pkey] using this) hl]

/-! ### (iii) resharing: party order -/

/-- **sortParties.** With a duplicate-free old subset inside a duplicate-free new committee the Go loop neither
    panics nor leaves a nil entry, and returns: the old parties in key order with indexes 0..|old|-1, then the
    newcomers in key order with the following indexes -/
theorem sortParties_spec (nw od : List Peer) (hnw : nw.Nodup) (hod : od.Nodup) (hsub : ∀ a ∈ od, a ∈ nw) :
    sortParties (partiesFromPeers nw) (partiesFromPeers od) = some ((sortPartiesSpec nw od).map some) := by
  have hO : (sortPeers od).Nodup := sortPeers_nodup od hod
  have hP : (sortPeers nw).Nodup := sortPeers_nodup nw hnw
  have hsub' : ∀ a ∈ sortPeers od, a ∈ sortPeers nw := fun a ha =>
    (sortPeers_perm nw).mem_iff.2 (hsub a ((sortPeers_perm od).mem_iff.1 ha))
  have hcnt := filter_mem_length (sortPeers nw) (sortPeers od) hP hO hsub'
  have hsplit := filter_length_split (sortPeers nw) ((sortPeers od).contains ·)
  have hlenO : (sortPeers od).length = od.length := (sortPeers_perm od).length_eq
  have hlenP : (sortPeers nw).length = nw.length := (sortPeers_perm nw).length_eq
  have hcontains : (fun p => !(sortPeers od).contains p) = (fun p => !od.contains p) := by
    funext p
    have : (sortPeers od).contains p = od.contains p := by
      rw [Bool.eq_iff_iff]; simp only [List.contains_iff_mem]; exact (sortPeers_perm od).mem_iff
    rw [this]
  unfold sortParties
  rw [initSlots_of_le _ _ (by simp only [partiesFromPeers, reindexFrom_length]; omega)]
  simp only [partiesFromPeers, reindexFrom_map_id, reindexFrom_length]
  have := fill_spec (sortPeers od) (sortPeers nw) 0 ((reindexFrom 0 (sortPeers od)).map some)
    (nw.length - od.length) (by omega)
  simp only [List.length_map, reindexFrom_length] at this
  simp only [hlenP, hlenO] at this hcnt hsplit ⊢
  rw [this]
  have hz : nw.length - od.length - (List.filter (fun p => !(sortPeers od).contains p) (sortPeers nw)).length = 0 := by
    omega
  rw [hz, hcontains]
  simp [sortPartiesSpec, reindexFrom_append, hlenO]

/-- the result is exactly the new committee -/
theorem sortPartiesSpec_ids_perm (nw od : List Peer) (hnw : nw.Nodup) (hod : od.Nodup) (hsub : ∀ a ∈ od, a ∈ nw) :
    (sortPartiesSpec nw od).map (·.id) ~ nw := by
  rw [sortPartiesSpec, reindexFrom_map_id]
  have h1 : (sortPeers od ++ (sortPeers nw).filter (fun p => !od.contains p)).Nodup := by
    rw [List.nodup_append]
    refine ⟨sortPeers_nodup od hod, (sortPeers_nodup nw hnw).filter _, ?_⟩
    intro a ha b hb hab
    subst hab
    have h1 : a ∈ od := (sortPeers_perm od).mem_iff.1 ha
    simp only [List.mem_filter, Bool.not_eq_eq_eq_not, Bool.not_true, List.contains_eq_mem,
      decide_eq_false_iff_not] at hb
    exact hb.2 h1
  rw [List.perm_ext_iff_of_nodup h1 hnw]
  intro a
  simp only [List.mem_append, List.mem_filter, Bool.not_eq_eq_eq_not, Bool.not_true, List.contains_eq_mem,
    decide_eq_false_iff_not, (sortPeers_perm od).mem_iff, (sortPeers_perm nw).mem_iff]
  constructor
  · rintro (h | h)
    · exact hsub a h
    · exact h.1
  · intro h
    by_cases ho : a ∈ od
    · exact Or.inl ho
    · exact Or.inr ⟨h, ho⟩

/-- every party's `Index` is its position in the result -/
theorem sortPartiesSpec_index (nw od : List Peer) (i : Nat) (h : i < (sortPartiesSpec nw od).length) :
    (sortPartiesSpec nw od)[i].index = i := by
  simp [sortPartiesSpec, reindexFrom_getElem]

/-- the old parties come first, exactly as `PartiesFromPeers(oldSubset)` numbered them -/
theorem sortPartiesSpec_old_first (nw od : List Peer) :
    (sortPartiesSpec nw od).take od.length = partiesFromPeers od := by
  have hlenO : (sortPeers od).length = od.length := (sortPeers_perm od).length_eq
  simp only [sortPartiesSpec, reindexFrom_append, partiesFromPeers]
  rw [List.take_append_of_le_length (by simp [reindexFrom_length, hlenO])]
  rw [List.take_of_length_le (by simp [reindexFrom_length, hlenO])]

/-- the excluded point, stated: an old subset that is not inside the new committee makes the loop index out of
    range (run-time panic) — new = [b], old = [a], a ≠ b (a corpus line replays it on the real code) -/
theorem sortParties_outside_panics (a b : Peer) (h : a ≠ b) :
    sortParties (partiesFromPeers [b]) (partiesFromPeers [a]) = none := by
  simp [sortParties, partiesFromPeers, sortPeers, reindexFrom, fill, initSlots, writeAt, Ne.symm h]

/-! ### (iii) resharing: start parameters -/

/-- the coordinator announces its key's threshold and exactly those peers of its key that are in the peer store -/
theorem startParams_spec (kp store : List Peer) (thr : Int) :
    (startParams kp thr store).oldThreshold = thr ∧
    ∀ p, p ∈ (startParams kp thr store).oldSubset ↔ (p ∈ kp ∧ p ∈ store) := by
  simp [startParams, peersIntersection]

/-- what a key holder accepts lies inside its peer store: the precondition `old ⊆ new` of `sortParties_spec`
    (the new committee being the peer store) -/
theorem startParams_subset_store (kp store : List Peer) (thr : Int) :
    ∀ p ∈ (startParams kp thr store).oldSubset, p ∈ store := fun p hp =>
  ((startParams_spec kp store thr).2 p).1 hp |>.2

/-- **validation, order-free.** Start parameters are accepted iff the old threshold is positive, at least that many old
    parties are named, and — for a relayer that holds a key share — the named parties are exactly (as a multiset) its
    key's peers that are in its peer store. A relayer without a key share accepts any subset (see
    `sortParties_outside_panics` for what a subset outside the peer store then does). -/
theorem validate_iff (kp store : List Peer) (sp : StartParams) :
    validate kp store sp = true ↔
      (0 < sp.oldThreshold ∧ sp.oldThreshold ≤ (sp.oldSubset.length : Int) ∧
        (kp = [] ∨ sp.oldSubset ~ peersIntersection kp store)) := by
  unfold validate
  have hL := lexSort_eq_filter_iff sp.oldSubset kp store
  by_cases h1 : sp.oldThreshold ≤ 0
  · simp [h1]; omega
  · by_cases h2 : (sp.oldSubset.length : Int) < sp.oldThreshold
    · simp [h1, h2]; omega
    · simp only [h1, h2, if_false]
      by_cases h3 : kp = []
      · simp [h3]; omega
      · have hk : kp.length ≠ 0 := by simpa using h3
        by_cases h4 : sp.oldSubset ~ peersIntersection kp store
        · have := hL.2 h4
          simp only [hk, this, ne_eq, not_true_eq_false, and_false, if_false, true_iff]
          exact ⟨by omega, by omega, Or.inr h4⟩
        · have : lexSort sp.oldSubset ≠ peersIntersection (lexSort kp) store := fun h => h4 (hL.1 h)
          simp only [hk, this, ne_eq, not_false_eq_true, and_self, if_true, Bool.false_eq_true, false_iff]
          rintro ⟨_, _, h | h⟩
          · exact h3 h
          · exact h4 h

/-- what an honest coordinator sends is accepted by every holder of the same key share, whatever the order in which
    that holder stored the peers -/
theorem honest_params_accepted (kp kp' store : List Peer) (thr : Int) (hp : kp ~ kp') (h0 : 0 < thr)
    (hn : thr ≤ ((peersIntersection kp store).length : Int)) :
    validate kp' store (startParams kp thr store) = true := by
  rw [validate_iff]
  exact ⟨h0, hn, Or.inr (hp.filter _)⟩

/-- an accepted subset of a key holder lies inside its peer store: the precondition of `sortParties_spec` -/
theorem accepted_subset_in_store (kp store : List Peer) (sp : StartParams) (hk : kp ≠ [])
    (h : validate kp store sp = true) : ∀ p ∈ sp.oldSubset, p ∈ store := by
  rcases ((validate_iff kp store sp).1 h).2.2 with h | h
  · exact absurd h hk
  · intro p hp
    have := h.mem_iff.1 hp
    simp only [peersIntersection, List.mem_filter, List.contains_iff_mem] at this
    exact this.2

/-- **the hypotheses of `sortParties_spec`, derived.** For a relayer that holds a key share (duplicate-free committee
    in the share, duplicate-free peer store), ACCEPTED start parameters make the resharing order well defined: no
    panic, no nil entry, exactly `sortPartiesSpec`. (A relayer WITHOUT a key share accepts any subset — `validate_iff`
    with `kp = []` — and for it the hypotheses are not derivable: `sortParties_outside_panics`.) -/
theorem accepted_params_sortParties (kp store : List Peer) (sp : StartParams) (hk : kp ≠ []) (hkp : kp.Nodup)
    (hst : store.Nodup) (h : validate kp store sp = true) :
    sortParties (partiesFromPeers store) (partiesFromPeers sp.oldSubset) =
      some ((sortPartiesSpec store sp.oldSubset).map some) := by
  have hperm : sp.oldSubset ~ peersIntersection kp store := by
    rcases ((validate_iff kp store sp).1 h).2.2 with h' | h'
    · exact absurd h' hk
    · exact h'
  have hnd : sp.oldSubset.Nodup := hperm.symm.nodup_iff.1 (hkp.filter _)
  exact sortParties_spec store sp.oldSubset hst hnd (accepted_subset_in_store kp store sp hk h)

/-- the hypotheses of `honest_params_accepted` are satisfiable -/
example : validate [[2], [1]] [[1], [2], [3]] (startParams [[1], [2]] 1 [[1], [2], [3]]) = true :=
  honest_params_accepted [[1], [2]] [[2], [1]] [[1], [2], [3]] 1 (by decide) (by decide) (by decide)

/-! ### (i) release rule and readiness -/

/-- ECDSA: the signature is released iff the process is the coordinator's (definitional: unfolds `releaseECDSA`; the tie
    to the code is op `release` / `release2` and Oblig/C08) -/
theorem release_iff_coordinator (c : Bool) : releaseECDSA c = .sig ↔ c = true := by
  cases c <;> simp [releaseECDSA]

/-- over a whole session: as many signatures leave as there are coordinator flags (one, by C07) -/
theorem released_count (flags : List Bool) :
    (flags.filter (fun c => releaseECDSA c == .sig)).length = (flags.filter (fun c => c)).length := by
  have : (fun c => releaseECDSA c == .sig) = (fun c : Bool => c) := by
    funext c; cases c <;> rfl
  rw [this]

/-- a session starts exactly when threshold+1 ready peers hold a share of the key (definitional: unfolds `ready`) -/
theorem ready_iff (kp rdy : List Peer) (thr : Int) :
    ready kp thr rdy = true ↔ ((rdy.filter (kp.contains ·)).length : Int) = thr + 1 := by
  simp [ready, readyParticipants]

/-- the coordinator picks exactly threshold+1 signers whenever that many are ready -/
theorem subsetSize_eq (kp rdy : List Peer) (thr : Int) (h0 : 0 ≤ thr)
    (h : thr + 1 ≤ ((readyParticipants kp rdy).length : Int)) : (subsetSize kp thr rdy : Int) = thr + 1 := by
  simp only [subsetSize]
  rw [if_pos ⟨by omega, h⟩]
  omega

/-! ### (i') release rule on an object that is run again; what the resharing tells the library; per-input sessions -/

/-- **re-runs.** For every sequence of runs of one Signing object, the signature is released iff the LATEST run was
    given the coordinator role — an earlier role never sticks -/
theorem releaseAfterRuns_last (roles : List Bool) :
    releaseAfterRuns roles = roles.getLast?.map releaseECDSA := by
  cases roles with
  | nil => rfl
  | cons c cs =>
    simp only [releaseAfterRuns, afterRuns, Option.map_some]
    induction cs generalizing c with
    | nil => rfl
    | cons d ds ih =>
      simp only [List.foldl_cons, SigningObj.run]
      rw [ih d]; simp [List.getLast?_cons_cons]

/-- in particular: coordinator first, then not ⇒ nothing but `nil` leaves this process -/
theorem rerun_role_moved_away (pre : List Bool) : releaseAfterRuns (pre ++ [false]) = some .nil := by
  rw [releaseAfterRuns_last]; simp [releaseECDSA]

/-- the library is told the OLD threshold of the start parameters for the old sharing and the process's own NEW
    threshold for the new one — whatever their order (raising, lowering, equal). Definitional (`rfl`): it documents the
    model; that the CODE passes these arguments is Oblig/C08 `gen_reshare_roles` and op `reshareparams` -/
theorem reshareParams_thresholds (kp store : List Peer) (thr nthr : Int) :
    (reshareParams (startParams kp thr store) nthr store).oldThreshold = thr ∧
    (reshareParams (startParams kp thr store) nthr store).newThreshold = nthr ∧
    (reshareParams (startParams kp thr store) nthr store).newCount = store.length := ⟨rfl, rfl, rfl⟩

section Hex
private theorem hexDigit_inj : ∀ a, a < 16 → ∀ b, b < 16 → hexDigit a = hexDigit b → a = b := by decide

theorem toHex_injective (a b : Bytes) (h : toHex a = toHex b) : a = b := by
  have h' : (a.flatMap fun x => [hexDigit (x.toNat / 16), hexDigit (x.toNat % 16)]) =
      (b.flatMap fun x => [hexDigit (x.toNat / 16), hexDigit (x.toNat % 16)]) := by
    simpa [toHex] using congrArg String.toList h
  clear h
  induction a generalizing b with
  | nil => cases b with
    | nil => rfl
    | cons y ys => simp at h'
  | cons x xs ih =>
    cases b with
    | nil => simp at h'
    | cons y ys =>
      simp only [List.flatMap_cons, List.cons_append, List.nil_append, List.cons.injEq] at h'
      obtain ⟨h1, h2, h3⟩ := h'
      have hx := x.toNat_lt
      have hy := y.toNat_lt
      have e1 := hexDigit_inj _ (by omega) _ (by omega) h1
      have e2 := hexDigit_inj _ (Nat.mod_lt _ (by decide)) _ (Nat.mod_lt _ (by decide)) h2
      have : x = y := UInt8.toNat_inj.1 (by omega)
      rw [this, ih ys h3]
end Hex

/-- **one session per input.** Each signing process runs under the hex of the digest it signs … -/
theorem btcSignings_own (digests : List Bytes) : ∀ s ∈ btcSignings digests, s.sessionId = toHex s.msg := by
  intro s hs; simp only [btcSignings, List.mem_map] at hs; obtain ⟨d, _, rfl⟩ := hs; rfl

/-- … there are as many as inputs, signing exactly the inputs' digests … -/
theorem btcSignings_msgs (digests : List Bytes) : (btcSignings digests).map (·.msg) = digests := by
  induction digests with
  | nil => rfl
  | cons d ds ih => simpa [btcSignings] using ih

/-- … and pairwise different digests (inputs of one transaction commit to their index) give pairwise different
    session ids: no two signings of a transaction can share a session -/
theorem btcSignings_ids_nodup (digests : List Bytes) (h : digests.Nodup) :
    ((btcSignings digests).map (·.sessionId)).Nodup := by
  induction digests with
  | nil => simp [btcSignings]
  | cons d ds ih =>
    rw [List.nodup_cons] at h
    simp only [btcSignings, List.map_cons, List.map_map, List.nodup_cons, List.mem_map, Function.comp_apply,
      not_exists, not_and] at ih ⊢
    refine ⟨fun x hx heq => ?_, ih h.2⟩
    exact h.1 (toHex_injective _ _ heq ▸ hx)

example : releaseAfterRuns [true, false] = some .nil ∧ releaseAfterRuns [false, true] = some .sig ∧
    releaseAfterRuns [] = none := by decide

example : ((btcSignings [[1, 2], [1, 3]]).map (·.sessionId)) = ["0102", "0103"] := by decide

/-! ### a Signing object that is run again with ANOTHER subset; what is stored at the end -/

/-- after `PopulatePartyStore(parties)` every party of the list is found with ITS index, whatever the store held
    before (an earlier run's entry for the same peer does not survive) -/
theorem populate_lookup (st : PartyStore) (parties : List Party) (hnd : (parties.map (·.id)).Nodup)
    (p : Party) (hp : p ∈ parties) : (populate st parties).lookup p.id = some p.index := by
  simp only [populate, PartyStore.lookup]
  induction parties with
  | nil => cases hp
  | cons q qs ih =>
    simp only [List.map_cons, List.nodup_cons, List.mem_map, not_exists, not_and] at hnd
    simp only [List.map_cons, List.cons_append, List.find?_cons]
    by_cases hq : q.id = p.id
    · have : q = p := by
        rcases List.mem_cons.1 hp with h | h
        · exact h.symm
        · exact absurd hq.symm (hnd.1 p h)
      subst this; simp
    · have hp' : p ∈ qs := by
        rcases List.mem_cons.1 hp with h | h
        · exact absurd (h ▸ rfl) hq
        · exact h
      have : (q.id == p.id) = false := by simpa using hq
      simp only [this]
      exact ih hnd.2 hp'

/-- **retry with another subset.** After `Run` with subset `s` (duplicate-free, containing this relayer) the object
    holds, for every member of `s`, exactly the index that member has in `PartiesFromPeers(s)` — the CURRENT subset —
    whatever subsets earlier runs of the same object were given -/
theorem signingRunStore_current (self : Peer) (st : PartyStore) (subset : List Peer) (hnd : subset.Nodup)
    (hself : self ∈ subset) (p : Party) (hp : p ∈ partiesFromPeers subset) :
    (signingRunStore self st subset).lookup p.id = some p.index := by
  have hc : subset.contains self = true := by simpa using hself
  simp only [signingRunStore, hc, if_true]
  apply populate_lookup st _ _ p hp
  rw [partiesFromPeers, reindexFrom_map_id]
  exact sortPeers_nodup subset hnd

/-- the refreshed / generated share is stored with the NEW committee (the peer store) and the new threshold, whatever
    committee the old share listed — also none, for a relayer that joins. Definitional (`rfl`); tied by op `endstore`
    and the real refresh runs -/
theorem storedAtEnd_committee (old old' store : List Peer) (nthr : Int) :
    storedAtEnd old nthr store = (nthr, store) ∧ storedAtEnd old nthr store = storedAtEnd old' nthr store :=
  ⟨rfl, rfl⟩

/-! ### the session starts with threshold+1 DISTINCT key holders -/

private theorem initiateFrom_nodup (kp : List Peer) (thr : Int) (excl : List Peer) (ws acc r : List Peer)
    (hacc : acc.Nodup) (h : initiateFrom kp thr excl acc ws = some r) : r.Nodup ∧ ready kp thr r = true := by
  induction ws generalizing acc with
  | nil => simp [initiateFrom] at h
  | cons w ws ih =>
    simp only [initiateFrom] at h
    have hacc' : (if !excl.contains w && !acc.contains w then acc ++ [w] else acc).Nodup := by
      split
      · next hc =>
        simp only [Bool.and_eq_true, Bool.not_eq_eq_eq_not, Bool.not_true, List.contains_eq_mem,
          decide_eq_false_iff_not] at hc
        rw [List.nodup_append]
        exact ⟨hacc, by simp, by intro a ha b hb; simp at hb; subst hb; intro e; exact hc.2 (e ▸ ha)⟩
      · exact hacc
    generalize (if !excl.contains w && !acc.contains w then acc ++ [w] else acc) = acc' at h hacc'
    by_cases hr : ready kp thr acc' = true
    · rw [if_pos hr] at h; cases h; exact ⟨hacc', hr⟩
    · rw [if_neg hr] at h; exact ih _ hacc' h

/-- **no relayer is counted twice.** Whatever the order of the `ready` answers and however often a relayer repeats its
    answer (the initiate message is re-broadcast every period), the list the coordinator starts the session from has no
    repeats and contains exactly threshold+1 holders of the key: threshold+1 DISTINCT key holders sign -/
theorem initiate_distinct_holders (self : Peer) (kp : List Peer) (thr : Int) (excl answers r : List Peer)
    (h : initiate self kp thr excl answers = some r) :
    r.Nodup ∧ ((r.filter (kp.contains ·)).length : Int) = thr + 1 := by
  have := initiateFrom_nodup kp thr excl answers [self] r (by simp) h
  exact ⟨this.1, (ready_iff kp r thr).1 this.2⟩

example : initiate [0] [[0], [1], [2]] 2 [] [[1], [1], [2]] = some [[0], [1], [2]] ∧
    initiate [0] [[0], [1], [2]] 2 [] [[1], [1], [1]] = none := by decide

/-! ### Bitcoin: every input carries the signature made for it -/

/-- invariant of the collection loop: a slot is empty or holds the signature of ITS input -/
private theorem collectFrom_by_id (sigOf : Nat → Bytes)
    (arrivals : List (Option (Nat × Bytes))) (slots : List Bytes)
    (harr : ∀ id s, some (id, s) ∈ arrivals → s = sigOf id)
    (hinv : ∀ i (h : i < slots.length), slots[i] = [] ∨ slots[i] = sigOf i)
    (ws : List (List Bytes)) (hres : collectFrom slots arrivals = .sent ws) :
    ws = (List.range slots.length).map fun i => [sigOf i] := by
  induction arrivals generalizing slots with
  | nil => simp [collectFrom] at hres
  | cons a r ih =>
    cases a with
    | none =>
      exact ih slots (fun id s h => harr id s (List.mem_cons_of_mem _ h)) hinv hres
    | some p =>
      obtain ⟨id, s⟩ := p
      have hs : s = sigOf id := harr id s (List.mem_cons_self ..)
      simp only [collectFrom] at hres
      split at hres
      · next hid =>
        have hinv' : ∀ i (h : i < (slots.set id s).length), (slots.set id s)[i] = [] ∨ (slots.set id s)[i] = sigOf i := by
          intro i h
          simp only [List.length_set] at h
          by_cases e : id = i
          · subst e; right; simp [hs]
          · simp only [List.getElem_set, e, if_false]; exact hinv i h
        split at hres
        · next hf =>
          simp only [Collected.sent.injEq] at hres
          subst hres
          apply List.ext_getElem
          · simp [witnesses]
          · intro i h1 h2
            simp only [witnesses, List.getElem_map, List.getElem_range, List.cons.injEq, and_true]
            have hi : i < (slots.set id s).length := by simpa [witnesses] using h1
            rcases hinv' i hi with h | h
            · exfalso
              have := List.all_eq_true.1 hf _ (List.getElem_mem hi)
              simp [h] at this
            · exact h
        · have := ih (slots.set id s) (fun id' s' h => harr id' s' (List.mem_cons_of_mem _ h)) hinv' hres
          simpa using this
      · cases hres

/-- **collection by Id.** Let the signing session of input `i` produce the signature `sigOf i`. Whatever the
    ORDER in which the results arrive, however often a result is repeated, wherever `nil` results are interleaved:
    if the transaction is sent, input `i` carries exactly `[sigOf i]` — its own witness stack with its own signature -/
theorem collect_by_id (n : Nat) (sigOf : Nat → Bytes)
    (arrivals : List (Option (Nat × Bytes))) (harr : ∀ id s, some (id, s) ∈ arrivals → s = sigOf id)
    (ws : List (List Bytes)) (hres : collect n arrivals = .sent ws) :
    ws = (List.range n).map fun i => [sigOf i] := by
  have := collectFrom_by_id sigOf arrivals (List.replicate n []) harr
    (fun i h => Or.inl (by simp)) ws hres
  simpa using this

/-- nothing is sent before every input has its signature -/
theorem collect_waits (n : Nat) (arrivals : List (Option (Nat × Bytes))) (i : Nat) (hi : i < n)
    (hmiss : ∀ s, some (i, s) ∉ arrivals) : ∀ ws, collect n arrivals ≠ .sent ws := by
  intro ws
  have key : ∀ (arr : List (Option (Nat × Bytes))) (slots : List Bytes), (∀ s, some (i, s) ∉ arr) →
      (h : i < slots.length) → slots[i] = [] → collectFrom slots arr ≠ .sent ws := by
    intro arr
    induction arr with
    | nil => intro slots _ _ _; simp [collectFrom]
    | cons a r ih =>
      intro slots hm h he
      cases a with
      | none => exact ih slots (fun s hs => hm s (List.mem_cons_of_mem _ hs)) h he
      | some p =>
        obtain ⟨id, s⟩ := p
        have hne : id ≠ i := fun e => hm s (e ▸ List.mem_cons_self ..)
        simp only [collectFrom]
        split
        · have h' : i < (slots.set id s).length := by simpa using h
          have he' : (slots.set id s)[i] = [] := by simp [hne, he]
          split
          · next hf =>
            exfalso
            have := List.all_eq_true.1 hf _ (List.getElem_mem h')
            simp [he'] at this
          · exact ih _ (fun s' hs => hm s' (List.mem_cons_of_mem _ hs)) h' he'
        · simp
  exact key arrivals (List.replicate n []) hmiss (by simpa using hi) (by simp)

example : collect 3 [some (2, [3]), none, some (0, [1]), some (2, [3]), some (1, [2])] = .sent [[[1]], [[2]], [[3]]] := by
  decide

example : collect 2 [some (1, [2]), none] = .waiting := by decide

/-! ### non-vacuity -/

theorem sortPeers_of_sorted (l : List Peer) (h : l.Pairwise (fun a b => keyLE a b)) : sortPeers l = l :=
  List.mergeSort_of_pairwise h

/-- the hypotheses of `sortParties_spec` and `partiesFromPeers_agree` are satisfiable -/
example : ([[9], [3], [7]] : List Peer).Nodup ∧ ([[7], [3]] : List Peer).Nodup ∧
    ∀ a ∈ ([[7], [3]] : List Peer), a ∈ ([[9], [3], [7]] : List Peer) := by decide

example : KeyInj [[9], [3], [7]] := keyInj_of_same_length _ 1 (by decide)

/-- three peers given in a non-sorted order -/
example : partiesFromPeers [[9], [3], [7]] = [⟨[3], 0⟩, ⟨[7], 1⟩, ⟨[9], 2⟩] := by
  rw [partiesFromPeers_agree [[9], [3], [7]] [[3], [7], [9]] (keyInj_of_same_length _ 1 (by decide)) (by decide)]
  rw [partiesFromPeers, sortPeers_of_sorted _ (by decide)]; rfl

/-- a newcomer with a SMALLER key than the old parties still goes after them, and the old parties keep 0 and 1 -/
example : sortPartiesSpec [[9], [1], [7]] [[9], [7]] = [⟨[7], 0⟩, ⟨[9], 1⟩, ⟨[1], 2⟩] := by
  have h1 : sortPeers [[9], [7]] = [[7], [9]] := by
    rw [sortPeers_agree [[9], [7]] [[7], [9]] (keyInj_of_same_length _ 1 (by decide)) (by decide)]
    exact sortPeers_of_sorted _ (by decide)
  have h2 : sortPeers [[9], [1], [7]] = [[1], [7], [9]] := by
    rw [sortPeers_agree [[9], [1], [7]] [[1], [7], [9]] (keyInj_of_same_length _ 1 (by decide)) (by decide)]
    exact sortPeers_of_sorted _ (by decide)
  rw [sortPartiesSpec, h1, h2]; decide

/-- a relayer whose index was 1 in the subset of its first run has index 0 in the subset of the second -/
example : (signingRunStore [0] (signingRunStore [0] [] [[2], [0]]) [[0], [1]]).lookup [0] = some 0 ∧
    (signingRunStore [0] [] [[0], [2]]).lookup [0] = some 0 := by
  constructor
  · exact signingRunStore_current [0] _ [[0], [1]] (by decide) (by decide) ⟨[0], 0⟩ (by
      rw [partiesFromPeers, sortPeers_of_sorted _ (by decide)]; decide)
  · exact signingRunStore_current [0] _ [[0], [2]] (by decide) (by decide) ⟨[0], 0⟩ (by
      rw [partiesFromPeers, sortPeers_of_sorted _ (by decide)]; decide)

end Property

end Sygma.C08
