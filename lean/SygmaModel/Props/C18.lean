/-
  C18 — key shares and the topology survive crashes intact (DESIGN.md 5.18).

  WHAT IS MODELLED (Model/C18.lean): a file system as a map path ↦ whole-file content; the store functions as the
  list of system calls they issue (`storeAtomic` = util.WriteFileAtomic as called by StoreKeyshare ×2 and
  StoreTopology after the repair; `storeInPlace` = the three functions as found); faults `die i k` / `fail i k mask`
  at EVERY call index `i` and, for the write, after EVERY byte count `k`; for `fail` the error path runs, and each
  of its calls may itself fail (`mask`).
  WHAT IS PROVED: for every previous file-system state, every new content, every fault — the file at the store's
  path holds the complete previous content (or is still absent) or the complete new content; success ⇒ new content;
  every other file — other than the target AND the stores' temp-file names, which the frame theorems exclude by
  hypothesis — is untouched; no temp file survives an error return whose clean-up succeeds. At the value level
  the same for ANY encode/decode pair with `decode (encode v) = some v`.
  WHAT IS ASSUMED (not proved here): POSIX semantics as modelled — `rename` is atomic, `O_EXCL` temp names are
  fresh, a killed process leaves exactly the bytes its completed `write` calls put down; the JSON/curve-point
  round trip `decode (encode v) = some v` is library behaviour (encoding/json, threshlib, multi-party-sig) and is
  validated by differential runs only. Power loss (un-synced page cache) is outside the property statement ("the
  process dies or the write fails") and outside this model; that `Sync` precedes `Rename` is checked syntactically
  (Oblig/C18.lean).
  TIE TO THE CODE: Drv/C18.lean runs this model against the real stores under kernel-injected faults
  (RLIMIT_FSIZE = k, in-process for "write fails", in a killed child process for "process dies"); Oblig/C18.lean
  ties the regenerated call sequence of util.WriteFileAtomic and of the three Store functions to `storeAtomic`.
-/
import SygmaModel.Model.C18
namespace Sygma.C18

section Helpers

theorem run_frame (o : Op) (fs : FS) (q : Path) (h : q ∉ o.targets) : o.run fs q = fs q := by
  cases o <;> simp only [Op.targets, List.mem_cons, List.not_mem_nil, or_false, not_or] at h <;>
    simp only [Op.run] <;> (try split) <;> first | rfl | simp [FS.set, *]

theorem interrupted_frame (o : Op) (k : Nat) (fs : FS) (q : Path) (h : q ∉ o.targets) :
    o.interrupted k fs q = fs q := by
  cases o <;> try rfl
  exact run_frame (Op.write _ _) _ _ (by simpa [Op.targets] using h)

theorem runOps_frame (ops : List Op) (fs : FS) (q : Path) (h : ∀ o ∈ ops, q ∉ o.targets) :
    runOps ops fs q = fs q := by
  induction ops generalizing fs with
  | nil => rfl
  | cons o os ih =>
    simp only [runOps, List.foldl_cons]
    have := ih (o.run fs) (fun o' ho' => h o' (List.mem_cons_of_mem _ ho'))
    simp only [runOps] at this
    rw [this, run_frame o fs q (h o (List.mem_cons_self ..))]

theorem runMasked_frame (ops : List Op) (mask : List Bool) (fs : FS) (q : Path)
    (h : ∀ o ∈ ops, q ∉ o.targets) : runMasked ops mask fs q = fs q := by
  induction ops generalizing fs mask with
  | nil => cases mask <;> rfl
  | cons o os ih =>
    have ho := run_frame o fs q (h o (List.mem_cons_self ..))
    have hos := fun fs' m => ih m fs' (fun o' ho' => h o' (List.mem_cons_of_mem _ ho'))
    cases mask with
    | nil => simp only [runMasked]; rw [hos, ho]
    | cons b bs =>
      simp only [runMasked]; rw [hos]
      cases b <;> simp [ho]

/-- the success path ends with the new content at `p` and no temp file -/
theorem atomic_complete (p t : Path) (htp : t ≠ p) (new : Bytes) (fs : FS) :
    runOps (storeAtomic p t new).main fs p = some new ∧ runOps (storeAtomic p t new).main fs t = none := by
  simp [storeAtomic, runOps, Op.run, FS.set, Ne.symm htp]

/-- every call of the success path and of the error path touches only `t` and (the rename) `p` -/
theorem atomic_targets (p t : Path) (new : Bytes) (q : Path) (hp : q ≠ p) (ht : q ≠ t) :
    (∀ o ∈ (storeAtomic p t new).main, q ∉ o.targets) ∧ ∀ i, ∀ o ∈ (storeAtomic p t new).cleanup i, q ∉ o.targets := by
  constructor
  · intro o ho; simp only [storeAtomic, List.mem_cons, List.not_mem_nil, or_false] at ho
    rcases ho with rfl | rfl | rfl | rfl | rfl | rfl <;> simp [Op.targets, hp, ht]
  · intro i o ho; simp only [storeAtomic] at ho
    split at ho
    · cases ho
    · simp only [List.mem_cons, List.not_mem_nil, or_false] at ho
      rcases ho with rfl | rfl <;> simp [Op.targets, ht]

/-- a store cut short at any call `i < 6` (the write: after any `k` bytes) has not changed `p` -/
theorem atomic_cut (p t : Path) (htp : t ≠ p) (new : Bytes) (fs : FS) (i k : Nat) (hi : i < 6) :
    ∃ o, (storeAtomic p t new).main[i]? = some o ∧
      o.interrupted k (runOps ((storeAtomic p t new).main.take i) fs) p = fs p := by
  have hpt : p ≠ t := Ne.symm htp
  match i, hi with
  | 0, _ => exact ⟨_, rfl, rfl⟩
  | 1, _ => exact ⟨_, rfl, by simp [storeAtomic, runOps, Op.run, Op.interrupted, FS.set, hpt]⟩
  | 2, _ => exact ⟨_, rfl, by simp [storeAtomic, runOps, Op.run, Op.interrupted, FS.set, hpt]⟩
  | 3, _ => exact ⟨_, rfl, by simp [storeAtomic, runOps, Op.run, Op.interrupted, FS.set, hpt]⟩
  | 4, _ => exact ⟨_, rfl, by simp [storeAtomic, runOps, Op.run, Op.interrupted, FS.set, hpt]⟩
  | 5, _ => exact ⟨_, rfl, by simp [storeAtomic, runOps, Op.run, Op.interrupted, FS.set, hpt]⟩

theorem atomic_past_end (p t : Path) (new : Bytes) (i : Nat) (hi : 6 ≤ i) :
    (storeAtomic p t new).main[i]? = none := by
  simp [storeAtomic]; omega

theorem atomic_cleanup_p (p t : Path) (htp : t ≠ p) (new : Bytes) (i : Nat) :
    ∀ o ∈ (storeAtomic p t new).cleanup i, p ∉ o.targets := by
  intro o ho; simp only [storeAtomic] at ho
  split at ho
  · cases ho
  · simp only [List.mem_cons, List.not_mem_nil, or_false] at ho
    rcases ho with rfl | rfl <;> simp [Op.targets, Ne.symm htp]

end Helpers

section Property

/-- **C18 (main).** For every file-system state, every new content and EVERY fault of the atomic store — no fault,
    process death at any call / after any number of written bytes, an error return of any call / after any number
    of written bytes followed by an error path whose calls may themselves fail — the file at the store's path
    afterwards holds the complete previous content (or is still absent, if there was none) or the complete new
    content; and if the store reported success it holds the new content. (`die i k` is also the state a
    concurrent reader sees at that instant, so the same statement covers a reader racing the store.) -/
theorem atomic_store_intact (p t : Path) (htp : t ≠ p) (new : Bytes) (fs : FS) (f : Fault) :
    P18 (fs p) new (status (storeAtomic p t new) f) (exec (storeAtomic p t new) f fs p) := by
  have hdone := (atomic_complete p t htp new fs).1
  cases f with
  | none => exact ⟨Or.inr hdone, fun _ => hdone⟩
  | die i k =>
    by_cases hi : i < 6
    · obtain ⟨o, ho, hp⟩ := atomic_cut p t htp new fs i k hi
      refine ⟨Or.inl ?_, ?_⟩
      · simp only [exec, ho]; exact hp
      · intro h; simp [status, storeAtomic, hi] at h
    · have hn := atomic_past_end p t new i (by omega)
      simp only [exec, hn]
      exact ⟨Or.inr hdone, fun _ => hdone⟩
  | fail i k mask =>
    by_cases hi : i < 6
    · obtain ⟨o, ho, hp⟩ := atomic_cut p t htp new fs i k hi
      refine ⟨Or.inl ?_, ?_⟩
      · simp only [exec, ho]
        rw [runMasked_frame _ _ _ _ (atomic_cleanup_p p t htp new i)]; exact hp
      · intro h; simp [status, storeAtomic, hi] at h
    · have hn := atomic_past_end p t new i (by omega)
      simp only [exec, hn]
      exact ⟨Or.inr hdone, fun _ => hdone⟩

/-- no fault: reading back yields the stored bytes, and no temp file is left -/
theorem atomic_store_no_fault (p t : Path) (htp : t ≠ p) (new : Bytes) (fs : FS) :
    exec (storeAtomic p t new) .none fs p = some new ∧ exec (storeAtomic p t new) .none fs t = none :=
  atomic_complete p t htp new fs

/-- **frame.** Whatever happens, no file other than the target and the temp file changes (a key-share store never
    damages the topology file or the other key share) -/
theorem atomic_store_frame (p t : Path) (new : Bytes) (fs : FS) (f : Fault) (q : Path) (hp : q ≠ p) (ht : q ≠ t) :
    exec (storeAtomic p t new) f fs q = fs q := by
  obtain ⟨hm, hc⟩ := atomic_targets p t new q hp ht
  have htake : ∀ i, ∀ o ∈ (storeAtomic p t new).main.take i, q ∉ o.targets :=
    fun i o ho => hm o (List.mem_of_mem_take ho)
  cases f with
  | none => exact runOps_frame _ _ _ hm
  | die i k =>
    cases ho : (storeAtomic p t new).main[i]? with
    | none => simp only [exec, ho]; exact runOps_frame _ _ _ hm
    | some o =>
      simp only [exec, ho]
      rw [interrupted_frame _ _ _ _ (hm o (List.mem_of_getElem? ho)), runOps_frame _ _ _ (htake i)]
  | fail i k mask =>
    cases ho : (storeAtomic p t new).main[i]? with
    | none => simp only [exec, ho]; exact runOps_frame _ _ _ hm
    | some o =>
      simp only [exec, ho]
      rw [runMasked_frame _ _ _ _ (hc i), interrupted_frame _ _ _ _ (hm o (List.mem_of_getElem? ho)),
        runOps_frame _ _ _ (htake i)]

/-- an error return whose clean-up calls succeed leaves no temp file behind -/
theorem atomic_fail_no_litter (p t : Path) (htp : t ≠ p) (new : Bytes) (fs : FS) (i k : Nat) (hfresh : fs t = none) :
    exec (storeAtomic p t new) (.fail i k []) fs t = none := by
  by_cases hi : i < 6
  · match i, hi with
    | 0, _ => simpa [exec, storeAtomic, runMasked, runOps, Op.interrupted] using hfresh
    | 1, _ => simp [exec, storeAtomic, runMasked, runOps, Op.run, Op.interrupted, FS.set]
    | 2, _ => simp [exec, storeAtomic, runMasked, runOps, Op.run, Op.interrupted, FS.set]
    | 3, _ => simp [exec, storeAtomic, runMasked, runOps, Op.run, Op.interrupted, FS.set]
    | 4, _ => simp [exec, storeAtomic, runMasked, runOps, Op.run, Op.interrupted, FS.set]
    | 5, _ => simp [exec, storeAtomic, runMasked, runOps, Op.run, Op.interrupted, FS.set]
  · simp only [exec, atomic_past_end p t new i (by omega)]
    exact (atomic_complete p t htp new fs).2

/-- **value level, no fault.** For any encoding with `decode ∘ encode = some`, storing `v` and reading it back
    returns `v` (the hypothesis is the JSON / curve-point round trip of the libraries — validated by runs, not proved) -/
theorem store_then_get {V : Type} (encode : V → Bytes) (decode : Bytes → Option V)
    (hrt : ∀ v, decode (encode v) = some v) (p t : Path) (htp : t ≠ p) (fs : FS) (v : V) :
    readBack decode (exec (storeAtomic p t (encode v)) .none fs) p = some v := by
  simp [readBack, (atomic_store_no_fault p t htp (encode v) fs).1, hrt]

/-- **value level, any fault, previous value present.** The getter returns the complete previous value or the
    complete new one — never an error, never anything else -/
theorem faulted_store_then_get {V : Type} (encode : V → Bytes) (decode : Bytes → Option V)
    (hrt : ∀ v, decode (encode v) = some v) (p t : Path) (htp : t ≠ p) (fs : FS) (vOld vNew : V)
    (hold : fs p = some (encode vOld)) (f : Fault) :
    readBack decode (exec (storeAtomic p t (encode vNew)) f fs) p = some vOld ∨
    readBack decode (exec (storeAtomic p t (encode vNew)) f fs) p = some vNew := by
  rcases (atomic_store_intact p t htp (encode vNew) fs f).1 with h | h
  · left; simp [readBack, h, hold, hrt]
  · right; simp [readBack, h, hrt]

/-- **value level, any fault, first store.** Without a previous file the getter finds no file or the new value -/
theorem faulted_first_store_then_get {V : Type} (encode : V → Bytes) (decode : Bytes → Option V)
    (hrt : ∀ v, decode (encode v) = some v) (p t : Path) (htp : t ≠ p) (fs : FS) (vNew : V)
    (hold : fs p = none) (f : Fault) :
    exec (storeAtomic p t (encode vNew)) f fs p = none ∨
    readBack decode (exec (storeAtomic p t (encode vNew)) f fs) p = some vNew := by
  rcases (atomic_store_intact p t htp (encode vNew) fs f).1 with h | h
  · left; rw [h, hold]
  · right; simp [readBack, h, hrt]

/-- **no permission to create the temp file** (directory not writable for the process): `CreateTemp` fails, the
    store returns an error and NOTHING in the file system has changed — in particular the store never falls back to
    writing the target in place -/
theorem atomic_store_create_denied (p t : Path) (new : Bytes) (fs : FS) (k : Nat) (mask : List Bool) :
    exec (storeAtomic p t new) (.fail 0 k mask) fs = fs ∧ status (storeAtomic p t new) (.fail 0 k mask) = .err := by
  constructor
  · cases mask <;> rfl
  · rfl

/-- **exactly.** The target afterwards is the new content if the store reported success and the untouched previous
    content otherwise -/
theorem atomic_store_exact (p t : Path) (htp : t ≠ p) (new : Bytes) (fs : FS) (f : Fault) :
    exec (storeAtomic p t new) f fs p =
      if status (storeAtomic p t new) f = .ok then some new else fs p := by
  have hdone := (atomic_complete p t htp new fs).1
  have hlen : (storeAtomic p t new).main.length = 6 := rfl
  cases f with
  | none =>
    rw [show status (storeAtomic p t new) .none = .ok from rfl, if_pos rfl]; exact hdone
  | die i k =>
    by_cases hi : i < 6
    · obtain ⟨o, ho, hp⟩ := atomic_cut p t htp new fs i k hi
      have hs : status (storeAtomic p t new) (.die i k) = .died := by simp only [status, hlen, if_pos hi]
      rw [hs, if_neg (by decide)]
      simp only [exec, ho]; exact hp
    · have hn := atomic_past_end p t new i (by omega)
      have hs : status (storeAtomic p t new) (.die i k) = .ok := by simp only [status, hlen, if_neg hi]
      rw [hs, if_pos rfl]
      simp only [exec, hn]; exact hdone
  | fail i k mask =>
    by_cases hi : i < 6
    · obtain ⟨o, ho, hp⟩ := atomic_cut p t htp new fs i k hi
      have hs : status (storeAtomic p t new) (.fail i k mask) = .err := by simp only [status, hlen, if_pos hi]
      rw [hs, if_neg (by decide)]
      simp only [exec, ho]
      rw [runMasked_frame _ _ _ _ (atomic_cleanup_p p t htp new i)]; exact hp
    · have hn := atomic_past_end p t new i (by omega)
      have hs : status (storeAtomic p t new) (.fail i k mask) = .ok := by simp only [status, hlen, if_neg hi]
      rw [hs, if_pos rfl]
      simp only [exec, hn]; exact hdone

/-- **one long-lived store object.** For every interleaving of reads and (faulted or unfaulted) stores on one
    object, every read returns the content of the last store that reported success — or what was there before the
    sequence if none did. Nothing of an earlier read or store lingers: two successive values may be as similar as
    they like (same length, one digit apart, stored in the same second). -/
theorem obj_reads_last (p : Path) (ops : List ObjOp) (fs : FS)
    (ht : ∀ s, ObjOp.store s ∈ ops → s.tmp ≠ p) :
    runObj p ops fs = specObj p ops (fs p) := by
  induction ops generalizing fs with
  | nil => rfl
  | cons o r ih =>
    cases o with
    | get =>
      simp only [runObj, specObj]
      rw [ih fs (fun s hs => ht s (List.mem_cons_of_mem _ hs))]
    | store s =>
      simp only [runObj, specObj]
      rw [ih _ (fun s' hs => ht s' (List.mem_cons_of_mem _ hs)),
        atomic_store_exact p s.tmp (ht s (List.mem_cons_self ..)) s.new fs s.fault]

/-- **the neighbours.** Whatever one store object does over its life — reads, stores, faulted stores, restarts —
    every file of the directory other than the store's own file and the temp files of its stores keeps its content
    (the other key share, a backup, any file whose name merely starts like the store's) -/
theorem obj_frame (p : Path) (ops : List ObjOp) (fs : FS) (q : Path) (hp : q ≠ p)
    (ht : ∀ s, ObjOp.store s ∈ ops → q ≠ s.tmp) : runObjFS p ops fs q = fs q := by
  induction ops generalizing fs with
  | nil => rfl
  | cons o r ih =>
    cases o with
    | get => exact ih fs (fun s hs => ht s (List.mem_cons_of_mem _ hs))
    | store s =>
      simp only [runObjFS]
      rw [ih _ (fun s' hs => ht s' (List.mem_cons_of_mem _ hs)),
        atomic_store_frame p s.tmp s.new fs s.fault q hp (ht s (List.mem_cons_self ..))]

/-- at the value level: with `decode (encode v) = some v`, store `a`, read, store `b`, read returns `a` then `b` -/
theorem obj_store_get_store_get {V : Type} (encode : V → Bytes) (decode : Bytes → Option V)
    (hrt : ∀ v, decode (encode v) = some v) (p t : Path) (htp : t ≠ p) (fs : FS) (a b : V) :
    (runObj p [.store ⟨encode a, t, .none⟩, .get, .store ⟨encode b, t, .none⟩, .get] fs).map (·.bind decode) =
      [some a, some b] := by
  rw [obj_reads_last p _ fs (by
    intro s hs
    simp only [List.mem_cons, ObjOp.store.injEq, List.not_mem_nil, or_false, reduceCtorEq, false_or] at hs
    rcases hs with rfl | rfl <;> exact htp)]
  simp [specObj, status, hrt]

/-- **sequences.** Any sequence of stores into one directory — each with its own fault, killed stores leaving their
    temp files behind, nothing cleaned in between — leaves at the target the content it had before the sequence or
    the COMPLETE content of one of the stores of the sequence; never a mixture, whatever temp files lie around.
    (`createTemp` models `os.CreateTemp`'s O_EXCL: the name it opens is new, hence empty; the theorem needs nothing
    else about the temp names, they may even repeat.) -/
theorem seq_intact (p : Path) (steps : List Step) (fs : FS) (ht : ∀ s ∈ steps, s.tmp ≠ p) :
    runSeq p steps fs p = fs p ∨ ∃ s ∈ steps, runSeq p steps fs p = some s.new := by
  induction steps generalizing fs with
  | nil => exact Or.inl rfl
  | cons s ss ih =>
    have hs := (atomic_store_intact p s.tmp (ht s (List.mem_cons_self ..)) s.new fs s.fault).1
    have := ih (exec (storeAtomic p s.tmp s.new) s.fault fs) (fun s' hs' => ht s' (List.mem_cons_of_mem _ hs'))
    simp only [runSeq]
    rcases this with h | ⟨s', hs', h⟩
    · rcases hs with h' | h'
      · exact Or.inl (h.trans h')
      · exact Or.inr ⟨s, List.mem_cons_self .., h.trans h'⟩
    · exact Or.inr ⟨s', List.mem_cons_of_mem _ hs', h⟩

/-- … and a sequence whose LAST store reported success leaves that store's content -/
theorem seq_last_ok (p : Path) (steps : List Step) (s : Step) (fs : FS) (ht : s.tmp ≠ p)
    (hok : status (storeAtomic p s.tmp s.new) s.fault = .ok) :
    runSeq p (steps ++ [s]) fs p = some s.new := by
  induction steps generalizing fs with
  | nil => exact (atomic_store_intact p s.tmp ht s.new fs s.fault).2 hok
  | cons s' ss ih => simpa [runSeq] using ih _

/-- step by step: every state of the trace satisfies P18 relative to the state before it -/
theorem seq_trace_step (p : Path) (s : Step) (fs : FS) (ht : s.tmp ≠ p) :
    P18 (fs p) s.new (status (storeAtomic p s.tmp s.new) s.fault) (exec (storeAtomic p s.tmp s.new) s.fault fs p) :=
  atomic_store_intact p s.tmp ht s.new fs s.fault

/-! ### the stores as found (kept as the reason for the repair; witness lines are in corpus/C18.lines) -/

/-- truncate-then-write: a process that dies during the write after `k` bytes leaves exactly the first `k` bytes -/
theorem inplace_die_truncates (p : Path) (new : Bytes) (fs : FS) (k : Nat) :
    exec (storeInPlace p new) (.die 1 k) fs p = some (new.take k) := by
  simp [exec, storeInPlace, runOps, Op.run, Op.interrupted, FS.set]

/-- … and so does a failing write (the error path only closes the handle) -/
theorem inplace_fail_truncates (p : Path) (new : Bytes) (fs : FS) (k : Nat) (mask : List Bool) :
    exec (storeInPlace p new) (.fail 1 k mask) fs p = some (new.take k) := by
  have : runMasked [Op.close p] mask = id := by
    funext fs; cases mask with
    | nil => rfl
    | cons b bs => cases b <;> cases bs <;> rfl
  simp [exec, storeInPlace, runOps, Op.run, Op.interrupted, FS.set, this]

/-- the in-place store violates the property: death right after the open leaves an EMPTY file whenever the previous
    and the new content are non-empty -/
theorem inplace_violates (p : Path) (old new : Bytes) (ho : old ≠ []) (hn : new ≠ []) (fs : FS)
    (hold : fs p = some old) : ¬ Intact (fs p) new (exec (storeInPlace p new) (.die 1 0) fs p) := by
  rw [inplace_die_truncates, hold]
  simp only [Intact, List.take_zero, Option.some.injEq]
  rintro (h | h)
  · exact ho h.symm
  · exact hn h.symm

/-! ### two variants that must not be written, and why -/

/-- a FIXED temp name reused without truncation: a store of a long value killed after `n` bytes, then — after the
    restart — a successful store of a SHORTER value: the target is the new value followed by the stale tail -/
theorem fixedTemp_mixes (p t : Path) (htp : t ≠ p) (long short : Bytes) (n : Nat) (fs : FS) (hfresh : fs t = none) :
    exec (storeFixedTemp p t short) .none (exec (storeFixedTemp p t long) (.die 1 n) fs) p =
      some (short ++ (long.take n).drop short.length) := by
  simp [exec, storeFixedTemp, runOps, Op.run, Op.interrupted, FS.set, hfresh, Ne.symm htp]

/-- … which is not the value whose store just reported success, as soon as the killed write got further than the
    short value is long -/
theorem fixedTemp_violates (p t : Path) (htp : t ≠ p) (long short : Bytes) (n : Nat) (fs : FS) (hfresh : fs t = none)
    (h1 : short.length < n) (h2 : n ≤ long.length) :
    exec (storeFixedTemp p t short) .none (exec (storeFixedTemp p t long) (.die 1 n) fs) p ≠ some short := by
  rw [fixedTemp_mixes p t htp long short n fs hfresh]
  intro h
  have := congrArg (Option.map List.length) h
  simp [List.length_take] at this
  omega

/-- falling back to an in-place write when the temp file cannot be created: the fall-back is the as-found store, so
    a death after `k` bytes of it leaves a `k`-byte prefix although the atomic path itself changed nothing -/
theorem fallback_truncates (p t : Path) (new : Bytes) (fs : FS) (k : Nat) :
    exec (storeInPlace p new) (.die 1 k) (exec (storeAtomic p t new) (.fail 0 0 []) fs) p = some (new.take k) := by
  rw [(atomic_store_create_denied p t new fs 0 []).1]; exact inplace_die_truncates p new fs k

/-! ### non-vacuity -/

/-- a concrete state: previous content present, death in the middle of the write — the previous content survives,
    the temp file holds the partial write -/
example :
    let fs : FS := FS.set (fun _ => none) "share" (some [1, 2, 3])
    let r := exec (storeAtomic "share" "share.tmp" [4, 5, 6, 7]) (.die 1 2) fs
    r "share" = some [1, 2, 3] ∧ r "share.tmp" = some [4, 5] ∧
      status (storeAtomic "share" "share.tmp" [4, 5, 6, 7]) (.die 1 2) = .died := by decide

/-- no fault: the new content, no temp -/
example :
    let fs : FS := FS.set (fun _ => none) "share" (some [1, 2, 3])
    let r := exec (storeAtomic "share" "share.tmp" [4, 5, 6, 7]) .none fs
    r "share" = some [4, 5, 6, 7] ∧ r "share.tmp" = none := by decide

/-- a failing rename whose clean-up `remove` fails too: previous content survives, temp stays -/
example :
    let fs : FS := FS.set (fun _ => none) "share" (some [1, 2, 3])
    let r := exec (storeAtomic "share" "share.tmp" [4, 5]) (.fail 5 0 [true, false]) fs
    r "share" = some [1, 2, 3] ∧ r "share.tmp" = some [4, 5] := by decide

/-- the as-found store on the same state: an empty file, which is neither value -/
example :
    let fs : FS := FS.set (fun _ => none) "share" (some [1, 2, 3])
    exec (storeInPlace "share" [4, 5, 6, 7]) (.die 1 0) fs "share" = some [] ∧
      ¬ Intact (fs "share") [4, 5, 6, 7] (exec (storeInPlace "share" [4, 5, 6, 7]) (.die 1 0) fs "share") := by decide

/-- a sequence: store, killed store of a longer value, successful store of a shorter one — with the SAME temp name
    every time (the model's `createTemp` is O_EXCL): the shorter value, whole -/
example :
    let fs : FS := fun _ => none
    let r := runSeq "share" [⟨[1, 2, 3], "t", .none⟩, ⟨[4, 5, 6, 7, 8, 9], "t", .die 1 5⟩, ⟨[7, 7], "t", .none⟩] fs
    r "share" = some [7, 7] ∧ r "t" = none := by decide

/-- the same sequence through the fixed-name / no-truncate variant: `[7,7]` followed by the stale `[6,7,8]` -/
example :
    let fs : FS := FS.set (fun _ => none) "share" (some [1, 2, 3])
    exec (storeFixedTemp "share" "t" [7, 7]) .none (exec (storeFixedTemp "share" "t" [4, 5, 6, 7, 8, 9]) (.die 1 5) fs)
      "share" = some [7, 7, 6, 7, 8] := by decide

/-- one object: nothing yet, store, read, failed store of another value, read, store of a same-length value, read -/
example :
    runObj "share" [.get, .store ⟨[1, 2], "t", .none⟩, .get, .store ⟨[3, 4], "t", .fail 1 1 []⟩, .get,
      .store ⟨[1, 3], "t", .none⟩, .get] (fun _ => none) = [none, some [1, 2], some [1, 2], some [1, 3]] := by decide

/-- the round-trip hypothesis of the value-level theorems is satisfiable (identity coding) -/
example : ∀ v : Bytes, (some : Bytes → Option Bytes) (id v) = some v := fun _ => rfl

end Property

end Sygma.C18
