/-
  C11 — property theorems (DESIGN.md 5.11) about Model/C11.lean (the repaired `handleError`).

  Proved for ALL error trees / culprit sets / arrival sequences of the model:
   1. `classify_intended`: whenever the failure cause is unambiguous (`intended e = some k`: the tree has no typed leaf,
      or all its typed leaves are the same typed error `k`) the classification is `k` — wherever the typed error sits
      in the tree and however many untyped errors (watchdog time-out, fail message …) are joined around it.
      `pool_typedLeaves` / `classify_pool_with_watchdog`: in particular for what nested conc pools return when one task
      fails with the typed error and any others fail with untyped errors, in any completion order.
   2. `retry_without_culprits`: coordinator-unresponsive / misbehaving-peer / communication failures of a retryable
      process lead to a retry whose election candidates contain no culprit and (re-using C07's `announced_subset_ok`)
      whose announced signing subset, for every arrival sequence of ready messages, contains no culprit.
   3. `left_out_waits_for_start`: a SubsetError leads to waiting for a start message, which is then accepted from any
      sender (`runWait none`), and no fail message can abort that wait.
      `left_out_waits_until_tss_timeout` / `left_out_gives_up_at_tss_timeout`: with an explicit clock — time is additive,
      the fail watcher's TssTimeout ticker is never re-armed — the wait lasts exactly until TssTimeout has passed in total.
      `silent_coordinator_times_out`: with an explicit clock (`CEv.tick`), messages from peers other than the coordinator
      neither re-arm nor stop the coordinator time-out.
   4. `unrecognised_failure_ends_session` (the returned error is that error), `non_retryable_never_retried` (definitional:
      the else-branch of `afterFailure`), `keygen_and_resharing_never_retried` (with the regenerated `Retryable()` table).
   6. `model_satisfies_p11`: the predicate the driver evaluates on the real coordinator's observed behaviour holds of the model.
   5. `second_attempt_clean`: the composition (classification → election → follow / announce) for the intended election
      rule; excluded point `self_culprit_point`. `asFound_never_recognises_pool_errors`: the defect as found.
  Interpretation (stated, not hidden): the culprit of a CommunicationError is "nobody" — `handleError` retries with an
  empty exclusion list although the error value may name a peer (monitorSigning raises it without one).
  Partial / assumed: ambiguous trees (typed errors of two different kinds at once) are classified by source order of
  the switch (`classify_priority` shows the order; no claim that this is the intended cause). The bully election itself
  (timing, message loss) is not modelled beyond `bullyElected`; `bully_accepts_unlisted_claimant` states the known
  finding C11-bully-unlisted-claimant about the code as written, `listed_election_follows_no_culprit` the intended rule
  (which the driver uses as the reference on exactly those inputs).
-/
import SygmaModel.Model.C11
import SygmaModel.Props.C07
namespace Sygma.C11
open Sygma.C07

section Helpers
variable {α : Type}

def selCoord : Class α → Option (Option α)
  | .coord p => some p
  | _ => none
def isComm : Class α → Bool
  | .comm => true
  | _ => false
def selTss : Class α → Option (List α × Bool)
  | .tss cs d => some (cs, d)
  | _ => none
def isSubset : Class α → Bool
  | .subset => true
  | _ => false

theorem findCoord_leaves (e : Err α) : findCoord e = (typedLeaves e).findSome? selCoord := by
  induction e with
  | pair a b iha ihb => simp [findCoord, typedLeaves, List.findSome?_append, iha, ihb, Option.orElse_eq_or]
  | wrap e ih => simpa [findCoord, typedLeaves] using ih
  | _ => simp [findCoord, typedLeaves, selCoord]

theorem findTss_leaves (e : Err α) : findTss e = (typedLeaves e).findSome? selTss := by
  induction e with
  | pair a b iha ihb => simp [findTss, typedLeaves, List.findSome?_append, iha, ihb, Option.orElse_eq_or]
  | wrap e ih => simpa [findTss, typedLeaves] using ih
  | _ => simp [findTss, typedLeaves, selTss]

theorem findComm_leaves (e : Err α) : findComm e = (typedLeaves e).any isComm := by
  induction e with
  | pair a b iha ihb => simp [findComm, typedLeaves, iha, ihb]
  | wrap e ih => simpa [findComm, typedLeaves] using ih
  | _ => simp [findComm, typedLeaves, isComm]

theorem findSubset_leaves (e : Err α) : findSubset e = (typedLeaves e).any isSubset := by
  induction e with
  | pair a b iha ihb => simp [findSubset, typedLeaves, iha, ihb]
  | wrap e ih => simpa [findSubset, typedLeaves] using ih
  | _ => simp [findSubset, typedLeaves, isSubset]

theorem findSome_const {β : Type} (f : Class α → Option β) (k : Class α) (l : List (Class α))
    (h : ∀ x ∈ l, x = k) : (k :: l).findSome? f = f k := by
  induction l with
  | nil => cases hk : f k <;> simp [List.findSome?, hk]
  | cons x xs ih =>
    have hx : x = k := h x (by simp)
    subst hx
    have := ih (fun y hy => h y (by simp [hy]))
    cases hk : f x <;> simp_all [List.findSome?]

theorem any_const (f : Class α → Bool) (k : Class α) (l : List (Class α))
    (h : ∀ x ∈ l, x = k) : (k :: l).any f = f k := by
  induction l with
  | nil => simp
  | cons x xs ih =>
    have hx : x = k := h x (by simp)
    subst hx
    have := ih (fun y hy => h y (by simp [hy]))
    simp only [List.any_cons] at this ⊢
    cases hk : f x <;> simp_all

theorem poolWait_leaves_aux (errs : List (Err α)) (acc : Option (Err α)) :
    (match errs.foldl (fun acc e => some (poolJoin acc e)) acc with
      | none => []
      | some e => typedLeaves e)
    = (match acc with | none => [] | some a => typedLeaves a) ++ errs.flatMap typedLeaves := by
  induction errs generalizing acc with
  | nil => simp
  | cons e es ih =>
    simp only [List.foldl_cons, List.flatMap_cons]
    rw [ih]
    cases acc <;> simp [poolJoin, typedLeaves]

end Helpers

section Property
variable {α : Type} [DecidableEq α]

/-- **C11-1 (classification).** If the cause of the failure is unambiguous — no typed error anywhere in the tree, or
    one typed error (possibly reported several times), alone or joined with any number of untyped errors at any depth —
    the repaired `handleError` recognises exactly that cause. -/
theorem classify_intended (e : Err α) (k : Class α) (h : intended e = some k) : classify e = k := by
  unfold intended at h
  unfold classify
  rw [findCoord_leaves, findComm_leaves, findTss_leaves, findSubset_leaves]
  split at h
  · next hl => simp at h; subst h; simp [hl]
  · next k' ks hl =>
    split at h
    · next hall =>
      simp at h; subst h
      have hall' : ∀ x ∈ ks, x = k' := by simpa using hall
      rw [hl, findSome_const selCoord k' ks hall', any_const isComm k' ks hall', findSome_const selTss k' ks hall',
        any_const isSubset k' ks hall']
      cases k' <;> simp [selCoord, isComm, selTss, isSubset]
    · cases h

omit [DecidableEq α] in
/-- what a pool returns has exactly the typed leaves of its tasks' errors, in completion order -/
theorem pool_typedLeaves (errs : List (Err α)) :
    (match poolWait errs with | none => [] | some e => typedLeaves e) = errs.flatMap typedLeaves := by
  have := poolWait_leaves_aux errs (none : Option (Err α))
  simpa [poolWait] using this

/-- **C11-1 (with a simultaneous watchdog error).** A typed error `e` returned by one task of a pool together with
    untyped errors (`typedLeaves = []`: time-outs, fail messages, however deeply joined) returned by any number of other
    tasks before and after it is classified as `e` alone would be — also through a further enclosing pool. -/
theorem classify_pool_with_watchdog (pre post : List (Err α)) (e : Err α) (k : Class α)
    (hpre : ∀ x ∈ pre, typedLeaves x = []) (hpost : ∀ x ∈ post, typedLeaves x = [])
    (hk : intended e = some k) :
    ∃ r, poolWait (pre ++ [e] ++ post) = some r ∧ classify r = k ∧ classify (.wrap r) = k := by
  have hl := pool_typedLeaves (pre ++ [e] ++ post)
  have hflat : (pre ++ [e] ++ post).flatMap typedLeaves = typedLeaves e := by
    have h1 : pre.flatMap typedLeaves = [] := by
      rw [List.flatMap_eq_nil_iff]; exact hpre
    have h2 : post.flatMap typedLeaves = [] := by
      rw [List.flatMap_eq_nil_iff]; exact hpost
    simp [List.flatMap_append, h1, h2]
  cases hr : poolWait (pre ++ [e] ++ post) with
  | none =>
    exfalso
    have : ∀ (l : List (Err α)) (a : Err α), l.foldl (fun acc e => some (poolJoin acc e)) (some a) ≠ none := by
      intro l; induction l with
      | nil => intro a; simp
      | cons x xs ih => intro a; simpa using ih _
    cases pre with
    | nil => simp [poolWait] at hr; exact this _ _ hr
    | cons p ps => simp [poolWait] at hr; exact this _ _ hr
  | some r =>
    rw [hr] at hl
    have hl' : typedLeaves r = typedLeaves e := by rw [← hflat]; simpa using hl
    have hint : intended r = some k := by
      unfold intended at hk ⊢
      rw [hl']; exact hk
    refine ⟨r, rfl, classify_intended r k hint, classify_intended (.wrap r) k ?_⟩
    unfold intended at hint ⊢
    simpa [typedLeaves] using hint

example : poolWait [Err.other, Err.wrap (Err.tss [3] true), Err.other] =
      some (.pair (.pair (.wrap .other) (.wrap (.tss [3] true))) .other) ∧
    classify (Err.pair (.pair (.wrap .other) (.wrap (.tss [3] true))) .other) = Class.tss [3] true := by decide

/-- ambiguous trees: the switch order decides (coordinator, communication, tss, subset) -/
theorem classify_priority :
    classify (Err.pair (.tss [1] true) (.coord (some (2 : Nat)))) = .coord (some 2) ∧
    classify (Err.pair (.subset) (.comm : Err Nat)) = .comm ∧
    intended (Err.pair (.tss [1] true) (.coord (some (2 : Nat)))) = none := by decide

/-- **C11-2 (retry without the culprits).** For a retryable process whose attempt failed with an unambiguous
    coordinator-unresponsive, communication or peer-misbehaviour error: a new attempt is started, no culprit is among
    its election candidates, and — for every arrival sequence of ready messages, if this relayer wins the election
    (it is then a non-excluded key holder) — the subset it announces satisfies C07's clause and contains no culprit. -/
theorem retry_without_culprits (e : Err α) (k : Class α) (hk : intended e = some k) (hr : Retried k)
    (holders : List α) :
    afterFailure true e = .retry (culprits k) ∧
    (∀ c ∈ culprits k, c ∉ nextCandidates holders (culprits k)) ∧
    (∀ p ∈ nextCandidates holders (culprits k), p ∈ holders) ∧
    (∀ (key : α → Nat) (self : α) (t : Nat) (arrivals : List α) (n : Nat) (S : List α),
      self ∈ nextCandidates holders (culprits k) →
      initiate key ⟨self, holders, t, culprits k⟩ arrivals = some (n, S) →
      SubsetOk ⟨self, holders, t, culprits k⟩ arrivals S ∧ ∀ c ∈ culprits k, c ∉ S) := by
  refine ⟨?_, ?_, ?_, ?_⟩
  · unfold afterFailure
    rw [classify_intended e k hk]
    cases k with
    | tss cs d => simp [Retried] at hr; subst hr; simp [plan, culprits]
    | coord p => simp [plan, culprits]
    | comm => simp [plan, culprits]
    | subset => cases hr
    | unknown => cases hr
  · intro c hc hin
    simp [nextCandidates, excludePeers] at hin
    exact hin.2 hc
  · intro p hp
    simp [nextCandidates, excludePeers] at hp
    exact hp.1
  · intro key self t arrivals n S hself hinit
    simp only [nextCandidates, excludePeers, List.mem_filter, decide_eq_true_eq] at hself
    have hok := announced_subset_ok key ⟨self, holders, t, culprits k⟩ hself.1 hself.2 arrivals n S hinit
    exact ⟨hok, fun c hc hcS => hok.2.2.2.2.2 c hcS hc⟩

example : intended (Err.pair (.wrap (.wrap (.tss [3, 4] true))) (.other : Err Nat)) = some (.tss [3, 4] true) ∧
    nextCandidates [0, 1, 2, 3, 4] [3, 4] = [0, 1, 2] ∧
    initiate (fun n : Nat => n) ⟨0, [0, 1, 2, 3, 4], 1, [3, 4]⟩ [3, 4, 2] = some (3, [2, 0]) := by decide

/-- **C11-3 (left out of the subset).** The relayer does not re-elect; it waits for the replacement attempt's start
    message, accepts it from whoever sends it, and no fail message aborts that wait. -/
theorem left_out_waits_for_start (e : Err α) (hk : intended e = some .subset) :
    afterFailure true e = .waitStart ∧
    (∀ (f : α) (n : Nat), (runWait (none : Option α) [Ev.start f (some n)]).runs = [n]) ∧
    (∀ (f : α), (runWait (none : Option α) [Ev.init f]).readies = [f]) ∧
    (∀ tr : List (Ev α), (runWait (none : Option α) tr).res ≠ .fail) := by
  refine ⟨?_, ?_, ?_, ?_⟩
  · unfold afterFailure; rw [classify_intended e _ hk]; simp [plan]
  · intro f n; simp [runWait, stepWait, initW, accepts]
  · intro f; simp [runWait, stepWait, initW, accepts]
  · intro tr
    have : ∀ (s : WSt α), s.phase ≠ .finished .fail → (tr.foldl (stepWait none) s).phase ≠ .finished .fail := by
      induction tr with
      | nil => intro s hs; simpa using hs
      | cons x xs ih =>
        intro s hs
        simp only [List.foldl_cons]
        apply ih
        unfold stepWait
        split
        · exact hs
        · cases x with
          | init f => simpa [accepts] using hs
          | start f p => cases p <;> simp [accepts]
          | fail f => simpa [failFrom] using hs
        · cases x with
          | init f => exact hs
          | start f p => exact hs
          | fail f => simpa [failFrom] using hs
    have h := this initW (by simp [initW])
    intro hres
    unfold runWait WSt.res at hres
    split at hres
    · next r hp => rw [hres] at hp; exact h hp
    · cases hres

/-- **C11-3 (left out, time-outs).** Time is additive here: the fail watcher `handleError` starts has a `TssTimeout`
    ticker that nothing re-arms. For every trace of messages and clock ticks whose TOTAL duration stays below
    `TssTimeout` — however the silence is distributed, in particular with silences longer than `CoordinatorTimeout`,
    which plays no role — the left-out relayer does not give up and behaves as on the messages alone. -/
theorem left_out_waits_until_tss_timeout (tssLimit : Nat) (tr : List (CEv α)) (h : ticksOf tr < tssLimit) :
    (runLeftOut tssLimit tr).timedOut = false ∧
    (runLeftOut tssLimit tr).w = runWait2 (none : Option α) none (msgsOfC tr) := by
  have key : ∀ (tr : List (CEv α)) (s : LSt α), s.timedOut = false → s.sinceArm ≤ s.total →
      s.total + ticksOf tr < tssLimit →
      (tr.foldl (stepLeftOut tssLimit) s).timedOut = false ∧
      (tr.foldl (stepLeftOut tssLimit) s).w = (msgsOfC tr).foldl (stepWait2 none none) s.w := by
    intro tr
    induction tr with
    | nil => intro s h1 _ _; exact ⟨h1, rfl⟩
    | cons x xs ih =>
      intro s h1 h2 h3
      simp only [List.foldl_cons]
      cases x with
      | msg e =>
        have e1 : (stepLeftOut tssLimit s (.msg e)).timedOut = false := by simp [stepLeftOut, h1]
        have e2 : (stepLeftOut tssLimit s (.msg e)).w = stepWait2 none none s.w e := by simp [stepLeftOut, h1]
        have e3 : (stepLeftOut tssLimit s (.msg e)).total = s.total := by simp [stepLeftOut, h1]
        have e4 : (stepLeftOut tssLimit s (.msg e)).sinceArm ≤ s.sinceArm := by
          simp only [stepLeftOut, h1]
          split
          · simp at *
          · simp only []
            split <;> simp
        simp only [msgsOfC, List.foldl_cons]
        have := ih (stepLeftOut tssLimit s (.msg e)) e1 (by omega) (by rw [e3]; simpa [ticksOf] using h3)
        rw [e2] at this
        exact this
      | tick =>
        simp only [ticksOf] at h3
        simp only [msgsOfC]
        cases hp : s.w.phase with
        | finished r =>
          have hs : stepLeftOut tssLimit s .tick = s := by simp [stepLeftOut, h1, hp]
          rw [hs]; exact ih s h1 h2 (by omega)
        | waiting =>
          have hs : stepLeftOut tssLimit s .tick = { s with total := s.total + 1, sinceArm := s.sinceArm + 1 } := by
            have a1 : ¬ tssLimit ≤ s.total + 1 := by omega
            have a2 : ¬ tssLimit ≤ s.sinceArm + 1 := by omega
            simp [stepLeftOut, h1, hp, a1, a2]
          rw [hs]; exact ih _ h1 (by simp only []; omega) (by simp only []; omega)
        | running =>
          have hs : stepLeftOut tssLimit s .tick = { s with total := s.total + 1 } := by
            have a1 : ¬ tssLimit ≤ s.total + 1 := by omega
            simp [stepLeftOut, h1, hp, a1]
          rw [hs]; exact ih _ h1 (by simp only []; omega) (by simp only []; omega)
  have := key tr ⟨initW, 0, 0, false⟩ rfl (Nat.le_refl _) (by simpa using h)
  exact this

/-- … and when the total duration reaches `TssTimeout` the wait is over, whatever arrived meanwhile (unless an abort /
    a malformed start ended the attempt before): the silences ADD UP, a sequence of them each shorter than the limit
    does end the wait. -/
theorem left_out_gives_up_at_tss_timeout (tssLimit : Nat) (hpos : 1 ≤ tssLimit) (tr : List (CEv α))
    (h : tssLimit ≤ ticksOf tr) :
    (runLeftOut tssLimit tr).timedOut = true ∨ ∃ r, (runLeftOut tssLimit tr).w.phase = .finished r := by
  have fin_keep : ∀ (s : LSt α) (x : CEv α) (r : Res), s.w.phase = .finished r →
      (stepLeftOut tssLimit s x).w.phase = .finished r := by
    intro s x r hr
    cases x with
    | tick => simp only [stepLeftOut]; split <;> simp [hr]
    | msg e =>
      simp only [stepLeftOut]
      split
      · exact hr
      · cases e <;> simp [stepWait2, stepWait, hr]
  have to_keep : ∀ (s : LSt α) (x : CEv α), s.timedOut = true → (stepLeftOut tssLimit s x).timedOut = true := by
    intro s x ht; cases x <;> simp [stepLeftOut, ht]
  have key : ∀ (tr : List (CEv α)) (s : LSt α),
      (s.timedOut = true ∨ (∃ r, s.w.phase = .finished r) ∨ (s.total < tssLimit ∧ tssLimit ≤ s.total + ticksOf tr)) →
      (tr.foldl (stepLeftOut tssLimit) s).timedOut = true ∨ ∃ r, (tr.foldl (stepLeftOut tssLimit) s).w.phase = .finished r := by
    intro tr
    induction tr with
    | nil =>
      intro s h
      rcases h with h | h | h
      · exact Or.inl h
      · exact Or.inr h
      · simp only [ticksOf] at h; omega
    | cons x xs ih =>
      intro s h
      simp only [List.foldl_cons]
      apply ih
      rcases h with h | ⟨r, hr⟩ | h
      · exact Or.inl (to_keep s x h)
      · exact Or.inr (Or.inl ⟨r, fin_keep s x r hr⟩)
      · by_cases ht : s.timedOut = true
        · exact Or.inl (to_keep s x ht)
        · have hnt : s.timedOut = false := by simpa using ht
          cases x with
          | msg e =>
            by_cases hf : ∃ r, (stepLeftOut tssLimit s (.msg e)).w.phase = .finished r
            · exact Or.inr (Or.inl hf)
            · right; right
              have : (stepLeftOut tssLimit s (.msg e)).total = s.total := by simp [stepLeftOut, hnt]
              rw [this]; simpa [ticksOf] using h
          | tick =>
            simp only [ticksOf] at h
            cases hp : s.w.phase with
            | finished r => exact Or.inr (Or.inl ⟨r, fin_keep s .tick r hp⟩)
            | waiting =>
              by_cases hl : tssLimit ≤ s.total + 1
              · left; simp [stepLeftOut, hnt, hp, hl]
              · by_cases hl2 : tssLimit ≤ s.sinceArm + 1
                · left; simp [stepLeftOut, hnt, hp, hl2]
                · right; right
                  have : (stepLeftOut tssLimit s .tick).total = s.total + 1 := by simp [stepLeftOut, hnt, hp, hl, hl2]
                  rw [this]; omega
            | running =>
              by_cases hl : tssLimit ≤ s.total + 1
              · left; simp [stepLeftOut, hnt, hp, hl]
              · right; right
                have : (stepLeftOut tssLimit s .tick).total = s.total + 1 := by simp [stepLeftOut, hnt, hp, hl]
                rw [this]; omega
  exact key tr ⟨initW, 0, 0, false⟩ (Or.inr (Or.inr ⟨by show 0 < tssLimit; omega, by simpa using h⟩))

example : -- TssTimeout = 5 units: three silences of 1 unit and a start → runs; silences of 2+2+2 units end the wait
    (runLeftOut 5 [.tick, .msg (Ev.init 2), .tick, .tick, .msg (Ev.start (2 : Nat) (some 1))]).w.runs = [1] ∧
    (runLeftOut 5 [.tick, .tick, .msg (Ev.init (2 : Nat)), .tick, .tick, .msg (Ev.init 2), .tick, .tick]).timedOut = true := by
  decide

/-- **C11 (an unresponsive coordinator is recognised in spite of foreign traffic).** While nothing arrives from the
    coordinator itself, initiate / start / fail messages from any other peer — however many, however often — neither
    re-arm nor stop the coordinator time-out: after `limit` units of time the relayer has classified its coordinator as
    unresponsive (and has answered, run and aborted nothing). -/
theorem silent_coordinator_times_out (c : α) (limit : Nat) (hpos : 1 ≤ limit) (tr : List (CEv α))
    (hsil : ∀ e, CEv.msg e ∈ tr → e.src ≠ c) (hlim : limit ≤ ticksOf tr) :
    (runClock c limit tr).timedOut = true ∧ (runClock c limit tr).w = initW := by
  have key : ∀ (tr : List (CEv α)) (s : CSt α), (∀ e, CEv.msg e ∈ tr → e.src ≠ c) → s.w = initW →
      (s.timedOut = true ∨ (s.elapsed < limit ∧ limit ≤ s.elapsed + ticksOf tr)) →
      (tr.foldl (stepClock c limit) s).timedOut = true ∧ (tr.foldl (stepClock c limit) s).w = initW := by
    intro tr
    induction tr with
    | nil =>
      intro s _ hw h
      rcases h with h | h
      · exact ⟨h, hw⟩
      · simp only [ticksOf] at h; omega
    | cons x xs ih =>
      intro s hs hw h
      have hs' : ∀ e, CEv.msg e ∈ xs → e.src ≠ c := fun e he => hs e (List.mem_cons_of_mem _ he)
      simp only [List.foldl_cons]
      by_cases ht : s.timedOut = true
      · have : stepClock c limit s x = s := by cases x <;> simp [stepClock, ht]
        rw [this]; exact ih s hs' hw (Or.inl ht)
      · have hnt : s.timedOut = false := by simpa using ht
        rcases h with h | h
        · exact absurd h ht
        · cases x with
          | tick =>
            have hph : s.w.phase = .waiting := by rw [hw]; rfl
            by_cases hl : limit ≤ s.elapsed + 1
            · have : stepClock c limit s .tick = { s with timedOut := true } := by
                simp [stepClock, hnt, hph, hl]
              rw [this]; exact ih _ hs' hw (Or.inl rfl)
            · have : stepClock c limit s .tick = { s with elapsed := s.elapsed + 1 } := by
                simp [stepClock, hnt, hph, hl]
              rw [this]
              refine ih _ hs' hw (Or.inr ⟨by simp only []; omega, ?_⟩)
              simp only [ticksOf] at h ⊢; omega
          | msg e =>
            have hne := hs e List.mem_cons_self
            have hinit : ¬ (e = Ev.init c ∧ s.w.phase = .waiting) := by
              intro hh; apply hne; rw [hh.1]; rfl
            have : stepClock c limit s (.msg e) = s := by
              simp only [stepClock, hnt, hw, stepWait_forged c initW e hne]
              cases s; simp_all
            rw [this]
            refine ih s hs' hw (Or.inr ⟨h.1, ?_⟩)
            simpa [ticksOf] using h.2
  exact key tr ⟨initW, 0, false⟩ hsil rfl (Or.inr ⟨by show 0 < limit; omega, by simpa using hlim⟩)

example : (runClock (2 : Nat) 3 [.tick, .msg (.init 0), .tick, .msg (.init 1), .msg (.start 0 (some 5)), .tick]).timedOut = true ∧
    (runClock (2 : Nat) 3 [.tick, .msg (.init 2), .tick, .tick]).timedOut = false ∧
    (runClock (2 : Nat) 3 [.tick, .msg (.init 2), .tick, .tick]).w.readies = [2] := by decide

/-- **C11 (the time-outs are ordered).** With CoordinatorTimeout < TssTimeout — which the defaults of `NewCoordinator`
    satisfy (`defaultTimeouts`, checked against the real constructor by op `defaults`) — a silent coordinator is
    classified as unresponsive (the typed CoordinatorError, hence a retry) at a moment when the attempt's watchdog,
    whose untyped time-out error would end the session, has not fired yet. -/
theorem coordinator_timeout_precedes_watchdog (c : α) (t : Timeouts) (hok : TimeoutsOk t) (tr : List (CEv α))
    (hsil : ∀ e, CEv.msg e ∈ tr → e.src ≠ c) (hlen : ticksOf tr = t.coord) :
    (runClock c t.coord tr).timedOut = true ∧ ticksOf tr < t.tss := by
  obtain ⟨h0, h1, h2⟩ := hok
  exact ⟨(silent_coordinator_times_out c t.coord (by omega) tr hsil (by omega)).1, by omega⟩

theorem defaultTimeouts_ok : TimeoutsOk defaultTimeouts := by decide

/-- **C11-4 (unrecognised failure).** Without any typed error the session ends, and the error `Execute` returns is that
    very error: no retry, no wait. -/
theorem unrecognised_failure_ends_session (e : Err α) (retryable : Bool) (hk : intended e = some .unknown) :
    afterFailure retryable e = .giveUp e := by
  unfold afterFailure
  rw [classify_intended e _ hk]
  cases retryable <;> simp [plan]

omit [DecidableEq α] in
/-- **C11-5 (key generation and resharing).** A process that is not retryable is never retried, whatever the error. -/
theorem non_retryable_never_retried (e : Err α) : afterFailure false e = .giveUp e := by
  simp [afterFailure]

omit [DecidableEq α] in
/-- … which, with the regenerated table of what the six process kinds answer to `Retryable()` (obligation
    `gen_retryable`), is: key generation and resharing, ECDSA or FROST, are never retried; only signing is. -/
theorem keygen_and_resharing_never_retried (k : Kind) (hk : k.isSigning = false) (e : Err α) :
    afterFailure (retryableOf k) e = .giveUp e := by
  simp [afterFailure, retryableOf, hk]

example : afterFailure false (Err.wrap (.wrap (.coord (some (1 : Nat))))) = .giveUp (.wrap (.wrap (.coord (some 1)))) ∧
    afterFailure true (Err.wrap (.wrap (.coord (some (1 : Nat))))) = .retry [1] ∧
    afterFailure true (Err.pair (.wrap (.wrap .subset)) (.other : Err Nat)) = .waitStart ∧
    afterFailure true (Err.wrap (.pair (.other : Err Nat) .other)) = .giveUp (.wrap (.pair .other .other)) := by decide

/-- excluded point of C11-2, stated rather than hidden: a culprit id that does not parse ends the session -/
theorem undecodable_culprit_point : afterFailure true (Err.wrap (.tss [(1 : Nat)] false)) = .giveUp .other := by decide

/-- observation about comm/elector/bully.go as written (outside the statement proved above, recorded as a known
    finding): a Select message from a peer that is NOT among the candidates — e.g. the excluded culprit — is ranked as
    index 0 by `isPeerIDHigher` and therefore accepted whenever this relayer is not itself first in the order. -/
theorem bully_accepts_unlisted_claimant :
    bullyElected (fun n : Nat => n) 1 (nextCandidates [1, 2, 3] [3]) (some 3) = 3 ∧
    (3 : Nat) ∉ nextCandidates [1, 2, 3] [3] := by decide

/-- with the intended election rule the relayer only ever follows itself or a candidate — never a culprit -/
theorem listed_election_follows_no_culprit (key : α → Nat) (self : α) (holders ex : List α) (claimant : Option α)
    (hself : self ∉ ex) :
    bullyElectedListed key self (nextCandidates holders ex) claimant ∉ ex := by
  cases claimant with
  | none => exact hself
  | some r =>
    by_cases hr : r ∈ nextCandidates holders ex
    · have hr' : r ∉ ex := by
        simp only [nextCandidates, excludePeers, List.mem_filter, decide_eq_true_eq] at hr; exact hr.2
      simp only [bullyElectedListed, hr, if_true, bullyElected]
      split
      · exact hr'
      · exact hself
    · simpa [bullyElectedListed, hr] using hself

/-- on listed claimants (and without one) the election rule as written is the intended one -/
theorem bullyElected_listed (key : α → Nat) (self : α) (cands : List α) (claimant : Option α)
    (h : ∀ r, claimant = some r → r ∈ cands) :
    bullyElected key self cands claimant = bullyElectedListed key self cands claimant := by
  cases claimant with
  | none => simp [bullyElected, bullyElectedListed]
  | some r => simp [bullyElectedListed, h r rfl]

/-- **C11-2 (the second attempt as a whole).** A retryable process failed with an unambiguous retried cause `k` on a
    relayer that holds a key share and is not itself a culprit. Then, whoever claims coordination and whatever ready
    messages arrive: an election is started, its candidates are key holders and none is a culprit, and the relayer
    either follows a coordinator that is no culprit, or coordinates itself and announces a subset that satisfies C07's
    clause and contains no culprit (or is still collecting ready messages). It never gives up and never just waits. -/
theorem second_attempt_clean (key : α → Nat) (self : α) (t : Nat) (holders : List α) (e : Err α) (k : Class α)
    (hk : intended e = some k) (hr : Retried k) (hself : self ∈ holders) (hnc : self ∉ culprits k)
    (claimant : Option α) (arrivals : List α) :
    ∃ cs, (secondAttempt bullyElectedListed key self t holders e true claimant arrivals).election = some cs ∧
      (∀ c ∈ cs, c ∈ holders ∧ c ∉ culprits k) ∧
      (match (secondAttempt bullyElectedListed key self t holders e true claimant arrivals).outcome with
        | .follows c => c ∉ culprits k
        | .announces _ S => SubsetOk ⟨self, holders, t, culprits k⟩ arrivals S ∧ ∀ c ∈ culprits k, c ∉ S
        | .neverReady => True
        | .ended _ => False
        | .idle => False) := by
  obtain ⟨haf, hcand, hhold, hsub⟩ := retry_without_culprits e k hk hr holders
  unfold secondAttempt
  rw [haf]
  refine ⟨_, rfl, ?_, ?_⟩
  · intro c hc
    have hc' := (sortDesc_perm key _).mem_iff.1 hc
    exact ⟨hhold c hc', fun hcul => hcand c hcul hc'⟩
  · by_cases hel : bullyElectedListed key self (nextCandidates holders (culprits k)) claimant = self
    · have hselfc : self ∈ nextCandidates holders (culprits k) := by
        simp only [nextCandidates, excludePeers, List.mem_filter, decide_eq_true_eq]; exact ⟨hself, hnc⟩
      simp only [hel, if_true]
      cases hi : initiate key ⟨self, holders, t, culprits k⟩ arrivals with
      | none => simp
      | some r =>
        obtain ⟨n, S⟩ := r
        exact hsub key self t arrivals n S hselfc hi
    · simp only [hel, if_false]
      exact listed_election_follows_no_culprit key self holders (culprits k) claimant hnc

example : secondAttempt bullyElectedListed (fun n : Nat => n) 0 1 [0, 1, 2, 3] (Err.wrap (.wrap (.tss [3] true))) true none [3, 1]
    = ⟨some [2, 1, 0], .announces 2 [1, 0]⟩ ∧
  secondAttempt bullyElectedListed (fun n : Nat => n) 0 1 [0, 1, 2, 3] (Err.wrap (.wrap (.tss [3] true))) true (some 2) [3, 1]
    = ⟨some [2, 1, 0], .follows 2⟩ := by decide

/-- excluded point of `second_attempt_clean` (`self ∉ culprits`): a relayer whose own process names it as the culprit
    still wins its own (silent) election and announces a subset containing itself -/
theorem self_culprit_point :
    secondAttempt bullyElectedListed (fun n : Nat => n) 0 1 [0, 1, 2] (Err.wrap (.tss [0] true)) true none [1]
      = ⟨some [2, 1], .announces 1 [1, 0]⟩ := by decide

/-- the intended election rule elects this relayer itself or the claimant -/
theorem bullyElectedListed_self_or_claimant (key : α → Nat) (self : α) (cands : List α) (claimant : Option α) :
    bullyElectedListed key self cands claimant = self ∨ some (bullyElectedListed key self cands claimant) = claimant := by
  cases claimant with
  | none => left; rfl
  | some r =>
    by_cases hr : r ∈ cands
    · by_cases hc : (bullyIdx (sortDesc key cands) r < bullyIdx (sortDesc key cands) self || r = self) = true
      · right; simp [bullyElectedListed, bullyElected, hr, hc]
      · left; simp [bullyElectedListed, bullyElected, hr, hc]
    · left; simp [bullyElectedListed, hr]

/-- **C11 (model_satisfies).** The predicate `P11` — the one the driver evaluates on what the real coordinator was
    observed to do — holds of what the model does, for every error `e` of unambiguous cause `k`, retryable or not,
    every claimant and every sequence of ready messages; hypotheses: this relayer holds a key share and, if the process
    is retryable, is not itself among the culprits (excluded point `self_culprit_point`); the election follows the
    intended rule (`bullyElectedListed`, known finding C11-bully-unlisted-claimant otherwise). -/
theorem model_satisfies_p11 (key : α → Nat) (self : α) (t : Nat) (holders : List α) (e : Err α) (k : Class α)
    (retryable : Bool) (claimant : Option α) (arrivals : List α)
    (hk : intended e = some k) (hself : self ∈ holders) (hnc : retryable = true → self ∉ culprits k) :
    P11 self holders t e k retryable
      (decide (bullyElectedListed key self (nextCandidates holders (culprits k)) claimant = self)) claimant arrivals
      (seenOf arrivals (secondAttempt bullyElectedListed key self t holders e retryable claimant arrivals)) := by
  have hcl := classify_intended e k hk
  cases retryable with
  | false =>
    simp only [P11, if_true]
    simp [secondAttempt, afterFailure, seenOf, EndedWith]
  | true =>
    have hnc' := hnc rfl
    simp only [P11, Bool.true_eq_false, if_false]
    have retried : ∀ (hr : Retried k),
        let K := culprits k
        let o := seenOf arrivals (secondAttempt bullyElectedListed key self t holders e true claimant arrivals)
        (∃ cs, o.election = some cs ∧ ∀ c ∈ cs, c ∈ holders ∧ c ∉ K) ∧ (∀ c ∈ o.readyTo, c ∉ K) ∧
        (decide (bullyElectedListed key self (nextCandidates holders K) claimant = self) = false →
          ∀ c ∈ o.readyTo, some c = claimant) ∧ o.crun = o.start ∧
        (match o.start with | some S => ∀ c ∈ S, c ∉ K | none => True) ∧
        (decide (bullyElectedListed key self (nextCandidates holders K) claimant = self) = true →
          o.consumed ≤ arrivals.length ∧ AnnouncedOk ⟨self, holders, t, K⟩ (arrivals.take o.consumed) arrivals o.start) ∧
        o.res = .ok := by
      intro hr
      obtain ⟨haf, hcand, hhold, _⟩ := retry_without_culprits e k hk hr holders
      have hselfc : self ∈ nextCandidates holders (culprits k) := by
        simp only [nextCandidates, excludePeers, List.mem_filter, decide_eq_true_eq]; exact ⟨hself, hnc'⟩
      have hselfx : self ∉ culprits k := hnc'
      simp only [secondAttempt, haf]
      have hel : ∀ c ∈ sortDesc key (nextCandidates holders (culprits k)), c ∈ holders ∧ c ∉ culprits k := by
        intro c hc
        have hc' := (sortDesc_perm key _).mem_iff.1 hc
        exact ⟨hhold c hc', fun hcul => hcand c hcul hc'⟩
      by_cases helc : bullyElectedListed key self (nextCandidates holders (culprits k)) claimant = self
      · simp only [helc, if_true, decide_true]
        cases hi : initiate key ⟨self, holders, t, culprits k⟩ arrivals with
        | some r =>
          obtain ⟨n, S⟩ := r
          have hp := announced_subset_ok_prefix key ⟨self, holders, t, culprits k⟩ hself hselfx arrivals n S hi
          have hw := announced_subset_ok key ⟨self, holders, t, culprits k⟩ hself hselfx arrivals n S hi
          simp only [seenOf]
          refine ⟨⟨_, rfl, hel⟩, by simp, by simp, trivial, fun c hc hcul => hw.2.2.2.2.2 c hc hcul, fun _ => ⟨hp.1, hp.2⟩, trivial⟩
        | none =>
          have ha := initiate_announcedOk key ⟨self, holders, t, culprits k⟩ hself hselfx arrivals
          rw [hi] at ha
          simp only [seenOf]
          refine ⟨⟨_, rfl, hel⟩, by simp, by simp, trivial, trivial, fun _ => ⟨Nat.le_refl _, ?_⟩, trivial⟩
          simpa [AnnouncedOk] using ha
      · simp only [helc, if_false, decide_false]
        simp only [seenOf]
        refine ⟨⟨_, rfl, hel⟩, ?_, ?_, trivial, trivial, by simp, trivial⟩
        · intro c hc
          simp only [List.mem_singleton] at hc
          subst hc
          exact listed_election_follows_no_culprit key self holders (culprits k) claimant hselfx
        · intro _ c hc
          simp only [List.mem_singleton] at hc
          subst hc
          rcases bullyElectedListed_self_or_claimant key self (nextCandidates holders (culprits k)) claimant with h | h
          · exact absurd h helc
          · exact h
    cases k with
    | unknown =>
      simp [secondAttempt, afterFailure, hcl, plan, seenOf, EndedWith]
    | tss cs d =>
      cases d with
      | false => simp [secondAttempt, afterFailure, hcl, plan, seenOf, EndedWith]
      | true => exact retried (by simp [Retried])
    | subset =>
      simp only [secondAttempt, afterFailure, hcl, plan, if_true]
      cases claimant <;> simp [seenOf]
    | coord p => exact retried (by simp [Retried])
    | comm => exact retried (by simp [Retried])

omit [DecidableEq α] in
/-- **the defect as found** (repaired by `fix: classify failed tss attempts with errors.As`): whatever a conc pool
    returns is a join node, which the type switch on the outermost value never recognises — no failure of a pooled
    attempt was ever retried, for any cause. -/
theorem asFound_never_recognises_pool_errors (errs : List (Err α)) (r : Err α) (h : poolWait errs = some r) :
    classifyAsFound r = .unknown := by
  have hfold : ∀ (l : List (Err α)) (a x : Err α), (a = .wrap x ∨ ∃ y z, a = .pair y z) →
      ∀ r, l.foldl (fun acc e => some (poolJoin acc e)) (some a) = some r → classifyAsFound r = .unknown := by
    intro l
    induction l with
    | nil =>
      intro a x ha r hr
      simp at hr; subst hr
      rcases ha with rfl | ⟨y, z, rfl⟩ <;> rfl
    | cons b bs ih =>
      intro a x _ r hr
      simp only [List.foldl_cons, poolJoin] at hr
      exact ih (.pair a b) a (Or.inr ⟨a, b, rfl⟩) r hr
  cases errs with
  | nil => simp [poolWait] at h
  | cons b bs =>
    simp only [poolWait, List.foldl_cons, poolJoin] at h
    exact hfold bs (.wrap b) b (Or.inl rfl) r h

example : classifyAsFound (Err.wrap (.wrap (.tss [(3 : Nat)] true))) = .unknown ∧
    classify (Err.wrap (.wrap (.tss [(3 : Nat)] true))) = .tss [3] true := by decide

end Property
end Sygma.C11
