/-
  C06 — a malformed deposit cannot crash the relayer or suppress its neighbours (DESIGN.md 5.6).

  Modelled (Model/C06.lean): the control skeletons of the three `ProcessDeposits`, of EVM `RetryV1EventHandler.HandleEvents`
  and of Substrate `RetryEventHandler.HandleEvents` as repaired by the `fix:` commits — loops, closures with `recover`,
  early exits, the destination map — parametric in the handlers (`ok | err | panic`, any function).
  Proved: for ALL handler functions and ALL deposit lists, the messages emitted for every destination are exactly the
  messages of the deposits that succeed on their own, in their original order (`P06`); the skeletons are total functions,
  so the range always terminates without an escaping panic.  Nothing is assumed about what "malformed" means.
  Not in the model: a panic inside `events.Listener.FetchDeposits` itself (outside every recover) — `parseDeposit` is run
  on hostile logs by the correspondence driver instead; RPC failures that abort a whole range (C05).
  The as-found RetryV1 skeleton is kept and shown to violate P06 (`retryV1_asFound_violates`).
-/
import SygmaModel.Model.C06
namespace Sygma.C06
open Sygma.C01 (Outcome)

section Helpers

variable {D M E : Type}

theorem add_apply (m : DMap M) (k : Nat) (x : M) (j : Nat) :
    (m.add k x) j = if j = k then m j ++ [x] else m j := rfl

theorem foldl_step (dst : M → Nat) (h : D → Outcome M) (ds : List D) (acc : DMap M) (k : Nat) :
    (ds.foldl (step dst h) acc) k = acc k ++ (ds.filterMap (okPart h)).filter (fun m => dst m = k) := by
  induction ds generalizing acc with
  | nil => simp
  | cons d ds ih =>
    rw [List.foldl_cons, ih]
    unfold step okPart
    cases hd : h d with
    | ok m =>
      simp only [List.filterMap_cons, hd, add_apply]
      by_cases hk : dst m = k
      · simp [hk]
      · have : ¬ k = dst m := fun e => hk e.symm
        simp [hk, this]
    | err => simp [List.filterMap_cons, hd]
    | panic => simp [List.filterMap_cons, hd]

theorem foldl_events (dst : M → Nat) (f : E → Outcome (List D)) (h : D → Outcome M) (evs : List E) (acc : DMap M) (k : Nat) :
    (evs.foldl (perEvent dst f h) acc) k
      = acc k ++ ((evs.flatMap (fetched f)).filterMap (okPart h)).filter (fun m => dst m = k) := by
  induction evs generalizing acc with
  | nil => simp
  | cons e es ih =>
    rw [List.foldl_cons, ih]
    unfold perEvent
    cases he : f e with
    | ok ds => simp [fetched, he, foldl_step, List.filterMap_append]
    | err => simp [fetched, he]
    | panic => simp [fetched, he]

end Helpers

section Property

variable {D M E : Type} [DecidableEq M]

/-- EVM / Substrate `ProcessDeposits`: every destination receives exactly the messages of the deposits that are handled
    successfully on their own, in order; erroring and panicking deposits change nothing else -/
theorem processDeposits_isolated (dst : M → Nat) (h : D → Outcome M) (ds : List D) :
    P06 dst (ds.filterMap (okPart h)) (processDeposits dst h ds) := by
  intro k _
  simp [processDeposits, foldl_step, DMap.empty]

/-- the neighbours survive: a deposit that yields a message alone still yields it between arbitrary other deposits -/
theorem processDeposits_keeps (dst : M → Nat) (h : D → Outcome M) (pre post : List D) (d : D) (m : M) (hd : h d = .ok m) :
    m ∈ processDeposits dst h (pre ++ d :: post) (dst m) := by
  simp only [processDeposits, foldl_step, DMap.empty, List.nil_append, List.mem_filter, List.mem_filterMap]
  refine ⟨⟨d, by simp, by simp [okPart, hd]⟩, by simp⟩

/-- Bitcoin `ProcessDeposits` (one block), for every iteration order of the resources inside each transaction -/
theorem btc_isolated (dst : M → Nat) (txs : List (List (BtcR M))) :
    P06 dst (txs.filterMap (okPart btcTx)) (btcProcess dst txs) :=
  processDeposits_isolated dst btcTx txs

/-- EVM RetryV1 (repaired): every retried transaction that can be fetched contributes exactly its not-yet-executed,
    individually well-formed deposits -/
theorem retryV1_isolated (dst : M → Nat) (fetch : E → Outcome (List D)) (h : D → Outcome M) (ex : M → Outcome Bool)
    (evs : List E) :
    P06 dst ((evs.flatMap (fetched fetch)).filterMap (okPart (retryItem h ex))) (retryV1 dst fetch h ex evs) := by
  intro k _
  simp [retryV1, foldl_events, DMap.empty]

/-- Substrate retry (repaired) -/
theorem subRetry_isolated (dst : M → Nat) (blockOf : E → Outcome (List D)) (abort : E → Bool) (h : D → Outcome M)
    (evs : List E) (hno : evs.any abort = false) :
    ∃ out, subRetry dst blockOf abort h evs = some out ∧
      P06 dst ((evs.flatMap (fetched blockOf)).filterMap (okPart h)) out := by
  refine ⟨evs.foldl (perEvent dst blockOf h) DMap.empty, by simp [subRetry, hno], ?_⟩
  intro k _
  simp [foldl_events, DMap.empty]

/-- excluded point: when a retry event cannot be resolved at all the whole range reports an error and nothing is sent
    (the listener runs the range again) -/
theorem subRetry_abort (dst : M → Nat) (blockOf : E → Outcome (List D)) (abort : E → Bool) (h : D → Outcome M)
    (evs : List E) (hab : evs.any abort = true) : subRetry dst blockOf abort h evs = none := by
  simp [subRetry, hab]

/-- non-vacuity: good, erroring, panicking, good — both good ones arrive, for their own destinations -/
example :
    let h : Nat → Outcome (Nat × Nat) := fun d => if d = 0 then .err else if d = 1 then .panic else .ok (d % 3, d)
    processDeposits (·.1) h [5, 0, 7, 1, 8] 2 = [(2, 5), (2, 8)] ∧ processDeposits (·.1) h [5, 0, 7, 1, 8] 1 = [(1, 7)] := by
  decide

/-- the as-found RetryV1 skeleton violates P06: [good, erroring, good] in one retried transaction loses the third -/
theorem retryV1_asFound_violates :
    ∃ (h : Nat → Outcome (Nat × Nat)) (evs : List (List Nat)),
      ¬ P06 (·.1) ((evs.flatMap (fetched Outcome.ok)).filterMap (okPart (retryItem h (fun _ => .ok false))))
          (retryV1AsFound (·.1) Outcome.ok h (fun _ => .ok false) evs) := by
  refine ⟨fun d => if d = 0 then .err else .ok (2, d), [[1, 0, 3]], ?_⟩
  intro hP
  have h2 := hP 2 (by decide)
  revert h2
  decide

end Property

end Sygma.C06
