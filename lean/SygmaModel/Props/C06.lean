/-
  C06 — a malformed deposit cannot crash the relayer or suppress its neighbours (DESIGN.md 5.6).

  Modelled (Model/C06.lean): the control skeletons of the three `ProcessDeposits`, of EVM `RetryV1EventHandler.HandleEvents`
  and of Substrate `RetryEventHandler.HandleEvents` as repaired by the `fix:` commits — loops, closures with `recover`,
  early exits, the destination map — parametric in the handlers (`ok | err | panic`, any function).
  Proved: for ALL handler functions and ALL deposit lists, the messages emitted for every destination are exactly the
  messages of the deposits that succeed on their own, in their original order (`P06`), and the channel receives exactly one
  non-empty batch per such destination (`P06h`).  Nothing is assumed about what "malformed" means.
  Not in the model, no Lean content: "whatever bytes", "terminates", "does not crash the process". The skeletons are total
  Lean functions over an ABSTRACT handler (`ok | err | panic`); that the real decoders and handlers stay inside that
  abstraction for every byte string (no fatal error, no endless loop, no panic outside a recover such as inside
  `events.Listener.FetchDeposits`) is only exercised — by the correspondence driver in child processes — not proved; the
  decoder-totality lemmas sketched in DESIGN 5.6 were not built. RPC failures abort a whole range (`abort`, C05).
  The as-found RetryV1 skeleton is kept and shown to violate P06 (`retryV1_asFound_violates`).
-/
import SygmaModel.Model.C06
namespace Sygma.C06
open Sygma.C01 (Outcome)

section Helpers

variable {D M E : Type}

theorem add_apply (m : DMap M) (k : Nat) (x : M) (j : Nat) :
    (m.add k x) j = if j = k then m j ++ [x] else m j := rfl

theorem foldl_step (dst : M → Nat) (h : D → Outcome M) (ds : List D) (acc : DMap M) (k : Nat) :
    (ds.foldl (step dst h) acc) k = acc k ++ (ds.filterMap (okPart h)).filter (fun m => dst m = k) := by
  induction ds generalizing acc with
  | nil => simp
  | cons d ds ih =>
    rw [List.foldl_cons, ih]
    unfold step okPart
    cases hd : h d with
    | ok m =>
      simp only [List.filterMap_cons, hd, add_apply]
      by_cases hk : dst m = k
      · simp [hk]
      · have : ¬ k = dst m := fun e => hk e.symm
        simp [hk, this]
    | err => simp [List.filterMap_cons, hd]
    | panic => simp [List.filterMap_cons, hd]

theorem foldl_events (dst : M → Nat) (f : E → Outcome (List D)) (h : D → Outcome M) (evs : List E) (acc : DMap M) (k : Nat) :
    (evs.foldl (perEvent dst f h) acc) k
      = acc k ++ ((evs.flatMap (fetched f)).filterMap (okPart h)).filter (fun m => dst m = k) := by
  induction evs generalizing acc with
  | nil => simp
  | cons e es ih =>
    rw [List.foldl_cons, ih]
    unfold perEvent
    cases he : f e with
    | ok ds => simp [fetched, he, foldl_step, List.filterMap_append]
    | err => simp [fetched, he]
    | panic => simp [fetched, he]

theorem headDst_of (dst : M → Nat) (f : Nat → List M) (hf : ∀ j, ∀ x ∈ f j, dst x = j) (j : Nat)
    (hne : (f j).isEmpty = false) : headDst dst (f j) = some j := by
  cases hfj : f j with
  | nil => simp [hfj] at hne
  | cons x xs =>
    have := hf j x (by simp [hfj])
    simp [headDst, this]

theorem filterMap_congr' {α β : Type} {l : List α} {f g : α → Option β} (h : ∀ x ∈ l, f x = g x) :
    l.filterMap f = l.filterMap g := by
  induction l with
  | nil => rfl
  | cons a l ih =>
    simp only [List.filterMap_cons, h a (by simp)]
    rw [ih (fun x hx => h x (by simp [hx]))]

theorem flatten_singletons {α : Type} (l : List α) : (l.map fun m => [m]).flatten = l := by
  induction l with
  | nil => rfl
  | cons a l ih => simp [ih]

theorem filter_filterMap_keys [DecidableEq M] (dst : M → Nat) (f : Nat → List M) (hf : ∀ j, ∀ x ∈ f j, dst x = j)
    (ks : List Nat) (hn : ks.Nodup) (k : Nat) :
    ((ks.filterMap fun j => if (f j).isEmpty then none else some (f j)).filter (fun b => headDst dst b = some k))
      = if k ∈ ks ∧ (f k).isEmpty = false then [f k] else [] := by
  generalize hF : (fun j => if (f j).isEmpty then none else some (f j)) = F
  induction ks with
  | nil => simp
  | cons j js ih =>
    have hj : j ∉ js := (List.nodup_cons.1 hn).1
    have ih' := ih (List.nodup_cons.1 hn).2
    cases he : (f j).isEmpty with
    | true =>
      have hFj : F j = none := by rw [← hF]; simp [he]
      rw [List.filterMap_cons, hFj, ih']
      by_cases hk : k = j
      · subst hk; simp [hj, he]
      · simp [hk]
    | false =>
      have hFj : F j = some (f j) := by rw [← hF]; simp [he]
      have hh := headDst_of dst f hf j he
      rw [List.filterMap_cons, hFj, List.filter_cons, hh]
      by_cases hk : j = k
      · subst hk
        simp [ih', hj, he]
      · have hk' : ¬ k = j := fun e => hk e.symm
        simp [hk, hk', ih']

theorem batches_spec [DecidableEq M] (dst : M → Nat) (m : DMap M) (good : List M)
    (hm : ∀ k, k < 256 → m k = good.filter (fun x => dst x = k)) : P06h dst good (batches m) := by
  have hf : ∀ j, ∀ x ∈ (fun k => good.filter (fun x => dst x = k)) j, dst x = j := by
    intro j x hx
    simpa using (List.mem_filter.1 hx).2
  have hb : batches m = (List.range 256).filterMap
      (fun j => if ((fun k => good.filter (fun x => dst x = k)) j).isEmpty then none
        else some ((fun k => good.filter (fun x => dst x = k)) j)) := by
    unfold batches
    apply filterMap_congr'
    intro k hk
    rw [hm k (List.mem_range.1 hk)]
  refine ⟨?_, ?_, ?_⟩
  · intro b hbm
    rw [hb] at hbm
    obtain ⟨j, _, hj⟩ := List.mem_filterMap.1 hbm
    by_cases he : (good.filter (fun x => dst x = j)).isEmpty
    · simp [he] at hj
    · simp only [he] at hj
      intro hnil
      simp at hj
      rw [← hj] at hnil
      simp [hnil] at he
  · intro b hbm
    rw [hb] at hbm
    obtain ⟨j, hjr, hj⟩ := List.mem_filterMap.1 hbm
    by_cases he : (good.filter (fun x => dst x = j)).isEmpty
    · simp [he] at hj
    · simp only [he] at hj
      simp at hj
      refine ⟨j, List.mem_range.1 hjr, ?_⟩
      rw [← hj]
      exact headDst_of dst _ hf j (by simpa using he)
  · intro k hk
    rw [hb, filter_filterMap_keys dst _ hf _ List.nodup_range k]
    by_cases he : (good.filter (fun x => dst x = k)).isEmpty
    · simp [he]
    · simp [he, List.mem_range.2 hk]

end Helpers

section Property

variable {D M E : Type} [DecidableEq M]

/-- EVM / Substrate `ProcessDeposits`: every destination receives exactly the messages of the deposits that are handled
    successfully on their own, in order; erroring and panicking deposits change nothing else -/
theorem processDeposits_isolated (dst : M → Nat) (h : D → Outcome M) (ds : List D) :
    P06 dst (ds.filterMap (okPart h)) (processDeposits dst h ds) := by
  intro k _
  simp [processDeposits, foldl_step, DMap.empty]

/-- the neighbours survive: a deposit that yields a message alone still yields it between arbitrary other deposits -/
theorem processDeposits_keeps (dst : M → Nat) (h : D → Outcome M) (pre post : List D) (d : D) (m : M) (hd : h d = .ok m) :
    m ∈ processDeposits dst h (pre ++ d :: post) (dst m) := by
  simp only [processDeposits, foldl_step, DMap.empty, List.nil_append, List.mem_filter, List.mem_filterMap]
  refine ⟨⟨d, by simp, by simp [okPart, hd]⟩, by simp⟩

/-- Bitcoin `ProcessDeposits` (one block), for every iteration order of the resources inside each transaction -/
theorem btc_isolated (dst : M → Nat) (txs : List (List (BtcR M))) :
    P06 dst (txs.filterMap (okPart btcTx)) (btcProcess dst txs) :=
  processDeposits_isolated dst btcTx txs

/-- EVM RetryV1 (repaired): every retried transaction that can be fetched contributes exactly its not-yet-executed,
    individually well-formed deposits -/
theorem retryV1_isolated (dst : M → Nat) (fetch : E → Outcome (List D)) (h : D → Outcome M) (ex : M → Outcome Bool)
    (evs : List E) :
    P06 dst ((evs.flatMap (fetched fetch)).filterMap (okPart (retryItem h ex))) (retryV1 dst fetch h ex evs) := by
  intro k _
  simp [retryV1, foldl_events, DMap.empty]

/-- Substrate retry (repaired) -/
theorem subRetry_isolated (dst : M → Nat) (blockOf : E → Outcome (List D)) (abort : E → Bool) (h : D → Outcome M)
    (evs : List E) (hno : evs.any abort = false) :
    ∃ out, subRetry dst blockOf abort h evs = some out ∧
      P06 dst ((evs.flatMap (fetched blockOf)).filterMap (okPart h)) out := by
  refine ⟨evs.foldl (perEvent dst blockOf h) DMap.empty, by simp [subRetry, hno], ?_⟩
  intro k _
  simp [foldl_events, DMap.empty]

/-- excluded point (`hno` fails): when the node cannot serve the block of some retry event the whole range reports an error
    and nothing is sent — the listener runs the range again. An UNDECODABLE retry event is not such a point: it is
    skipped (`blockOf e = err`) and the other retry events of the range are served (fix 575328e). -/
theorem subRetry_abort (dst : M → Nat) (blockOf : E → Outcome (List D)) (abort : E → Bool) (h : D → Outcome M)
    (evs : List E) (hab : evs.any abort = true) : subRetry dst blockOf abort h evs = none := by
  simp [subRetry, hab]

/-- `HandleEvents` of the three deposit handlers, at the message channel: for ALL handler functions and deposit lists no
    empty batch is ever sent, and every destination receives exactly one batch with the messages of the deposits that
    succeed on their own, in order (none when there is no such deposit) -/
theorem handleEvents_isolated (dst : M → Nat) (h : D → Outcome M) (ds : List D) :
    P06h dst (ds.filterMap (okPart h)) (handleEvents dst h ds) :=
  batches_spec dst _ _ (processDeposits_isolated dst h ds)

/-- Bitcoin `HandleEvents` -/
theorem btc_handleEvents_isolated (dst : M → Nat) (txs : List (List (BtcR M))) :
    P06h dst (txs.filterMap (okPart btcTx)) (batches (btcProcess dst txs)) :=
  batches_spec dst _ _ (btc_isolated dst txs)

/-- EVM RetryV1 `HandleEvents` at the channel -/
theorem retryV1_handleEvents_isolated (dst : M → Nat) (fetch : E → Outcome (List D)) (h : D → Outcome M)
    (ex : M → Outcome Bool) (evs : List E) :
    P06h dst ((evs.flatMap (fetched fetch)).filterMap (okPart (retryItem h ex))) (batches (retryV1 dst fetch h ex evs)) :=
  batches_spec dst _ _ (retryV1_isolated dst fetch h ex evs)

/-- Substrate retry `HandleEvents` at the channel -/
theorem subRetry_handleEvents_isolated (dst : M → Nat) (blockOf : E → Outcome (List D)) (abort : E → Bool)
    (h : D → Outcome M) (evs : List E) (hno : evs.any abort = false) :
    ∃ out, subRetry dst blockOf abort h evs = some out ∧
      P06h dst ((evs.flatMap (fetched blockOf)).filterMap (okPart h)) (batches out) := by
  obtain ⟨out, ho, hp⟩ := subRetry_isolated dst blockOf abort h evs hno
  exact ⟨out, ho, batches_spec dst _ _ hp⟩

/-- EVM RetryV2: every decodable retry event is sent as one single-message batch, undecodable ones change nothing -/
theorem retryV2_isolated {L : Type} (parse : L → Option M) (logs : List L) :
    (∀ b ∈ retryV2 parse logs, b ≠ []) ∧ (retryV2 parse logs).flatten = logs.filterMap parse := by
  constructor
  · intro b hb
    simp only [retryV2, List.mem_map] at hb
    obtain ⟨m, _, rfl⟩ := hb
    simp
  · simp [retryV2, flatten_singletons]

/-- non-vacuity: two destinations, a failing deposit alone on a third destination: two batches, no empty one -/
example :
    let h : Nat → Outcome (Nat × Nat) := fun d => if d = 0 then .err else if d = 1 then .panic else .ok (d % 3, d)
    handleEvents (·.1) h [5, 0, 7, 1, 8] = [[(1, 7)], [(2, 5), (2, 8)]] := by
  decide

/-- non-vacuity: good, erroring, panicking, good — both good ones arrive, for their own destinations -/
example :
    let h : Nat → Outcome (Nat × Nat) := fun d => if d = 0 then .err else if d = 1 then .panic else .ok (d % 3, d)
    processDeposits (·.1) h [5, 0, 7, 1, 8] 2 = [(2, 5), (2, 8)] ∧ processDeposits (·.1) h [5, 0, 7, 1, 8] 1 = [(1, 7)] := by
  decide

/-- the as-found RetryV1 skeleton violates P06: [good, erroring, good] in one retried transaction loses the third -/
theorem retryV1_asFound_violates :
    ∃ (h : Nat → Outcome (Nat × Nat)) (evs : List (List Nat)),
      ¬ P06 (·.1) ((evs.flatMap (fetched Outcome.ok)).filterMap (okPart (retryItem h (fun _ => .ok false))))
          (retryV1AsFound (·.1) Outcome.ok h (fun _ => .ok false) evs) := by
  refine ⟨fun d => if d = 0 then .err else .ok (2, d), [[1, 0, 3]], ?_⟩
  intro hP
  have h2 := hP 2 (by decide)
  revert h2
  decide

end Property

end Sygma.C06
