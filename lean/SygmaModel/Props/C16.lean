/-
  C16 — property theorems (DESIGN.md 5.16).

  What is modelled (Model/C16.lean): the whole of `rawTx` / `outputs` / `inputs` / `fee` in uint64/int64 arithmetic
  (outputs per proposal, OP_RETURN metadata script, fee estimate, input accumulation, both sufficiency tests, fee for the
  selected shape, change), the ordering done by `mempool.Utxos`, and the amount conversion of `ERC20MessageHandler`.
  Inputs of the model (universally quantified): the two fee quotes, the uploader's CID, the UTXO listing, and per recipient
  the script that btcutil/txscript produce (`none` = recipient does not decode; the address codec is not modelled).
  `sort.Slice` is modelled as "some permutation ordered by the comparator" (theorem `sorted_listing_unique` is about every
  such result, `sortUtxos` is one of them).
  Bounds (`WF`): ≤ 10^6 proposals, UTXO values ≤ 21·10^14, ≤ 10^6 UTXOs, fee rates ≤ 10^6 sat/vB — under them no
  uint64/int64 operation wraps.  Proposal AMOUNTS are unrestricted: the repaired `outputs` refuses a batch whose amounts
  exceed the bitcoin supply (`beyond_supply_refused`), which covers the int64/uint64 boundaries.  The remaining wrap point
  (an impossible UTXO value near 2^64) is stated separately (`wrap_point_utxo`), not hidden.
  Not covered: signing/broadcast, the IPFS upload itself, JSON decoding of the service's answers (exercised by the
  correspondence runs through the real MempoolAPI against a loopback server).
-/
import SygmaModel.Model.C16
import SygmaModel.Proofs.C16Lemmas
namespace Sygma.C16

section Property

/-- **C16 (main), all inputs within the bounds.** Whatever the proposals, recipients' validity, fee quotes, CID and UTXO
    listing: the outcome of `rawTx` satisfies `P16` — if a transaction is produced it has exactly one output per proposal
    paying its exact amount to its recipient's script, then the zero-value metadata output, then at most one positive change
    output to the bridge; its inputs are a prefix of the bridge's UTXO list; no output value is negative; inputs minus
    outputs equals the relayer's (second) fee quote for the shape (#inputs, #proposals + 1 outputs) — as in the code the
    quote counts the proposal outputs and the metadata output but NOT the change output, whether or not one is appended;
    with an invalid recipient no transaction is produced. -/
theorem rawTx_P16 (i : Inp) (hwf : WF i) : P16 i (rawTx i) := by
  obtain ⟨hn, hr1, hr2, hus⟩ := hwf
  unfold rawTx
  by_cases hcap : sumAmounts i.props > maxSat
  · simp [hcap, P16]
  simp only [hcap, ↓reduceIte]
  have hsumB : sumAmounts i.props ≤ 21 * 10 ^ 14 := by unfold maxSat at hcap; omega
  have hamt : ∀ p ∈ i.props, p.amount ≤ 21 * 10 ^ 14 := fun p hp =>
    Nat.le_trans (amount_le_sumAmounts i.props p hp) hsumB
  cases hpo : propOuts i.props with
  | none => simp [P16]
  | some po =>
    cases hnd : i.cid.bind nullData with
    | none => simp [P16]
    | some nd =>
      cases hrate1 : i.rate1 with
      | none => simp [P16]
      | some r1 =>
        cases hutx : i.utxos with
        | none => simp [P16]
        | some us =>
          have hr1' := hr1 r1 hrate1
          obtain ⟨hlen, hval⟩ := hus us hutx
          obtain ⟨hpl, hps, hpnn⟩ := propOuts_facts i.props po hamt hpo
          have hsumM : sumAmounts i.props % M = sumAmounts i.props :=
            Nat.mod_eq_of_lt (by rw [M_val]; omega)
          obtain ⟨_, hestB⟩ := feeOf_bound r1 i.props.length i.props.length hr1' (by omega) (by omega)
          have htgt : (sumAmounts i.props + feeOf r1 i.props.length i.props.length) % M
              = sumAmounts i.props + feeOf r1 i.props.length i.props.length :=
            Nat.mod_eq_of_lt (by rw [M_val]; omega)
          simp only [hsumM, htgt]
          cases hsel : select (sumAmounts i.props + feeOf r1 i.props.length i.props.length) us 0 with
          | none => simp [P16]
          | some r =>
            obtain ⟨inAmt, used⟩ := r
            obtain ⟨hpre, hin, hinB⟩ :=
              select_spec _ us 0 inAmt used (by omega) (by rw [M_val]; omega) hval hsel
            simp only [Nat.zero_add] at hin
            have hulen : used.length ≤ 10 ^ 6 := by
              have : used.length ≤ us.length := by
                have := congrArg List.length hpre
                simp only [List.length_take] at this; omega
              omega
            by_cases hlt1 : inAmt < sumAmounts i.props
            · simp [hlt1, P16]
            · simp only [hlt1, ↓reduceIte]
              cases hrate2 : i.rate2 with
              | none => simp [P16]
              | some r2 =>
                have hr2' := hr2 r2 hrate2
                obtain ⟨_, hfeeB⟩ := feeOf_bound r2 used.length (i.props.length + 1) hr2' hulen (by omega)
                have hneed : (sumAmounts i.props + feeOf r2 used.length (i.props.length + 1)) % M
                    = sumAmounts i.props + feeOf r2 used.length (i.props.length + 1) :=
                  Nat.mod_eq_of_lt (by rw [M_val]; omega)
                simp only [hneed]
                by_cases hlt2 : inAmt < sumAmounts i.props + feeOf r2 used.length (i.props.length + 1)
                · simp [hlt2, P16]
                · simp only [hlt2, ↓reduceIte]
                  -- a transaction is produced
                  generalize hfee : feeOf r2 used.length (i.props.length + 1) = fee at *
                  have hret : (inAmt + 2 * M - fee - sumAmounts i.props) % M = inAmt - fee - sumAmounts i.props := by
                    have : inAmt + 2 * M - fee - sumAmounts i.props = (inAmt - fee - sumAmounts i.props) + 2 * M := by omega
                    rw [this, Nat.add_mul_mod_self_right]
                    exact Nat.mod_eq_of_lt (by rw [M_val]; omega)
                  have hfixed : fixedOuts i = some (po ++ [⟨0, nd⟩]) := by
                    unfold fixedOuts
                    rw [← propOuts_eq i.props hamt, hpo, hnd]
                  simp only [P16, hfixed, hrate2, hutx, hret]
                  have hflen : (po ++ [(⟨0, nd⟩ : TxOut)]).length = po.length + 1 := by simp
                  refine ⟨?_, ?_, hpre, ?_, ?_⟩
                  · rw [List.append_assoc, ← List.append_assoc po, List.take_left' rfl]
                  · rw [List.drop_left' rfl]
                    by_cases hpos : inAmt - fee - sumAmounts i.props > 0
                    · simp only [hpos, ↓reduceIte, changeOk, Bool.and_eq_true, decide_eq_true_eq, beq_self_eq_true, and_true]
                      rw [toInt64_small _ (by omega)]; omega
                    · simp [hpos, changeOk]
                  · intro o ho
                    simp only [List.mem_append, List.mem_singleton] at ho
                    rcases ho with (ho | rfl) | ho
                    · exact hpnn o ho
                    · simp
                    · by_cases hpos : inAmt - fee - sumAmounts i.props > 0
                      · simp only [hpos, ↓reduceIte, List.mem_singleton] at ho
                        subst ho
                        simp only [toInt64_small _ (show inAmt - fee - sumAmounts i.props < 2 ^ 63 by omega)]; omega
                      · simp [hpos] at ho
                  · rw [sumOuts_append, sumOuts_append, hps, ← hin]
                    by_cases hpos : inAmt - fee - sumAmounts i.props > 0
                    · simp only [hpos, ↓reduceIte, sumOuts, List.map_cons, List.map_nil, List.sum_cons, List.sum_nil]
                      rw [toInt64_small _ (by omega)]; omega
                    · simp only [hpos, ↓reduceIte, sumOuts, List.map_cons, List.map_nil, List.sum_cons, List.sum_nil]
                      omega

/-- anything satisfying `P16` pays every proposal exactly once: output `k` carries proposal `k`'s exact amount and script,
    for every position `k` of the proposal list (and position `#proposals` is the zero-value metadata output) -/
theorem each_proposal_paid_once (i : Inp) (tx : Tx) (h : P16 i (some tx)) (k : Nat) (p : Prp) (hk : i.props[k]? = some p) :
    ∃ s, p.script = some s ∧ tx.outs[k]? = some ⟨(p.amount : Int), s⟩ := by
  simp only [P16] at h
  cases hf : fixedOuts i with
  | none => simp [hf] at h
  | some fixed =>
    cases hr : i.rate2 with
    | none => simp [hf, hr] at h
    | some r2 =>
      cases hu : i.utxos with
      | none => simp [hf, hr, hu] at h
      | some us =>
        simp only [hf, hr, hu] at h
        obtain ⟨htake, _⟩ := h
        unfold fixedOuts at hf
        cases hm : i.props.mapM (fun p => p.script.map fun s => (⟨(p.amount : Int), s⟩ : TxOut)) with
        | none => simp [hm] at hf
        | some po =>
          cases hnd : i.cid.bind nullData with
          | none => simp [hm, hnd] at hf
          | some nd =>
            simp only [hm, hnd, Option.some.injEq] at hf
            obtain ⟨hlen, hall⟩ := payOuts_spec i.props po hm
            obtain ⟨s, hs, hpo⟩ := hall k p hk
            refine ⟨s, hs, ?_⟩
            have hklt : k < po.length := by
              rcases Nat.lt_or_ge k po.length with h' | h'
              · exact h'
              · rw [List.getElem?_eq_none h'] at hpo; cases hpo
            have : (tx.outs.take fixed.length)[k]? = some ⟨(p.amount : Int), s⟩ := by
              rw [htake, ← hf, List.getElem?_append_left hklt]; exact hpo
            rw [List.getElem?_take] at this
            split at this
            · exact this
            · cases this

/-- **no transaction when the UTXOs cannot cover amounts plus fee**: if no prefix of the listing covers the amounts plus
    the fee quoted for that many inputs, nothing satisfying `P16` is a transaction; in particular `rawTx` returns an error -/
theorem insufficient_funds_no_tx (i : Inp) (r2 : Nat) (us : List Utxo) (hr : i.rate2 = some r2) (hu : i.utxos = some us)
    (hamt : ∀ p ∈ i.props, p.amount ≤ 21 * 10 ^ 14)
    (hc : cannotCover i r2 us) (tx : Tx) : ¬ P16 i (some tx) := by
  intro h
  simp only [P16, hr, hu] at h
  cases hf : fixedOuts i with
  | none => simp [hf] at h
  | some fixed =>
    simp only [hf] at h
    obtain ⟨htake, hchg, hpre, hnn, hcons⟩ := h
    have hk : tx.ins.length ≤ us.length := by
      have := congrArg List.length hpre; simp only [List.length_take] at this; omega
    have hcov := hc tx.ins.length hk
    rw [← hpre] at hcov
    -- outputs sum to at least the amounts
    have hsplit : tx.outs = fixed ++ tx.outs.drop fixed.length := by
      conv => lhs; rw [← List.take_append_drop fixed.length tx.outs, htake]
    have hchange_nn : 0 ≤ sumOuts (tx.outs.drop fixed.length) := by
      generalize tx.outs.drop fixed.length = c at hchg
      match c, hchg with
      | [], _ => simp [sumOuts]
      | [o], hc' =>
        simp only [changeOk, Bool.and_eq_true, decide_eq_true_eq] at hc'
        simp only [sumOuts, List.map_cons, List.map_nil, List.sum_cons, List.sum_nil]; omega
      | _ :: _ :: _, hc' => simp [changeOk] at hc'
    have hfixedsum : sumOuts fixed = (sumAmounts i.props : Int) := by
      unfold fixedOuts at hf
      rw [← propOuts_eq i.props hamt] at hf
      cases hpo : propOuts i.props with
      | none => simp [hpo] at hf
      | some po =>
        cases hnd : i.cid.bind nullData with
        | none => simp [hpo, hnd] at hf
        | some nd =>
          simp only [hpo, hnd, Option.some.injEq] at hf
          rw [← hf, sumOuts_append, (propOuts_facts i.props po hamt hpo).2.1]
          simp [sumOuts]
    rw [hsplit, sumOuts_append, hfixedsum] at hcons
    omega

theorem rawTx_none_of_cannotCover (i : Inp) (hwf : WF i) (r2 : Nat) (us : List Utxo) (hr : i.rate2 = some r2)
    (hu : i.utxos = some us) (hc : cannotCover i r2 us) : rawTx i = none := by
  by_cases hcap : sumAmounts i.props > maxSat
  · simp [rawTx, hcap]
  have hamt : ∀ p ∈ i.props, p.amount ≤ 21 * 10 ^ 14 := fun p hp =>
    Nat.le_trans (amount_le_sumAmounts i.props p hp) (by unfold maxSat at hcap; omega)
  cases h : rawTx i with
  | none => rfl
  | some tx =>
    have := rawTx_P16 i hwf
    rw [h] at this
    exact absurd this (insufficient_funds_no_tx i r2 us hr hu hamt hc tx)

/-- the hypothesis `cannotCover` is satisfiable in the band between the amount and amount + fee: a 10 000-sat proposal, fee
    quote 1 240 for (1 input, 2 outputs), one UTXO of 10 500 sat — the total covers the amount but no prefix covers amount +
    fee, and `rawTx` refuses -/
example :
    let us : List Utxo := [⟨[97], 0, 10500, 1000, true⟩]
    let i : Inp := ⟨some 1, some 1, some [], [0x51], [⟨10000, some [0]⟩], some us⟩
    sumAmounts i.props ≤ sumValues us ∧ cannotCover i 1 us ∧ rawTx i = none := by
  intro us i
  have hc : cannotCover i 1 us := by
    intro k hk
    have hk' : k = 0 ∨ k = 1 := by simp [us] at hk; omega
    rcases hk' with rfl | rfl <;> decide
  exact ⟨by decide, hc, rawTx_none_of_cannotCover i (by decide) 1 us rfl rfl hc⟩

/-- an invalid recipient admits no transaction (any outcome satisfying `P16`, hence `rawTx`) -/
theorem invalid_recipient_no_tx (i : Inp) (p : Prp) (hp : p ∈ i.props) (hs : p.script = none) (tx : Tx) :
    ¬ P16 i (some tx) := by
  intro h
  have : fixedOuts i = none := by
    unfold fixedOuts
    rw [payOuts_none_of_invalid i.props p hp hs]
  simp [P16, this] at h

/-- **determinism of the service ordering.** Two listings of the same UTXO set (no outpoint twice), each put into *any*
    order consistent with the comparator (block time, txid, vout), give the same list. -/
theorem sorted_listing_unique (l₁ l₂ s₁ s₂ : List Utxo) (hp : l₁.Perm l₂) (hd : OutpointsDistinct l₁)
    (h1 : P16sort l₁ s₁) (h2 : P16sort l₂ s₂) : s₁ = s₂ := by
  obtain ⟨p1, o1⟩ := h1
  obtain ⟨p2, o2⟩ := h2
  have hperm : s₁.Perm s₂ := p1.trans (hp.trans p2.symm)
  refine List.Perm.eq_of_pairwise (le := fun a b => keyLe a b = true) ?_ o1 o2 hperm
  intro a b ha hb hab hba
  obtain ⟨_, ht, hv⟩ := keyLe_antisymm_key a b hab hba
  exact hd a (p1.mem_iff.1 ha) b (hp.mem_iff.2 (p2.mem_iff.1 hb)) ht hv

/-- the ordering never consults the `confirmed` flag: flipping it on either side changes no comparison.  Hence several
    unconfirmed outputs (block time 0) are ordered among themselves by txid, vout like any others, and
    `sorted_listing_unique` covers sets with any mixture of confirmed and unconfirmed outputs. -/
theorem keyLe_ignores_confirmed (a b : Utxo) (ca cb : Bool) :
    keyLe { a with confirmed := ca } { b with confirmed := cb } = keyLe a b := rfl

/-- the model's sort is such an ordering of the listing -/
theorem sortUtxos_P16sort (l : List Utxo) : P16sort l (sortUtxos l) :=
  ⟨List.mergeSort_perm l _, List.pairwise_mergeSort (fun a b c => keyLe_trans a b c) keyLe_total l⟩

/-- **same UTXO set and fee quotes ⇒ same transaction, whatever the listing order.** -/
theorem rawTx_listing_independent (i : Inp) (l₁ l₂ : List Utxo) (hp : l₁.Perm l₂) (hd : OutpointsDistinct l₁) :
    rawTx { i with utxos := some (sortUtxos l₁) } = rawTx { i with utxos := some (sortUtxos l₂) } := by
  rw [sorted_listing_unique l₁ l₂ _ _ hp hd (sortUtxos_P16sort l₁) (sortUtxos_P16sort l₂)]

/-- the comparator as found (block time, txid) does not determine the order: two different lists of the same two outputs
    of one transaction are both consistent with it -/
theorem as_found_order_ambiguous :
    let a : Utxo := ⟨[97], 0, 10, 1000, true⟩
    let b : Utxo := ⟨[97], 1, 20, 1000, true⟩
    [a, b].Pairwise (fun x y => keyLeAsFound x y = true) ∧ [b, a].Pairwise (fun x y => keyLeAsFound x y = true) ∧ [a, b] ≠ [b, a] := by
  decide

/-- three unconfirmed outputs (no block time) mixed with a confirmed one, listed in two different orders: one ordered list -/
example :
    let u1 : Utxo := ⟨[98], 2, 5, 0, false⟩
    let u2 : Utxo := ⟨[97], 1, 6, 0, false⟩
    let u3 : Utxo := ⟨[97], 0, 7, 0, false⟩
    let c  : Utxo := ⟨[96], 0, 8, 1000, true⟩
    OutpointsDistinct [u1, c, u2, u3] ∧ sortUtxos [u1, c, u2, u3] = [u3, u2, u1, c] ∧ sortUtxos [c, u3, u1, u2] = [u3, u2, u1, c] := by
  intro u1 u2 u3 c
  have hd1 : OutpointsDistinct [u1, c, u2, u3] := by decide
  have hd2 : OutpointsDistinct [c, u3, u1, u2] := by decide
  have hs1 : P16sort [u1, c, u2, u3] [u3, u2, u1, c] := by decide
  have hs2 : P16sort [c, u3, u1, u2] [u3, u2, u1, c] := by decide
  exact ⟨hd1, sorted_listing_unique _ _ _ _ (List.Perm.refl _) hd1 (sortUtxos_P16sort _) hs1,
    sorted_listing_unique _ _ _ _ (List.Perm.refl _) hd2 (sortUtxos_P16sort _) hs2⟩

/-- the message handler's division undoes the source's ×10^10 exactly (no wrap below 2^64·10^10) -/
theorem msgAmount_exact (amountBytes : Bytes) (d : Nat) (h : beToNat amountBytes = d * 10 ^ 10) (hd : d < M) :
    msgAmount amountBytes = some d := by
  unfold msgAmount
  rw [h, Nat.mul_div_cancel _ (by decide)]
  simp [hd]

/-! ### selection of the batch: each deposit at most once -/

section Selection

theorem lookup_cons (st : Store) (k k' : Key) (v : PStatus) :
    lookup ((k, v) :: st) k' = if k = k' then v else lookup st k' := by
  unfold lookup
  by_cases h : k = k' <;> simp [h]

/-- every selected proposal was executable in the store the loop started from, and its key differs from every key the
    store already holds as pending -/
theorem forExec_mem (st : Store) (ps sel : List BProp) (h : (forExec st ps).1 = some sel) :
    ∀ p ∈ sel, executable (lookup st p.key) = true := by
  induction ps generalizing st sel with
  | nil => simp only [forExec, Option.some.injEq] at h; subst h; simp
  | cons q qs ih =>
    unfold forExec at h
    cases hq : lookup st q.key <;> simp only [hq] at h
    case readErr => cases h
    case writeErr => cases h
    case pending => exact ih st sel h
    case executed => exact ih st sel h
    all_goals
      cases hr : (forExec ((q.key, .pending) :: st) qs).1 with
      | none => simp [hr] at h
      | some sel' =>
        simp only [hr, Option.map_some, Option.some.injEq] at h
        subst h
        intro p hp
        rcases List.mem_cons.1 hp with rfl | hp
        · simp [executable, hq]
        · have := ih _ sel' hr p hp
          rw [lookup_cons] at this
          by_cases hk : q.key = p.key
          · simp [hk, executable] at this
          · simpa [hk] using this

/-- **C16 (each deposit at most once per batch), all stores and batches.** Whatever the store holds and however often a
    deposit occurs in the batch, the selection contains no deposit twice, only deposits that were missing/failed, in batch
    order.  (A second copy later in the batch finds the pending mark of the first.) -/
theorem forExec_P16sel (st : Store) (ps sel : List BProp) (h : (forExec st ps).1 = some sel) : P16sel st ps sel := by
  refine ⟨?_, forExec_mem st ps sel h, ?_⟩
  · induction ps generalizing st sel with
    | nil => simp only [forExec, Option.some.injEq] at h; subst h; simp
    | cons q qs ih =>
      unfold forExec at h
      cases hq : lookup st q.key <;> simp only [hq] at h
      case readErr => cases h
      case writeErr => cases h
      case pending => exact ih st sel h
      case executed => exact ih st sel h
      all_goals
        cases hr : (forExec ((q.key, .pending) :: st) qs).1 with
        | none => simp [hr] at h
        | some sel' =>
          simp only [hr, Option.map_some, Option.some.injEq] at h
          subst h
          simp only [List.map_cons, List.nodup_cons]
          refine ⟨?_, ih _ sel' hr⟩
          intro hmem
          obtain ⟨p, hp, hk⟩ := List.mem_map.1 hmem
          have := forExec_mem _ qs sel' hr p hp
          rw [lookup_cons] at this
          simp [hk, executable] at this
  · induction ps generalizing st sel with
    | nil => simp only [forExec, Option.some.injEq] at h; subst h; simp
    | cons q qs ih =>
      unfold forExec at h
      cases hq : lookup st q.key <;> simp only [hq] at h
      case readErr => cases h
      case writeErr => cases h
      case pending => exact (ih st sel h).cons q
      case executed => exact (ih st sel h).cons q
      all_goals
        cases hr : (forExec ((q.key, .pending) :: st) qs).1 with
        | none => simp [hr] at h
        | some sel' =>
          simp only [hr, Option.map_some, Option.some.injEq] at h
          subst h
          exact (ih _ sel' hr).cons_cons q

/-- the same deposit three times in one batch (and one already executed): selected once; the transaction pays it once -/
example :
    let d (n a : Nat) : BProp := ⟨(1, 2, n), ⟨a, some [0]⟩⟩
    (forExec [((1, 2, 9), .executed)] [d 7 100, d 8 50, d 7 100, d 9 30, d 7 100]).1 = some [d 7 100, d 8 50] := by
  decide

end Selection

/-! ### wrap points (outside `WF`), stated rather than hidden -/

/-- amounts beyond the bitcoin supply (a single amount or the batch total above 21·10^14 — in particular everything at
    the int64 / uint64 boundaries) are refused: no transaction.  This is why `WF` needs no bound on the amounts. -/
theorem beyond_supply_refused (i : Inp) (h : sumAmounts i.props > maxSat) : rawTx i = none := by
  simp [rawTx, h]

/-- the message handler refuses what does not fit 64 bits instead of keeping the low 64 bits -/
theorem msgAmount_overflow (amountBytes : Bytes) (h : M ≤ beToNat amountBytes / 10 ^ 10) : msgAmount amountBytes = none := by
  unfold msgAmount
  simp [Nat.not_lt.2 h]

/-- with a UTXO value near 2^64 the running input total wraps: the model then builds a transaction violating P16 -/
theorem wrap_point_utxo :
    let i : Inp := ⟨some 5, some 5, some [], [0x51], [⟨10000, some [0]⟩], some [⟨[97], 0, 2 ^ 64 - 1, 1000, true⟩]⟩
    ¬ P16 i (rawTx i) := by
  decide

/-! ### non-vacuity -/

/-- one 10 000-sat proposal, fee rate 1 (quote 1 240 for 1 input / 2 outputs… here (1·180+2·34)·5 = 1 240):
    UTXO total 11 241 → change 1; 11 240 → no change; 11 239 → no transaction (as found: change −1) -/
example :
    let i (v : Nat) : Inp := ⟨some 1, some 1, some [], [0x51], [⟨10000, some [0]⟩], some [⟨[97], 0, v, 1000, true⟩]⟩
    WF (i 11241) ∧
    (rawTx (i 11241)).map (·.outs.map (·.value)) = some [10000, 0, 1] ∧
    (rawTx (i 11240)).map (·.outs.map (·.value)) = some [10000, 0] ∧
    rawTx (i 11239) = none ∧ rawTx (i 10000) = none := by
  refine ⟨by decide, by decide, by decide, by decide, by decide⟩

example : rawTx ⟨some 1, some 1, some [], [0x51], [⟨10000, none⟩], some [⟨[97], 0, 50000, 1000, true⟩]⟩ = none := by decide

end Property
end Sygma.C16
