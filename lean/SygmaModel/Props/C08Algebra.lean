/-
  C08 — the mathematics the threshold-signature libraries rely on, over an ABSTRACT field `F` (scalars) and `F`-module
  `G` (curve points, written additively; `B` the base point). These theorems are about the model of the libraries'
  algebra — Shamir sharing, refresh with zero-constant polynomials, the tweaked Schnorr equation — NOT about the code of
  threshlib / multi-party-sig, which is only exercised by runs (see checks/C08.json). Parity handling of BIP-340
  (negating shares when the tweaked key has odd y) is left to the library and checked on runs (op `tweak`).
-/
import Mathlib.LinearAlgebra.Lagrange
namespace Sygma.C08.Algebra
open Polynomial Finset

variable {F : Type*} [Field F] {G : Type*} [AddCommGroup G] [Module F G]
variable {ι : Type*} [DecidableEq ι]

/-- **subset independence.** Shares `f(v i)` of a polynomial of degree < |s| at pairwise distinct points: interpolating
    ANY such set `s` of share holders gives back `f`, in particular the secret `f(0)` -/
theorem shamir_reconstruct (s : Finset ι) (v : ι → F) (hv : Set.InjOn v s) (f : F[X]) (hdeg : f.degree < s.card) :
    (Lagrange.interpolate s v (fun i => f.eval (v i))).eval 0 = f.eval 0 := by
  rw [← Lagrange.eq_interpolate hv hdeg]

/-- two signing subsets of threshold+1 holders reconstruct the same secret -/
theorem shamir_subsets_agree (s s' : Finset ι) (v : ι → F) (hv : Set.InjOn v s) (hv' : Set.InjOn v s') (f : F[X])
    (hdeg : f.degree < s.card) (hdeg' : f.degree < s'.card) :
    (Lagrange.interpolate s v (fun i => f.eval (v i))).eval 0 =
      (Lagrange.interpolate s' v (fun i => f.eval (v i))).eval 0 := by
  rw [shamir_reconstruct s v hv f hdeg, shamir_reconstruct s' v hv' f hdeg']

/-- **refresh keeps the key.** Adding to every share the value of a polynomial `g` with `g(0) = 0` — of ANY degree
    (threshold change) over ANY committee (`v` may name new points) — leaves the secret, hence the public key -/
theorem refresh_keeps_key (f g : F[X]) (hg : g.eval 0 = 0) (B : G) :
    ((f + g).eval 0) • B = (f.eval 0) • B := by
  simp [hg]

/-- after a refresh with new threshold `t'`, any `t'+1` holders of refreshed shares reconstruct the OLD secret -/
theorem refresh_then_reconstruct (s : Finset ι) (v : ι → F) (hv : Set.InjOn v s) (f g : F[X]) (hg : g.eval 0 = 0)
    (hdeg : (f + g).degree < s.card) :
    (Lagrange.interpolate s v (fun i => (f + g).eval (v i))).eval 0 = f.eval 0 := by
  rw [shamir_reconstruct s v hv (f + g) hdeg]; simp [hg]

/-- why a party JOINING through a refresh has no valid share (known finding C08-frost-join): it starts from 0
    instead of `f(v new)`, so it ends with `g(v new)`, which is the share `(f+g)(v new)` only if `f(v new) = 0` -/
theorem joiner_share_wrong (f g : F[X]) (x : F) (h : f.eval x ≠ 0) : g.eval x ≠ (f + g).eval x := by
  simpa using h

/-- the Lagrange coefficients at 0 sum to one, so a tweak added to every share is added once to the secret -/
theorem tweak_aggregates (s : Finset ι) (v : ι → F) (hv : Set.InjOn v s) (hs : s.Nonempty) (x : ι → F) (τ : F) :
    ∑ i ∈ s, (Lagrange.basis s v i).eval 0 * (x i + τ) = (∑ i ∈ s, (Lagrange.basis s v i).eval 0 * x i) + τ := by
  have h1 := congrArg (Polynomial.eval 0) (Lagrange.sum_basis hv hs)
  rw [Polynomial.eval_finsetSum, Polynomial.eval_one] at h1
  simp_rw [mul_add]
  rw [Finset.sum_add_distrib, ← Finset.sum_mul, h1, one_mul]

/-- **Schnorr, BIP-340 shape.** With group nonce `R = k•B`, key `Y = x•B`, tweak `τ`, challenge `c` and response
    `z = k + c·(x + τ)` the verification equation `z•B = R + c•(Y + τ•B)` holds -/
theorem schnorr_tweaked_verifies (k x τ c : F) (B : G) :
    (k + c * (x + τ)) • B = k • B + c • (x • B + τ • B) := by
  rw [add_smul, mul_smul, add_smul]

/-- the aggregated response of signers using tweaked shares is the response for the tweaked key -/
theorem aggregated_response (s : Finset ι) (v : ι → F) (hv : Set.InjOn v s) (hs : s.Nonempty) (x kk : ι → F) (τ c : F)
    (B : G) :
    (∑ i ∈ s, (kk i + c * ((Lagrange.basis s v i).eval 0 * (x i + τ)))) • B =
      (∑ i ∈ s, kk i) • B + c • ((∑ i ∈ s, (Lagrange.basis s v i).eval 0 * x i) • B + τ • B) := by
  rw [Finset.sum_add_distrib, ← Finset.mul_sum, tweak_aggregates s v hv hs x τ]
  exact schnorr_tweaked_verifies _ _ _ _ _

/-- non-vacuity: the hypotheses are satisfiable (ℚ, three holders at 1,2,3, a line through secret 5) -/
example : (Lagrange.interpolate ({0, 1} : Finset (Fin 3)) (fun i => ((i : ℕ) : ℚ) + 1)
    (fun i => (C 5 + C 2 * X : ℚ[X]).eval (((i : ℕ) : ℚ) + 1))).eval 0 = 5 := by
  have hv : Set.InjOn (fun i : Fin 3 => ((i : ℕ) : ℚ) + 1) (({0, 1} : Finset (Fin 3)) : Set (Fin 3)) := by
    intro a _ b _ h
    have : ((a : ℕ) : ℚ) = (b : ℕ) := by simpa using h
    exact Fin.ext (by exact_mod_cast this)
  have hd : (C 5 + C 2 * X : ℚ[X]).degree < ({0, 1} : Finset (Fin 3)).card := by
    have : (C 5 + C 2 * X : ℚ[X]).degree ≤ 1 := by
      compute_degree
    exact lt_of_le_of_lt this (by decide)
  rw [shamir_reconstruct _ _ hv _ hd]; simp

end Sygma.C08.Algebra
