/-
  C08 — the mathematics the threshold-signature libraries rely on, over an ABSTRACT field `F` (scalars) and `F`-module
  `G` (curve points, written additively; `B` the base point). These theorems are about the model of the libraries'
  algebra — Shamir sharing, refresh with zero-constant polynomials (FROST; cannot lower a threshold), resharing with freshly dealt
  polynomials (ECDSA; any new threshold), the tweaked Schnorr equation — NOT about the code of
  threshlib / multi-party-sig, which is only exercised by runs (see checks/C08.json). Parity handling of BIP-340
  (negating shares when the tweaked key has odd y) is left to the library and checked on runs (op `tweak`).
-/
import Mathlib.LinearAlgebra.Lagrange
namespace Sygma.C08.Algebra
open Polynomial Finset

variable {F : Type*} [Field F] {G : Type*} [AddCommGroup G] [Module F G]
variable {ι : Type*} [DecidableEq ι]

/-- **subset independence.** Shares `f(v i)` of a polynomial of degree < |s| at pairwise distinct points: interpolating
    ANY such set `s` of share holders gives back `f`, in particular the secret `f(0)` -/
theorem shamir_reconstruct (s : Finset ι) (v : ι → F) (hv : Set.InjOn v s) (f : F[X]) (hdeg : f.degree < s.card) :
    (Lagrange.interpolate s v (fun i => f.eval (v i))).eval 0 = f.eval 0 := by
  rw [← Lagrange.eq_interpolate hv hdeg]

/-- two signing subsets of threshold+1 holders reconstruct the same secret -/
theorem shamir_subsets_agree (s s' : Finset ι) (v : ι → F) (hv : Set.InjOn v s) (hv' : Set.InjOn v s') (f : F[X])
    (hdeg : f.degree < s.card) (hdeg' : f.degree < s'.card) :
    (Lagrange.interpolate s v (fun i => f.eval (v i))).eval 0 =
      (Lagrange.interpolate s' v (fun i => f.eval (v i))).eval 0 := by
  rw [shamir_reconstruct s v hv f hdeg, shamir_reconstruct s' v hv' f hdeg']

/-- **refresh by zero-constant polynomials keeps the key** (the FROST refresh of multi-party-sig: every share gets
    `g(v i)` added, `g(0) = 0`): the secret, hence the public key, is unchanged — for `g` of any degree -/
theorem refresh_keeps_key (f g : F[X]) (hg : g.eval 0 = 0) (B : G) :
    ((f + g).eval 0) • B = (f.eval 0) • B := by
  simp [hg]

/-- … and a set of holders of refreshed shares reconstructs the OLD secret **provided it is larger than BOTH degrees**
    (`max (deg f) (deg g) < |s|`). With `deg g = t′` this covers RAISING the threshold (`t′ ≥ deg f`, any `t′+1`
    holders) and keeping it; it does NOT cover lowering it: see `zero_refresh_cannot_lower` -/
theorem refresh_then_reconstruct (s : Finset ι) (v : ι → F) (hv : Set.InjOn v s) (f g : F[X]) (hg : g.eval 0 = 0)
    (hf : f.degree < s.card) (hgd : g.degree < s.card) :
    (Lagrange.interpolate s v (fun i => (f + g).eval (v i))).eval 0 = f.eval 0 := by
  have hdeg : (f + g).degree < s.card := lt_of_le_of_lt (Polynomial.degree_add_le f g) (max_lt hf hgd)
  rw [shamir_reconstruct s v hv (f + g) hdeg]; simp [hg]

/-- a zero-constant refresh with a polynomial of LOWER degree leaves the sharing polynomial at the old degree: the
    refreshed shares still need `deg f + 1` holders, whatever new threshold is written next to them -/
theorem zero_refresh_cannot_lower (f g : F[X]) (h : g.degree < f.degree) : (f + g).degree = f.degree :=
  Polynomial.degree_add_eq_left_of_degree_lt h

/-- **resharing (threshlib's ECDSA resharing): any new threshold, raised or lowered, any new committee.** Every old
    holder `i ∈ s` deals a fresh polynomial `h i` whose constant term is its Lagrange-weighted share
    `λ_i · f(v i)`; the new sharing polynomial is `∑ h i`. Its secret is the old one, whatever the degrees of the
    `h i` are (they set the NEW threshold) -/
theorem reshare_keeps_secret (s : Finset ι) (v : ι → F) (hv : Set.InjOn v s) (f : F[X]) (hf : f.degree < s.card)
    (h : ι → F[X]) (hh : ∀ i ∈ s, (h i).eval 0 = (Lagrange.basis s v i).eval 0 * f.eval (v i)) :
    (∑ i ∈ s, h i).eval 0 = f.eval 0 := by
  rw [Polynomial.eval_finsetSum, Finset.sum_congr rfl hh, ← shamir_reconstruct s v hv f hf,
    Lagrange.interpolate_apply, Polynomial.eval_finsetSum]
  refine Finset.sum_congr rfl fun i _ => ?_
  simp [mul_comm]

/-- … so any set `s'` of NEW holders (at points `w`) larger than the degree of the new polynomial reconstructs the
    old secret: `|s'|` may be smaller (threshold lowered) or larger (raised) than `|s|` -/
theorem reshare_then_reconstruct {κ : Type*} [DecidableEq κ] (s : Finset ι) (v : ι → F) (hv : Set.InjOn v s) (f : F[X])
    (hf : f.degree < s.card) (h : ι → F[X])
    (hh : ∀ i ∈ s, (h i).eval 0 = (Lagrange.basis s v i).eval 0 * f.eval (v i))
    (s' : Finset κ) (w : κ → F) (hw : Set.InjOn w s') (hdeg : (∑ i ∈ s, h i).degree < s'.card) :
    (Lagrange.interpolate s' w (fun j => (∑ i ∈ s, h i).eval (w j))).eval 0 = f.eval 0 := by
  rw [shamir_reconstruct s' w hw _ hdeg, reshare_keeps_secret s v hv f hf h hh]

/-- why a party JOINING through a refresh has no valid share (known finding C08-frost-join): it starts from 0
    instead of `f(v new)`, so it ends with `g(v new)`, which is the share `(f+g)(v new)` only if `f(v new) = 0` -/
theorem joiner_share_wrong (f g : F[X]) (x : F) (h : f.eval x ≠ 0) : g.eval x ≠ (f + g).eval x := by
  simpa using h

/-- the Lagrange coefficients at 0 sum to one, so a tweak added to every share is added once to the secret -/
theorem tweak_aggregates (s : Finset ι) (v : ι → F) (hv : Set.InjOn v s) (hs : s.Nonempty) (x : ι → F) (τ : F) :
    ∑ i ∈ s, (Lagrange.basis s v i).eval 0 * (x i + τ) = (∑ i ∈ s, (Lagrange.basis s v i).eval 0 * x i) + τ := by
  have h1 := congrArg (Polynomial.eval 0) (Lagrange.sum_basis hv hs)
  rw [Polynomial.eval_finsetSum, Polynomial.eval_one] at h1
  simp_rw [mul_add]
  rw [Finset.sum_add_distrib, ← Finset.sum_mul, h1, one_mul]

/-- **Schnorr, BIP-340 shape.** With group nonce `R = k•B`, key `Y = x•B`, tweak `τ`, challenge `c` and response
    `z = k + c·(x + τ)` the verification equation `z•B = R + c•(Y + τ•B)` holds -/
theorem schnorr_tweaked_verifies (k x τ c : F) (B : G) :
    (k + c * (x + τ)) • B = k • B + c • (x • B + τ • B) := by
  rw [add_smul, mul_smul, add_smul]

/-- the aggregated response of signers using tweaked shares is the response for the tweaked key -/
theorem aggregated_response (s : Finset ι) (v : ι → F) (hv : Set.InjOn v s) (hs : s.Nonempty) (x kk : ι → F) (τ c : F)
    (B : G) :
    (∑ i ∈ s, (kk i + c * ((Lagrange.basis s v i).eval 0 * (x i + τ)))) • B =
      (∑ i ∈ s, kk i) • B + c • ((∑ i ∈ s, (Lagrange.basis s v i).eval 0 * x i) • B + τ • B) := by
  rw [Finset.sum_add_distrib, ← Finset.mul_sum, tweak_aggregates s v hv hs x τ]
  exact schnorr_tweaked_verifies _ _ _ _ _

/-- non-vacuity: the hypotheses are satisfiable (ℚ, three holders at 1,2,3, a line through secret 5) -/
example : (Lagrange.interpolate ({0, 1} : Finset (Fin 3)) (fun i => ((i : ℕ) : ℚ) + 1)
    (fun i => (C 5 + C 2 * X : ℚ[X]).eval (((i : ℕ) : ℚ) + 1))).eval 0 = 5 := by
  have hv : Set.InjOn (fun i : Fin 3 => ((i : ℕ) : ℚ) + 1) (({0, 1} : Finset (Fin 3)) : Set (Fin 3)) := by
    intro a _ b _ h
    have : ((a : ℕ) : ℚ) = (b : ℕ) := by simpa using h
    exact Fin.ext (by exact_mod_cast this)
  have hd : (C 5 + C 2 * X : ℚ[X]).degree < ({0, 1} : Finset (Fin 3)).card := by
    have : (C 5 + C 2 * X : ℚ[X]).degree ≤ 1 := by
      compute_degree
    exact lt_of_le_of_lt this (by decide)
  rw [shamir_reconstruct _ _ hv _ hd]; simp

/-- RAISING by a zero-constant refresh: `f = 5 + 2X` (threshold 1), `g = X²` (new threshold 2): the three holders at
    1, 2, 3 reconstruct 5 from the refreshed shares — hypotheses of `refresh_then_reconstruct` met with |s| = 3 -/
example : (Lagrange.interpolate (Finset.univ : Finset (Fin 3)) (fun i => ((i : ℕ) : ℚ) + 1)
    (fun i => ((C 5 + C 2 * X : ℚ[X]) + X ^ 2).eval (((i : ℕ) : ℚ) + 1))).eval 0 = (C 5 + C 2 * X : ℚ[X]).eval 0 := by
  have hv : Set.InjOn (fun i : Fin 3 => ((i : ℕ) : ℚ) + 1) ((Finset.univ : Finset (Fin 3)) : Set (Fin 3)) := by
    intro a _ b _ h
    have : ((a : ℕ) : ℚ) = (b : ℕ) := by simpa using h
    exact Fin.ext (by exact_mod_cast this)
  refine refresh_then_reconstruct _ _ hv _ _ (by simp) ?_ ?_
  · exact lt_of_le_of_lt (by compute_degree : (C 5 + C 2 * X : ℚ[X]).degree ≤ 1) (by decide)
  · exact lt_of_le_of_lt (by compute_degree : (X ^ 2 : ℚ[X]).degree ≤ 2) (by decide)

/-- LOWERING needs a resharing: a zero-constant refresh of `f = 5 + 2X + X²` with `g = 3X` stays at degree 2 -/
example : ((C 5 + C 2 * X + X ^ 2 : ℚ[X]) + C 3 * X).degree = (C 5 + C 2 * X + X ^ 2 : ℚ[X]).degree := by
  apply zero_refresh_cannot_lower
  have h2 : (C 5 + C 2 * X + X ^ 2 : ℚ[X]).degree = 2 := by compute_degree!
  rw [h2]
  exact lt_of_le_of_lt (by compute_degree : (C 3 * X : ℚ[X]).degree ≤ 1) (by decide)

/-- LOWERING by a resharing: a secret shared with a polynomial of ANY degree `< |s|` (say threshold 2 among three
    holders) is re-dealt with polynomials of degree ≤ 1; TWO new holders (at 1 and 2) then reconstruct it — the hypotheses
    of `reshare_then_reconstruct` are met with `|s'| = 2 < |s| = 3` -/
example (f : ℚ[X]) (hf : f.degree < (Finset.univ : Finset (Fin 3)).card) (c : Fin 3 → ℚ) :
    let v : Fin 3 → ℚ := fun i => ((i : ℕ) : ℚ) + 1
    let h : Fin 3 → ℚ[X] := fun i => C ((Lagrange.basis Finset.univ v i).eval 0 * f.eval (v i)) + C (c i) * X
    (Lagrange.interpolate (Finset.univ : Finset (Fin 2)) (fun j => ((j : ℕ) : ℚ) + 1)
      (fun j => (∑ i, h i).eval (((j : ℕ) : ℚ) + 1))).eval 0 = f.eval 0 := by
  intro v h
  have hv : Set.InjOn v ((Finset.univ : Finset (Fin 3)) : Set (Fin 3)) := by
    intro a _ b _ hab
    have : ((a : ℕ) : ℚ) = (b : ℕ) := by simpa [v] using hab
    exact Fin.ext (by exact_mod_cast this)
  have hw : Set.InjOn (fun j : Fin 2 => ((j : ℕ) : ℚ) + 1) ((Finset.univ : Finset (Fin 2)) : Set (Fin 2)) := by
    intro a _ b _ hab
    have : ((a : ℕ) : ℚ) = (b : ℕ) := by simpa using hab
    exact Fin.ext (by exact_mod_cast this)
  refine reshare_then_reconstruct Finset.univ v hv f hf h (fun i _ => by simp [h]) Finset.univ _ hw ?_
  have : (∑ i, h i).degree ≤ 1 := by
    refine (Polynomial.degree_sum_le _ _).trans (Finset.sup_le fun i _ => ?_)
    simp only [h]; compute_degree
  exact lt_of_le_of_lt this (by decide)

end Sygma.C08.Algebra
