/-
  C02 — the signed digest is the bridge's EIP-712 commitment to the exact batch; the submitted signature is r‖s‖v.

  WHAT IS MODELLED (Model/C02.lean): `chains.ProposalsHash` as go-ethereum's generic EIP-712 algorithm
  (`Types` table lookup, `Dependencies`/`EncodeType`, `EncodeData`, `EncodePrimitiveValue`, `Domain.Map()`) run on the
  table and maps the Go code builds; `BridgeContract.ProposalsHash` / `Pallet.ProposalsHash` (constants, `Int64()`
  truncation of the chain id); the signature assembly of `executeBatch` / `executeProposal`.
  WHAT IS PROVED, for an ARBITRARY hash function `H` (Keccak is never unfolded by the kernel):
    * `model_eq_spec`         the modelled Go computation equals the contract-side closed formula `Spec.digestV`
                              for every batch (0..n proposals, any data), every chain id in [0, 2^256), every 20-byte address;
    * `digest_binding` (+ corollaries `digest_changes`, `swap_changes_digest`) a genuine reduction: two well-formed (chain id,
                              address, ordered batch) triples with the same digest are equal — or two DIFFERENT byte strings with
                              the same hash are EXHIBITED among the explicitly listed pre-images of the two computations
                              (`hashedBy`). (The earlier form `… ∨ ∃ a b, a ≠ b ∧ H a = H b` was vacuous: any function from byte
                              strings to 32 bytes has such a pair.) An `example` takes the collision branch for a weak hash;
    * `keccak_binding`        the same instantiated with the executable Lean Keccak-256 (its 32-byte output length is proved);
    * `map_order_irrelevant`  the per-proposal hash does not depend on the iteration order of the Go map;
    * `negative_chain_err`, `missing_version_err`, `bad_address_err`, `evm_chain_wrap_point`   excluded points: what happens there;
    * `watch_submits_hashed`  DEFINITIONAL (unfolds `watch`): the modelled watch loop submits the batch it was given; the content is in the
                              correspondence ops `watchsig` / `execwatch` / `execsign`, which run the real loop and the real Execute;
    * `sig_layout` (DEFINITIONAL: unfolds `sigBytes`), `sig_ok`, `sig_ok_nat`  the submitted signature is LeftPad32(r) ‖ LeftPad32(s) ‖ (v+27), 65 bytes, for every r, s of at most
                              32 bytes (short ones included) and every recovery byte; v+27 ∈ {27,28} iff v ∈ {0,1}.
  ASSUMED / NOT PROVED: collision resistance of Keccak-256 (the reduction ends in `ExCollision H (hashedBy …) (hashedBy …)`); that the Lean Keccak-256
  equals go-ethereum's (checked on every run by the correspondence op `keccak`, lengths 0..300 and random long inputs);
  the transcription of Bridge.sol's type strings / name / version into `Spec`; `hexutil.Encode`∘`Decode` and
  `Address.Hex`∘`HexToAddress` round trips (modelled as identities, exercised by the correspondence); that ECDSA recovery of
  the 65 bytes yields the MPC signer is secp256k1 mathematics and NOT modelled (labelled test op `recover`).
-/
import SygmaModel.Model.C02
namespace Sygma.C02

section Helpers

theorem et_domain : encodeType typesTable "EIP712Domain" = Spec.typeDomain := by decide
theorem et_proposal : encodeType typesTable "Proposal" = Spec.typeProposal := by decide
theorem et_proposals : encodeType typesTable "Proposals" = Spec.typeProposals := by decide

def fDomain : List Field := [⟨"name", "string"⟩, ⟨"version", "string"⟩, ⟨"chainId", "uint256"⟩, ⟨"verifyingContract", "address"⟩]
def fProposal : List Field := [⟨"originDomainID", "uint8"⟩, ⟨"depositNonce", "uint64"⟩, ⟨"resourceID", "bytes32"⟩, ⟨"data", "bytes"⟩]
def fProposals : List Field := [⟨"proposals", "Proposal[]"⟩]
theorem lk_domain : typesTable.lookup "EIP712Domain" = some fDomain := by decide
theorem lk_proposal : typesTable.lookup "Proposal" = some fProposal := by decide
theorem lk_proposals : typesTable.lookup "Proposals" = some fProposals := by decide

theorem rightPad_full (b : Bytes) (h : b.length = 32) : rightPad 32 b = b := by simp [rightPad, h]

theorem hashFlat_prop (H : Hash) (p : Prop') (hp : p.WF) :
    hashFlat H typesTable "Proposal" (propMap p) = some (Spec.hp H p) := by
  obtain ⟨h1, h2, h3⟩ := hp
  unfold hashFlat
  rw [lk_proposal, et_proposal]
  simp [fProposal, List.lookup, propMap, encFields, parsePT, Spec.hp, encodePrim, h1, h2, h3, rightPad_full]

theorem hashAll_props (H : Hash) (ps : List Prop') (hp : ∀ p ∈ ps, p.WF) :
    hashAll H typesTable "Proposal" (ps.map propMap) = some (ps.map (Spec.hp H)) := by
  induction ps with
  | nil => rfl
  | cons p ps ih =>
    simp only [List.map_cons, hashAll]
    rw [hashFlat_prop H p (hp p (by simp)), ih (fun q hq => hp q (by simp [hq]))]

theorem hashMsg_props (H : Hash) (ps : List Prop') (hp : ∀ p ∈ ps, p.WF) :
    hashMsg H typesTable primaryType [("proposals", .structs (ps.map propMap))] = some (Spec.structHash H ps) := by
  unfold hashMsg primaryType
  rw [lk_proposals, et_proposals]
  have e1 : isArrayT "Proposal[]" = true := by decide
  have e2 : elemT "Proposal[]" = "Proposal" := by decide
  simp [fProposals, encMsgFields, List.lookup, e1, e2, hashAll_props H ps hp, Spec.structHash]

theorem hashFlat_domain (H : Hash) (chain : Nat) (hc : chain < 2 ^ 256) (addr : Bytes) (ha : addr.length = 20)
    (ver : String) (hv : ver ≠ "") :
    hashFlat H typesTable "EIP712Domain" (domainMap chain false (some addr) ver) = some (Spec.domSep H ver chain addr) := by
  unfold hashFlat
  rw [lk_domain, et_domain]
  simp [fDomain, List.lookup, domainMap, encFields, parsePT, Spec.domSep, encodePrim, hc, ha, hv, domainName, Spec.name]

/-- concatenations of 32-byte chunks are equal only if the chunk lists are -/
theorem flatten_inj32 : ∀ (xs ys : List Bytes),
    (∀ x ∈ xs, x.length = 32) → (∀ y ∈ ys, y.length = 32) → xs.flatten = ys.flatten → xs = ys
  | [], [], _, _, _ => rfl
  | [], y :: ys, _, hy, h => by
      have := hy y (by simp)
      have hl := congrArg List.length h
      simp only [List.flatten_nil, List.flatten_cons, List.length_nil, List.length_append] at hl; omega
  | x :: xs, [], hx, _, h => by
      have := hx x (by simp)
      have hl := congrArg List.length h
      simp only [List.flatten_nil, List.flatten_cons, List.length_nil, List.length_append] at hl; omega
  | x :: xs, y :: ys, hx, hy, h => by
      simp only [List.flatten_cons] at h
      have hxl := hx x (by simp); have hyl := hy y (by simp)
      obtain ⟨h1, h2⟩ := List.append_inj h (by omega)
      have := flatten_inj32 xs ys (fun a ha => hx a (by simp [ha])) (fun a ha => hy a (by simp [ha])) h2
      simp [h1, this]

theorem lt256_of_lt {n k : Nat} (h : n < 2 ^ k) (hk : k ≤ 256) : n < 2 ^ 256 :=
  Nat.lt_of_lt_of_le h (Nat.pow_le_pow_right (by decide) hk)

/-- the hashes of the specification are `H` of the pre-images listed by `hashedBy` (definitional) -/
theorem hp_eq (H : Hash) (p : Prop') : Spec.hp H p = H (hpPre H p) := rfl
theorem domSep_eq (H : Hash) (v c a) : Spec.domSep H v c a = H (domPre H v c a) := rfl
theorem structHash_eq (H : Hash) (ps) : Spec.structHash H ps = H (structPre H ps) := rfl
theorem digestV_eq (H : Hash) (v c a ps) : Spec.digestV H v c a ps = H (topPre H v c a ps) := rfl

theorem exc_mono {H : Hash} {X X' Y Y' : List Bytes} (hx : ∀ a ∈ X, a ∈ X') (hy : ∀ b ∈ Y, b ∈ Y')
    (h : ExCollision H X Y) : ExCollision H X' Y' := by
  obtain ⟨a, ha, b, hb, hne, he⟩ := h
  exact ⟨a, hx a ha, b, hy b hb, hne, he⟩

/-- one hash application: equal outputs come from equal pre-images, or the two pre-images are a collision -/
theorem step {H : Hash} {X Y : List Bytes} (a b : Bytes) (ha : a ∈ X) (hb : b ∈ Y) (h : H a = H b) :
    a = b ∨ ExCollision H X Y := by
  by_cases e : a = b
  · exact Or.inl e
  · exact Or.inr ⟨a, ha, b, hb, e, h⟩

theorem hp_binding (H : Hash) (p q : Prop') (hp' : p.WF) (hq : q.WF) (h : Spec.hp H p = Spec.hp H q) :
    p = q ∨ ExCollision H [hpPre H p, p.data] [hpPre H q, q.data] := by
  rcases step (X := [hpPre H p, p.data]) (Y := [hpPre H q, q.data]) (hpPre H p) (hpPre H q) (by simp) (by simp) h with h0 | hc
  · unfold hpPre at h0
    simp only [List.append_assoc] at h0
    obtain ⟨_, h1⟩ := List.append_inj h0 rfl
    have lo := pad32_length p.origin (lt256_of_lt hp'.1 (by decide))
    have lo' := pad32_length q.origin (lt256_of_lt hq.1 (by decide))
    have ln := pad32_length p.nonce (lt256_of_lt hp'.2.1 (by decide))
    have ln' := pad32_length q.nonce (lt256_of_lt hq.2.1 (by decide))
    obtain ⟨ho, h2⟩ := List.append_inj h1 (by rw [lo, lo'])
    obtain ⟨hn, h3⟩ := List.append_inj h2 (by rw [ln, ln'])
    obtain ⟨hr, h4⟩ := List.append_inj h3 (by rw [hp'.2.2, hq.2.2])
    rcases step (X := [hpPre H p, p.data]) (Y := [hpPre H q, q.data]) p.data q.data (by simp) (by simp) h4 with hd | hc
    · left
      have ho' := pad32_inj _ _ ho
      have hn' := pad32_inj _ _ hn
      cases p; cases q; simp_all
    · exact Or.inr hc
  · exact Or.inr hc

theorem map_hp_binding (H : Hash) : ∀ (ps qs : List Prop'), (∀ p ∈ ps, p.WF) → (∀ q ∈ qs, q.WF) →
    ps.map (Spec.hp H) = qs.map (Spec.hp H) → ps = qs ∨ ExCollision H (propPres H ps) (propPres H qs) := by
  intro ps
  induction ps with
  | nil => intro qs _ _ hm; cases qs <;> simp_all
  | cons p ps ih =>
    intro qs hps hqs hm
    cases qs with
    | nil => simp at hm
    | cons q qs =>
      simp only [List.map_cons, List.cons.injEq] at hm
      rcases hp_binding H p q (hps p (by simp)) (hqs q (by simp)) hm.1 with hpq | hc
      · rcases ih qs (fun a ha => hps a (by simp [ha])) (fun a ha => hqs a (by simp [ha])) hm.2 with ht | hc
        · left; rw [hpq, ht]
        · right
          exact exc_mono (by intro a ha; simp [propPres] at ha ⊢; exact Or.inr (Or.inr ha))
            (by intro a ha; simp [propPres] at ha ⊢; exact Or.inr (Or.inr ha)) hc
      · right
        exact exc_mono (by intro a ha; simp [propPres] at ha ⊢; rcases ha with h | h <;> simp [h])
          (by intro a ha; simp [propPres] at ha ⊢; rcases ha with h | h <;> simp [h]) hc

theorem weakH_len (x : Bytes) : (weakH x).length = 32 := by simp [weakH]

theorem weakH_prefix (u v : Bytes) (h : u.length = 32) : weakH (u ++ v) = u := by
  simp [weakH, h]


theorem lookup_swap {β : Type} (x y : String × β) (l : List (String × β)) (k : String) (hne : x.1 ≠ y.1) :
    (y :: x :: l).lookup k = (x :: y :: l).lookup k := by
  obtain ⟨xk, xv⟩ := x
  obtain ⟨yk, yv⟩ := y
  simp only [List.lookup]
  cases hb1 : (k == yk) <;> cases hb2 : (k == xk) <;> simp only []
  have e1 : k = yk := by simpa using hb1
  have e2 : k = xk := by simpa using hb2
  exact absurd (e2.symm.trans e1) hne

theorem lookup_perm {β : Type} {l₁ l₂ : List (String × β)} (h : l₁.Perm l₂)
    (nd : (l₁.map Prod.fst).Nodup) (k : String) : l₁.lookup k = l₂.lookup k := by
  induction h with
  | nil => rfl
  | cons x _ ih =>
    simp only [List.map_cons, List.nodup_cons] at nd
    obtain ⟨xk, xv⟩ := x
    simp only [List.lookup, ih nd.2]
  | swap x y l =>
    simp only [List.map_cons, List.nodup_cons, List.mem_cons, not_or] at nd
    exact lookup_swap x y l k (fun e => nd.1.1 e.symm)
  | trans h12 _ ih1 ih2 =>
    have nd2 := ((h12.map Prod.fst).nodup_iff).1 nd
    rw [ih1 nd, ih2 nd2]

theorem encFields_congr (H : Hash) (m₁ m₂ : Flat) (fs : List Field)
    (h : ∀ k, m₁.lookup k = m₂.lookup k) : encFields H m₁ fs = encFields H m₂ fs := by
  induction fs with
  | nil => rfl
  | cons f fs ih => simp only [encFields, h, ih]

theorem u8_add27 (v : UInt8) : ((v = 0 ∨ v = 1) ↔ (v + 27 = 27 ∨ v + 27 = 28)) := by
  constructor
  · rintro (h | h) <;> subst h <;> decide
  · intro h
    have e1 : v + 27 = 27 → v = 0 := by
      intro e
      have : v + 27 = 0 + 27 := by simpa using e
      exact (UInt8.add_left_inj 27).mp this
    have e2 : v + 27 = 28 → v = 1 := by
      intro e
      have : v + 27 = 1 + 27 := by simpa using e
      exact (UInt8.add_left_inj 27).mp this
    rcases h with h | h
    · exact Or.inl (e1 h)
    · exact Or.inr (e2 h)

end Helpers

section Property

/-- the inputs the statement quantifies over -/
structure BatchWF (chain : Nat) (addr : Bytes) (ps : List Prop') : Prop where
  chain : chain < 2 ^ 256
  addr  : addr.length = 20
  props : ∀ p ∈ ps, p.WF

/-- **C02-a (the digest is the contract's).** For every hash function, every batch of well-formed proposals (any number,
    any data), every chain id in [0, 2^256) — in particular every non-negative int64 —, every 20-byte contract address and
    every non-empty version string, the value computed by the modelled `chains.ProposalsHash` (go-ethereum's generic
    EIP-712 machinery over the repository's type table) is the closed formula the bridge contract evaluates. -/
theorem model_eq_spec (H : Hash) (ps : List Prop') (chain : Nat) (addr : Bytes) (ver : String)
    (hw : BatchWF chain addr ps) (hv : ver ≠ "") :
    proposalsHash H ps (chain : Int) false (some addr) ver = some (Spec.digestV H ver chain addr ps) := by
  unfold proposalsHash
  rw [hashFlat_domain H chain hw.chain addr hw.addr ver hv, hashMsg_props H ps hw.props]
  rfl

/-- the EVM and Substrate entry points use the contract's version "3.1.0"; with a chain id representable as a
    non-negative int64 they return the contract's digest -/
theorem evm_eq_spec (H : Hash) (ps : List Prop') (chain : Nat) (addr : Bytes) (hc : chain < 2 ^ 63)
    (ha : addr.length = 20) (hp : ∀ p ∈ ps, p.WF) :
    evmProposalsHash H ps chain addr = some (Spec.digest H chain addr ps) := by
  have e : toInt64 (chain : Int) = (chain : Int) := by unfold toInt64; omega
  unfold evmProposalsHash Spec.digest
  rw [e]
  exact model_eq_spec H ps chain addr _ ⟨lt256_of_lt hc (by decide), ha, hp⟩ (by decide)

theorem pallet_eq_spec (H : Hash) (ps : List Prop') (chain : Nat) (hc : chain < 2 ^ 63) (hp : ∀ p ∈ ps, p.WF) :
    palletProposalsHash H ps chain = some (Spec.digest H chain palletContract ps) := by
  have e : toInt64 (chain : Int) = (chain : Int) := by unfold toInt64; omega
  unfold palletProposalsHash Spec.digest
  rw [e]
  exact model_eq_spec H ps chain palletContract _ ⟨lt256_of_lt hc (by decide), by decide, hp⟩ (by decide)

/-- **C02-b (binding, as a reduction).** For an arbitrary hash function with 32-byte outputs: if two well-formed
    (chain id, contract address, ORDERED batch) triples have the same digest, then they are equal — or two DIFFERENT byte
    strings with the same hash are exhibited among the pre-images the two digest computations hand to `H`
    (`hashedBy`: explicitly computable, at most 4 + 2·(batch length) strings per side). The proof never appeals to global
    injectivity of `H`: at each hash application it compares the two pre-images (decidable) and either continues with
    their equality or returns them as the collision.
    Hypotheses restricting the quantifier: `BatchWF` (chain id < 2^256, 20-byte address, origin < 2^8, nonce < 2^64,
    32-byte resource id) on both sides; the same version string on both sides; `H` has 32-byte outputs. -/
theorem digest_binding (H : Hash) (hlen : ∀ x, (H x).length = 32) (ver : String)
    (c c' : Nat) (a a' : Bytes) (ps ps' : List Prop') (hx : BatchWF c a ps) (hy : BatchWF c' a' ps')
    (h : Spec.digestV H ver c a ps = Spec.digestV H ver c' a' ps') :
    (c = c' ∧ a = a' ∧ ps = ps') ∨ ExCollision H (hashedBy H ver c a ps) (hashedBy H ver c' a' ps') := by
  have mX : ∀ z ∈ propPres H ps, z ∈ hashedBy H ver c a ps := by intro z hz; simp [hashedBy, hz]
  have mY : ∀ z ∈ propPres H ps', z ∈ hashedBy H ver c' a' ps' := by intro z hz; simp [hashedBy, hz]
  rcases step (X := hashedBy H ver c a ps) (Y := hashedBy H ver c' a' ps') (topPre H ver c a ps) (topPre H ver c' a' ps')
    (by simp [hashedBy]) (by simp [hashedBy]) h with h0 | hc
  · unfold topPre at h0
    simp only [List.cons_append, List.nil_append, List.cons.injEq, true_and] at h0
    obtain ⟨hds, hsh⟩ := List.append_inj h0 (by simp [Spec.domSep, hlen])
    rcases step (X := hashedBy H ver c a ps) (Y := hashedBy H ver c' a' ps') (domPre H ver c a) (domPre H ver c' a')
      (by simp [hashedBy]) (by simp [hashedBy]) hds with d0 | hc
    · unfold domPre at d0
      simp only [List.append_assoc] at d0
      obtain ⟨_, d1⟩ := List.append_inj d0 rfl
      obtain ⟨_, d2⟩ := List.append_inj d1 rfl
      obtain ⟨_, d3⟩ := List.append_inj d2 rfl
      obtain ⟨dc, da⟩ := List.append_inj d3 (by rw [pad32_length c hx.chain, pad32_length c' hy.chain])
      have hc := pad32_inj _ _ dc
      have ha := List.append_cancel_left da
      rcases step (X := hashedBy H ver c a ps) (Y := hashedBy H ver c' a' ps') (structPre H ps) (structPre H ps')
        (by simp [hashedBy]) (by simp [hashedBy]) hsh with s0 | hcol
      · unfold structPre at s0
        obtain ⟨_, s1⟩ := List.append_inj s0 rfl
        rcases step (X := hashedBy H ver c a ps) (Y := hashedBy H ver c' a' ps') (arrPre H ps) (arrPre H ps')
          (by simp [hashedBy]) (by simp [hashedBy]) s1 with s2 | hcol
        · have s3 := flatten_inj32 _ _
            (by intro a ha; simp at ha; obtain ⟨p, _, rfl⟩ := ha; simp [Spec.hp, hlen])
            (by intro a ha; simp at ha; obtain ⟨p, _, rfl⟩ := ha; simp [Spec.hp, hlen]) s2
          rcases map_hp_binding H ps ps' hx.props hy.props s3 with e | hcol
          · exact Or.inl ⟨hc, ha, e⟩
          · exact Or.inr (exc_mono mX mY hcol)
        · exact Or.inr hcol
      · exact Or.inr hcol
    · exact Or.inr hc
  · exact Or.inr hc


/-- any change — a field of any proposal, the order, the number of proposals, the chain id, the contract address —
    changes the digest, unless it exhibits a collision of `H` among the pre-images of the two computations -/
theorem digest_changes (H : Hash) (hlen : ∀ x, (H x).length = 32) (ver : String)
    (c c' : Nat) (a a' : Bytes) (ps ps' : List Prop') (hx : BatchWF c a ps) (hy : BatchWF c' a' ps')
    (hne : c ≠ c' ∨ a ≠ a' ∨ ps ≠ ps') :
    Spec.digestV H ver c a ps ≠ Spec.digestV H ver c' a' ps' ∨
      ExCollision H (hashedBy H ver c a ps) (hashedBy H ver c' a' ps') := by
  by_cases h : Spec.digestV H ver c a ps = Spec.digestV H ver c' a' ps'
  · rcases digest_binding H hlen ver c c' a a' ps ps' hx hy h with ⟨h1, h2, h3⟩ | hc
    · rcases hne with e | e | e
      · exact absurd h1 e
      · exact absurd h2 e
      · exact absurd h3 e
    · exact Or.inr hc
  · exact Or.inl h

/-- in particular: swapping two different proposals changes the digest (order is committed to) -/
theorem swap_changes_digest (H : Hash) (hlen : ∀ x, (H x).length = 32) (ver : String) (c : Nat) (a : Bytes)
    (p q : Prop') (hp : p.WF) (hq : q.WF) (hc : c < 2 ^ 256) (ha : a.length = 20) (hne : p ≠ q) :
    Spec.digestV H ver c a [p, q] ≠ Spec.digestV H ver c a [q, p] ∨
      ExCollision H (hashedBy H ver c a [p, q]) (hashedBy H ver c a [q, p]) := by
  apply digest_changes H hlen ver c c a a [p, q] [q, p]
  · exact ⟨hc, ha, by intro x hx; simp at hx; rcases hx with rfl | rfl <;> assumption⟩
  · exact ⟨hc, ha, by intro x hx; simp at hx; rcases hx with rfl | rfl <;> assumption⟩
  · right; right; intro e; simp at e; exact hne e.1

/-- the binding theorem for the executable Keccak-256 the driver runs (its output length is proved, nothing else about
    it): equal digests of different inputs hand you two different byte strings with the same Keccak-256 -/
theorem keccak_binding (c c' : Nat) (a a' : Bytes) (ps ps' : List Prop') (hx : BatchWF c a ps) (hy : BatchWF c' a' ps')
    (h : Spec.digest Keccak.keccak256 c a ps = Spec.digest Keccak.keccak256 c' a' ps') :
    (c = c' ∧ a = a' ∧ ps = ps') ∨
      ExCollision Keccak.keccak256 (hashedBy Keccak.keccak256 Spec.version c a ps) (hashedBy Keccak.keccak256 Spec.version c' a' ps') :=
  digest_binding _ Keccak.keccak256_length _ c c' a a' ps ps' hx hy h

/-- non-vacuity of the collision disjunct: under the weak hash `weakH` (32-byte truncation) chain ids 1 and 2 give the
    same digest, and the theorem hands over a real collision (two different pre-images with the same `weakH`) -/
example :
    Spec.digestV weakH Spec.version 1 (List.replicate 20 7) [] = Spec.digestV weakH Spec.version 2 (List.replicate 20 7) [] ∧
    ExCollision weakH (hashedBy weakH Spec.version 1 (List.replicate 20 7) []) (hashedBy weakH Spec.version 2 (List.replicate 20 7) []) := by
  have hd : ∀ c, Spec.domSep weakH Spec.version c (List.replicate 20 7) = weakH (strBytes Spec.typeDomain) := by
    intro c
    unfold Spec.domSep
    simp only [List.append_assoc]
    exact weakH_prefix _ _ (weakH_len _)
  have he : Spec.digestV weakH Spec.version 1 (List.replicate 20 7) [] = Spec.digestV weakH Spec.version 2 (List.replicate 20 7) [] := by
    unfold Spec.digestV; rw [hd 1, hd 2]
  refine ⟨he, ?_⟩
  rcases digest_binding weakH weakH_len Spec.version 1 2 _ _ [] [] ⟨by decide, by decide, by simp⟩ ⟨by decide, by decide, by simp⟩ he with ⟨h, _⟩ | h
  · exact absurd h (by decide)
  · exact h

/-- **C02-c (identical on every relayer).** The digest is a function of (batch, chain id, address, version) only; the one
    place where Go could introduce non-determinism — iteration order of the `map[string]interface{}` holding a proposal's
    fields — is immaterial: any permutation of the map's entries hashes to the same value. -/
theorem map_order_irrelevant (H : Hash) (p : Prop') (m : Flat) (hperm : (propMap p).Perm m) :
    hashFlat H typesTable "Proposal" m = hashFlat H typesTable "Proposal" (propMap p) := by
  have nd : ((propMap p).map Prod.fst).Nodup := by simp [propMap]
  have hl : m.length = (propMap p).length := hperm.length_eq.symm
  unfold hashFlat
  rw [lk_proposal, hl]
  simp only [encFields_congr H m (propMap p) fProposal (fun k => (lookup_perm hperm nd k).symm)]

/-! ### excluded points (what happens outside the hypotheses; each is also run on the real code) -/

/-- a negative chain id is refused (go-ethereum: "invalid negative value for unsigned type uint256"): nothing is signed -/
theorem negative_chain_err (H : Hash) (ps : List Prop') (chain : Int) (hneg : chain < 0) (ce : Bool) (a : Option Bytes)
    (ver : String) : proposalsHash H ps chain ce a ver = none := by
  have hd : hashFlat H typesTable "EIP712Domain" (domainMap chain ce a ver) = none := by
    unfold hashFlat
    rw [lk_domain]
    have hn : ¬ (0 ≤ chain) := by omega
    by_cases hv : ver = "" <;> cases ce <;>
      simp [fDomain, List.lookup, domainMap, encFields, parsePT, encodePrim, hn, hv]
  unfold proposalsHash
  rw [hd]

/-- an empty version string drops the `version` key from the domain map and the encoding fails -/
theorem missing_version_err (H : Hash) (ps : List Prop') (chain : Int) (ce : Bool) (a : Option Bytes) :
    proposalsHash H ps chain ce a "" = none := by
  have hd : hashFlat H typesTable "EIP712Domain" (domainMap chain ce a "") = none := by
    unfold hashFlat
    rw [lk_domain]
    cases ce <;> simp [fDomain, List.lookup, domainMap, encFields, parsePT, encodePrim]
  unfold proposalsHash
  rw [hd]

/-- a verifying-contract string that is not a hex address (or is empty) fails -/
theorem bad_address_err (H : Hash) (ps : List Prop') (chain : Int) (ce : Bool) (ver : String) :
    proposalsHash H ps chain ce none ver = none := by
  have hd : hashFlat H typesTable "EIP712Domain" (domainMap chain ce none ver) = none := by
    unfold hashFlat
    rw [lk_domain]
    by_cases hv : ver = "" <;> cases ce <;>
      simp [fDomain, List.lookup, domainMap, encFields, parsePT, encodePrim, hv]
  unfold proposalsHash
  rw [hd]

/-- the first chain id that is NOT representable as int64: `Int64()` wraps it to −2^63 and the hash is refused -/
theorem evm_chain_wrap_point (H : Hash) (ps : List Prop') (addr : Bytes) :
    evmProposalsHash H ps (2 ^ 63) addr = none := by
  unfold evmProposalsHash
  exact negative_chain_err H ps _ (by decide) _ _ _

/-! ### the signature bytes -/

/-- **C02-d.** `executeBatch`/`executeProposal` submit exactly LeftPad32(R) ‖ LeftPad32(S) ‖ (v+27) -/
theorem sig_layout (r s : Bytes) (v : UInt8) :
    sigBytes r s [v] = some (leftPad 32 r ++ leftPad 32 s ++ [v + 27]) := by
  simp [sigBytes]

/-- … which, for every r and s of at most 32 bytes (minimal `big.Int.Bytes()` form with any number of significant bytes,
    or already zero-padded), is 65 bytes long, carries r and s as 32-byte big-endian words and ends in v+27;
    that byte is 27 or 28 exactly when the recovery id is 0 or 1. -/
theorem sig_ok (r s : Bytes) (v : UInt8) (hr : r.length ≤ 32) (hs : s.length ≤ 32) :
    ∃ sig, sigBytes r s [v] = some sig ∧ SigOk (beToNat r) (beToNat s) v sig := by
  refine ⟨_, sig_layout r s v, ?_⟩
  have lr : (leftPad 32 r).length = 32 := by rw [leftPad_length]; omega
  have ls : (leftPad 32 s).length = 32 := by rw [leftPad_length]; omega
  have t1 : (leftPad 32 r ++ leftPad 32 s ++ [v + 27]).take 32 = leftPad 32 r := by
    rw [List.append_assoc, List.take_append_of_le_length (by omega), List.take_of_length_le (by omega)]
  have d1 : (leftPad 32 r ++ leftPad 32 s ++ [v + 27]).drop 32 = leftPad 32 s ++ [v + 27] := by
    rw [List.append_assoc, List.drop_append_of_le_length (by omega), List.drop_of_length_le (by omega)]; rfl
  have d2 : (leftPad 32 r ++ leftPad 32 s ++ [v + 27]).drop 64 = [v + 27] := by
    rw [show 64 = 32 + 32 from rfl, ← List.drop_drop, d1, List.drop_append_of_le_length (by omega),
      List.drop_of_length_le (by omega)]; rfl
  refine ⟨by simp [lr, ls], ?_, ?_, d2, ?_⟩
  · rw [t1, beToNat_leftPad]
  · rw [d1, List.take_append_of_le_length (by omega), List.take_of_length_le (by omega), beToNat_leftPad]
  · rw [d2]; simpa using u8_add27 v

/-- the statement's form: r, s given as numbers below 2^256 in `big.Int.Bytes()` (minimal) form -/
theorem sig_ok_nat (r s : Nat) (v : UInt8) (hr : r < 2 ^ 256) (hs : s < 2 ^ 256) :
    ∃ sig, sigBytes (natToBE r) (natToBE s) [v] = some sig ∧ SigOk r s v sig := by
  have h256 : (256 : Nat) ^ 32 = 2 ^ 256 := by decide
  have := sig_ok (natToBE r) (natToBE s) v (natToBE_length_le r 32 (by omega)) (natToBE_length_le s 32 (by omega))
  simpa [beToNat_natToBE] using this

/-! ### between hashing and submission -/

/-- **C02-e.** Whatever the destination answers to the polls that precede the signature, the batch submitted with the
    signature is the batch that was hashed (the loop neither reorders, drops nor duplicates members) — or nothing is
    submitted at all. Tied to the real `watchExecution` of both executors by op `watchsig`, to the real `Execute` (every
    hashed batch is watched as itself) by op `execwatch`. -/
theorem watch_submits_hashed (batch : List Nat) (sweeps : List (List Bool)) (b : List Nat)
    (h : watch batch sweeps = .submitted b) : b = batch := by
  unfold watch at h
  split at h
  · cases h
  · injection h with h; exact h.symm

/-- non-vacuity: polls that see the first member executed do not change what is submitted -/
example : watch [0, 1, 2] [[true, false, false], [true, true, false]] = .submitted [0, 1, 2] := by decide

/-! ### non-vacuity -/

/-- a two-proposal batch with empty and non-empty data meets `BatchWF` -/
example : BatchWF 11155111 palletContract
    [⟨1, 7, List.replicate 32 0xab, []⟩, ⟨255, 2 ^ 64 - 1, List.replicate 32 0, [1, 2, 3]⟩] :=
  ⟨by decide, by decide, by decide⟩

/-- the empty batch meets it too (0 proposals is inside the quantifier) -/
example : BatchWF 0 (List.replicate 20 0) [] := ⟨by decide, by decide, by simp⟩

/-- a short r (one significant byte) and a 32-byte s: the layout is non-trivial -/
example : sigBytes [0x05] (List.replicate 32 0xff) [1] =
    some (List.replicate 31 0 ++ [0x05] ++ List.replicate 32 0xff ++ [28]) := by decide

end Property
end Sygma.C02
