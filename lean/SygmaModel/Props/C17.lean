/-
  C17 — property theorems (DESIGN.md 5.17). Helper lemmas in `section Helpers`, property theorems in `section Property`.

  Proved for ALL deposit sets, requests, status maps, fault streams and histories of the model (Model/C17.lean + the
  status store of Model/C03.lean; tied to the real FilterDeposits / RetryV1EventHandler / RetryMessageHandlers / BTC
  executor by the differential runs):
    (a) filter_P17 / retryV1_P17: a retry re-emits a sublist (block order) of the matching, not-executed deposits,
        withholding at most one per failing store call — so all of them when no call fails (filterBy_exact);
        pending ↦ failed for the emitted ones; nothing else is written
    (b) isExecuted_withholds: a failed read, or a failed write while releasing a pending record, withholds the deposit
    (c) executed_final: along every SEQUENTIAL history of deliveries / recorded outcomes / lost executions / retries,
        with arbitrary store faults, a record that is `executed` stays `executed`.
        Sequential = a retry never touches a deposit whose execution is still in flight (`seqRun`).
        overlap_hazard: the excluded point — retrying an in-flight deposit lets a late failure overwrite `executed`.
    (d) mutex_free: after any history, on any fault script, propMutex is free and no operation blocked;
        asFound_hangs: the as-found unlock placement blocks after one failed status read.
  Assumed: store calls are atomic and fail only as scripted; the executor's outcome recording goes through
  storeProposalsStatus for exactly the proposals its delivery selected (true of watchExecution by construction).
-/
import SygmaModel.Model.C17
import SygmaModel.Props.C03
namespace Sygma.C17
open Sygma.C03 (Status Store lookup canExec forExec storeStatus executable faulted)

section Helpers

theorem faultFree_nil (m : List (Nat × Status)) : faultFree ⟨m, []⟩ = true := rfl

theorem faultFree_cons (m : List (Nat × Status)) (f : Bool) (fr : List Bool) :
    faultFree ⟨m, f :: fr⟩ = (!f && faultFree ⟨m, fr⟩) := rfl

/-- everything about one `isExecuted` call -/
theorem isExecuted_spec (s : Store) (k : Nat) :
    -- the answer
    ((isExecuted s k).1 = some false → lookup s.m k ≠ .executed ∧
        (lookup s.m k = .pending → lookup (isExecuted s k).2.m k = .failed)) ∧
    -- the only possible write
    (∀ j, lookup (isExecuted s k).2.m j = lookup s.m j ∨
        (j = k ∧ lookup s.m j = .pending ∧ lookup (isExecuted s k).2.m j = .failed)) ∧
    -- without faults the answer is exact
    (faultFree s = true → (isExecuted s k).1 = some (decide (lookup s.m k = .executed)) ∧
        faultFree (isExecuted s k).2 = true) := by
  obtain ⟨m, fs⟩ := s
  cases hst : lookup m k <;> (
    rcases fs with _ | ⟨f, _ | ⟨f2, fr⟩⟩ <;> (try cases f) <;> (try cases f2) <;>
      simp [isExecuted, hst, faultFree, C03.lookup_cons] <;> try (
        intro j
        by_cases hj : k = j
        · subst hj; right; exact ⟨rfl, hst, fun h => absurd rfl h⟩
        · left; intro h; exact absurd h hj))

/-- statuses are only ever moved from pending to failed, so "is executed" never changes during a retry -/
theorem eligible_congr (m m' : List (Nat × Status)) (mt : Dep → Bool) (ds : List Dep)
    (h : ∀ j, lookup m' j = lookup m j ∨ (lookup m j = .pending ∧ lookup m' j = .failed)) :
    eligible m' mt ds = eligible m mt ds := by
  unfold eligible
  apply List.filter_congr
  intro d _
  rcases h d.key with h1 | ⟨h1, h2⟩
  · rw [h1]
  · simp [h1, h2]

theorem filterBy_spec (mt : Dep → Bool) (s : Store) (ds : List Dep) :
    (filterBy mt s ds).1.Sublist (eligible s.m mt ds) ∧
    (faultFree s = true → (filterBy mt s ds).1 = eligible s.m mt ds ∧ faultFree (filterBy mt s ds).2 = true) ∧
    (∀ j, lookup (filterBy mt s ds).2.m j = lookup s.m j ∨
        (lookup s.m j = .pending ∧ lookup (filterBy mt s ds).2.m j = .failed ∧ ∃ d ∈ ds, mt d = true ∧ d.key = j)) ∧
    (∀ d ∈ (filterBy mt s ds).1, lookup s.m d.key = .pending → lookup (filterBy mt s ds).2.m d.key = .failed) := by
  induction ds generalizing s with
  | nil => simp [filterBy, eligible]
  | cons d r ih =>
    by_cases hm : mt d = true
    · -- the deposit is asked
      obtain ⟨hans, hwr, hff⟩ := isExecuted_spec s d.key
      rcases hie : isExecuted s d.key with ⟨ans, s1⟩
      rw [hie] at hans hwr hff
      simp only at hans hwr hff
      obtain ⟨ih1, ih2, ih3, ih4⟩ := ih s1
      have hweak : ∀ j, lookup s1.m j = lookup s.m j ∨ (lookup s.m j = .pending ∧ lookup s1.m j = .failed) := by
        intro j; rcases hwr j with h | ⟨_, h2, h3⟩
        · exact Or.inl h
        · exact Or.inr ⟨h2, h3⟩
      have hel : eligible s1.m mt r = eligible s.m mt r := eligible_congr s.m s1.m mt r hweak
      -- how statuses move over the whole call
      have hmove : ∀ j, lookup (filterBy mt s1 r).2.m j = lookup s.m j ∨
          (lookup s.m j = .pending ∧ lookup (filterBy mt s1 r).2.m j = .failed ∧
            ∃ d' ∈ d :: r, mt d' = true ∧ d'.key = j) := by
        intro j
        rcases ih3 j with h | ⟨h1, h2, d', hd', hmt, hk⟩
        · rcases hwr j with h' | ⟨hj, h2', h3'⟩
          · left; rw [h, h']
          · right; exact ⟨h2', by rw [h, h3'], d, List.mem_cons_self .., hm, hj.symm⟩
        · rcases hwr j with h' | ⟨hj, h2', h3'⟩
          · right; exact ⟨by rw [← h', h1], h2, d', List.mem_cons_of_mem _ hd', hmt, hk⟩
          · rw [h3'] at h1; cases h1
      by_cases hans' : ans = some false
      · subst hans'
        have hne := (hans rfl).1
        have hrel := (hans rfl).2
        have hunf : filterBy mt s (d :: r) = (d :: (filterBy mt s1 r).1, (filterBy mt s1 r).2) := by
          simp [filterBy, hm, hie]
        rw [hunf]
        have helig : eligible s.m mt (d :: r) = d :: eligible s.m mt r := by
          simp [eligible, List.filter_cons, hm, hne]
        refine ⟨?_, ?_, hmove, ?_⟩
        · rw [helig, ← hel]; exact List.Sublist.cons_cons d ih1
        · intro hf
          have := hff hf
          simp at this
          rw [helig, ← hel, (ih2 this.2).1]
          exact ⟨rfl, (ih2 this.2).2⟩
        · intro d' hd' hp
          simp only [List.mem_cons] at hd'
          have hstay : ∀ j, lookup s1.m j = .failed → lookup (filterBy mt s1 r).2.m j = .failed := by
            intro j hj
            rcases ih3 j with h | ⟨h1, _, _⟩
            · rw [h, hj]
            · rw [hj] at h1; cases h1
          rcases hd' with rfl | hd'
          · exact hstay _ (hrel hp)
          · rcases hweak d'.key with h | ⟨_, h2⟩
            · exact ih4 d' hd' (by rw [h, hp])
            · exact hstay _ h2
      · -- dropped: executed, or an error
        have hunf : filterBy mt s (d :: r) = filterBy mt s1 r := by
          rcases ans with _ | b
          · simp [filterBy, hm, hie]
          · cases b
            · exact absurd rfl hans'
            · simp [filterBy, hm, hie]
        rw [hunf]
        refine ⟨?_, ?_, hmove, ?_⟩
        · have h1 : (filterBy mt s1 r).1.Sublist (eligible s.m mt r) := hel ▸ ih1
          exact h1.trans (by unfold eligible; exact List.Sublist.filter _ (List.sublist_cons_self d r))
        · intro hf
          have := hff hf
          have hex : lookup s.m d.key = .executed := by
            by_cases hex : lookup s.m d.key = .executed
            · exact hex
            · exfalso
              simp [hex] at this
              exact hans' this.1
          have helig : eligible s.m mt (d :: r) = eligible s.m mt r := by
            simp [eligible, List.filter_cons, hex]
          rw [helig, ← hel]
          exact ih2 this.2
        · intro d' hd' hp
          rcases hweak d'.key with h | ⟨_, h2⟩
          · exact ih4 d' hd' (by rw [h, hp])
          · rcases ih3 d'.key with h | ⟨h1, _, _⟩
            · rw [h, h2]
            · rw [h2] at h1; cases h1
    · -- not matching: skipped without touching the store
      have hm' : mt d = false := by simpa using hm
      have hunf : filterBy mt s (d :: r) = filterBy mt s r := by simp [filterBy, hm']
      have helig : eligible s.m mt (d :: r) = eligible s.m mt r := by simp [eligible, List.filter_cons, hm']
      rw [hunf, helig]
      obtain ⟨ih1, ih2, ih3, ih4⟩ := ih s
      refine ⟨ih1, ih2, ?_, ih4⟩
      intro j
      rcases ih3 j with h | ⟨h1, h2, d', hd', hmt, hk⟩
      · exact Or.inl h
      · exact Or.inr ⟨h1, h2, d', List.mem_cons_of_mem _ hd', hmt, hk⟩

/-- a failing store call is consumed by at most one deposit: `isExecuted` never adds faults, and whenever it does not
    answer "re-emit" for a record that is not `executed`, it has used up a failing call -/
theorem isExecuted_faults (s : Store) (k : Nat) :
    (isExecuted s k).2.faults.count true ≤ s.faults.count true ∧
    ((isExecuted s k).1 ≠ some false → lookup s.m k ≠ .executed →
      (isExecuted s k).2.faults.count true + 1 ≤ s.faults.count true) := by
  obtain ⟨m, fs⟩ := s
  cases hst : lookup m k <;> (
    rcases fs with _ | ⟨f, _ | ⟨f2, fr⟩⟩ <;> (try cases f) <;> (try cases f2) <;>
      simp [isExecuted, hst, List.count_cons] <;> omega)

theorem filterBy_count (mt : Dep → Bool) (s : Store) (ds : List Dep) :
    (eligible s.m mt ds).length + (filterBy mt s ds).2.faults.count true
      ≤ (filterBy mt s ds).1.length + s.faults.count true := by
  induction ds generalizing s with
  | nil => simp [filterBy, eligible]
  | cons d r ih =>
    by_cases hm : mt d = true
    · obtain ⟨_, hwr, _⟩ := isExecuted_spec s d.key
      obtain ⟨hle, hdrop⟩ := isExecuted_faults s d.key
      rcases hie : isExecuted s d.key with ⟨ans, s1⟩
      rw [hie] at hwr hle hdrop
      simp only at hwr hle hdrop
      have hweak : ∀ j, lookup s1.m j = lookup s.m j ∨ (lookup s.m j = .pending ∧ lookup s1.m j = .failed) := by
        intro j; rcases hwr j with h | ⟨_, h2, h3⟩
        · exact Or.inl h
        · exact Or.inr ⟨h2, h3⟩
      have hel : eligible s1.m mt r = eligible s.m mt r := eligible_congr s.m s1.m mt r hweak
      have ih1 := ih s1
      rw [hel] at ih1
      have hlen : (eligible s.m mt (d :: r)).length ≤ (eligible s.m mt r).length + 1 := by
        unfold eligible; rw [List.filter_cons]; split <;> simp
      by_cases hans' : ans = some false
      · subst hans'
        have hunf : filterBy mt s (d :: r) = (d :: (filterBy mt s1 r).1, (filterBy mt s1 r).2) := by
          simp [filterBy, hm, hie]
        rw [hunf]
        simp only [List.length_cons]
        omega
      · have hunf : filterBy mt s (d :: r) = filterBy mt s1 r := by
          rcases ans with _ | b
          · simp [filterBy, hm, hie]
          · cases b
            · exact absurd rfl hans'
            · simp [filterBy, hm, hie]
        rw [hunf]
        by_cases hex : lookup s.m d.key = .executed
        · have : eligible s.m mt (d :: r) = eligible s.m mt r := by
            simp [eligible, List.filter_cons, hex]
          rw [this]; omega
        · have := hdrop hans' hex
          omega
    · have hm' : mt d = false := by simpa using hm
      have hunf : filterBy mt s (d :: r) = filterBy mt s r := by simp [filterBy, hm']
      have helig : eligible s.m mt (d :: r) = eligible s.m mt r := by simp [eligible, List.filter_cons, hm']
      rw [hunf, helig]
      exact ih s

theorem storeStatus_lookup (s : Store) (ns : List Nat) (v : Status) (j : Nat) :
    lookup (storeStatus s ns v).m j = lookup s.m j ∨ (j ∈ ns ∧ lookup (storeStatus s ns v).m j = v) := by
  induction ns generalizing s with
  | nil => simp [storeStatus]
  | cons n r ih =>
    have hstep : storeStatus s (n :: r) v = storeStatus (s.write n v).2 r v := by simp [storeStatus]
    rw [hstep]
    obtain ⟨m, fs⟩ := s
    have hw : ∀ j, lookup (Store.write ⟨m, fs⟩ n v).2.m j = lookup m j ∨ (j = n ∧ lookup (Store.write ⟨m, fs⟩ n v).2.m j = v) := by
      intro j
      rcases fs with _ | ⟨f, fr⟩
      · by_cases hj : n = j
        · right; subst hj; simp [C03.lookup_cons]
        · left; simp [C03.lookup_cons, hj]
      · cases f
        · by_cases hj : n = j
          · right; subst hj; simp [C03.lookup_cons]
          · left; simp [C03.lookup_cons, hj]
        · left; simp
    rcases ih (Store.write ⟨m, fs⟩ n v).2 with h | ⟨h1, h2⟩
    · rcases hw j with h' | ⟨hj, h'⟩
      · left; rw [h, h']
      · right; exact ⟨by simp [hj], by rw [h, h']⟩
    · right; exact ⟨List.mem_cons_of_mem _ h1, h2⟩

theorem storeStatus_faultFree (s : Store) (ns : List Nat) (v : Status) (hf : faultFree s = true) :
    ∀ k ∈ ns, lookup (storeStatus s ns v).m k = v := by
  induction ns generalizing s with
  | nil => simp
  | cons n r ih =>
    have hstep : storeStatus s (n :: r) v = storeStatus (s.write n v).2 r v := by simp [storeStatus]
    rw [hstep]
    obtain ⟨m, fs⟩ := s
    have hw : (Store.write ⟨m, fs⟩ n v).2.m = (n, v) :: m ∧ faultFree (Store.write ⟨m, fs⟩ n v).2 = true := by
      rcases fs with _ | ⟨f, fr⟩
      · simp [faultFree]
      · cases f
        · simp [faultFree] at hf ⊢; exact hf
        · simp [faultFree] at hf
    intro k hk
    by_cases hkr : k ∈ r
    · exact ih _ hw.2 k hkr
    · have hkn : k = n := by
        rcases List.mem_cons.1 hk with h | h
        · exact h
        · exact absurd h hkr
      rcases storeStatus_lookup (Store.write ⟨m, fs⟩ n v).2 r v k with h | ⟨h, _⟩
      · rw [h, hw.1, hkn]; simp [C03.lookup_cons]
      · exact absurd h hkr

theorem nodup_map_snd_inj (l : List (Nat × Nat)) (h : (l.map (·.2)).Nodup) (p q : Nat × Nat)
    (hp : p ∈ l) (hq : q ∈ l) (he : p.2 = q.2) : p = q := by
  induction l with
  | nil => cases hp
  | cons x r ih =>
    simp only [List.map_cons, List.nodup_cons, List.mem_map, not_exists, not_and] at h
    rcases List.mem_cons.1 hp with rfl | hp' <;> rcases List.mem_cons.1 hq with rfl | hq'
    · rfl
    · exact absurd he.symm (h.1 q hq')
    · exact absurd he (h.1 p hp')
    · exact ih h.2 hp' hq'

/-- the invariant of the combined machine: every in-flight proposal is recorded `pending`, no proposal is in
    flight twice, the mutex is free between operations -/
structure Inv (st : HState) : Prop where
  pend  : ∀ p ∈ st.inflight, lookup st.m p.2 = .pending
  nodup : (st.inflight.map (·.2)).Nodup
  free  : st.held = false

theorem inv_init : Inv init := ⟨by simp [init], by simp [init], rfl⟩

theorem hstep_inv (st : HState) (op : HOp) (hi : Inv st) (hs : seqOk st op = true) :
    Inv (hstep true st op).2 ∧
    ∀ k, lookup st.m k = .executed → lookup (hstep true st op).2.m k = .executed := by
  cases op with
  | deliver ks f =>
    have hfree := hi.free
    have hspec := C03.forExec_spec ⟨st.m, f⟩ ks
    have hpres := C03.forExec_preserves ⟨st.m, f⟩ ks
    rcases hfe : forExec ⟨st.m, f⟩ ks with ⟨o, s'⟩
    rw [hfe] at hspec hpres
    simp only at hspec hpres
    have hkeep : ∀ k, (lookup st.m k = .pending ∨ lookup st.m k = .executed) → lookup s'.m k = lookup st.m k := by
      intro k hk
      rcases hpres k with h | ⟨h1, _⟩
      · exact h
      · rcases hk with hk | hk <;> simp [hk, canExec] at h1
    cases o with
    | none =>
      simp only [hstep, hfree, hfe, Bool.false_eq_true, if_false]
      refine ⟨⟨?_, hi.nodup, by simp⟩, ?_⟩
      · intro p hp; rw [hkeep _ (Or.inl (hi.pend p hp))]; exact hi.pend p hp
      · intro k hk; rw [hkeep _ (Or.inr hk)]; exact hk
    | some ps =>
      simp only [hstep, hfree, hfe, Bool.false_eq_true, if_false]
      have hnf : faulted ⟨st.m, f⟩ ks = false := by
        cases h : faulted ⟨st.m, f⟩ ks
        · rfl
        · have := hspec.1 h
          cases this
      obtain ⟨hps, hlk⟩ := hspec.2 hnf
      have hps' : ps = executable st.m ks := by simpa using hps
      subst hps'
      refine ⟨⟨?_, ?_, rfl⟩, ?_⟩
      · intro p hp
        rcases List.mem_append.1 hp with hp | hp
        · rw [hkeep _ (Or.inl (hi.pend p hp))]; exact hi.pend p hp
        · simp only [List.mem_map] at hp
          obtain ⟨k, hk, rfl⟩ := hp
          rw [hlk]; simp [hk]
      · simp only [List.map_append, List.map_map, Function.comp_def, List.map_id']
        rw [List.nodup_append]
        refine ⟨hi.nodup, C03.executable_nodup _ _, ?_⟩
        intro a ha b hb hab
        subst hab
        simp only [List.mem_map] at ha
        obtain ⟨p, hp, rfl⟩ := ha
        have h1 := hi.pend p hp
        have h2 := ((C03.mem_executable st.m ks p.2).1 hb).2
        simp [h1, canExec] at h2
      · intro k hk; rw [hkeep _ (Or.inr hk)]; exact hk
  | outcome id grp ok f =>
    have hfree := hi.free
    simp only [hstep, hfree, Bool.false_eq_true, if_false]
    have hl := storeStatus_lookup ⟨st.m, f⟩ (keysOf st id grp) (if ok then .executed else .failed)
    have hkeys : ∀ j, j ∈ keysOf st id grp → ∃ p ∈ st.inflight, inGroup id grp p = true ∧ p.2 = j := by
      intro j hj
      simp only [keysOf, List.mem_map, List.mem_filter] at hj
      obtain ⟨p, ⟨hp, hid⟩, rfl⟩ := hj
      exact ⟨p, hp, hid, rfl⟩
    refine ⟨⟨?_, ?_, rfl⟩, ?_⟩
    · intro p hp
      simp only [List.mem_filter, Bool.not_eq_true'] at hp
      rcases hl p.2 with h | ⟨h1, _⟩
      · rw [h]; exact hi.pend p hp.1
      · obtain ⟨q, hq, hqid, hq2⟩ := hkeys _ h1
        have := nodup_map_snd_inj _ hi.nodup q p hq hp.1 hq2
        subst this
        rw [hqid] at hp; cases hp.2
    · exact hi.nodup.sublist ((List.filter_sublist).map _)
    · intro k hk
      rcases hl k with h | ⟨h1, _⟩
      · rw [h]; exact hk
      · obtain ⟨q, hq, _, hq2⟩ := hkeys _ h1
        have := hi.pend q hq
        rw [hq2, hk] at this; cases this
  | lost id grp =>
    simp only [hstep]
    refine ⟨⟨?_, ?_, hi.free⟩, fun k hk => hk⟩
    · intro p hp
      simp only [List.mem_filter] at hp
      exact hi.pend p hp.1
    · exact hi.nodup.sublist ((List.filter_sublist).map _)
  | retry ds res dest f =>
    obtain ⟨_, _, hmove, _⟩ := filterBy_spec (isMatch res dest) ⟨st.m, f⟩ ds
    simp only [hstep, filterDeposits]
    rcases hfb : filterBy (isMatch res dest) ⟨st.m, f⟩ ds with ⟨o, s'⟩
    rw [hfb] at hmove
    simp only at hmove
    simp only [seqOk, List.all_eq_true, List.mem_filter, Bool.not_eq_true', and_imp] at hs
    refine ⟨⟨?_, hi.nodup, hi.free⟩, ?_⟩
    · intro p hp
      rcases hmove p.2 with h | ⟨_, _, d, hd, hmt, hk⟩
      · rw [h]; exact hi.pend p hp
      · have := hs d hd hmt
        rw [hk] at this
        simp only [List.contains_eq_mem, decide_eq_false_iff_not, List.mem_map, not_exists, not_and] at this
        exact absurd rfl (this p hp)
    · intro k hk
      rcases hmove k with h | ⟨h1, _, _⟩
      · rw [h]; exact hk
      · rw [hk] at h1; cases h1

end Helpers

section Property

/-- the loop re-emits exactly the deposits named by the positional specification -/
theorem filterBy_positional (mt : Dep → Bool) (m : List (Nat × Status)) (fs : List Bool) (ds : List Dep) :
    (filterBy mt ⟨m, fs⟩ ds).1 = pick ds (emitFlags mt m fs ds) := by
  induction ds generalizing m fs with
  | nil => simp [filterBy, emitFlags, pick]
  | cons d r ih =>
    by_cases hm : mt d = true
    · rcases fs with _ | ⟨f, _ | ⟨f2, fr⟩⟩ <;> (try cases f) <;> (try cases f2) <;>
        cases hst : lookup m d.key <;>
        simp [filterBy, isExecuted, emitFlags, pick, hm, hst, ih]
    · have hm' : mt d = false := by simpa using hm
      simp [filterBy, emitFlags, pick, hm', ih]

/-- **C17 (a).** For every deposit set, matcher, status map and fault stream the common retry loop satisfies P17:
    exactly the deposits named by the positional specification `emitFlags` are re-emitted (a deposit is re-emitted iff
    it matches, is not executed and its own store calls succeeded), in block order;
    an emitted deposit that was stuck pending is released (failed); nothing else is written. -/
theorem filterBy_P17 (mt : Dep → Bool) (s : Store) (ds : List Dep) :
    P17 s.m s.faults mt ds (filterBy mt s ds).1 (filterBy mt s ds).2.m := by
  obtain ⟨_, _, h3, h4⟩ := filterBy_spec mt s ds
  refine ⟨?_, h4, ?_⟩
  · obtain ⟨m, fs⟩ := s; exact filterBy_positional mt m fs ds
  · intro d _
    exact h3 d.key

/-- consequences of the positional specification kept as theorems: only eligible deposits, in block order, and at
    most one eligible deposit withheld per failing store call -/
theorem filterBy_sublist_count (mt : Dep → Bool) (s : Store) (ds : List Dep) :
    (filterBy mt s ds).1.Sublist (eligible s.m mt ds) ∧
    (eligible s.m mt ds).length ≤ (filterBy mt s ds).1.length + s.faults.count true := by
  refine ⟨(filterBy_spec mt s ds).1, ?_⟩
  have := filterBy_count mt s ds
  omega

/-- in particular: when no store call fails, exactly the eligible deposits are re-emitted, in block order -/
theorem filterBy_exact (mt : Dep → Bool) (s : Store) (ds : List Dep) (hf : faultFree s = true) :
    (filterBy mt s ds).1 = eligible s.m mt ds :=
  ((filterBy_spec mt s ds).2.1 hf).1

/-- `retry.FilterDeposits` for every request (resource, destination) -/
theorem filter_P17 (res dest : Nat) (s : Store) (ds : List Dep) :
    P17 s.m s.faults (isMatch res dest) ds (filterDeposits res dest s ds).1 (filterDeposits res dest s ds).2.m :=
  filterBy_P17 _ s ds

/-- `RetryV1EventHandler`: the same with every deposit of the retried transaction matching -/
theorem retryV1_P17 (s : Store) (ds : List Dep) :
    P17 s.m s.faults (fun _ => true) ds (retryV1 s ds).1 (retryV1 s ds).2.m :=
  filterBy_P17 _ s ds

/-- consequences spelled out: nothing recorded executed is ever re-emitted, nothing of another resource or
    destination either, and an executed record survives any retry under any faults -/
theorem retry_never_emits_executed (res dest : Nat) (s : Store) (ds : List Dep) (d : Dep)
    (hd : d ∈ (filterDeposits res dest s ds).1) :
    d ∈ ds ∧ d.dest = dest ∧ d.res = res ∧ lookup s.m d.key ≠ .executed := by
  have h := (filterBy_spec (isMatch res dest) s ds).1.subset hd
  simp only [eligible, List.mem_filter, isMatch, Bool.and_eq_true, decide_eq_true_eq] at h
  exact ⟨h.1, h.2.1.1, h.2.1.2, h.2.2⟩

theorem retry_keeps_executed (mt : Dep → Bool) (s : Store) (ds : List Dep) (j : Nat)
    (hj : lookup s.m j = .executed) : lookup (filterBy mt s ds).2.m j = .executed := by
  rcases (filterBy_spec mt s ds).2.2.1 j with h | ⟨h, _⟩
  · rw [h, hj]
  · rw [hj] at h; cases h

/-- a RetryV2 event becomes a request for the source chain with the event's destination, height and resource -/
theorem retryV2_request (listening src dst height res : Nat) :
    PRequest src dst height res (retryV2 listening src dst height res) := ⟨rfl, rfl, rfl, rfl, rfl⟩

/-- `PropStatus` classifies the database's answer: `missing` without error exactly when the key is absent
    (ErrNotFound); a closed, read-only, released or corrupted database — any other error — is an error -/
theorem propStatus_P (r : Except DbErr Status) : PPropStatus r (propStatus r) := by
  rcases r with e | v
  · cases e <;> simp [PPropStatus, propStatus]
  · simp [PPropStatus, propStatus]

theorem propStatus_missing_iff (e : DbErr) : propStatus (.error e) = some .missing ↔ e = .notFound := by
  cases e <;> simp [propStatus]

/-- a status store that cannot be read at all (e.g. the database was shut down between execution and retry):
    every matching deposit is withheld — a retry re-emits nothing, whatever is recorded -/
theorem closed_store_emits_nothing (mt : Dep → Bool) (m : List (Nat × Status)) (ds : List Dep) (k : Nat)
    (hk : ds.length ≤ k) : (filterBy mt ⟨m, List.replicate k true⟩ ds).1 = [] := by
  induction ds generalizing k with
  | nil => simp [filterBy]
  | cons d r ih =>
    cases k with
    | zero => simp at hk
    | succ k =>
      by_cases hm : mt d = true
      · have : isExecuted ⟨m, List.replicate (k + 1) true⟩ d.key = (none, ⟨m, List.replicate k true⟩) := by
          simp [isExecuted, List.replicate_succ]
        simp only [filterBy, hm, if_true, this]
        exact ih k (by simpa using hk)
      · have hm' : mt d = false := by simpa using hm
        simp only [filterBy, hm', Bool.false_eq_true, if_false]
        exact ih (k + 1) (by simp at hk; omega)

/-- … and the BTC executor selects nothing from a non-empty delivery (Execute returns the error) -/
theorem closed_store_selects_nothing (m : List (Nat × Status)) (n : Nat) (r : List Nat) (k : Nat) :
    (forExec ⟨m, List.replicate (k + 1) true⟩ (n :: r)).1 = none := by
  simp [forExec, List.replicate_succ]

/-- a store call touches only the record of its own deposit … -/
theorem call_local (m : List (Nat × Status)) (c : SCall) (j : Nat) (hj : j ≠ c.key) :
    lookup (c.run m).2 j = lookup m j := by
  have hne : ¬ c.key = j := fun e => hj e.symm
  cases c with
  | write k v => simp only [SCall.key] at hne; simp [SCall.run, C03.lookup_cons, hne]
  | read k => rfl
  | record k => simp only [SCall.key] at hne; simp [SCall.run, storeStatus, C03.lookup_cons, hne]
  | retry k =>
    simp only [SCall.key] at hne
    cases h : lookup m k <;> simp [SCall.run, filterBy, isExecuted, h, C03.lookup_cons, hne]

/-- … and what it answers and leaves there depends only on that record: callers working on DIFFERENT deposits cannot
    influence each other, whatever the order (so overlapping them must not either — op `overlap` on the real store) -/
theorem call_depends_on_own_record (m m' : List (Nat × Status)) (c : SCall) (h : lookup m c.key = lookup m' c.key) :
    (c.run m).1 = (c.run m').1 ∧ lookup (c.run m).2 c.key = lookup (c.run m').2 c.key := by
  cases c with
  | write k v => simp [SCall.run, SCall.key, C03.lookup_cons]
  | read k => simp only [SCall.key] at h; simp [SCall.run, SCall.key, h]
  | record k => simp [SCall.run, SCall.key, storeStatus, C03.lookup_cons]
  | retry k =>
    simp only [SCall.key] at h
    cases h1 : lookup m k <;> (rw [h1] at h) <;>
      simp [SCall.run, SCall.key, filterBy, isExecuted, h1, ← h, C03.lookup_cons]

theorem calls_commute (m : List (Nat × Status)) (a b : SCall) (h : a.key ≠ b.key) :
    (runTwo m a b).1 = (runTwo m b a).2.1 ∧ (runTwo m a b).2.1 = (runTwo m b a).1 := by
  unfold runTwo
  constructor
  · exact (call_depends_on_own_record m (b.run m).2 a (call_local m b a.key h).symm).1
  · exact (call_depends_on_own_record (a.run m).2 m b (call_local m a b.key (fun e => h e.symm))).1

theorem overlap_PLinear (m : List (Nat × Status)) (a b : SCall) (keys : List Nat) :
    PLinear m a b (runTwo m b a).2.1 (runTwo m b a).1 (runTwo m b a).2.2 keys :=
  Or.inr ⟨rfl, rfl, fun _ _ => rfl⟩

/-- **C17 (b).** A deposit whose status cannot be read, or whose stuck-pending record cannot be rewritten, is
    withheld: `isExecuted` answers "re-emit" only if the read succeeded, the record is not `executed`, and — for a
    pending record — the write of `failed` succeeded. -/
theorem isExecuted_withholds (m : List (Nat × Status)) (fs : List Bool) (k : Nat) :
    (isExecuted ⟨m, fs⟩ k).1 = some false ↔
      fs.head? ≠ some true ∧ lookup m k ≠ .executed ∧
      (lookup m k = .pending → (fs.drop 1).head? ≠ some true) := by
  cases hst : lookup m k <;>
    rcases fs with _ | ⟨f, _ | ⟨f2, fr⟩⟩ <;> (try cases f) <;> (try cases f2) <;>
      simp [isExecuted, hst]

/-- a stuck-pending deposit is released for re-execution: after a fault-free retry it is re-emitted, its record is
    `failed`, and the BTC executor selects it on the next delivery -/
theorem stuck_pending_released (mt : Dep → Bool) (m : List (Nat × Status)) (d : Dep)
    (hm : mt d = true) (hp : lookup m d.key = .pending) :
    (filterBy mt ⟨m, []⟩ [d]).1 = [d] ∧
    lookup (filterBy mt ⟨m, []⟩ [d]).2.m d.key = .failed ∧
    executable (filterBy mt ⟨m, []⟩ [d]).2.m [d.key] = [d.key] := by
  simp [filterBy, hm, isExecuted, hp, C03.lookup_cons, executable, canExec]

/-- recording an outcome touches only the proposals of that execution, with the outcome's status; without store
    faults all of them carry it (the form the driver evaluates on the real `watchExecution`) -/
theorem outcome_P (s : Store) (ns : List Nat) (v : Status) (keys : List Nat) :
    POutcome s.m (faultFree s) ns v (storeStatus s ns v).m keys :=
  ⟨fun k _ => storeStatus_lookup s ns v k, fun hf => storeStatus_faultFree s ns v hf⟩

/-- **C17 (c): executed is final.** From any state satisfying the invariant (in particular the initial one), along
    every sequential history — deliveries, recorded successes and failures, lost executions, retries, arbitrary
    store faults at every call — a record that is `executed` is `executed` in the final state. -/
theorem executed_final (st : HState) (ops : List HOp) (hi : Inv st) (hs : seqRun true st ops = true) (k : Nat)
    (hk : lookup st.m k = .executed) : lookup (hfinal true st ops).m k = .executed := by
  induction ops generalizing st with
  | nil => exact hk
  | cons op r ih =>
    simp only [seqRun, Bool.and_eq_true] at hs
    obtain ⟨hinv, hex⟩ := hstep_inv st op hi hs.1
    exact ih _ hinv hs.2 (hex k hk)

/-- **per-operation guarantee, for every state and every history (no sequentiality needed):** a delivery only marks
    executable records pending, a retry only releases pending records, a timed-out / lost session overwrites no executed
    record. Hence an `executed` record can only ever be touched by the recording of an execution's outcome. -/
theorem hstep_stepOk (st : HState) (op : HOp) (n : Nat) : stepOk op st.m (hstep true st op).2.m n = true := by
  unfold stepOk
  rw [List.all_eq_true]
  intro k _
  cases op with
  | deliver ks f =>
    by_cases hh : st.held = true
    · simp [hstep, hh]
    · have hp := C03.forExec_preserves ⟨st.m, f⟩ ks k
      simp only [hstep, hh, Bool.false_eq_true, if_false]
      rcases hfe : forExec ⟨st.m, f⟩ ks with ⟨o, s'⟩
      rw [hfe] at hp
      cases o <;> (
        simp only
        rcases hp with h | ⟨h1, h2⟩
        · simp [h]
        · simp [h1, h2])
  | outcome id grp ok f => simp
  | lost id grp =>
    simp only [hstep]
    by_cases h : lookup st.m k = Status.executed <;> simp [h]
  | retry ds res dest f =>
    have hm := (filterBy_spec (isMatch res dest) ⟨st.m, f⟩ ds).2.2.1 k
    simp only [hstep, filterDeposits]
    rcases hfb : filterBy (isMatch res dest) ⟨st.m, f⟩ ds with ⟨o, s'⟩
    rw [hfb] at hm
    simp only at hm ⊢
    rcases hm with h | ⟨h1, h2, _⟩
    · simp [h]
    · simp [h1, h2]

/-- **executed is final, for EVERY history (sequential or not):** an `executed` record can only be changed by the
    recording of the outcome of an execution that contains it. Deliveries, retries, sessions that run into their
    signing time-out (however stale) and outcomes of other executions never change it, under any store faults.
    (E.g. deliver, retry-while-stuck, re-deliver, newer session succeeds, old session times out, retry, re-deliver:
    the record stays executed.) `executed_final` then shows that in sequential histories no such outcome exists. -/
theorem executed_final_unless_own_outcome (st : HState) (ops : List HOp) (k : Nat)
    (hk : lookup st.m k = .executed) (hn : noLaterOutcome true k st ops = true) :
    lookup (hfinal true st ops).m k = .executed := by
  induction ops generalizing st with
  | nil => exact hk
  | cons op r ih =>
    simp only [noLaterOutcome, Bool.and_eq_true, Bool.not_eq_true'] at hn
    apply ih _ _ hn.2
    cases op with
    | outcome id grp ok f =>
      by_cases hh : st.held = true
      · simpa [hstep, hh] using hk
      · simp only [hstep, hh, Bool.false_eq_true, if_false]
        rcases storeStatus_lookup ⟨st.m, f⟩ (keysOf st id grp) (if ok then .executed else .failed) k with h | ⟨h, _⟩
        · rw [h]; exact hk
        · have := hn.1
          simp [touches, h] at this
    | deliver ks f =>
      have h := hstep_stepOk st (.deliver ks f) (k + 1)
      simp only [stepOk, List.all_eq_true] at h
      have := h k (by simp)
      simp [hk, canExec] at this
      exact this
    | lost id grp => simpa [hstep] using hk
    | retry ds res dest f =>
      have h := hstep_stepOk st (.retry ds res dest f) (k + 1)
      simp only [stepOk, List.all_eq_true] at h
      have := h k (by simp)
      simp [hk] at this
      exact this

/-- the five-step history of a stale session (C03-c1's scenario) keeps the record executed -/
example :
    let d : Dep := ⟨2, 97, 0, 0⟩
    let ops := [HOp.deliver [0] [], .retry [d] 97 2 [], .deliver [0] [], .outcome 1 [0] true [], .lost 0 [0],
                .retry [d] 97 2 [], .deliver [0] []]
    ((hrun true init ops).map fun (x : HRes × HState) => lookup x.2.m 0) =
      [Status.pending, .failed, .pending, .executed, .executed, .executed, .executed] ∧
    noLaterOutcome true 0 (hfinal true init (ops.take 4)) (ops.drop 4) = true := by decide

/-- a delivery selects only proposals whose record is missing or failed at that moment — never one that is in
    flight (pending) or executed (the per-step form the driver evaluates on the implementation's trace) -/
theorem deliver_selects_only_executable (st : HState) (ks : List Nat) (f : List Bool) (ps : List Nat)
    (h : (hstep true st (.deliver ks f)).1 = .selected (some ps)) :
    ∀ k ∈ ps, lookup st.m k = .missing ∨ lookup st.m k = .failed := by
  by_cases hh : st.held = true
  · simp [hstep, hh] at h
  · have hspec := C03.forExec_spec ⟨st.m, f⟩ ks
    simp only [hstep, hh, Bool.false_eq_true, if_false] at h
    rcases hfe : forExec ⟨st.m, f⟩ ks with ⟨o, s'⟩
    rw [hfe] at h hspec
    cases o with
    | none => simp at h
    | some qs =>
      simp only [HRes.selected.injEq, Option.some.injEq] at h
      subst h
      have hnf : faulted ⟨st.m, f⟩ ks = false := by
        cases hf : faulted ⟨st.m, f⟩ ks
        · rfl
        · have := hspec.1 hf; cases this
      have := (hspec.2 hnf).1
      simp only [Option.some.injEq] at this
      subst this
      intro k hk
      have := ((C03.mem_executable st.m ks k).1 hk).2
      cases hl : lookup st.m k <;> simp [hl, canExec] at this ⊢

/-- what a delivery selects is recorded pending when it returns -/
theorem deliver_marks_selected_pending (st : HState) (ks : List Nat) (f : List Bool) (ps : List Nat)
    (h : (hstep true st (.deliver ks f)).1 = .selected (some ps)) :
    ∀ k ∈ ps, lookup (hstep true st (.deliver ks f)).2.m k = .pending := by
  by_cases hh : st.held = true
  · simp [hstep, hh] at h
  · have hspec := C03.forExec_spec ⟨st.m, f⟩ ks
    simp only [hstep, hh, Bool.false_eq_true, if_false] at h ⊢
    rcases hfe : forExec ⟨st.m, f⟩ ks with ⟨o, s'⟩
    rw [hfe] at h hspec
    cases o with
    | none => simp at h
    | some qs =>
      simp only [HRes.selected.injEq, Option.some.injEq] at h
      subst h
      have hnf : faulted ⟨st.m, f⟩ ks = false := by
        cases hf : faulted ⟨st.m, f⟩ ks
        · rfl
        · have := hspec.1 hf; cases this
      obtain ⟨h1, h2⟩ := hspec.2 hnf
      simp only [Option.some.injEq] at h1
      subst h1
      intro k hk
      simp only
      rw [h2]; simp [hk]

/-- **two deliveries serialized by propMutex never select the same deposit**, whatever they contain and whatever the
    store faults: what the first selected is pending when the second one looks -/
theorem serialized_deliveries_disjoint (st : HState) (k1 k2 : List Nat) (f1 f2 : List Bool) (p1 p2 : List Nat)
    (h1 : (hstep true st (.deliver k1 f1)).1 = .selected (some p1))
    (h2 : (hstep true (hstep true st (.deliver k1 f1)).2 (.deliver k2 f2)).1 = .selected (some p2)) :
    ∀ k ∈ p1, k ∉ p2 := by
  intro k hk1 hk2
  have hp := deliver_marks_selected_pending st k1 f1 p1 h1 k hk1
  have hx := deliver_selects_only_executable _ k2 f2 p2 h2 k hk2
  rw [hp] at hx
  rcases hx with h | h <;> cases h

theorem race_PRace (m : List (Nat × Status)) (kb ka : List Nat) (o : Bool) (n : Nat) :
    PRace m kb ka (raceOrder m kb ka o).1 (raceOrder m kb ka o).2.1 (raceOrder m kb ka o).2.2 n :=
  ⟨o, rfl, rfl, fun _ _ => rfl⟩

/-- … and at every intermediate state (the form the driver evaluates on the implementation's trace) -/
theorem executed_final_along (st : HState) (ops : List HOp) (hi : Inv st) (hs : seqRun true st ops = true) (k : Nat) :
    finalAlong k (st.m :: (hrun true st ops).map (·.2.m)) = true := by
  induction ops generalizing st with
  | nil => simp [hrun, finalAlong]
  | cons op r ih =>
    simp only [seqRun, Bool.and_eq_true] at hs
    obtain ⟨hinv, hex⟩ := hstep_inv st op hi hs.1
    have := ih _ hinv hs.2
    simp only [hrun, List.map_cons, finalAlong, Bool.and_eq_true, this, and_true]
    by_cases hk : lookup st.m k = .executed
    · simp [hex k hk]
    · simp [hk]

theorem executed_final_from_start (ops : List HOp) (hs : seqRun true init ops = true) (k : Nat) :
    finalAlong k ([] :: (hrun true init ops).map (·.2.m)) = true :=
  executed_final_along init ops inv_init hs k

/-- the strict machine (the property as stated) keeps an executed record in EVERY history … -/
theorem strict_keeps_executed (st : HState) (op : HOp) (k : Nat) (hk : lookup st.m k = .executed) :
    lookup (hstepStrict st op).2.m k = .executed := by
  cases op with
  | outcome id grp ok f =>
    by_cases hh : st.held = true
    · simpa [hstepStrict, hh] using hk
    · simp only [hstepStrict, hh, Bool.false_eq_true, if_false]
      rcases storeStatus_lookup ⟨st.m, f⟩ ((keysOf st id grp).filter fun k => lookup st.m k != .executed)
          (if ok then .executed else .failed) k with h | ⟨h, _⟩
      · rw [h]; exact hk
      · simp [List.mem_filter, hk] at h
  | deliver ks f =>
    have h := executed_final_unless_own_outcome st [.deliver ks f] k hk (by simp [noLaterOutcome, touches])
    simpa [hstepStrict, hfinal] using h
  | lost id grp => simpa [hstepStrict, hstep] using hk
  | retry ds res dest f =>
    have h := executed_final_unless_own_outcome st [.retry ds res dest f] k hk (by simp [noLaterOutcome, touches])
    simpa [hstepStrict, hfinal] using h

/-- … and it IS the code on every state satisfying the invariant (all in-flight records pending): the two machines
    differ only on overlapping histories -/
theorem strict_eq_of_inv (st : HState) (op : HOp) (hi : Inv st) : hstepStrict st op = hstep true st op := by
  cases op with
  | outcome id grp ok f =>
    have hall : (keysOf st id grp).filter (fun k => lookup st.m k != .executed) = keysOf st id grp := by
      apply List.filter_eq_self.2
      intro k hk
      simp only [keysOf, List.mem_map, List.mem_filter] at hk
      obtain ⟨p, ⟨hp, _⟩, rfl⟩ := hk
      simp [hi.pend p hp]
    simp [hstepStrict, hstep, hall]
  | deliver ks f => rfl
  | lost id grp => rfl
  | retry ds res dest f => rfl

/-- the excluded point, stated rather than hidden: retrying a deposit whose execution is still in flight
    (non-sequential) lets a second execution start; when the first succeeds and the second fails late, the
    `executed` record is overwritten with `failed` -/
theorem overlap_hazard :
    let d : Dep := ⟨2, 97, 1, 0⟩
    let ops := [HOp.deliver [1] [], .retry [d] 97 2 [], .deliver [1] [], .outcome 0 [1] true [], .outcome 1 [1] false []]
    seqRun true init ops = false ∧
    ((hrun true init ops).map fun x => lookup x.2.m 1) = [.pending, .failed, .pending, .executed, .failed] := by
  decide

/-- **C17 (d): bookkeeping stays live.** On the repaired code, from a state with the mutex free, every history on
    every fault script leaves the mutex free and no operation ever blocks. -/
theorem mutex_free (st : HState) (ops : List HOp) (hf : st.held = false) :
    (hfinal true st ops).held = false ∧ ∀ x ∈ hrun true st ops, x.1 ≠ .hang := by
  induction ops generalizing st with
  | nil => simp [hfinal, hrun, hf]
  | cons op r ih =>
    have hstep' : (hstep true st op).2.held = false ∧ (hstep true st op).1 ≠ .hang := by
      cases op with
      | deliver ks f =>
        simp only [hstep, hf, Bool.false_eq_true, if_false]
        rcases forExec ⟨st.m, f⟩ ks with ⟨o, s'⟩
        cases o <;> simp [hf]
      | outcome id grp ok f => simp [hstep, hf]
      | lost id grp => simp [hstep, hf]
      | retry ds res dest f => simp [hstep, hf]
    obtain ⟨h1, h2⟩ := ih _ hstep'.1
    refine ⟨h1, ?_⟩
    intro x hx
    simp only [hrun, List.mem_cons] at hx
    rcases hx with rfl | hx
    · exact hstep'.2
    · exact h2 x hx

/-- the defect repaired by `fix:` b03b479, kept as a witness: with the unlock only on the success path, one failed
    status read leaves the mutex held and the next delivery blocks for good -/
theorem asFound_hangs :
    ((hrun false init [.deliver [0] [true], .deliver [0] []]).map (·.1)) = [.selected none, .hang] := by
  decide

/-- non-vacuity (multi-resource delivery): the groups of one delivery conclude independently -/
example :
    let ops := [HOp.deliver [0, 1] [], .outcome 0 [0] true [], .outcome 0 [1] false [],
                .retry [⟨2, 97, 0, 0⟩, ⟨2, 97, 1, 1⟩] 97 2 [], .deliver [0, 1] []]
    seqRun true init ops = true ∧
    ((hrun true init ops).map fun (x : HRes × HState) => (lookup x.2.m 0, lookup x.2.m 1)) =
      [(Status.pending, Status.pending), (.executed, .pending), (.executed, .failed), (.executed, .failed),
       (.executed, .pending)] := by decide

/-! #### non-vacuity -/

example :
    let ds : List Dep := [⟨2, 1, 10, 0⟩, ⟨2, 1, 11, 1⟩, ⟨3, 1, 12, 2⟩, ⟨2, 2, 13, 3⟩, ⟨2, 1, 14, 4⟩]
    let m : List (Nat × Status) := [(11, .pending), (14, .executed), (12, .failed)]
    (filterDeposits 1 2 ⟨m, []⟩ ds).1.map (·.idx) = [0, 1] ∧
    lookup (filterDeposits 1 2 ⟨m, []⟩ ds).2.m 11 = .failed ∧
    (filterDeposits 1 2 ⟨m, [false, false, true]⟩ ds).1.map (·.idx) = [0] := by decide

example :
    let ops := [HOp.deliver [0, 1] [], .outcome 0 [0, 1] true [], .retry [⟨2, 97, 0, 0⟩, ⟨2, 97, 1, 1⟩] 97 2 [],
                .deliver [0, 1, 2] [], .lost 1 [2], .retry [⟨2, 97, 2, 0⟩] 97 2 [], .deliver [2] [false, true], .deliver [2] []]
    seqRun true init ops = true ∧
    ((hrun true init ops).map fun (x : HRes × HState) => lookup x.2.m 0) =
      [Status.pending, .executed, .executed, .executed, .executed, .executed, .executed, .executed] ∧
    ((hrun true init ops).map fun (x : HRes × HState) => lookup x.2.m 2) =
      [Status.missing, .missing, .missing, .pending, .pending, .failed, .failed, .pending] := by
  decide

end Property

end Sygma.C17
