import SygmaModel.Model.C17
namespace Sygma.C17
end Sygma.C17
