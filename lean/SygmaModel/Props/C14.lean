/-
  C14 — property theorems (see DESIGN.md 5.14). Helper lemmas are in this file's first section,
  the property theorems in the section `Property`.
-/
import SygmaModel.Model.C14
import Std.Data.String.ToNat
namespace Sygma.C14

section Helpers

/-- loop invariant after the proposals `seen` -/
structure Inv (cap : Nat) (st : List Bt × Bt) (seen : List (Nat × Nat)) : Prop where
  part   : (st.1.map (·.members)).flatten ++ st.2.members = seen
  gasD   : ∀ b ∈ st.1, b.gas = sumGas b.members
  gasC   : st.2.gas = sumGas st.2.members
  capD   : ∀ b ∈ st.1, cap ≤ b.gas → b.members.length ≤ 1
  capC   : cap ≤ st.2.gas → st.2.members.length ≤ 1
  nonE   : ∀ b ∈ st.1, b.members ≠ []

theorem sumGas_append (a b : List (Nat × Nat)) : sumGas (a ++ b) = sumGas a + sumGas b := by
  simp [sumGas]

theorem sumGas_flatten_le (bs : List Bt) (b : Bt) (h : b ∈ bs) :
    sumGas b.members ≤ sumGas (bs.map (·.members)).flatten := by
  induction bs with
  | nil => cases h
  | cons x xs ih =>
    simp only [List.map_cons, List.flatten_cons, sumGas_append]
    rcases List.mem_cons.1 h with rfl | h'
    · omega
    · have := ih h'; omega

theorem inv_init (cap : Nat) : Inv cap ([], ⟨[], 0⟩) [] := by
  constructor <;> simp [sumGas]

theorem inv_step (cap : Nat) (st : List Bt × Bt) (seen : List (Nat × Nat)) (x : Nat × Nat)
    (h : Inv cap st seen) (hno : sumGas seen + x.2 < M) :
    Inv cap (packStep cap st x) (seen ++ [x]) := by
  have hcur : sumGas st.2.members ≤ sumGas seen := by
    rw [← h.part, sumGas_append]; omega
  have hx : x.2 % M = x.2 := Nat.mod_eq_of_lt (by omega)
  have hsum : (st.2.gas + x.2) % M = st.2.gas + x.2 := Nat.mod_eq_of_lt (by rw [h.gasC]; omega)
  unfold packStep
  split
  · next hc =>
    obtain ⟨hne, hcap⟩ := hc
    constructor
    · simp [← h.part]
    · intro b hb
      rcases List.mem_append.1 hb with hb | hb
      · exact h.gasD b hb
      · simp at hb; subst hb; exact h.gasC
    · simp [sumGas, hx]
    · intro b hb
      rcases List.mem_append.1 hb with hb | hb
      · exact h.capD b hb
      · simp at hb; subst hb; exact h.capC
    · simp
    · intro b hb
      rcases List.mem_append.1 hb with hb | hb
      · exact h.nonE b hb
      · simp at hb; subst hb; exact hne
  · next hc =>
    constructor
    · simp [← h.part]
    · exact h.gasD
    · show (st.2.gas + x.2) % M = _
      rw [hsum, h.gasC, sumGas_append]; simp [sumGas]
    · exact h.capD
    · intro hcap
      simp only [hsum] at hcap
      by_cases hne : st.2.members = []
      · simp [hne]
      · exact absurd ⟨hne, by rw [hsum]; exact hcap⟩ hc
    · exact h.nonE

theorem inv_foldl (cap : Nat) (xs : List (Nat × Nat)) (st : List Bt × Bt) (seen : List (Nat × Nat))
    (h : Inv cap st seen) (hno : sumGas (seen ++ xs) < M) :
    Inv cap (xs.foldl (packStep cap) st) (seen ++ xs) := by
  induction xs generalizing st seen with
  | nil => simpa using h
  | cons x xs ih =>
    simp only [List.foldl_cons]
    have h1 : sumGas seen + x.2 < M := by
      simp only [sumGas_append] at hno
      have : sumGas (x :: xs) = x.2 + sumGas xs := by simp [sumGas]
      omega
    have := ih (packStep cap st x) (seen ++ [x]) (inv_step cap st seen x h h1) (by simpa using hno)
    simpa using this

/-- a done batch is never empty, and the current one is empty only if nothing was seen and nothing is done -/
theorem cur_empty (cap : Nat) (xs : List (Nat × Nat)) (st : List Bt × Bt)
    (h0 : st.2.members = [] → st.1 = []) :
    (xs.foldl (packStep cap) st).2.members = [] → (xs.foldl (packStep cap) st).1 = [] := by
  induction xs generalizing st with
  | nil => simpa using h0
  | cons x xs ih =>
    simp only [List.foldl_cons]
    apply ih
    unfold packStep
    split <;> simp

end Helpers

section Property

/-- **C14 (main).** For every cap, transfer gas cost and delivery without uint64 wrap, the batches
    computed by the loop partition the pending proposals in order, each batch carries exactly the sum of
    its own members' allowances, a batch reaches the cap only if it holds a single proposal, and an empty
    batch exists only for a delivery with nothing pending. -/
theorem batches_P14 (cap tg : Nat) (ps : List PIn) (hno : NoOverflow (pending tg ps)) :
    P14 cap (pending tg ps) (batches cap tg ps) := by
  have hinv := inv_foldl cap (pending tg ps) ([], ⟨[], 0⟩) [] (inv_init cap) (by simpa [NoOverflow] using hno)
  simp only [List.nil_append] at hinv
  have hemp := cur_empty cap (pending tg ps) ([], ⟨[], 0⟩) (by simp)
  unfold batches pack
  generalize (pending tg ps).foldl (packStep cap) ([], ⟨[], 0⟩) = st at hinv hemp
  refine ⟨?_, ?_, ?_, ?_⟩
  · simpa using hinv.part
  · intro b hb
    rcases List.mem_append.1 hb with hb | hb
    · exact hinv.gasD b hb
    · simp at hb; subst hb; exact hinv.gasC
  · intro b hb
    rcases List.mem_append.1 hb with hb | hb
    · exact hinv.capD b hb
    · simp at hb; subst hb; exact hinv.capC
  · intro b hb he
    rcases List.mem_append.1 hb with hb | hb
    · exact absurd he (hinv.nonE b hb)
    · simp at hb; subst hb; simp [hemp he]

/-- every proposal that is pending appears in exactly one batch (count = 1), executed ones in none -/
theorem each_exactly_once (cap tg : Nat) (ps : List PIn) (hno : NoOverflow (pending tg ps)) (x : Nat × Nat) :
    ((batches cap tg ps).map (·.members)).flatten.count x = (pending tg ps).count x := by
  rw [(batches_P14 cap tg ps hno).1]

theorem pendingFrom_idx (tg : Nat) (k : Nat) (ps : List PIn) : ∀ x ∈ pendingFrom tg k ps, k ≤ x.1 := by
  induction ps generalizing k with
  | nil => simp [pendingFrom]
  | cons p ps ih =>
    intro x hx
    simp only [pendingFrom] at hx
    split at hx
    · have := ih (k+1) x hx; omega
    · rcases List.mem_cons.1 hx with rfl | hx
      · exact Nat.le_refl _
      · have := ih (k+1) x hx; omega

/-- the pending proposals are listed once each: their positions in the delivery are pairwise distinct -/
theorem pending_idx_nodup (tg : Nat) (ps : List PIn) : ((pending tg ps).map (·.1)).Nodup := by
  unfold pending; generalize 0 = k
  induction ps generalizing k with
  | nil => simp [pendingFrom]
  | cons p ps ih =>
    simp only [pendingFrom]
    split
    · exact ih _
    · simp only [List.map_cons, List.nodup_cons]
      refine ⟨?_, ih _⟩
      intro hm
      obtain ⟨x, hx, hxe⟩ := List.mem_map.1 hm
      have := pendingFrom_idx tg (k+1) ps x hx
      omega

/-- **each pending proposal is in exactly one batch, exactly once** (by position in the delivery) -/
theorem pending_position_exactly_once (cap tg : Nat) (ps : List PIn) (hno : NoOverflow (pending tg ps)) (i : Nat)
    (hi : i ∈ (pending tg ps).map (·.1)) :
    ((((batches cap tg ps).map (·.members)).flatten).map (·.1)).count i = 1 := by
  rw [(batches_P14 cap tg ps hno).1]
  rw [(pending_idx_nodup tg ps).count, if_pos hi]

/-- **what is submitted carries its own gas**: every transaction handed to the bridge has, as its gas limit, exactly
    the sum of the allowances of the proposals it carries, and together they are the pending proposals in order -/
theorem submitted_own_gas (cap tg : Nat) (ps : List PIn) (hno : NoOverflow (pending tg ps)) :
    (∀ b ∈ submitted (batches cap tg ps), b.gas = sumGas b.members ∧ b.members ≠ []) ∧
    ((submitted (batches cap tg ps)).map (·.members)).flatten = pending tg ps := by
  have hP := batches_P14 cap tg ps hno
  refine ⟨?_, ?_⟩
  · intro b hb
    simp only [submitted, List.mem_filter] at hb
    exact ⟨hP.2.1 b hb.1, by simpa using hb.2⟩
  · rw [← hP.1]
    unfold submitted
    generalize batches cap tg ps = bs
    induction bs with
    | nil => simp
    | cons b bs ih =>
      simp only [List.filter_cons]
      split
      · simp only [List.map_cons, List.flatten_cons]; rw [ih]
      · next h =>
        have : b.members = [] := by simpa using h
        simp only [List.map_cons, List.flatten_cons, this, List.nil_append]; exact ih

/-- session ids of distinct batch positions are distinct -/
theorem sessionId_inj (m : String) (i j : Nat) (h : sessionId m i = sessionId m j) : i = j := by
  unfold sessionId at h
  have h1 : (toString i : String) = toString j := by
    have := congrArg String.toList h
    simp only [String.toList_append] at this
    have := List.append_cancel_left this
    exact String.toList_inj.1 this
  exact Nat.repr_injective h1

/-- no batch that is hashed and signed is empty -/
theorem signed_nonempty (m : String) (bs : List Bt) : ∀ x ∈ signed m bs, x.2 ≠ [] := by
  unfold signed; generalize 0 = k
  induction bs generalizing k with
  | nil => simp [signedFrom]
  | cons b bs ih =>
    intro x hx
    simp only [signedFrom] at hx
    split at hx
    · exact ih _ x hx
    · next hne =>
      rcases List.mem_cons.1 hx with rfl | hx
      · simpa using hne
      · exact ih _ x hx

/-- skipping the empty batches loses no proposal: what is signed is, in order, everything that was batched -/
theorem signed_flatten (m : String) (bs : List Bt) :
    ((signed m bs).map (·.2)).flatten = ((bs.map (·.members)).flatten).map (·.1) := by
  unfold signed; generalize 0 = k
  induction bs generalizing k with
  | nil => simp [signedFrom]
  | cons b bs ih =>
    simp only [signedFrom]
    split
    · next h => simp [ih (k+1), h]
    · simp [ih (k+1)]

theorem signedFrom_sid (m : String) (bs : List Bt) (k : Nat) :
    ∀ x ∈ signedFrom m k bs, ∃ j, k ≤ j ∧ x.1 = sessionId m j := by
  induction bs generalizing k with
  | nil => simp [signedFrom]
  | cons b bs ih =>
    intro x hx
    simp only [signedFrom] at hx
    split at hx
    · obtain ⟨j, hj, e⟩ := ih _ x hx; exact ⟨j, by omega, e⟩
    · rcases List.mem_cons.1 hx with rfl | hx
      · exact ⟨k, Nat.le_refl _, rfl⟩
      · obtain ⟨j, hj, e⟩ := ih _ x hx; exact ⟨j, by omega, e⟩

/-- the batches of one delivery are signed under pairwise distinct session ids -/
theorem signed_sids_nodup (m : String) (bs : List Bt) : ((signed m bs).map (·.1)).Nodup := by
  unfold signed; generalize 0 = k
  induction bs generalizing k with
  | nil => simp [signedFrom]
  | cons b bs ih =>
    simp only [signedFrom]
    split
    · exact ih _
    · simp only [List.map_cons, List.nodup_cons]
      refine ⟨?_, ih _⟩
      intro hmem
      obtain ⟨x, hx, hxe⟩ := List.mem_map.1 hmem
      obtain ⟨j, hj, e⟩ := signedFrom_sid m bs (k+1) x hx
      have := sessionId_inj m j k (by rw [← e, hxe])
      omega

/-- **C14 at the `Execute` level.** What is hashed and signed for a delivery is, in order, exactly the pending
    proposals, in non-empty batches with pairwise distinct session ids. -/
theorem signed_partition (cap tg : Nat) (ps : List PIn) (m : String) (hno : NoOverflow (pending tg ps)) :
    ((signed m (batches cap tg ps)).map (·.2)).flatten = (pending tg ps).map (·.1) ∧
    (∀ x ∈ signed m (batches cap tg ps), x.2 ≠ []) ∧
    ((signed m (batches cap tg ps)).map (·.1)).Nodup := by
  refine ⟨?_, signed_nonempty _ _, signed_sids_nodup _ _⟩
  rw [signed_flatten, (batches_P14 cap tg ps hno).1]

/-- the wrap point, stated rather than hidden: with allowances summing past 2^64 the batch gas is *not*
    the sum of its members' allowances (uint64 wrap) -/
theorem overflow_point :
    ¬ P14 (2^64 - 1) [(0, 2^63), (1, 2^63)] (pack (2^64 - 1) [(0, 2^63), (1, 2^63)]) := by
  decide

/-- non-vacuity: a concrete delivery meets the hypothesis and produces two non-trivial batches -/
example : NoOverflow (pending 60 [⟨none, false⟩, ⟨some 10, true⟩, ⟨none, false⟩, ⟨none, false⟩]) ∧
    (batches 100 60 [⟨none, false⟩, ⟨some 10, true⟩, ⟨none, false⟩, ⟨none, false⟩]).map (·.gas) = [60, 60, 60] := by
  unfold NoOverflow; decide

end Property
end Sygma.C14
