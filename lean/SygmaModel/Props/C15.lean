/-
  C15 — property theorems (DESIGN.md 5.15).

  What is modelled (Model/C15.lean): the whole of `DecodeDepositEvent` (loop over outputs, OP_RETURN decoding incl. the
  error and the slice panic, address matches, Taproot test, sums, fee comparison), `HandleDeposit` (Split, HexToAddress,
  ParseUint(…,10,8), ×10^10, `big.Int.Bytes`), `CalculateNonce` (SHA-256 + xor-fold) and the per-transaction part of
  `ProcessDeposits` for one and for several configured resources (errors and recovered panics drop that transaction only).
  What is assumed: `strconv.ParseFloat` and the float64 multiplication are IEEE-754 binary64 round-to-nearest (`IsRN`,
  Proofs/Binary64.lean); `math.Round` is the rational `round` away from ties (ties cannot occur: `sat_exact` shows
  |p − d| < 1/2).  Under that assumption `conversion_exact` shows that the satoshi value the code computes is the `sats`
  field the model uses (`conversion_witness`: such nearest values exist for every amount).  Addresses are compared as opaque
  tokens.  Several configured resources ARE modelled (`processTxR`, matched in resource-id order as the repaired
  ProcessDeposits does; that every relayer uses that order is C19's subject).
  Excluded points, modelled and run on the real code: a transaction that pays bridge and fee but carries no OP_RETURN, or one
  whose data has no `_` / no destination in 0..255, is recognised by DecodeDepositEvent and then dropped (HandleDeposit
  panics or errors; nothing is relayed: there is no destination to relay it to); a malformed OP_RETURN output (undecodable
  hex, or the bare one-byte script `6a`) makes DecodeDepositEvent fail instead (error / recovered panic), equally dropped.
  Not proved about SHA-256: anything (it is an executable definition compared with crypto/sha256 on every run).
-/
import SygmaModel.Model.C15
import SygmaModel.Proofs.C15Lemmas
import SygmaModel.Proofs.Binary64
namespace Sygma.C15

section Property

/-- **C15 (recognition and crediting), all inputs.** For every output list, bridge/fee address and fee threshold the decoded
    outcome satisfies `P15dec`: with well-formed OP_RETURN outputs, a deposit exactly when the bridge address is paid and the
    fee address receives at least the threshold, credited the exact Taproot-to-bridge satoshi sum with the last OP_RETURN
    payload; with a malformed OP_RETURN output, never credited. -/
theorem decode_P15 (b f : Nat) (fa : Int) (vs : List Vout) : P15dec b f fa vs (decode b f fa vs) := by
  unfold P15dec decode
  by_cases hwf : WF vs = true
  · rw [run_wf b f vs St.init hwf]
    simp only [hwf, ↓reduceIte, St.init, Nat.zero_add, Bool.false_or]
    by_cases hb : paysBridge b vs = true
    · by_cases hfee : (feeSum f vs : Int) < fa
      · simp [hb, hfee]
      · simp [hb, hfee]; omega
    · simp [hb]
  · have hwf' : WF vs = false := by simpa using hwf
    simp only [hwf', Bool.false_eq_true, ↓reduceIte]
    rcases run_illformed b f vs St.init hwf' with h | h <;> simp [h]

/-- recognition, as an equivalence -/
theorem recognised_iff (b f : Nat) (fa : Int) (vs : List Vout) (hwf : WF vs = true) :
    (∃ a d, decode b f fa vs = .deposit a d) ↔ (paysBridge b vs = true ∧ fa ≤ (feeSum f vs : Int)) := by
  have h := decode_P15 b f fa vs
  unfold P15dec at h
  simp only [hwf, ↓reduceIte] at h
  constructor
  · rintro ⟨a, d, he⟩; rw [he] at h; exact ⟨h.1, h.2.1⟩
  · intro hc
    cases he : decode b f fa vs with
    | deposit a d => exact ⟨a, d, rfl⟩
    | notDeposit => rw [he] at h; exact absurd hc h
    | err => rw [he] at h; exact h.elim
    | panic => rw [he] at h; exact h.elim

/-- the credited amount is the exact satoshi sum of the Taproot outputs to the bridge address -/
theorem credited_amount (b f : Nat) (fa : Int) (vs : List Vout) (a : Nat) (d : Bytes)
    (h : decode b f fa vs = .deposit a d) : a = taprootSum b vs ∧ d = dataFrom [] vs := by
  have hp := decode_P15 b f fa vs
  unfold P15dec at hp
  rw [h] at hp
  by_cases hwf : WF vs = true
  · simp only [hwf, ↓reduceIte] at hp; exact ⟨hp.2.2.1, hp.2.2.2⟩
  · simp [hwf] at hp

/-- excluded point of `recognised_iff`: a malformed OP_RETURN output makes the call fail (error or panic), whatever it pays -/
theorem malformed_not_credited (b f : Nat) (fa : Int) (vs : List Vout) (hwf : WF vs = false) :
    decode b f fa vs = .err ∨ decode b f fa vs = .panic := by
  unfold decode
  rcases run_illformed b f vs St.init hwf with h | h <;> simp [h]

/-- **C15 (payload), all inputs.** A message is produced exactly when the OP_RETURN data has a `_` and a destination in
    0..255; destination and recipient are the two OP_RETURN fields and the amount bytes are the credited amount times 10^10. -/
theorem handle_P15 (amount : Nat) (data : Bytes) : P15handle amount data (handleDeposit amount data) := by
  unfold handleDeposit
  rw [splitOn_spec 0x5f data]
  by_cases hs : data.any (· = 0x5f) = true
  · simp only [hs, ↓reduceIte]
    rw [splitOn_spec 0x5f ((data.dropWhile (· ≠ 0x5f)).drop 1)]
    have hf1 : List.takeWhile (· ≠ 0x5f) ((data.dropWhile (· ≠ 0x5f)).drop 1) = field1 data := rfl
    simp only [hf1]
    cases hp : parseU8 (field1 data) with
    | none => simp [P15handle, hasSep, hs, hp]
    | some d => simp [P15handle, hasSep, hs, hp, field0, beToNat_natToBE]
  · have hs' : data.any (· = 0x5f) = false := Bool.eq_false_iff.mpr hs
    simp only [hs', Bool.false_eq_true, ↓reduceIte]
    simpa [P15handle, hasSep] using hs'

/-- scaling is by exactly 10^10, and it is undone exactly by the destination's division (C16's message handler) -/
theorem scaled_exactly (amount : Nat) (data : Bytes) (d : Nat) (a r : Bytes)
    (h : handleDeposit amount data = .msg d a r) : beToNat a = amount * 10 ^ 10 ∧ beToNat a / 10 ^ 10 = amount := by
  have hp := handle_P15 amount data
  rw [h] at hp
  have h1 : beToNat a = amount * 10 ^ 10 := hp.2.2.2
  exact ⟨h1, by rw [h1]; exact Nat.mul_div_cancel _ (by decide)⟩

/-- **C15 (pipeline), all inputs.** For every transaction of a block: a message is emitted exactly when the transaction is
    recognised and its OP_RETURN payload is usable; its amount, recipient, destination and nonce are as specified. -/
theorem processTx_P15 (height b f : Nat) (fa : Int) (tx : Tx) :
    P15tx height b f fa tx (processTx height b f fa tx) := by
  have hd := decode_P15 b f fa tx.vouts
  unfold P15dec at hd
  unfold processTx P15tx
  cases hdec : decode b f fa tx.vouts with
  | deposit a d =>
    rw [hdec] at hd
    by_cases hwf : WF tx.vouts = true
    · simp only [hwf, ↓reduceIte] at hd
      obtain ⟨hb, hfee, ha, hdd⟩ := hd
      have hh := handle_P15 a d
      cases hhd : handleDeposit a d with
      | msg dest ab r =>
        rw [hhd] at hh
        simp only [P15handle] at hh
        subst ha; subst hdd
        simp only [hhd]
        exact ⟨⟨hwf, hb, hfee⟩, hh.1, hh.2.1, hh.2.2.1, hh.2.2.2, trivial⟩
      | err =>
        rw [hhd] at hh
        simp only [P15handle] at hh
        subst hdd
        simp [hhd, hh.2]
      | panic =>
        rw [hhd] at hh
        simp only [P15handle] at hh
        subst hdd
        simp [hhd, hh]
    · simp [hwf] at hd
  | notDeposit =>
    rw [hdec] at hd
    by_cases hwf : WF tx.vouts = true
    · simp only [hwf, ↓reduceIte] at hd
      simp only [hwf]
      intro hc
      exact hd ⟨hc.1.2.1, hc.1.2.2⟩
    · simp [hwf]
  | err =>
    rw [hdec] at hd
    by_cases hwf : WF tx.vouts = true
    · simp [hwf] at hd
    · simp [hwf]
  | panic =>
    rw [hdec] at hd
    by_cases hwf : WF tx.vouts = true
    · simp [hwf] at hd
    · simp [hwf]

/-- **C15 (pipeline, several resources), all inputs.** Whatever the list of configured resources (addresses, fee
    thresholds, any order): a transaction is credited to the first resource whose bridge address it pays and whose OWN fee
    threshold it meets, with the exact-amount / payload / nonce guarantees of `P15tx` for that resource; otherwise, or with a
    malformed OP_RETURN output, nothing is emitted.  History-free: the outcome depends on this transaction and the
    configuration only — not on earlier blocks, earlier calls, or the other transactions of the block. -/
theorem processTxR_P15 (height f : Nat) (rs : List Res) (tx : Tx) :
    P15txR height f rs tx (processTxR height f rs tx) := by
  induction rs with
  | nil => unfold P15txR processTxR; split <;> simp
  | cons r rs ih =>
    have hd := decode_P15 r.addr f r.fee tx.vouts
    have hsingle := processTx_P15 height r.addr f r.fee tx
    unfold P15dec at hd
    unfold P15txR at ih ⊢
    by_cases hwf : WF tx.vouts = true
    · simp only [hwf, ↓reduceIte] at hd ih ⊢
      cases hdec : decode r.addr f r.fee tx.vouts with
      | deposit a d =>
        rw [hdec] at hd
        have hc : credits f tx r = true := by simp [credits, hd.1, hd.2.1]
        simp only [List.find?_cons, hc]
        unfold processTx at hsingle
        simp only [hdec] at hsingle
        simp only [processTxR, hdec]
        cases hh : handleDeposit a d with
        | msg dest ab rc => simp only [hh] at hsingle ⊢; exact ⟨hsingle, by simp⟩
        | err => simp only [hh] at hsingle ⊢; exact ⟨hsingle, by simp⟩
        | panic => simp only [hh] at hsingle ⊢; exact ⟨hsingle, by simp⟩
      | notDeposit =>
        rw [hdec] at hd
        have hc : credits f tx r = false := by
          simp only [credits, Bool.and_eq_false_imp, decide_eq_false_iff_not]
          intro hb hf; exact hd ⟨hb, hf⟩
        simp only [List.find?_cons, hc, processTxR, hdec]
        exact ih
      | err => rw [hdec] at hd; exact hd.elim
      | panic => rw [hdec] at hd; exact hd.elim
    · have hwf' : WF tx.vouts = false := Bool.eq_false_iff.mpr hwf
      simp only [hwf', Bool.false_eq_true, ↓reduceIte]
      rcases malformed_not_credited r.addr f r.fee tx.vouts hwf' with h | h <;> simp [processTxR, h]

/-- each resource is judged by its own threshold: a transaction paying resource `r`'s address and `r`'s fee is credited even
    if every other configured resource asks for more, and one that under-pays `r`'s fee is not credited to `r` even if the
    others ask for less -/
theorem own_fee_threshold (height f : Nat) (rs : List Res) (tx : Tx) (x : Nat × Msg)
    (h : processTxR height f rs tx = some x) :
    ∃ r ∈ rs, r.rid = x.1 ∧ paysBridge r.addr tx.vouts = true ∧ r.fee ≤ (feeSum f tx.vouts : Int) := by
  have hp := processTxR_P15 height f rs tx
  rw [h] at hp
  unfold P15txR at hp
  by_cases hwf : WF tx.vouts = true
  · simp only [hwf, ↓reduceIte] at hp
    cases hf : rs.find? (credits f tx) with
    | none => simp [hf] at hp
    | some r =>
      simp only [hf] at hp
      have hc := List.find?_some hf
      simp only [credits, Bool.and_eq_true, decide_eq_true_eq] at hc
      exact ⟨r, List.mem_of_find?_eq_some hf, (hp.2 x rfl).symm, hc.1, hc.2⟩
  · simp [hwf] at hp

/-- the emitted messages of a block are exactly the per-transaction results, in block order: a transaction that fails or
    panics suppresses nothing but itself -/
theorem process_eq (height b f : Nat) (fa : Int) (txs : List Tx) :
    process height b f fa txs = txs.filterMap (processTx height b f fa) := rfl

/-- the deposit nonce of an emitted message is a function of block height and transaction hash only: neither the outputs,
    the addresses, the fee threshold nor the other transactions of the block enter -/
theorem nonce_depends_only_on_height_and_hash (height b f b' f' : Nat) (fa fa' : Int) (tx tx' : Tx) (m m' : Msg)
    (hh : tx.hash = tx'.hash)
    (h : processTx height b f fa tx = some m) (h' : processTx height b' f' fa' tx' = some m') : m.nonce = m'.nonce := by
  have h1 := processTx_P15 height b f fa tx
  have h2 := processTx_P15 height b' f' fa' tx'
  rw [h] at h1; rw [h'] at h2
  simp only [P15tx] at h1 h2
  rw [h1.2.2.2.2.2, h2.2.2.2.2.2, hh]

open Sygma.Binary64 in
/-- **C15 (exactness of the conversion the repaired code performs), over the binary64 specification.**
    For every satoshi amount `d ≤ 21·10^14`: if `v` is a binary64 value nearest to the decimal `d/10^8` (what `ParseFloat`
    returns) and `p` a binary64 value nearest to `v·10^8` (the float64 product), then rounding `p` to the nearest integer
    (`math.Round`) gives back `d`.  Hence the `sats` field of the model is what the code credits. -/
theorem conversion_exact (d : ℕ) (hd : d ≤ 21 * 10 ^ 14) (v p : ℚ)
    (hv : IsRN ((d : ℚ) / 10 ^ 8) v) (hp : IsRN (v * 10 ^ 8) p) : round p = (d : ℤ) :=
  sat_exact' d hd v p hv hp

open Sygma.Binary64 in
/-- non-vacuity of `conversion_exact`'s hypotheses: for every amount a nearest binary64 value `v` of the decimal and a nearest
    binary64 value `p` of the product exist (the binary64 values are a finite non-empty set), and every such pair rounds to `d` -/
theorem conversion_witness (d : ℕ) (hd : d ≤ 21 * 10 ^ 14) :
    ∃ v p : ℚ, IsRN ((d : ℚ) / 10 ^ 8) v ∧ IsRN (v * 10 ^ 8) p ∧ round p = (d : ℤ) := by
  obtain ⟨v, hv⟩ := exists_rn ((d : ℚ) / 10 ^ 8)
  obtain ⟨p, hp⟩ := exists_rn (v * 10 ^ 8)
  exact ⟨v, p, hv, hp, conversion_exact d hd v p hv hp⟩

open Sygma.Binary64 in
/-- the credited sum computed from float values equals the model's integer sum, output by output -/
theorem credited_sum_exact (b : Nat) (vs : List Vout) (fv fp : Vout → ℚ)
    (hd : ∀ v ∈ vs, v.sats ≤ 21 * 10 ^ 14)
    (hv : ∀ v ∈ vs, IsRN ((v.sats : ℚ) / 10 ^ 8) (fv v))
    (hp : ∀ v ∈ vs, IsRN (fv v * 10 ^ 8) (fp v)) :
    (((vs.filter fun v => v.addr = b ∧ v.ty = .taproot).map fun v => round (fp v)).sum : ℤ) = (taprootSum b vs : ℤ) := by
  unfold taprootSum
  induction vs with
  | nil => simp
  | cons x xs ih =>
    have hx := conversion_exact x.sats (hd x (by simp)) (fv x) (fp x) (hv x (by simp)) (hp x (by simp))
    have ih' := ih (fun v hv' => hd v (by simp [hv'])) (fun v hv' => hv v (by simp [hv'])) (fun v hv' => hp v (by simp [hv']))
    by_cases hc : x.addr = b ∧ x.ty = .taproot
    · simp only [List.filter_cons, hc, and_self, decide_true, ↓reduceIte, List.map_cons, List.sum_cons, hx]
      rw [ih']; push_cast; ring
    · simp only [List.filter_cons, hc, decide_false, Bool.false_eq_true, ↓reduceIte]
      exact ih'

/-! ### non-vacuity -/

/-- a recognised deposit: two Taproot outputs (3 and 29 sat) and one non-Taproot output to the bridge, the fee exactly at
    the threshold, two OP_RETURN outputs (the last one wins) -/
example :
    let vs : List Vout := [⟨.taproot, 0, 3, some []⟩, ⟨.nulldata, 4, 0, some [0x6a, 2, 0x41, 0x5f]⟩, ⟨.other, 0, 5, some []⟩,
      ⟨.taproot, 0, 29, some []⟩, ⟨.taproot, 1, 57, some []⟩, ⟨.nulldata, 4, 0, some [0x6a, 3, 0x31, 0x5f, 0x32]⟩]
    WF vs = true ∧ decode 0 1 57 vs = .deposit 32 [0x31, 0x5f, 0x32] ∧ decode 0 1 58 vs = .notDeposit := by
  decide

/-- excluded points: OP_RETURN with undecodable hex → error; with fewer than two bytes → panic (recovered by ProcessDeposits) -/
example : decode 0 1 0 [⟨.taproot, 0, 3, some []⟩, ⟨.nulldata, 4, 0, none⟩] = .err ∧
          decode 0 1 0 [⟨.taproot, 0, 3, some []⟩, ⟨.nulldata, 4, 0, some [0x6a]⟩] = .panic := by
  decide

/-- a payload `0x…42_1`: destination 1, 20-byte recipient, 3 sat scaled to 3·10^10 = 0x06fc23ac00 -/
example : handleDeposit 3 ([0x30, 0x78, 0x34, 0x32] ++ [0x5f, 0x31]) =
    .msg 1 [0x06, 0xfc, 0x23, 0xac, 0x00] (List.replicate 19 0 ++ [0x42]) := by
  have h : natToBE (3 * 10 ^ 10) = [0x06, 0xfc, 0x23, 0xac, 0x00] := by simp [natToBE, natToBEAux]
  simp only [handleDeposit, h]
  decide

/-- two resources with thresholds 5 and 9 on different addresses, fee paid 7: the cheaper one is credited, the dearer one is not -/
example :
    let mk (b : Nat) : Tx := ⟨[0x61], [⟨.taproot, b, 30, some []⟩, ⟨.taproot, 9, 7, some []⟩, ⟨.nulldata, 4, 0, some [0x6a, 3, 0x31, 0x5f, 0x32]⟩]⟩
    (processTxR 100 9 [⟨1, 0, 5⟩, ⟨2, 1, 9⟩] (mk 0)).map (·.1) = some 1 ∧ processTxR 100 9 [⟨1, 0, 5⟩, ⟨2, 1, 9⟩] (mk 1) = none ∧
    (processTxR 100 9 [⟨1, 0, 9⟩, ⟨2, 1, 5⟩] (mk 1)).map (·.1) = some 2 := by
  refine ⟨?_, ?_, ?_⟩ <;> simp [processTxR, decode, run, step, St.init, handleDeposit, splitOn, parseU8, isDigit, decVal]

example : handleDeposit 3 [0x30, 0x78] = .panic ∧ handleDeposit 3 [0x5f, 0x32, 0x35, 0x36] = .err := by decide

end Property
end Sygma.C15
