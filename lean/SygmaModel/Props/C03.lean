import SygmaModel.Model.C03
namespace Sygma.C03
end Sygma.C03
