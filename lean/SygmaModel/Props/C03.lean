/-
  C03 — property theorems (DESIGN.md 5.3). Helper lemmas in `section Helpers`, property theorems in `section Property`.

  What is proved, for ALL deliveries / answer assignments / status maps / fault streams / histories of the model
  (Model/C03.lean, which is tied to the real `Execute` of the three executors by the differential runs):
    * per destination kind, the sessions started by one delivery satisfy P03: a failed lookup ⇒ nothing signed;
      otherwise the sessions hold exactly the not-yet-executed proposals, none is empty (EVM, Substrate: in order)
    * BTC: the selected set is marked `pending` before anything is signed, executed records are never overwritten by a
      delivery, a proposal recorded executed or in flight is never selected, every other delivered one is
    * history corollaries: the same for every delivery of every history (destination's executed set growing; BTC
      status machine with outcomes recorded through `storeProposalsStatus`)
    * lookup_faithful / submit_is_signed / never_submitted: the lookup asks about the proposal's own (origin domain,
      nonce); what is submitted for a session is what was signed in it, hence never an executed proposal
  Assumed (inputs of the model): the destination's answers; the store's fault stream.
  Partial: the TSS signing between "session started" and "signature arrives" is not modelled; that `Execute` hands the
  hashed batch to `watchExecution` is a regenerated source fact (Oblig/C03.lean), that `watchExecution` submits exactly
  its batch is checked on the real code (op `submit`). BTC submission: only the outcome recording (C17).
  The as-found Substrate behaviour is kept as `subAsFound` with the witness theorems `subAsFound_violates`.
-/
import SygmaModel.Model.C03
namespace Sygma.C03

section Helpers

theorem hasErr_cons (n : Nat) (a : Ans) (r : Delivery) :
    hasErr ((n, a) :: r) = (decide (a = .err) || hasErr r) := rfl

theorem wanted_cons (n : Nat) (a : Ans) (r : Delivery) :
    wanted ((n, a) :: r) = if a = .notExec then n :: wanted r else wanted r := by
  by_cases h : a = .notExec <;> simp [wanted, List.filter_cons, h]

theorem subLoop_spec (d : Delivery) (acc : List Nat) :
    subLoop d acc = if hasErr d then none else some (acc ++ wanted d) := by
  induction d generalizing acc with
  | nil => simp [subLoop, hasErr, wanted]
  | cons x r ih =>
    obtain ⟨n, a⟩ := x
    rw [hasErr_cons, wanted_cons]
    cases a <;> simp [subLoop, ih]

/-- the batching loop never loses, duplicates or reorders a proposal (no arithmetic hypothesis needed) -/
theorem packStep_flatten (cap : Nat) (st : List C14.Bt × C14.Bt) (x : Nat × Nat) :
    ((C14.packStep cap st x).1.map (·.members)).flatten ++ (C14.packStep cap st x).2.members
      = ((st.1.map (·.members)).flatten ++ st.2.members) ++ [x] := by
  unfold C14.packStep
  split <;> simp

theorem foldl_pack_flatten (cap : Nat) (xs : List (Nat × Nat)) (st : List C14.Bt × C14.Bt) :
    (((xs.foldl (C14.packStep cap) st).1.map (·.members)).flatten ++ (xs.foldl (C14.packStep cap) st).2.members)
      = ((st.1.map (·.members)).flatten ++ st.2.members) ++ xs := by
  induction xs generalizing st with
  | nil => simp
  | cons x r ih => simp only [List.foldl_cons]; rw [ih, packStep_flatten]; simp

theorem pack_flatten (cap : Nat) (xs : List (Nat × Nat)) :
    ((C14.pack cap xs).map (·.members)).flatten = xs := by
  have := foldl_pack_flatten cap xs ([], ⟨[], 0⟩)
  simpa [C14.pack] using this

theorem flatten_filter_ne_nil {α} (l : List (List α)) : (l.filter (· ≠ [])).flatten = l.flatten := by
  induction l with
  | nil => rfl
  | cons x r ih =>
    by_cases h : x = [] <;> simp_all

theorem sessions_flatten_aux (bs : List C14.Bt) :
    ((bs.filter (·.members ≠ [])).map fun b => b.members.map (·.1)).flatten
      = ((bs.map (·.members)).flatten).map (·.1) := by
  induction bs with
  | nil => rfl
  | cons b r ih =>
    by_cases hb : b.members = []
    · simp [List.filter_cons, hb] at ih ⊢
      exact ih
    · simp [List.filter_cons, hb] at ih ⊢
      exact ih

theorem evm_sessions_flatten (cap tg : Nat) (w : List Nat) :
    ((((C14.pack cap (w.map fun n => (n, tg % C14.M))).filter (·.members ≠ [])).map
        fun b => b.members.map (·.1))).flatten = w := by
  rw [sessions_flatten_aux, pack_flatten]
  simp [List.map_map, Function.comp_def]

theorem evm_sessions_nonempty (bs : List C14.Bt) :
    ∀ s ∈ (bs.filter (·.members ≠ [])).map (fun b => b.members.map (·.1)), s ≠ [] := by
  intro s hs
  simp only [List.mem_map, List.mem_filter] at hs
  obtain ⟨b, ⟨_, hb⟩, rfl⟩ := hs
  simpa using hb

theorem insertBy_perm (x : List Nat) (l : List (List Nat)) : (insertBy x l).Perm (x :: l) := by
  induction l with
  | nil => simp [insertBy]
  | cons y r ih =>
    unfold insertBy
    split
    · exact List.Perm.refl _
    · exact (List.Perm.cons y ih).trans (List.Perm.swap x y r)

theorem sortSessions_perm (l : List (List Nat)) : (sortSessions l).Perm l := by
  induction l with
  | nil => exact List.Perm.refl _
  | cons x r ih =>
    show (insertBy x (sortSessions r)).Perm (x :: r)
    exact (insertBy_perm x _).trans (List.Perm.cons x ih)

theorem lookup_cons (m : List (Nat × Status)) (k n : Nat) (v : Status) :
    lookup ((k, v) :: m) n = if k = n then v else lookup m n := rfl


@[simp] theorem read_nil (m : List (Nat × Status)) (n : Nat) :
    Store.read ⟨m, []⟩ n = (some (lookup m n), ⟨m, []⟩) := rfl
@[simp] theorem read_cons (m : List (Nat × Status)) (f : Bool) (fr : List Bool) (n : Nat) :
    Store.read ⟨m, f :: fr⟩ n = if f then (none, ⟨m, fr⟩) else (some (lookup m n), ⟨m, fr⟩) := by
  cases f <;> rfl
@[simp] theorem write_nil (m : List (Nat × Status)) (n : Nat) (v : Status) :
    Store.write ⟨m, []⟩ n v = (true, ⟨(n, v) :: m, []⟩) := rfl
@[simp] theorem write_cons (m : List (Nat × Status)) (f : Bool) (fr : List Bool) (n : Nat) (v : Status) :
    Store.write ⟨m, f :: fr⟩ n v = if f then (false, ⟨m, fr⟩) else (true, ⟨(n, v) :: m, fr⟩) := by
  cases f <;> rfl

theorem need_cons (m : List (Nat × Status)) (n : Nat) (r : List Nat) :
    need m (n :: r) = if canExec (lookup m n) then need ((n, .pending) :: m) r + 2 else need m r + 1 := by
  by_cases h : canExec (lookup m n) = true
  · simp [need, executable, h]; omega
  · simp [need, executable, h]; omega

theorem faulted_nil_faults (m : List (Nat × Status)) (d : List Nat) : faulted ⟨m, []⟩ d = false := by
  simp [faulted]

theorem faulted_nil (s : Store) : faulted s [] = false := by
  simp [faulted, need, executable]

theorem faulted_cons (m : List (Nat × Status)) (f : Bool) (fr : List Bool) (n : Nat) (r : List Nat) :
    faulted ⟨m, f :: fr⟩ (n :: r) =
      (f || if canExec (lookup m n) then
              (match fr with
               | [] => false
               | f2 :: fr2 => f2 || faulted ⟨(n, .pending) :: m, fr2⟩ r)
            else faulted ⟨m, fr⟩ r) := by
  unfold faulted
  simp only [need_cons]
  split
  · cases fr with
    | nil => simp
    | cons f2 fr2 => simp [List.take_succ_cons]
  · simp [List.take_succ_cons]

theorem forExec_spec (s : Store) (d : List Nat) :
    (faulted s d = true → (forExec s d).1 = none) ∧
    (faulted s d = false → (forExec s d).1 = some (executable s.m d) ∧
        ∀ k, lookup (forExec s d).2.m k = if k ∈ executable s.m d then .pending else lookup s.m k) := by
  induction d generalizing s with
  | nil => simp [faulted_nil, forExec, executable]
  | cons n r ih =>
    obtain ⟨m, fs⟩ := s
    cases fs with
    | nil =>
      have ih1 := ih ⟨(n, .pending) :: m, []⟩
      have ih2 := ih ⟨m, []⟩
      simp only [faulted_nil_faults] at ih1 ih2 ⊢
      by_cases hc : canExec (lookup m n) = true
      · simp [forExec, executable, hc, ih1, lookup_cons]
        intro k
        by_cases hk : k = n <;> by_cases hk2 : k ∈ executable ((n, Status.pending) :: m) r <;> simp [hk, hk2, Ne.symm]
      · simp [forExec, executable, hc, ih2]
    | cons f fr =>
      rw [faulted_cons]
      cases f with
      | true => simp [forExec]
      | false =>
        by_cases hc : canExec (lookup m n) = true
        · cases fr with
          | nil =>
            have ih1 := ih ⟨(n, .pending) :: m, []⟩
            simp only [faulted_nil_faults] at ih1
            simp [forExec, executable, hc, ih1, lookup_cons]
            intro k
            by_cases hk : k = n <;> by_cases hk2 : k ∈ executable ((n, Status.pending) :: m) r <;> simp [hk, hk2]
            · intro h; exact absurd h.symm hk
          | cons f2 fr2 =>
            cases f2 with
            | true => simp [forExec, hc]
            | false =>
              have ih1 := ih ⟨(n, .pending) :: m, fr2⟩
              simp only [hc, if_true, Bool.false_or]
              constructor
              · intro hf
                simp [forExec, hc, ih1.1 hf]
              · intro hf
                have := ih1.2 hf
                simp [forExec, executable, hc, this.1, this.2, lookup_cons]
                intro k
                by_cases hk : k = n <;> by_cases hk2 : k ∈ executable ((n, Status.pending) :: m) r <;> simp [hk, hk2]
                · intro h; exact absurd h.symm hk
        · have ih2 := ih ⟨m, fr⟩
          simp only [hc, Bool.false_or]
          simp [forExec, executable, hc]
          exact ih2

/-- whatever the fault stream does, a delivery changes a status only from executable to `pending` -/
theorem forExec_preserves (s : Store) (d : List Nat) (k : Nat) :
    lookup (forExec s d).2.m k = lookup s.m k ∨
      (canExec (lookup s.m k) = true ∧ lookup (forExec s d).2.m k = .pending) := by
  induction d generalizing s with
  | nil => simp [forExec]
  | cons n r ih =>
    obtain ⟨m, fs⟩ := s
    have step : ∀ fs', lookup (forExec ⟨(n, .pending) :: m, fs'⟩ r).2.m k = lookup m k ∨
        (canExec (lookup m k) = true ∧ lookup (forExec ⟨(n, .pending) :: m, fs'⟩ r).2.m k = .pending) ∨
        canExec (lookup m n) = false := by
      intro fs'
      by_cases hc : canExec (lookup m n) = true
      · rcases ih ⟨(n, .pending) :: m, fs'⟩ with h | h
        · simp only [lookup_cons] at h
          by_cases hk : n = k
          · subst hk; right; left; exact ⟨hc, by simpa using h⟩
          · left; simpa [hk] using h
        · simp only [lookup_cons] at h
          by_cases hk : n = k
          · subst hk; simp [canExec] at h
          · right; left; simpa [hk] using h
      · right; right; simpa using hc
    by_cases hc : canExec (lookup m n) = true
    · cases fs with
      | nil =>
        rcases step [] with h | h | h
        · left; simpa [forExec, hc] using h
        · right; simpa [forExec, hc] using h
        · simp [hc] at h
      | cons f fr =>
        cases f with
        | true => left; simp [forExec]
        | false =>
          cases fr with
          | nil =>
            rcases step [] with h | h | h
            · left; simpa [forExec, hc] using h
            · right; simpa [forExec, hc] using h
            · simp [hc] at h
          | cons f2 fr2 =>
            cases f2 with
            | true => left; simp [forExec, hc]
            | false =>
              rcases step fr2 with h | h | h
              · left; simpa [forExec, hc] using h
              · right; simpa [forExec, hc] using h
              · simp [hc] at h
    · cases fs with
      | nil => simpa [forExec, hc] using ih ⟨m, []⟩
      | cons f fr =>
        cases f with
        | true => left; simp [forExec]
        | false => simpa [forExec, hc] using ih ⟨m, fr⟩

theorem mem_executable (m : List (Nat × Status)) (d : List Nat) (k : Nat) :
    k ∈ executable m d ↔ k ∈ d ∧ canExec (lookup m k) = true := by
  induction d generalizing m with
  | nil => simp [executable]
  | cons n r ih =>
    by_cases hc : canExec (lookup m n) = true
    · simp only [executable, hc, if_true, List.mem_cons, ih, lookup_cons]
      by_cases hk : n = k
      · subst hk; simp [hc]
      · have : ¬ k = n := fun h => hk h.symm
        simp [hk, this]
    · have hc' : canExec (lookup m n) = false := by simpa using hc
      simp only [executable, hc', Bool.false_eq_true, if_false, List.mem_cons, ih]
      by_cases hk : n = k
      · subst hk; simp [hc']
      · have : ¬ k = n := fun h => hk h.symm
        simp [this]

theorem executable_nodup (m : List (Nat × Status)) (d : List Nat) : (executable m d).Nodup := by
  induction d generalizing m with
  | nil => simp [executable]
  | cons n r ih =>
    by_cases hc : canExec (lookup m n) = true
    · simp only [executable, hc, if_true, List.nodup_cons]
      refine ⟨?_, ih _⟩
      rw [mem_executable]
      simp [lookup_cons, canExec]
    · simpa [executable, hc] using ih m

theorem executable_eq_filter (m : List (Nat × Status)) (d : List Nat) (hd : d.Nodup) :
    executable m d = d.filter fun n => canExec (lookup m n) := by
  induction d generalizing m with
  | nil => rfl
  | cons n r ih =>
    have hn : n ∉ r := (List.nodup_cons.1 hd).1
    have hr : r.Nodup := (List.nodup_cons.1 hd).2
    have hsame : (r.filter fun k => canExec (lookup ((n, .pending) :: m) k)) = r.filter fun k => canExec (lookup m k) := by
      apply List.filter_congr
      intro k hk
      have : n ≠ k := fun h => hn (h ▸ hk)
      simp [lookup_cons, this]
    by_cases hc : canExec (lookup m n) = true
    · simp [executable, hc, List.filter_cons, ih _ hr, hsame]
    · simp [executable, hc, List.filter_cons, ih _ hr]

theorem addTo_perm (res : Nat → Nat) (n : Nat) (cs : List (List Nat)) :
    (addTo res n cs).flatten.Perm (n :: cs.flatten) := by
  induction cs with
  | nil => simp [addTo]
  | cons c r ih =>
    unfold addTo
    split
    · simp only [List.flatten_cons, List.append_assoc, List.singleton_append]
      exact List.perm_middle
    · simp only [List.flatten_cons]
      exact (List.Perm.append_left c ih).trans List.perm_middle

theorem addTo_nonempty (res : Nat → Nat) (n : Nat) (cs : List (List Nat)) (h : ∀ s ∈ cs, s ≠ []) :
    ∀ s ∈ addTo res n cs, s ≠ [] := by
  induction cs with
  | nil => simp [addTo]
  | cons c r ih =>
    unfold addTo
    split
    · intro s hs
      rcases List.mem_cons.1 hs with rfl | h'
      · simp
      · exact h s (List.mem_cons_of_mem _ h')
    · intro s hs
      rcases List.mem_cons.1 hs with rfl | h'
      · exact h s (List.mem_cons_self ..)
      · exact ih (fun s hs => h s (List.mem_cons_of_mem _ hs)) s h'

theorem foldl_addTo (res : Nat → Nat) (ns : List Nat) (acc : List (List Nat)) (h : ∀ s ∈ acc, s ≠ []) :
    (ns.foldl (fun acc n => addTo res n acc) acc).flatten.Perm (acc.flatten ++ ns) ∧
    ∀ s ∈ ns.foldl (fun acc n => addTo res n acc) acc, s ≠ [] := by
  induction ns generalizing acc with
  | nil => simpa using h
  | cons n r ih =>
    simp only [List.foldl_cons]
    have := ih (addTo res n acc) (addTo_nonempty res n acc h)
    refine ⟨this.1.trans ?_, this.2⟩
    exact (List.Perm.append_right r (addTo_perm res n acc)).trans (by simpa using List.perm_middle.symm)

theorem classes_perm (res : Nat → Nat) (ns : List Nat) : (classes res ns).flatten.Perm ns := by
  simpa [classes] using (foldl_addTo res ns [] (by simp)).1

theorem classes_nonempty (res : Nat → Nat) (ns : List Nat) : ∀ s ∈ classes res ns, s ≠ [] :=
  (foldl_addTo res ns [] (by simp)).2

/-- every class holds proposals of one resource -/
def Homog (res : Nat → Nat) (cs : List (List Nat)) : Prop := ∀ c ∈ cs, ∀ n ∈ c, res n = res (c.headD 0)

theorem addTo_homog (res : Nat → Nat) (n : Nat) (cs : List (List Nat)) (h : Homog res cs) :
    Homog res (addTo res n cs) := by
  induction cs with
  | nil =>
    intro c hc k hk
    simp [addTo] at hc; subst hc; simp at hk; subst hk; rfl
  | cons c r ih =>
    unfold addTo
    split
    · next heq =>
      intro c' hc' k hk
      rcases List.mem_cons.1 hc' with rfl | h'
      · cases c with
        | nil => simp at hk; subst hk; rfl
        | cons a t =>
          have hc := h (a :: t) (List.mem_cons_self ..)
          simp only [List.cons_append, List.headD_cons] at hc ⊢
          rcases List.mem_cons.1 hk with rfl | hk'
          · rfl
          · rcases List.mem_append.1 hk' with h1 | h1
            · exact hc k (List.mem_cons_of_mem _ h1)
            · simp at h1; subst h1; simpa using (beq_iff_eq.1 heq).symm
      · exact h c' (List.mem_cons_of_mem _ h') k hk
    · intro c' hc' k hk
      rcases List.mem_cons.1 hc' with rfl | h'
      · exact h c' (List.mem_cons_self ..) k hk
      · exact ih (fun x hx => h x (List.mem_cons_of_mem _ hx)) c' h' k hk

theorem classes_homog (res : Nat → Nat) (ns : List Nat) : Homog res (classes res ns) := by
  unfold classes
  suffices ∀ acc, Homog res acc → Homog res (ns.foldl (fun acc n => addTo res n acc) acc) from
    this [] (by intro c hc; cases hc)
  induction ns with
  | nil => intro acc h; exact h
  | cons n r ih => intro acc h; exact ih _ (addTo_homog res n acc h)

theorem group_homog (res : Nat → Nat) (ns : List Nat) : Homog res (group res ns) := by
  intro c hc
  exact classes_homog res ns c ((sortSessions_perm _).mem_iff.1 hc)

theorem group_perm (res : Nat → Nat) (ns : List Nat) : (group res ns).flatten.Perm ns :=
  (List.Perm.flatten (sortSessions_perm _)).trans (classes_perm res ns)

theorem group_nonempty (res : Nat → Nat) (ns : List Nat) : ∀ s ∈ group res ns, s ≠ [] := by
  intro s hs
  exact classes_nonempty res ns s ((sortSessions_perm _).mem_iff.1 hs)

end Helpers


section Property

/-- **C03 / Substrate.** For every delivery and every assignment of answers: a failed lookup ⇒ no session;
    otherwise exactly one session holding the not-yet-executed proposals in order, or none if there are none. -/
theorem sub_P03 (d : Delivery) : P03ord (hasErr d) (wanted d) (sub d).sessions := by
  unfold sub P03ord
  rw [subLoop_spec]
  by_cases h : hasErr d = true
  · simp [h]
  · simp only [h, Bool.false_eq_true, if_false, List.nil_append]
    cases hw : wanted d <;> simp

/-- **C03 / EVM.** Same for the EVM executor, for every gas cap and transfer gas cost (any batching). -/
theorem evm_P03 (cap tg : Nat) (d : Delivery) : P03ord (hasErr d) (wanted d) (evm cap tg d).sessions := by
  unfold evm P03ord
  by_cases h : hasErr d = true
  · simp [h]
  · simp only [h, Bool.false_eq_true, if_false]
    have hf := evm_sessions_flatten cap tg (wanted d)
    have hn := evm_sessions_nonempty (C14.pack cap ((wanted d).map fun n => (n, tg % C14.M)))
    split
    · next he => rw [he] at hf; simp at hf; simp [← hf]
    · exact ⟨hf, hn⟩

/-- **C03 / BTC.** For every status map, fault stream and delivery: a failing store call ⇒ no session; otherwise
    the sessions (one per resource) together hold exactly the executable proposals, none is empty. -/
theorem btc_P03 (res : Nat → Nat) (s : Store) (d : List Nat) :
    P03 (faulted s d) (executable s.m d) (btc res s d).1.sessions := by
  unfold btc P03
  by_cases hd : d = []
  · subst hd; simp [faulted_nil, executable]
  · simp only [hd, if_false]
    have hs := forExec_spec s d
    by_cases hf : faulted s d = true
    · have h1 := hs.1 hf
      rcases hfe : forExec s d with ⟨o, s'⟩
      rw [hfe] at h1; simp only at h1; subst h1
      simp [hf]
    · have hf' : faulted s d = false := by simpa using hf
      have h1 := (hs.2 hf').1
      rcases hfe : forExec s d with ⟨o, s'⟩
      rw [hfe] at h1; simp only at h1; subst h1
      simp only [hf', Bool.false_eq_true, if_false]
      cases hx : executable s.m d with
      | nil => simp
      | cons a l => exact ⟨group_perm res (a :: l), group_nonempty res (a :: l)⟩

/-- BTC: every session holds proposals of a single resource (one transaction per resource) -/
theorem btc_sessions_one_resource (res : Nat → Nat) (s : Store) (d : List Nat) :
    ∀ c ∈ (btc res s d).1.sessions, ∀ n ∈ c, res n = res (c.headD 0) := by
  unfold btc
  by_cases hd : d = []
  · simp [hd]
  · simp only [hd, if_false]
    rcases forExec s d with ⟨o, s'⟩
    rcases o with _ | ns
    · simp
    · cases ns with
      | nil => simp
      | cons a l => exact group_homog res (a :: l)

/-- the ordered form implies the general one -/
theorem P03ord_imp (e : Bool) (w : List Nat) (ss : List (List Nat)) (h : P03ord e w ss) : P03 e w ss := by
  unfold P03ord at h; unfold P03
  split
  · next he => simpa [he] using h
  · next he => simp only [he, if_false] at h; exact ⟨h.1 ▸ List.Perm.refl _, h.2⟩

/-- **never again.** Whatever satisfies P03 signs no proposal outside the wanted set — in particular (EVM/Substrate)
    nothing the destination reported executed … -/
theorem signed_is_wanted (e : Bool) (w : List Nat) (ss : List (List Nat)) (h : P03 e w ss) (n : Nat)
    (hn : n ∈ ss.flatten) : n ∈ w := by
  unfold P03 at h
  split at h
  · subst h; simp at hn
  · exact h.1.mem_iff.1 hn

theorem wanted_mem (d : Delivery) (n : Nat) : n ∈ wanted d ↔ (n, Ans.notExec) ∈ d := by
  unfold wanted
  simp only [List.mem_map, List.mem_filter, decide_eq_true_eq]
  constructor
  · rintro ⟨⟨k, a⟩, ⟨hm, ha⟩, rfl⟩; simp only at ha; subst ha; exact hm
  · intro h; exact ⟨(n, .notExec), ⟨h, rfl⟩, rfl⟩

/-- … and (BTC) nothing whose durable status is `executed` or `pending` (in flight) at delivery time, while every
    delivered proposal that is missing or failed IS selected when no store call fails. -/
theorem btc_signed_iff (res : Nat → Nat) (s : Store) (d : List Nat) (hf : faulted s d = false) (n : Nat) :
    n ∈ (btc res s d).1.sessions.flatten ↔ n ∈ d ∧ (lookup s.m n = .missing ∨ lookup s.m n = .failed) := by
  have h := btc_P03 res s d
  simp only [P03, hf, Bool.false_eq_true, if_false] at h
  rw [h.1.mem_iff, mem_executable]
  simp [canExec]

theorem btc_fault_signs_nothing (res : Nat → Nat) (s : Store) (d : List Nat) (hf : faulted s d = true) :
    (btc res s d).1.sessions = [] := by
  have h := btc_P03 res s d
  simpa [P03, hf] using h

/-- in-flight is durable: without a store fault every selected proposal is `pending` when `Execute` goes on to sign,
    and no other status changed -/
theorem btc_marks_pending (res : Nat → Nat) (s : Store) (d : List Nat) (hf : faulted s d = false) (k : Nat) :
    lookup (btc res s d).2.m k = if k ∈ executable s.m d then .pending else lookup s.m k := by
  unfold btc
  by_cases hd : d = []
  · subst hd; simp [executable]
  · simp only [hd, if_false]
    have h2 := ((forExec_spec s d).2 hf).2 k
    have h1 := ((forExec_spec s d).2 hf).1
    rcases hfe : forExec s d with ⟨o, s'⟩
    rw [hfe] at h1 h2; simp only at h1 h2; subst h1
    cases hx : executable s.m d <;> simp_all

/-- a delivery never overwrites an `executed` (or `pending`) record, whatever the store's faults -/
theorem btc_keeps_executed (res : Nat → Nat) (s : Store) (d : List Nat) (k : Nat)
    (hk : lookup s.m k = .executed ∨ lookup s.m k = .pending) :
    lookup (btc res s d).2.m k = lookup s.m k := by
  have key : lookup (forExec s d).2.m k = lookup s.m k := by
    rcases forExec_preserves s d k with h | h
    · exact h
    · rcases hk with hk | hk <;> simp [hk, canExec] at h
  unfold btc
  by_cases hd : d = []
  · simp [hd]
  · simp only [hd, if_false]
    rcases hfe : forExec s d with ⟨o, s'⟩
    rw [hfe] at key
    rcases o with _ | ns
    · exact key
    · cases ns <;> exact key

/-- for a delivery without repeated nonces the selection is the plain filter of the statement -/
theorem btc_selection_is_filter (m : List (Nat × Status)) (d : List Nat) (hd : d.Nodup) :
    executable m d = d.filter fun n => lookup m n = .missing ∨ lookup m n = .failed := by
  rw [executable_eq_filter m d hd]
  apply List.filter_congr
  intro n _
  simp [canExec]

/-- the lookup asks the destination about the proposal's own origin domain and nonce and passes the answer on -/
theorem lookup_faithful (source destination nonce : Nat) (a : Ans) :
    PLookup source nonce a (lookupQuery source destination nonce) (lookupAnswer a) := ⟨rfl, rfl, rfl⟩

/-- what is submitted for a session is what was signed in it; together with P03: a proposal reported executed (or,
    BTC, recorded executed / in flight) is in no session and therefore in no submission -/
theorem submit_is_signed (signed : List Nat) : PSubmit signed (submitted signed) := rfl

theorem never_submitted (e : Bool) (w : List Nat) (ss : List (List Nat)) (h : P03 e w ss) (n : Nat)
    (hn : n ∈ (ss.map submitted).flatten.flatten) : n ∈ w := by
  apply signed_is_wanted e w ss h n
  simp only [List.mem_flatten, List.mem_map, submitted] at hn ⊢
  obtain ⟨l, ⟨l1, ⟨a, ha, rfl⟩, hl⟩, hnl⟩ := hn
  simp only [List.mem_singleton] at hl
  subst hl
  exact ⟨l, ha, hnl⟩

/-! #### the periodic executed-check of the watch loops (EVM, Substrate) -/

/-- one sweep: "all executed" iff every member of the batch is reported executed; in particular a lookup error or a
    single pending member anywhere in the batch means "keep waiting" -/
theorem allExecuted_iff (v : List Ans) : allExecuted v = true ↔ ∀ a ∈ v, a = .exec := by
  induction v with
  | nil => simp [allExecuted]
  | cons a r ih => simp [allExecuted, ih]

theorem tick_PTick (v : List Ans) : PTick v (allExecuted v) := allExecuted_iff v

theorem tick_waits_on_pending_or_error (v : List Ans) (a : Ans) (ha : a ∈ v) (hne : a ≠ .exec) :
    allExecuted v = false := by
  cases h : allExecuted v
  · rfl
  · exact absurd ((allExecuted_iff v).1 h a ha) hne

theorem allExecAt_iff (script : List (List Ans)) (t : Nat) :
    AllExecAt script t ↔ ∃ v, script[t]? = some v ∧ allExecuted v = true := by
  unfold AllExecAt
  cases h : script[t]? with
  | none => simp
  | some v => simp [allExecuted_iff]

theorem watchFrom_spec (script : List (List Ans)) (i : Nat) :
    match watchFrom i script with
    | some t => i ≤ t ∧ AllExecAt script (t - i) ∧ ∀ k, k < t - i → ¬ AllExecAt script k
    | none => ∀ k, k < script.length → ¬ AllExecAt script k := by
  induction script generalizing i with
  | nil => simp [watchFrom]
  | cons v r ih =>
    unfold watchFrom
    by_cases hv : allExecuted v = true
    · simp only [hv, if_true]
      refine ⟨Nat.le_refl _, ?_, ?_⟩
      · rw [Nat.sub_self, allExecAt_iff]; exact ⟨v, rfl, hv⟩
      · intro k hk; omega
    · simp only [hv, if_false]
      have hv0 : ¬ AllExecAt (v :: r) 0 := by
        rw [allExecAt_iff]; rintro ⟨w, hw, hw2⟩; simp at hw; subst hw; exact hv hw2
      have shift : ∀ k, AllExecAt (v :: r) (k + 1) ↔ AllExecAt r k := by
        intro k; simp [AllExecAt]
      have := ih (i + 1)
      split at this
      · next t heq =>
        rw [heq]
        obtain ⟨h1, h2, h3⟩ := this
        refine ⟨by omega, ?_, ?_⟩
        · have : t - i = (t - (i + 1)) + 1 := by omega
          rw [this, shift]; exact h2
        · intro k hk
          cases k with
          | zero => exact hv0
          | succ k => rw [shift]; exact h3 k (by omega)
      · next heq =>
        rw [heq]
        intro k hk
        cases k with
        | zero => exact hv0
        | succ k => rw [shift]; exact this k (by simpa using hk)

/-- **the watch loop closes a session as executed only at the first tick at which EVERY member of its batch is
    reported executed**, for every batch size and every sequence of per-tick answer vectors (answers may change
    between ticks; lookup errors count as not executed) -/
theorem allExecAt_closedOk (script : List (List Ans)) (t : Nat) (askedAt : List Nat) (h : AllExecAt script t) :
    ClosedOk script t askedAt := by
  unfold AllExecAt at h
  unfold ClosedOk
  cases hv : script[t]? with
  | none => rw [hv] at h; exact h
  | some v =>
    rw [hv] at h
    intro j hj
    left
    rw [List.getElem?_eq_getElem hj]
    exact congrArg some (h _ (List.getElem_mem hj))

theorem watch_PWatch (script : List (List Ans)) (askedAt : List Nat) : PWatch script (watch script) askedAt := by
  have := watchFrom_spec script 0
  unfold PWatch watch
  split at this
  · next t heq =>
    rw [heq]
    have h2 : AllExecAt script t ∧ ∀ k, k < t → ¬ AllExecAt script k := by simpa using this.2
    exact ⟨allExecAt_closedOk script t askedAt h2.1, h2.2⟩
  · next heq => rw [heq]; exact this

/-- the model (the code as it is) closes only when all members are reported executed at the SAME tick -/
theorem watch_closes_at_allExec (script : List (List Ans)) (t : Nat) (h : watch script = some t) :
    AllExecAt script t := by
  have := watchFrom_spec script 0
  unfold watch at h
  rw [h] at this
  simpa using this.2.1

/-- hence no pending member is dropped: if member `j` of the batch is not reported executed at tick `t` (pending, or
    its lookup fails), the session is not closed at `t` — it stays open until that member's signature/submission or
    until the member itself is executed. This is the overlapping-delivery case: D1=[A] lands while D2=[A,B] is still
    being signed; at the next tick D2 sees (A executed, B pending) and must keep going. -/
theorem no_pending_member_dropped (script : List (List Ans)) (t : Nat) (v : List Ans) (j : Nat) (a : Ans)
    (hv : script[t]? = some v) (hj : v[j]? = some a) (hne : a ≠ .exec) : watch script ≠ some t := by
  intro hw
  have := watch_closes_at_allExec script t hw
  unfold AllExecAt at this
  rw [hv] at this
  exact hne (this a (List.mem_of_getElem? hj))

/-- whatever the destination answered at the ticks before the signature arrived (partly executed batches included),
    a session that is still open submits exactly its signed batch; a session closed as executed submits nothing -/
theorem submitAfterTicks_is_signed (script : List (List Ans)) (signed : List Nat) :
    (watch script = none → PSubmit signed (submitAfterTicks script signed)) ∧
    (∀ t, watch script = some t → submitAfterTicks script signed = []) := by
  unfold submitAfterTicks
  constructor
  · intro h; rw [h]; rfl
  · intro t h; rw [h]

/-- the defect class kept as a witness: a tick decision that looks only at the first member closes D2=[A,B] when A has
    been executed by an overlapping delivery and B is still pending -/
theorem firstOnly_drops_pending :
    let firstOnly : List Ans → Bool := fun v => v.head? = some .exec
    firstOnly [.exec, .notExec] = true ∧ ¬ PTick [.exec, .notExec] (firstOnly [.exec, .notExec]) ∧
    ¬ PWatch [[.exec, .notExec]] (some 0) [0] := by decide

example : watch [[.exec, .notExec], [.exec, .err], [.exec, .exec]] = some 2 ∧
    sweeps [[.exec, .notExec], [.exec, .err], [.exec, .exec]] = [[0, 1], [0, 1], [0, 1]] ∧
    watch [[.notExec, .exec], [.err, .exec]] = none := by decide

/-- (definitional) every lookup of a sequence answered by the stateless adapters is faithful, whatever came before — in
    particular a proposal of another source domain with the same nonce is asked about on its own -/
theorem lookupSeq_faithful (pre : List (Nat × Nat × Ans)) (src nonce : Nat) (a : Ans) :
    PLookupStep pre src nonce a (some (lookupQuery src 0 nonce)) (lookupAnswer a) := ⟨rfl, rfl, rfl⟩

/-- the shortcut for ANOTHER domain's equal nonce is not admissible: with only (1, 5) reported executed, answering
    "executed" for (2, 5) without asking the node violates the predicate -/
theorem nonce_only_cache_rejected : ¬ PLookupStep [(1, 5, .exec)] 2 5 .notExec none .exec := by decide

/-! #### histories -/

theorem hasErr_answersFrom (ex : List Nat) (f : Option Nat) (i : Nat) (ns : List Nat) :
    hasErr (answersFrom ex f i ns) = true ↔ ∃ k, f = some k ∧ i ≤ k ∧ k < i + ns.length := by
  induction ns generalizing i with
  | nil => simp [answersFrom, hasErr]
  | cons n r ih =>
    rw [answersFrom, hasErr_cons, Bool.or_eq_true, ih]
    by_cases hfi : f = some i
    · subst hfi; simp
    · have h1 : ¬ (if f = some i then Ans.err else if n ∈ ex then Ans.exec else Ans.notExec) = Ans.err := by
        simp only [hfi, if_false]; split <;> simp
      simp only [h1, decide_false, Bool.false_eq_true, false_or, List.length_cons]
      constructor
      · rintro ⟨k, rfl, h2, h3⟩; exact ⟨k, rfl, by omega, by omega⟩
      · rintro ⟨k, rfl, h2, h3⟩
        refine ⟨k, rfl, ?_, by omega⟩
        rcases Nat.lt_or_ge i k with h | h
        · omega
        · exact absurd (by rw [show k = i by omega]) hfi

theorem wanted_answersFrom (ex : List Nat) (f : Option Nat) (i : Nat) (ns : List Nat)
    (h : hasErr (answersFrom ex f i ns) = false) :
    wanted (answersFrom ex f i ns) = ns.filter (fun n => n ∉ ex) := by
  induction ns generalizing i with
  | nil => simp [answersFrom, wanted]
  | cons n r ih =>
    rw [answersFrom, hasErr_cons, Bool.or_eq_false_iff] at h
    rw [answersFrom, wanted_cons, ih (i+1) h.2]
    by_cases hfi : f = some i
    · simp [hfi] at h
    · by_cases hn : n ∈ ex <;> simp [hfi, hn, List.filter_cons]

/-- **history corollary (EVM, Substrate).** In every history of deliveries interleaved with executions on the
    destination (its executed set only grows) and with failing lookups, every delivery — re-scanned ranges, retries,
    restarts are just further deliveries — signs nothing if its lookup failed, and otherwise exactly the delivered
    proposals that are not in the executed set at that moment. -/
theorem hist_P03 (exec : Delivery → Out) (hexec : ∀ d, P03 (hasErr d) (wanted d) (exec d).sessions)
    (ex : List Nat) (ops : List Op) :
    ∀ r ∈ runHist exec ex ops,
      (∀ n ∈ ex, n ∈ r.1) ∧
      (hasErr (answers r.1 r.2.1 r.2.2.1) = true → r.2.2.2.sessions = []) ∧
      (hasErr (answers r.1 r.2.1 r.2.2.1) = false →
        r.2.2.2.sessions.flatten.Perm (r.2.1.filter (fun n => n ∉ r.1)) ∧ ∀ s ∈ r.2.2.2.sessions, s ≠ []) := by
  induction ops generalizing ex with
  | nil => simp [runHist]
  | cons op r ih =>
    cases op with
    | deliver ns f =>
      intro x hx
      simp only [runHist, List.mem_cons] at hx
      rcases hx with rfl | hx
      · refine ⟨fun n h => h, ?_, ?_⟩
        · intro he
          have := hexec (answers ex ns f)
          simpa [P03, he] using this
        · intro he
          have := hexec (answers ex ns f)
          simp only [P03, he, Bool.false_eq_true, if_false] at this
          have hw := wanted_answersFrom ex f 0 ns he
          simp only [answers] at this ⊢
          rw [hw] at this
          exact this
      · exact ih ex x hx
    | execute ns =>
      intro x hx
      simp only [runHist] at hx
      have := ih (ns ++ ex) x hx
      exact ⟨fun n hn => this.1 n (List.mem_append_right _ hn), this.2⟩

theorem hist_sub (ex : List Nat) (ops : List Op) :
    ∀ r ∈ runHist sub ex ops,
      (hasErr (answers r.1 r.2.1 r.2.2.1) = true → r.2.2.2.sessions = []) ∧
      (hasErr (answers r.1 r.2.1 r.2.2.1) = false →
        r.2.2.2.sessions.flatten.Perm (r.2.1.filter (fun n => n ∉ r.1)) ∧ ∀ s ∈ r.2.2.2.sessions, s ≠ []) :=
  fun r hr => (hist_P03 sub (fun d => P03ord_imp _ _ _ (sub_P03 d)) ex ops r hr).2

theorem hist_evm (cap tg : Nat) (ex : List Nat) (ops : List Op) :
    ∀ r ∈ runHist (evm cap tg) ex ops,
      (hasErr (answers r.1 r.2.1 r.2.2.1) = true → r.2.2.2.sessions = []) ∧
      (hasErr (answers r.1 r.2.1 r.2.2.1) = false →
        r.2.2.2.sessions.flatten.Perm (r.2.1.filter (fun n => n ∉ r.1)) ∧ ∀ s ∈ r.2.2.2.sessions, s ≠ []) :=
  fun r hr => (hist_P03 (evm cap tg) (fun d => P03ord_imp _ _ _ (evm_P03 cap tg d)) ex ops r hr).2

/-- **history corollary (BTC).** In every history of deliveries and recorded outcomes, with arbitrary store faults,
    every delivery satisfies P03 against the durable status map at that moment. -/
theorem histbtc_P03 (res : Nat → Nat) (m : List (Nat × Status)) (ops : List BOp) :
    ∀ r ∈ (runBtc res m ops).1, P03 (faulted r.1 r.2.1) (executable r.1.m r.2.1) r.2.2.sessions := by
  induction ops generalizing m with
  | nil => simp [runBtc]
  | cons op r ih =>
    cases op with
    | deliver ns f =>
      intro x hx
      simp only [runBtc, List.mem_cons] at hx
      rcases hx with rfl | hx
      · exact btc_P03 res ⟨m, f⟩ ns
      · exact ih _ x hx
    | outcome ok ns f =>
      intro x hx
      simp only [runBtc] at hx
      exact ih _ x hx
    | timeout ns =>
      intro x hx
      simp only [runBtc] at hx
      exact ih _ x hx

/-! #### Bitcoin, history level: executed is never selected again; failed is selected by the next delivery -/

theorem storeStatus_lookup (s : Store) (ns : List Nat) (v : Status) (j : Nat) :
    lookup (storeStatus s ns v).m j = lookup s.m j ∨ (j ∈ ns ∧ lookup (storeStatus s ns v).m j = v) := by
  induction ns generalizing s with
  | nil => simp [storeStatus]
  | cons n r ih =>
    have hstep : storeStatus s (n :: r) v = storeStatus (s.write n v).2 r v := by simp [storeStatus]
    rw [hstep]
    obtain ⟨m, fs⟩ := s
    have hw : ∀ j, lookup (Store.write ⟨m, fs⟩ n v).2.m j = lookup m j ∨
        (j = n ∧ lookup (Store.write ⟨m, fs⟩ n v).2.m j = v) := by
      intro j
      rcases fs with _ | ⟨f, fr⟩
      · by_cases hj : n = j
        · right; subst hj; simp [lookup_cons]
        · left; simp [lookup_cons, hj]
      · cases f
        · by_cases hj : n = j
          · right; subst hj; simp [lookup_cons]
          · left; simp [lookup_cons, hj]
        · left; simp
    rcases ih (Store.write ⟨m, fs⟩ n v).2 with h | ⟨h1, h2⟩
    · rcases hw j with h' | ⟨hj, h'⟩
      · left; rw [h, h']
      · right; exact ⟨by simp [hj], by rw [h, h']⟩
    · right; exact ⟨List.mem_cons_of_mem _ h1, h2⟩

/-- without a store fault the recorded outcome is there afterwards -/
theorem storeStatus_nofault (m : List (Nat × Status)) (ns : List Nat) (v : Status) (k : Nat) (hk : k ∈ ns) :
    lookup (storeStatus ⟨m, []⟩ ns v).m k = v := by
  induction ns generalizing m with
  | nil => cases hk
  | cons n r ih =>
    have hstep : storeStatus ⟨m, []⟩ (n :: r) v = storeStatus ⟨(n, v) :: m, []⟩ r v := by simp [storeStatus]
    rw [hstep]
    by_cases hkr : k ∈ r
    · exact ih _ hkr
    · have hkn : k = n := by
        rcases List.mem_cons.1 hk with h | h
        · exact h
        · exact absurd h hkr
      rcases storeStatus_lookup ⟨(n, v) :: m, []⟩ r v k with h | ⟨h, _⟩
      · rw [h, hkn]; simp [lookup_cons]
      · exact absurd h hkr

/-- a delivery does not touch the record of a proposal it does not contain -/
theorem forExec_other (s : Store) (d : List Nat) (k : Nat) (hk : k ∉ d) :
    lookup (forExec s d).2.m k = lookup s.m k := by
  induction d generalizing s with
  | nil => simp [forExec]
  | cons n r ih =>
    have hn : ¬ n = k := fun e => hk (e ▸ List.mem_cons_self ..)
    have hr : k ∉ r := fun h => hk (List.mem_cons_of_mem _ h)
    obtain ⟨m, fs⟩ := s
    rcases fs with _ | ⟨f, _ | ⟨f2, fr⟩⟩ <;> (try cases f) <;> (try cases f2) <;>
      by_cases hc : canExec (lookup m n) = true <;>
      simp [forExec, hc, ih _ hr, lookup_cons, hn]

theorem btc_other (res : Nat → Nat) (s : Store) (d : List Nat) (k : Nat) (hk : k ∉ d) :
    lookup (btc res s d).2.m k = lookup s.m k := by
  have key := forExec_other s d k hk
  unfold btc
  by_cases hd : d = []
  · simp [hd]
  · simp only [hd, if_false]
    rcases hfe : forExec s d with ⟨o, s'⟩
    rw [hfe] at key
    rcases o with _ | ns
    · exact key
    · cases ns <;> exact key

/-- **executed is never signed again (Bitcoin, history level).** From a state in which record `k` is executed, along
    every history of deliveries, time-outs and outcome recordings of OTHER proposals (any faults), no delivery ever puts
    `k` into a session, and the record stays executed. -/
theorem btc_executed_never_selected_again (res : Nat → Nat) (m : List (Nat × Status)) (ops : List BOp) (k : Nat)
    (hk : lookup m k = .executed) (hq : ∀ op ∈ ops, BOp.noOutcomeFor k op = true) :
    (∀ r ∈ (runBtc res m ops).1, k ∉ r.2.2.sessions.flatten) ∧ lookup (runBtc res m ops).2 k = .executed := by
  induction ops generalizing m with
  | nil => simp [runBtc, hk]
  | cons op r ih =>
    have hq' : ∀ op ∈ r, BOp.noOutcomeFor k op = true := fun o ho => hq o (List.mem_cons_of_mem _ ho)
    cases op with
    | deliver ns f =>
      have hkeep := btc_keeps_executed res ⟨m, f⟩ ns k (Or.inl hk)
      have := ih (btc res ⟨m, f⟩ ns).2.m (by rw [hkeep]; exact hk) hq'
      simp only [runBtc]
      refine ⟨?_, this.2⟩
      intro x hx
      rcases List.mem_cons.1 hx with rfl | hx
      · intro hmem
        have hp := btc_P03 res ⟨m, f⟩ ns
        have := signed_is_wanted _ _ _ hp k hmem
        rw [mem_executable] at this
        simp [hk, canExec] at this
      · exact this.1 x hx
    | outcome ok ns f =>
      have hno : k ∉ ns := by
        have := hq (.outcome ok ns f) (List.mem_cons_self ..)
        simpa [BOp.noOutcomeFor] using this
      have hkeep : lookup (storeStatus ⟨m, f⟩ ns (if ok then .executed else .failed)).m k = .executed := by
        rcases storeStatus_lookup ⟨m, f⟩ ns (if ok then .executed else .failed) k with h | ⟨h, _⟩
        · rw [h]; exact hk
        · exact absurd h hno
      simpa [runBtc] using ih _ hkeep hq'
    | timeout ns => simpa [runBtc] using ih m hk hq'

/-- … in particular after its execution was recorded successfully (`outcome true`, the write not failing) -/
theorem btc_after_success_never_again (res : Nat → Nat) (m : List (Nat × Status)) (ns : List Nat) (post : List BOp)
    (k : Nat) (hk : k ∈ ns) (hq : ∀ op ∈ post, BOp.noOutcomeFor k op = true) :
    ∀ r ∈ (runBtc res m (.outcome true ns [] :: post)).1, k ∉ r.2.2.sessions.flatten := by
  have h := storeStatus_nofault m ns .executed k hk
  simpa [runBtc] using (btc_executed_never_selected_again res _ post k h hq).1

/-- **dually: a recorded failure releases the proposal.** After `outcome false` (the write not failing), through any
    operations that do not concern `k`, the next delivery that contains `k` and meets no store fault signs it. -/
theorem btc_after_failure_selected_next (res : Nat → Nat) (m : List (Nat × Status)) (ns : List Nat)
    (quiet : List BOp) (d : List Nat) (f : List Bool) (k : Nat) (hk : k ∈ ns)
    (hquiet : ∀ op ∈ quiet, BOp.quietFor k op = true) (hd : k ∈ d)
    (hf : faulted ⟨(runBtc res m (.outcome false ns [] :: quiet)).2, f⟩ d = false) :
    k ∈ (btc res ⟨(runBtc res m (.outcome false ns [] :: quiet)).2, f⟩ d).1.sessions.flatten := by
  have h0 := storeStatus_nofault m ns .failed k hk
  have hkeep : ∀ (m' : List (Nat × Status)) (q : List BOp), lookup m' k = .failed →
      (∀ op ∈ q, BOp.quietFor k op = true) → lookup (runBtc res m' q).2 k = .failed := by
    intro m' q
    induction q generalizing m' with
    | nil => intro h _; simpa [runBtc] using h
    | cons op r ih =>
      intro h hq
      have hq' : ∀ op ∈ r, BOp.quietFor k op = true := fun o ho => hq o (List.mem_cons_of_mem _ ho)
      have hop := hq op (List.mem_cons_self ..)
      cases op with
      | deliver ns' f' =>
        have hno : k ∉ ns' := by simpa [BOp.quietFor] using hop
        have := btc_other res ⟨m', f'⟩ ns' k hno
        simpa [runBtc] using ih _ (by rw [this]; exact h) hq'
      | outcome ok ns' f' =>
        have hno : k ∉ ns' := by simpa [BOp.quietFor] using hop
        have hk' : lookup (storeStatus ⟨m', f'⟩ ns' (if ok then .executed else .failed)).m k = .failed := by
          rcases storeStatus_lookup ⟨m', f'⟩ ns' (if ok then .executed else .failed) k with h' | ⟨h', _⟩
          · rw [h']; exact h
          · exact absurd h' hno
        simpa [runBtc] using ih _ hk' hq'
      | timeout ns' => simpa [runBtc] using ih m' h hq'
  have hfail : lookup (runBtc res m (.outcome false ns [] :: quiet)).2 k = .failed := by
    simpa [runBtc] using hkeep _ quiet h0 hquiet
  rw [btc_signed_iff res _ d hf k]
  exact ⟨hd, Or.inr hfail⟩

/-- non-vacuity: 0 recorded executed is never signed again, 1 recorded failed is signed by the next delivery -/
example : (runBtc (· % 2) [] [.deliver [0, 1] [], .outcome true [0] [], .outcome false [1] [], .timeout [0],
      .deliver [0, 1] []]).1.map (·.2.2.sessions) = [[[0], [1]], [[1]]] := by decide

/-- the defect repaired by `fix:` 986f0b8, kept as a witness: the as-found Substrate loop signs an executed proposal -/
theorem subAsFound_violates : ∃ d, ¬ P03 (hasErr d) (wanted d) (subAsFound d).sessions :=
  ⟨[(0, .notExec), (1, .exec)], by decide⟩

/-- … and signs a delivery that consists only of executed proposals -/
theorem subAsFound_signs_all_executed : (subAsFound [(7, .exec)]).sessions = [[7]] := by decide

/-! #### non-vacuity -/

example : hasErr [(0, .notExec), (1, .exec), (2, .notExec)] = false ∧
    (sub [(0, .notExec), (1, .exec), (2, .notExec)]).sessions = [[0, 2]] ∧
    (evm 100 60 [(0, .notExec), (1, .exec), (2, .notExec)]).sessions = [[0], [2]] := by decide

example : faulted ⟨[(1, .executed), (2, .failed), (3, .pending)], [false, false, false]⟩ [0, 1, 2, 3] = false ∧
    (btc (· % 2) ⟨[(1, .executed), (2, .failed), (3, .pending)], [false, false, false]⟩ [0, 1, 2, 3]).1.sessions = [[0, 2]] := by
  decide

example : faulted ⟨[], [false, true]⟩ [0, 1] = true ∧ (btc (· % 2) ⟨[], [false, true]⟩ [0, 1]).1.sessions = [] := by
  decide

example : (runHist sub [] [.deliver [0, 1] none, .execute [1], .deliver [0, 1] none, .deliver [0, 1] (some 1)]).map
    (·.2.2.2.sessions) = [[[0, 1]], [[0]], []] := by decide

end Property

end Sygma.C03
