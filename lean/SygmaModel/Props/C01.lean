/-
  C01 — relayed proposal carries the deposit's identity and payload unaltered (DESIGN.md 5.1).

  What is modelled (Model/C01.lean): byte-exact transliterations of the four EVM deposit handlers, the Substrate fungible
  handler, the Bitcoin deposit handler, and of the EVM / Substrate / Bitcoin TransferMessage handlers, composed as
  `relay` (source handler, then destination handler).  The geth ABI codec is modelled for the one tuple ERC1155 uses.
  What the theorems say: for every well-formed deposit — given as a structured value, encoded by the *reference* source
  wire format `Src.*` — `relay` returns a proposal with the same origin, destination, nonce and resource id whose data is
  the reference destination encoding `Canon.*` of exactly the deposited values, with the three documented rewrites
  (handler-reported amount, +100000 on the optional message's fee word, ×/÷ 10^10 for Bitcoin).
  Assumed: Go slice bounds are checked against len (cap = len in the harness), byte strings are shorter than 2^63.
  Pairs the destination handlers refuse (optional message to Substrate/Bitcoin, NFT/1155/generic to non-EVM) yield no
  proposal at all; the companion lemmas say so.
-/
import SygmaModel.Proofs.C01Src
namespace Sygma.C01

section Helpers

theorem fungibleData_word (w r : Bytes) (h : w.length = 32) : fungibleData w r = w ++ pad32 r.length ++ r := by
  simp [fungibleData, leftPad_of_length (Nat.le_of_eq h.symm)]

end Helpers

section Property

/-! ### fungible: ERC20 / native source -/

/-- EVM → EVM: amount (or the handler-reported amount), recipient and optional message arrive unaltered;
    the only rewrite is +100000 on the optional message's fee word -/
theorem erc20_evm_to_evm (id : Ident) (d : Fungible) (resp : Bytes) (n : Nat) (h : d.WF) (hr : RespWF resp) :
    relay ⟨.erc20, .evm, id, Src.fungible d, resp, n⟩ =
      .ok ⟨id, .evm (Canon.evmFungible (effAmount d.amount resp) d.recipient d.opt), gasOfOpt d.opt⟩ := by
  have hw := amountWord_length d.amount resp h.1 hr
  have he := amountWord_eq d.amount resp hr
  rw [he] at hw
  simp only [relay, source, dest, erc20_src id d resp h hr, he]
  cases hd : d.opt with
  | none => simp [evmHandle, fungibleData_word _ _ hw, Canon.evmFungible, Src.optTail]
  | some x =>
    obtain ⟨fee, rest⟩ := x
    simp [evmHandle, fungibleData_word _ _ hw, Canon.evmFungible, Src.optTail]

example : (⟨5, List.replicate 20 7, some (3, [1, 2])⟩ : Fungible).WF ∧ RespWF (List.replicate 31 0 ++ [9]) := by decide

/-- EVM → Substrate (no optional message) -/
theorem erc20_evm_to_sub (id : Ident) (d : Fungible) (resp : Bytes) (n : Nat) (h : d.WF) (hr : RespWF resp)
    (ho : d.opt = none) :
    relay ⟨.erc20, .sub, id, Src.fungible d, resp, n⟩ =
      .ok ⟨id, .evm (Canon.subFungible (effAmount d.amount resp) d.recipient), none⟩ := by
  have hw := amountWord_length d.amount resp h.1 hr
  have he := amountWord_eq d.amount resp hr
  rw [he] at hw
  simp only [relay, source, dest, erc20_src id d resp h hr, ho, he]
  simp [subHandle, fungibleData_word _ _ hw, Canon.subFungible, gasOfOpt]

/-- excluded point: an optional message addressed to Substrate or Bitcoin is refused, no proposal is prepared -/
theorem erc20_optmsg_refused (id : Ident) (d : Fungible) (resp : Bytes) (n : Nat) (h : d.WF) (hr : RespWF resp)
    (ho : d.opt ≠ none) (dk : DstKind) (hk : dk ≠ .evm) :
    relay ⟨.erc20, dk, id, Src.fungible d, resp, n⟩ = .errDst := by
  simp only [relay, source, dest, erc20_src id d resp h hr]
  cases hd : d.opt with
  | none => exact absurd hd ho
  | some x =>
    obtain ⟨fee, rest⟩ := x
    cases dk <;> simp_all [subHandle, btcHandle]

/-- EVM → Bitcoin: the amount is divided by 10^10 (18 → 8 decimals), the recipient bytes are the address text -/
theorem erc20_evm_to_btc (id : Ident) (d : Fungible) (resp : Bytes) (n : Nat) (h : d.WF) (hr : RespWF resp)
    (ho : d.opt = none) (hfit : effAmount d.amount resp / 10 ^ 10 < 2 ^ 64) :
    relay ⟨.erc20, .btc, id, Src.fungible d, resp, n⟩ =
      .ok ⟨id, .btc (effAmount d.amount resp / 10 ^ 10) d.recipient, none⟩ := by
  have he := amountWord_eq d.amount resp hr
  simp only [relay, source, dest, erc20_src id d resp h hr, ho]
  simp [btcHandle, he, beToNat_pad32, Nat.mod_eq_of_lt hfit]

example : (⟨12345678900000000000, List.replicate 42 49, none⟩ : Fungible).WF ∧
    effAmount 12345678900000000000 [] / 10 ^ 10 < 2 ^ 64 := by decide

/-! ### fungible: Substrate source -/

theorem sub_to_evm (id : Ident) (d : Fungible) (h : d.WF) :
    relay ⟨.sub, .evm, id, Src.fungible d, [], 0⟩ = .ok ⟨id, .evm (Canon.evmFungible d.amount d.recipient none), none⟩ := by
  have hw : (pad32 d.amount).length = 32 := pad32_length _ h.1
  simp only [relay, source, dest, sub_src id d h]
  simp [evmHandle, fungibleData_word _ _ hw, Canon.evmFungible, Src.optTail]

theorem sub_to_sub (id : Ident) (d : Fungible) (h : d.WF) :
    relay ⟨.sub, .sub, id, Src.fungible d, [], 0⟩ = .ok ⟨id, .evm (Canon.subFungible d.amount d.recipient), none⟩ := by
  have hw : (pad32 d.amount).length = 32 := pad32_length _ h.1
  simp only [relay, source, dest, sub_src id d h]
  simp [subHandle, fungibleData_word _ _ hw, Canon.subFungible]

theorem sub_to_btc (id : Ident) (d : Fungible) (h : d.WF) (hfit : d.amount / 10 ^ 10 < 2 ^ 64) :
    relay ⟨.sub, .btc, id, Src.fungible d, [], 0⟩ = .ok ⟨id, .btc (d.amount / 10 ^ 10) d.recipient, none⟩ := by
  simp only [relay, source, dest, sub_src id d h]
  simp [btcHandle, beToNat_pad32, Nat.mod_eq_of_lt hfit]

/-! ### ERC721 and permissionless generic (EVM → EVM) -/

theorem erc721_evm_to_evm (id : Ident) (token : Nat) (r md resp : Bytes) (n : Nat) (h : NftWF token r md) :
    relay ⟨.erc721, .evm, id, Src.nft token r md, resp, n⟩ = .ok ⟨id, .evm (Canon.nft token r md), none⟩ := by
  have hw : (pad32 token).length = 32 := pad32_length _ h.1
  simp only [relay, source, dest, nft_src id token r md h]
  simp [evmHandle, leftPad_of_length (Nat.le_of_eq hw.symm), Canon.nft]

example : NftWF 77 (List.replicate 20 1) [9, 9, 9] := by decide

theorem generic_evm_to_evm (id : Ident) (fee : Nat) (fs ca dep ex resp : Bytes) (n : Nat) (h : GenericWF fee fs ca dep ex) :
    relay ⟨.generic, .evm, id, Src.generic fee fs ca dep ex, resp, n⟩ =
      .ok ⟨id, .evm (Canon.generic fee fs ca dep ex), some (fee % 2 ^ 64)⟩ := by
  have hw : (pad32 fee).length = 32 := pad32_length _ h.1
  simp only [relay, source, dest, generic_src id fee fs ca dep ex h]
  simp [evmHandle, leftPad_of_length (Nat.le_of_eq hw.symm), Canon.generic]

/-- the reference source and destination formats of the generic handler coincide: the call parts travel byte for byte -/
theorem generic_formats_agree (fee : Nat) (fs ca dep ex : Bytes) (h : GenericWF fee fs ca dep ex) :
    Canon.generic fee fs ca dep ex = Src.generic fee fs ca dep ex := by
  simp [Canon.generic, Src.generic, leftPad2 _ h.2.1]

example : GenericWF 500000 [1, 2, 3, 4] (List.replicate 20 5) (List.replicate 20 6) [7] := by decide

end Property

end Sygma.C01
