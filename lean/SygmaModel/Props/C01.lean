/-
  C01 — relayed proposal carries the deposit's identity and payload unaltered (DESIGN.md 5.1).

  What is modelled (Model/C01.lean): byte-exact transliterations of the four EVM deposit handlers, the Substrate fungible
  handler, the Bitcoin deposit handler, and of the EVM / Substrate / Bitcoin TransferMessage handlers, composed as
  `relay` (source handler, then destination handler).  The geth ABI codec is modelled for the one tuple ERC1155 uses.
  What the theorems say: for every well-formed deposit — given as a structured value, encoded by the *reference* source
  wire format `Src.*` — `relay` returns a proposal with the same origin, destination, nonce and resource id whose data is
  the reference destination encoding `Canon.*` of exactly the deposited values, with the three documented rewrites
  (handler-reported amount, +100000 on the optional message's fee word, ×/÷ 10^10 for Bitcoin).
  Assumed: Go slice bounds are checked against len (cap = len in the harness), byte strings are shorter than 2^63.
  Pairs the destination handlers refuse (optional message to Substrate/Bitcoin, NFT/1155/generic to non-EVM) yield no
  proposal at all; the companion lemmas say so.
-/
import SygmaModel.Proofs.C01Src
import SygmaModel.Proofs.C01Btc
import SygmaModel.Proofs.C01Abi
import SygmaModel.Proofs.C01Relay
namespace Sygma.C01

section Helpers

theorem fungibleData_word (w r : Bytes) (h : w.length = 32) : fungibleData w r = w ++ pad32 r.length ++ r := by
  simp [fungibleData, leftPad_of_length (Nat.le_of_eq h.symm)]

end Helpers

section Property

/-! ### fungible: ERC20 / native source -/

/-- EVM → EVM: amount (or the handler-reported amount), recipient and optional message arrive unaltered;
    the only rewrite is +100000 on the optional message's fee word -/
theorem erc20_evm_to_evm (id : Ident) (d : Fungible) (resp : Bytes) (n : Nat) (h : d.WF) (hr : RespWF resp) :
    relay ⟨.erc20, .evm, id, Src.fungible d, resp, n⟩ =
      .ok ⟨id, .evm (Canon.evmFungible (effAmount d.amount resp) d.recipient d.opt), gasOfOpt d.opt⟩ := by
  have hw := amountWord_length d.amount resp h.1 hr
  have he := amountWord_eq d.amount resp hr
  rw [he] at hw
  simp only [relay, source, dest, erc20_src id d resp h hr, he]
  cases hd : d.opt with
  | none => simp [evmHandle, fungibleData_word _ _ hw, Canon.evmFungible, Src.optTail]
  | some x =>
    obtain ⟨fee, rest⟩ := x
    simp [evmHandle, fungibleData_word _ _ hw, Canon.evmFungible, Src.optTail]

example : (⟨5, List.replicate 20 7, some (3, [1, 2])⟩ : Fungible).WF ∧ RespWF (List.replicate 31 0 ++ [9]) := by decide

/-- EVM → Substrate (no optional message) -/
theorem erc20_evm_to_sub (id : Ident) (d : Fungible) (resp : Bytes) (n : Nat) (h : d.WF) (hr : RespWF resp)
    (ho : d.opt = none) :
    relay ⟨.erc20, .sub, id, Src.fungible d, resp, n⟩ =
      .ok ⟨id, .evm (Canon.subFungible (effAmount d.amount resp) d.recipient), none⟩ := by
  have hw := amountWord_length d.amount resp h.1 hr
  have he := amountWord_eq d.amount resp hr
  rw [he] at hw
  simp only [relay, source, dest, erc20_src id d resp h hr, ho, he]
  simp [subHandle, fungibleData_word _ _ hw, Canon.subFungible, gasOfOpt]

/-- excluded point: an optional message addressed to Substrate or Bitcoin is refused, no proposal is prepared -/
theorem erc20_optmsg_refused (id : Ident) (d : Fungible) (resp : Bytes) (n : Nat) (h : d.WF) (hr : RespWF resp)
    (ho : d.opt ≠ none) (dk : DstKind) (hk : dk ≠ .evm) :
    relay ⟨.erc20, dk, id, Src.fungible d, resp, n⟩ = .errDst := by
  simp only [relay, source, dest, erc20_src id d resp h hr]
  cases hd : d.opt with
  | none => exact absurd hd ho
  | some x =>
    obtain ⟨fee, rest⟩ := x
    cases dk <;> simp_all [subHandle, btcHandle]

/-- EVM → Bitcoin: the amount is divided by 10^10 (18 → 8 decimals), the recipient bytes are the address text -/
theorem erc20_evm_to_btc (id : Ident) (d : Fungible) (resp : Bytes) (n : Nat) (h : d.WF) (hr : RespWF resp)
    (ho : d.opt = none) (hfit : effAmount d.amount resp / 10 ^ 10 < 2 ^ 64) :
    relay ⟨.erc20, .btc, id, Src.fungible d, resp, n⟩ =
      .ok ⟨id, .btc (effAmount d.amount resp / 10 ^ 10) d.recipient, none⟩ := by
  have he := amountWord_eq d.amount resp hr
  have hsrc := erc20_src id d resp h hr
  rw [ho] at hsrc
  exact relay_ok (by rw [source_erc20]; exact hsrc)
    (by rw [dest_btc]; exact btcHandle_ok _ _ _ _ _ (by rw [he, beToNat_pad32]) hfit)

example : (⟨12345678900000000000, List.replicate 42 49, none⟩ : Fungible).WF ∧
    effAmount 12345678900000000000 [] / 10 ^ 10 < 2 ^ 64 := by decide

/-- excluded point with a definite outcome: an amount whose ÷10^10 rescaling does not fit uint64 satoshi is refused by the
    Bitcoin destination (after `fix:` 97b0590; it used to be truncated to its low 64 bits) — no proposal is prepared -/
theorem erc20_evm_to_btc_refused (id : Ident) (d : Fungible) (resp : Bytes) (n : Nat) (h : d.WF) (hr : RespWF resp)
    (ho : d.opt = none) (hbig : ¬ effAmount d.amount resp / 10 ^ 10 < 2 ^ 64) :
    relay ⟨.erc20, .btc, id, Src.fungible d, resp, n⟩ = .errDst := by
  have he := amountWord_eq d.amount resp hr
  have hsrc := erc20_src id d resp h hr
  rw [ho] at hsrc
  exact relay_errDst (by rw [source_erc20]; exact hsrc)
    (by rw [dest_btc]; exact btcHandle_big _ _ _ _ (by rw [he, beToNat_pad32]; exact hbig))

example : (⟨2 ^ 64 * 10 ^ 10, List.replicate 42 49, none⟩ : Fungible).WF ∧
    ¬ effAmount (2 ^ 64 * 10 ^ 10) [] / 10 ^ 10 < 2 ^ 64 := by decide

/-! ### fungible: Substrate source -/

theorem sub_to_evm (id : Ident) (d : Fungible) (h : d.WF) :
    relay ⟨.sub, .evm, id, Src.fungible d, [], 0⟩ = .ok ⟨id, .evm (Canon.evmFungible d.amount d.recipient none), none⟩ := by
  have hw : (pad32 d.amount).length = 32 := pad32_length _ h.1
  simp only [relay, source, dest, sub_src id d h]
  simp [evmHandle, fungibleData_word _ _ hw, Canon.evmFungible, Src.optTail]

theorem sub_to_sub (id : Ident) (d : Fungible) (h : d.WF) :
    relay ⟨.sub, .sub, id, Src.fungible d, [], 0⟩ = .ok ⟨id, .evm (Canon.subFungible d.amount d.recipient), none⟩ := by
  have hw : (pad32 d.amount).length = 32 := pad32_length _ h.1
  simp only [relay, source, dest, sub_src id d h]
  simp [subHandle, fungibleData_word _ _ hw, Canon.subFungible]

theorem sub_to_btc (id : Ident) (d : Fungible) (h : d.WF) (hfit : d.amount / 10 ^ 10 < 2 ^ 64) :
    relay ⟨.sub, .btc, id, Src.fungible d, [], 0⟩ = .ok ⟨id, .btc (d.amount / 10 ^ 10) d.recipient, none⟩ := by
  exact relay_ok (by rw [source_sub]; exact sub_src id d h)
    (by rw [dest_btc]; exact btcHandle_ok _ _ _ _ _ (by rw [beToNat_pad32]) hfit)

theorem sub_to_btc_refused (id : Ident) (d : Fungible) (h : d.WF) (hbig : ¬ d.amount / 10 ^ 10 < 2 ^ 64) :
    relay ⟨.sub, .btc, id, Src.fungible d, [], 0⟩ = .errDst := by
  exact relay_errDst (by rw [source_sub]; exact sub_src id d h)
    (by rw [dest_btc]; exact btcHandle_big _ _ _ _ (by rw [beToNat_pad32]; exact hbig))

/-! ### ERC721 and permissionless generic (EVM → EVM) -/

theorem erc721_evm_to_evm (id : Ident) (token : Nat) (r md resp : Bytes) (n : Nat) (h : NftWF token r md) :
    relay ⟨.erc721, .evm, id, Src.nft token r md, resp, n⟩ = .ok ⟨id, .evm (Canon.nft token r md), none⟩ := by
  have hw : (pad32 token).length = 32 := pad32_length _ h.1
  simp only [relay, source, dest, nft_src id token r md h]
  simp [evmHandle, leftPad_of_length (Nat.le_of_eq hw.symm), Canon.nft]

example : NftWF 77 (List.replicate 20 1) [9, 9, 9] := by decide

theorem generic_evm_to_evm (id : Ident) (fee : Nat) (fs ca dep ex resp : Bytes) (n : Nat) (h : GenericWF fee fs ca dep ex) :
    relay ⟨.generic, .evm, id, Src.generic fee fs ca dep ex, resp, n⟩ =
      .ok ⟨id, .evm (Canon.generic fee fs ca dep ex), some (fee % 2 ^ 64)⟩ := by
  have hw : (pad32 fee).length = 32 := pad32_length _ h.1
  simp only [relay, source, dest, generic_src id fee fs ca dep ex h]
  simp [evmHandle, leftPad_of_length (Nat.le_of_eq hw.symm), Canon.generic]

/-- the reference source and destination formats of the generic handler coincide: the call parts travel byte for byte -/
theorem generic_formats_agree (fee : Nat) (fs ca dep ex : Bytes) (h : GenericWF fee fs ca dep ex) :
    Canon.generic fee fs ca dep ex = Src.generic fee fs ca dep ex := by
  simp [Canon.generic, Src.generic, leftPad2 _ h.2.1]

example : GenericWF 500000 [1, 2, 3, 4] (List.replicate 20 5) (List.replicate 20 6) [7] := by decide

/-! ### fungible: Bitcoin source (the destination domain is the one named in the OP_RETURN text; ×10^10) -/

theorem btc_to_evm (id : Ident) (sat : Nat) (text addr : Bytes) (dst : Nat)
    (ht : Src.parseBtcText text = some (addr, dst)) (hfit : sat * 10 ^ 10 < 2 ^ 256) :
    relay ⟨.btc, .evm, id, text, [], sat⟩ =
      .ok ⟨⟨id.src, dst, id.nonce, id.rid⟩, .evm (Canon.evmFungible (sat * 10 ^ 10) addr none), none⟩ := by
  refine relay_ok (by rw [source_btc]; exact btc_src_text id.src id.nonce id.rid sat text addr dst ht) ?_
  rw [dest_evm]
  simp [evmHandle, fungibleData, Canon.evmFungible, Src.optTail, pad32]

theorem btc_to_sub (id : Ident) (sat : Nat) (text addr : Bytes) (dst : Nat)
    (ht : Src.parseBtcText text = some (addr, dst)) (hfit : sat * 10 ^ 10 < 2 ^ 256) :
    relay ⟨.btc, .sub, id, text, [], sat⟩ =
      .ok ⟨⟨id.src, dst, id.nonce, id.rid⟩, .evm (Canon.subFungible (sat * 10 ^ 10) addr), none⟩ := by
  refine relay_ok (by rw [source_btc]; exact btc_src_text id.src id.nonce id.rid sat text addr dst ht) ?_
  rw [dest_sub]
  simp [subHandle, fungibleData, Canon.subFungible, pad32]

/-- Bitcoin → Bitcoin: ×10^10 then ÷10^10 returns the satoshi amount -/
theorem btc_to_btc (id : Ident) (sat : Nat) (text addr : Bytes) (dst : Nat)
    (ht : Src.parseBtcText text = some (addr, dst)) (hfit : sat < 2 ^ 64) :
    relay ⟨.btc, .btc, id, text, [], sat⟩ =
      .ok ⟨⟨id.src, dst, id.nonce, id.rid⟩, .btc sat addr, none⟩ := by
  exact relay_ok (by rw [source_btc]; exact btc_src_text id.src id.nonce id.rid sat text addr dst ht)
    (by rw [dest_btc]; exact btcHandle_ok _ _ _ _ sat (div_rescale sat) hfit)

theorem btc_to_btc_refused (id : Ident) (sat : Nat) (text addr : Bytes) (dst : Nat)
    (ht : Src.parseBtcText text = some (addr, dst)) (hbig : ¬ sat < 2 ^ 64) :
    relay ⟨.btc, .btc, id, text, [], sat⟩ = .errDst := by
  exact relay_errDst (by rw [source_btc]; exact btc_src_text id.src id.nonce id.rid sat text addr dst ht)
    (by rw [dest_btc]; exact btcHandle_big _ _ _ _ (by rw [div_rescale]; exact hbig))

/-- non-vacuity: a mixed-case address without `0x` and a destination with a leading zero is a well-formed text -/
example : Src.parseBtcText ([65, 98] ++ List.replicate 38 70 ++ [95, 48, 55]) = some (171 :: List.replicate 19 255, 7) := by
  decide

example : (List.replicate 20 (171 : UInt8)).length = 20 ∧ (2 : Nat) < 256 ∧ 2100000000000000 * 10 ^ 10 < 2 ^ 256 := by decide

/-! ### ERC1155 (EVM → EVM): `abiEncode1155` is the canonical ABI encoding of (ids, amounts, recipient, data) and serves as
    both the reference source and the reference destination format -/

theorem erc1155_evm_to_evm (id : Ident) (v : Semi) (resp : Bytes) (n : Nat) (h : v.WF) :
    relay ⟨.erc1155, .evm, id, abiEncode1155 v, resp, n⟩ = .ok ⟨id, .evm (abiEncode1155 v), none⟩ := by
  simp only [relay, source, dest, erc1155Deposit, abiDecode_encode v h]
  simp [evmHandle, h.2.2.1]

/-- the decoder inverts the encoder: no id, amount, recipient byte or data byte is altered by the round trip -/
theorem erc1155_decode_encode (v : Semi) (h : v.WF) : abiDecode1155 (abiEncode1155 v) = some v :=
  abiDecode_encode v h

example : (⟨[1, 2 ^ 256 - 1], [5, 0], List.replicate 20 3, [9, 9, 9]⟩ : Semi).WF := by decide

/-! ### outcomes at the edges of the wire format (each is also a branch of `expected`) -/

/-- an ERC20 tail of 1..32 bytes cannot hold a fee word plus a message byte; the handler does not treat it as an optional
    message and the proposal is the one of the deposit without it (EVM destination) -/
theorem erc20_short_tail_evm (id : Ident) (d0 : Fungible) (t resp : Bytes) (n : Nat) (h : ShortTailWF d0 t) (hr : RespWF resp) :
    relay ⟨.erc20, .evm, id, Src.fungible d0 ++ t, resp, n⟩ =
      .ok ⟨id, .evm (Canon.evmFungible (effAmount d0.amount resp) d0.recipient none), none⟩ := by
  have hw := amountWord_length d0.amount resp h.1 hr
  have he := amountWord_eq d0.amount resp hr
  rw [he] at hw
  refine relay_ok (by rw [source_erc20]; exact erc20_src_tail id d0 t resp h hr) ?_
  rw [dest_evm, he]
  simp [evmHandle, fungibleData_word _ _ hw, Canon.evmFungible, Src.optTail]

theorem erc20_short_tail_sub (id : Ident) (d0 : Fungible) (t resp : Bytes) (n : Nat) (h : ShortTailWF d0 t) (hr : RespWF resp) :
    relay ⟨.erc20, .sub, id, Src.fungible d0 ++ t, resp, n⟩ =
      .ok ⟨id, .evm (Canon.subFungible (effAmount d0.amount resp) d0.recipient), none⟩ := by
  have hw := amountWord_length d0.amount resp h.1 hr
  have he := amountWord_eq d0.amount resp hr
  rw [he] at hw
  refine relay_ok (by rw [source_erc20]; exact erc20_src_tail id d0 t resp h hr) ?_
  rw [dest_sub, he]
  simp [subHandle, fungibleData_word _ _ hw, Canon.subFungible]

theorem erc20_short_tail_btc (id : Ident) (d0 : Fungible) (t resp : Bytes) (n : Nat) (h : ShortTailWF d0 t) (hr : RespWF resp)
    (hfit : effAmount d0.amount resp / 10 ^ 10 < 2 ^ 64) :
    relay ⟨.erc20, .btc, id, Src.fungible d0 ++ t, resp, n⟩ =
      .ok ⟨id, .btc (effAmount d0.amount resp / 10 ^ 10) d0.recipient, none⟩ := by
  have he := amountWord_eq d0.amount resp hr
  exact relay_ok (by rw [source_erc20]; exact erc20_src_tail id d0 t resp h hr)
    (by rw [dest_btc]; exact btcHandle_ok _ _ _ _ _ (by rw [he, beToNat_pad32]) hfit)

theorem erc20_short_tail_btc_refused (id : Ident) (d0 : Fungible) (t resp : Bytes) (n : Nat) (h : ShortTailWF d0 t)
    (hr : RespWF resp) (hbig : ¬ effAmount d0.amount resp / 10 ^ 10 < 2 ^ 64) :
    relay ⟨.erc20, .btc, id, Src.fungible d0 ++ t, resp, n⟩ = .errDst := by
  have he := amountWord_eq d0.amount resp hr
  exact relay_errDst (by rw [source_erc20]; exact erc20_src_tail id d0 t resp h hr)
    (by rw [dest_btc]; exact btcHandle_big _ _ _ _ (by rw [he, beToNat_pad32]; exact hbig))

example : ShortTailWF ⟨5, List.replicate 20 7, none⟩ (List.replicate 32 1) := by decide

/-- Substrate deposit data followed by ANY trailing bytes (padding of the recipient to a word, stray bytes): the proposal
    carries exactly the recipient bytes the length word delimits; the trailing bytes are not part of the deposit -/
theorem sub_tail_to_evm (id : Ident) (d0 : Fungible) (t : Bytes) (h : TailWF d0 t) :
    relay ⟨.sub, .evm, id, Src.fungible d0 ++ t, [], 0⟩ =
      .ok ⟨id, .evm (Canon.evmFungible d0.amount d0.recipient none), none⟩ := by
  have hw : (pad32 d0.amount).length = 32 := pad32_length _ h.1
  refine relay_ok (by rw [source_sub]; exact sub_src_tail id d0 t h) ?_
  rw [dest_evm]
  simp [evmHandle, fungibleData_word _ _ hw, Canon.evmFungible, Src.optTail]

theorem sub_tail_to_sub (id : Ident) (d0 : Fungible) (t : Bytes) (h : TailWF d0 t) :
    relay ⟨.sub, .sub, id, Src.fungible d0 ++ t, [], 0⟩ = .ok ⟨id, .evm (Canon.subFungible d0.amount d0.recipient), none⟩ := by
  have hw : (pad32 d0.amount).length = 32 := pad32_length _ h.1
  refine relay_ok (by rw [source_sub]; exact sub_src_tail id d0 t h) ?_
  rw [dest_sub]
  simp [subHandle, fungibleData_word _ _ hw, Canon.subFungible]

theorem sub_tail_to_btc (id : Ident) (d0 : Fungible) (t : Bytes) (h : TailWF d0 t) (hfit : d0.amount / 10 ^ 10 < 2 ^ 64) :
    relay ⟨.sub, .btc, id, Src.fungible d0 ++ t, [], 0⟩ = .ok ⟨id, .btc (d0.amount / 10 ^ 10) d0.recipient, none⟩ :=
  relay_ok (by rw [source_sub]; exact sub_src_tail id d0 t h)
    (by rw [dest_btc]; exact btcHandle_ok _ _ _ _ _ (by rw [beToNat_pad32]) hfit)

theorem sub_tail_to_btc_refused (id : Ident) (d0 : Fungible) (t : Bytes) (h : TailWF d0 t)
    (hbig : ¬ d0.amount / 10 ^ 10 < 2 ^ 64) :
    relay ⟨.sub, .btc, id, Src.fungible d0 ++ t, [], 0⟩ = .errDst :=
  relay_errDst (by rw [source_sub]; exact sub_src_tail id d0 t h)
    (by rw [dest_btc]; exact btcHandle_big _ _ _ _ (by rw [beToNat_pad32]; exact hbig))

/-- non-vacuity: a 20-byte recipient padded to a full word -/
example : TailWF ⟨5, List.replicate 20 7, none⟩ (List.replicate 12 0) := by decide

/-- Substrate and Bitcoin destinations take fungible transfers only: a message of any other type is refused (definitional) -/
theorem nonfungible_refused (dk : DstKind) (hk : dk ≠ .evm) (m : Msg) (ht : m.typ ≠ .fungible) : dest dk m = .err := by
  obtain ⟨id, typ, payload, gas⟩ := m
  cases dk with
  | evm => exact absurd rfl hk
  | sub => cases typ <;> first | exact absurd rfl ht | rfl
  | btc => cases typ <;> first | exact absurd rfl ht | rfl

theorem erc721_non_evm_refused (id : Ident) (token : Nat) (r md resp : Bytes) (n : Nat) (h : NftWF token r md)
    (dk : DstKind) (hk : dk ≠ .evm) :
    relay ⟨.erc721, dk, id, Src.nft token r md, resp, n⟩ = .errDst :=
  relay_errDst (by rw [source_erc721]; exact nft_src id token r md h) (nonfungible_refused dk hk _ (by simp))

/-- ERC721 deposit data followed by trailing bytes: they are not part of the deposit -/
theorem erc721_tail_evm_to_evm (id : Ident) (token : Nat) (r md t resp : Bytes) (n : Nat) (h : NftWF token r md) :
    relay ⟨.erc721, .evm, id, Src.nft token r md ++ t, resp, n⟩ = .ok ⟨id, .evm (Canon.nft token r md), none⟩ := by
  have hw : (pad32 token).length = 32 := pad32_length _ h.1
  refine relay_ok (by rw [source_erc721]; exact nft_src_tail id token r md t h) ?_
  rw [dest_evm]
  simp [evmHandle, leftPad_of_length (Nat.le_of_eq hw.symm), Canon.nft]

theorem erc721_tail_non_evm_refused (id : Ident) (token : Nat) (r md t resp : Bytes) (n : Nat) (h : NftWF token r md)
    (dk : DstKind) (hk : dk ≠ .evm) :
    relay ⟨.erc721, dk, id, Src.nft token r md ++ t, resp, n⟩ = .errDst :=
  relay_errDst (by rw [source_erc721]; exact nft_src_tail id token r md t h) (nonfungible_refused dk hk _ (by simp))

theorem generic_non_evm_refused (id : Ident) (fee : Nat) (fs ca dep ex resp : Bytes) (n : Nat)
    (h : GenericWF fee fs ca dep ex) (dk : DstKind) (hk : dk ≠ .evm) :
    relay ⟨.generic, dk, id, Src.generic fee fs ca dep ex, resp, n⟩ = .errDst :=
  relay_errDst (by rw [source_generic]; exact generic_src id fee fs ca dep ex h) (nonfungible_refused dk hk _ (by simp))

/-- ERC1155, decode-based (holds by unfolding the model: the source handler decodes, the destination handler re-encodes):
    whatever ABI layout the calldata uses, if geth's decoder yields `v` the proposal carries the canonical encoding of `v`
    when the recipient is an EVM address … -/
theorem erc1155_decoded (id : Ident) (cd resp : Bytes) (n : Nat) (v : Semi) (hdec : abiDecode1155 cd = some v)
    (hr : v.recipient.length = 20) :
    relay ⟨.erc1155, .evm, id, cd, resp, n⟩ = .ok ⟨id, .evm (abiEncode1155 v), none⟩ := by
  refine relay_ok (m := ⟨id, .semiFungible, [.ints v.ids, .ints v.amounts, .bytes v.recipient, .bytes v.data], none⟩)
    (by rw [source_erc1155]; simp [erc1155Deposit, hdec]) ?_
  rw [dest_evm]; simp [evmHandle, hr]

/-- … and is refused when the recipient is not 20 bytes or the destination is not an EVM chain -/
theorem erc1155_decoded_refused (id : Ident) (cd resp : Bytes) (n : Nat) (v : Semi) (dk : DstKind)
    (hdec : abiDecode1155 cd = some v) (hbad : ¬ (dk = .evm ∧ v.recipient.length = 20)) :
    relay ⟨.erc1155, dk, id, cd, resp, n⟩ = .errDst := by
  refine relay_errDst (m := ⟨id, .semiFungible, [.ints v.ids, .ints v.amounts, .bytes v.recipient, .bytes v.data], none⟩)
    (by rw [source_erc1155]; simp [erc1155Deposit, hdec]) ?_
  by_cases hk : dk = .evm
  · subst hk
    have hr : v.recipient.length ≠ 20 := fun e => hbad ⟨rfl, e⟩
    rw [dest_evm]; simp [evmHandle, hr]
  · exact nonfungible_refused dk hk _ (by simp)

/-! ### the predicate the driver evaluates on the implementation's output holds of the model, for every request -/

theorem expected_sound (i : Input) (e : Out) (h : expected i = some e) : relay i = e := by
  obtain ⟨sk, dk, id, cd, resp, num⟩ := i
  unfold expected at h
  cases sk with
  | erc20 =>
    simp only [] at h
    generalize hd : parseFungible cd = d at h
    by_cases hc : Src.fungible d = cd ∧ d.WF ∧ RespWF resp
    · rw [if_pos hc] at h
      obtain ⟨hcd, hwf, hr⟩ := hc
      subst hcd
      cases dk with
      | evm => simp only [Option.some.injEq] at h; rw [← h]; exact erc20_evm_to_evm id d resp num hwf hr
      | sub =>
        simp only [] at h
        by_cases ho : d.opt = none
        · rw [if_pos ho] at h; simp only [Option.some.injEq] at h; rw [← h]
          exact erc20_evm_to_sub id d resp num hwf hr ho
        · rw [if_neg ho] at h; simp only [Option.some.injEq] at h; rw [← h]
          exact erc20_optmsg_refused id d resp num hwf hr ho .sub (by decide)
      | btc =>
        simp only [] at h
        by_cases ho : d.opt = none
        · rw [if_pos ho] at h
          by_cases hf : effAmount d.amount resp / 10 ^ 10 < 2 ^ 64
          · rw [if_pos hf] at h; simp only [Option.some.injEq] at h; rw [← h]
            exact erc20_evm_to_btc id d resp num hwf hr ho hf
          · rw [if_neg hf] at h; simp only [Option.some.injEq] at h; rw [← h]
            exact erc20_evm_to_btc_refused id d resp num hwf hr ho hf
        · rw [if_neg ho] at h; simp only [Option.some.injEq] at h; rw [← h]
          exact erc20_optmsg_refused id d resp num hwf hr ho .btc (by decide)
    · rw [if_neg hc] at h
      clear hc hd d
      generalize hd0 : (⟨beToNat (List.take 32 cd), (List.drop 64 cd).take (beToNat ((List.drop 32 cd).take 32)), none⟩ : Fungible) = d0 at h
      generalize ht : List.drop (64 + beToNat ((List.drop 32 cd).take 32)) cd = t at h
      by_cases hc : Src.fungible d0 ++ t = cd ∧ ShortTailWF d0 t ∧ RespWF resp
      · rw [if_pos hc] at h
        obtain ⟨hcd, hwf, hr⟩ := hc
        subst hd0
        cases dk with
        | evm =>
          simp only [Option.some.injEq] at h; rw [← h]
          have := erc20_short_tail_evm id _ t resp num hwf hr
          rw [hcd] at this; exact this
        | sub =>
          simp only [Option.some.injEq] at h; rw [← h]
          have := erc20_short_tail_sub id _ t resp num hwf hr
          rw [hcd] at this; exact this
        | btc =>
          simp only [] at h
          by_cases hf : effAmount (beToNat (List.take 32 cd)) resp / 10 ^ 10 < 2 ^ 64
          · rw [if_pos hf] at h; simp only [Option.some.injEq] at h; rw [← h]
            have := erc20_short_tail_btc id _ t resp num hwf hr hf
            rw [hcd] at this; exact this
          · rw [if_neg hf] at h; simp only [Option.some.injEq] at h; rw [← h]
            have := erc20_short_tail_btc_refused id _ t resp num hwf hr hf
            rw [hcd] at this; exact this
      · rw [if_neg hc] at h; cases h
  | sub =>
    simp only [] at h
    generalize hd0 : (⟨beToNat (List.take 32 cd), (List.drop 64 cd).take (beToNat ((List.drop 32 cd).take 32)), none⟩ : Fungible) = d0 at h
    generalize ht : List.drop (64 + beToNat ((List.drop 32 cd).take 32)) cd = t at h
    by_cases hc : Src.fungible d0 ++ t = cd ∧ TailWF d0 t ∧ num = 0
    · rw [if_pos hc] at h
      obtain ⟨hcd, hwf, hn⟩ := hc
      subst hn
      subst hd0
      cases dk with
      | evm =>
        simp only [Option.some.injEq] at h; rw [← h]
        have := sub_tail_to_evm id _ t hwf
        rw [hcd] at this
        simp only [relay, source, dest] at this ⊢
        exact this
      | sub =>
        simp only [Option.some.injEq] at h; rw [← h]
        have := sub_tail_to_sub id _ t hwf
        rw [hcd] at this
        simp only [relay, source, dest] at this ⊢
        exact this
      | btc =>
        simp only [] at h
        by_cases hf : beToNat (List.take 32 cd) / 10 ^ 10 < 2 ^ 64
        · rw [if_pos hf] at h; simp only [Option.some.injEq] at h; rw [← h]
          have := sub_tail_to_btc id _ t hwf hf
          rw [hcd] at this
          simp only [relay, source, dest] at this ⊢
          exact this
        · rw [if_neg hf] at h; simp only [Option.some.injEq] at h; rw [← h]
          have := sub_tail_to_btc_refused id _ t hwf hf
          rw [hcd] at this
          simp only [relay, source, dest] at this ⊢
          exact this
    · rw [if_neg hc] at h; cases h
  | erc721 =>
    simp only [] at h
    generalize hr : (List.drop 64 cd).take (beToNat ((List.drop 32 cd).take 32)) = r at h
    generalize hm : (List.drop (96 + beToNat ((List.drop 32 cd).take 32)) cd).take
      (beToNat ((List.drop (64 + beToNat ((List.drop 32 cd).take 32)) cd).take 32)) = md at h
    generalize ht : beToNat (List.take 32 cd) = t at h
    generalize htl : List.drop (96 + beToNat ((List.drop 32 cd).take 32) +
      beToNat ((List.drop (64 + beToNat ((List.drop 32 cd).take 32)) cd).take 32)) cd = tl at h
    by_cases hc : Src.nft t r md ++ tl = cd ∧ NftWF t r md
    · rw [if_pos hc] at h
      obtain ⟨hcd, hwf⟩ := hc
      by_cases hk : dk = .evm
      · rw [if_pos hk] at h; subst hk
        simp only [Option.some.injEq] at h; rw [← h]
        have := erc721_tail_evm_to_evm id t r md tl resp num hwf
        rw [hcd] at this; exact this
      · rw [if_neg hk] at h
        simp only [Option.some.injEq] at h; rw [← h]
        have := erc721_tail_non_evm_refused id t r md tl resp num hwf dk hk
        rw [hcd] at this; exact this
    · rw [if_neg hc] at h; cases h
  | generic =>
    simp only [] at h
    split at h
    · next hc =>
      obtain ⟨hcd, hwf⟩ := hc
      by_cases hk : dk = .evm
      · rw [if_pos hk] at h; subst hk
        simp only [Option.some.injEq] at h; rw [← h]
        have := generic_evm_to_evm id _ _ _ _ _ resp num hwf
        rw [hcd] at this
        exact this
      · rw [if_neg hk] at h
        simp only [Option.some.injEq] at h; rw [← h]
        have := generic_non_evm_refused id _ _ _ _ _ resp num hwf dk hk
        rw [hcd] at this
        exact this
    · cases h
  | erc1155 =>
    simp only [] at h
    cases hdec : abiDecode1155 cd with
    | none => rw [hdec] at h; cases h
    | some v =>
      rw [hdec] at h
      simp only [] at h
      by_cases hc : dk = .evm ∧ v.recipient.length = 20
      · rw [if_pos hc] at h
        obtain ⟨hk, hr⟩ := hc
        subst hk
        simp only [Option.some.injEq] at h; rw [← h]
        exact erc1155_decoded id cd resp num v hdec hr
      · rw [if_neg hc] at h
        simp only [Option.some.injEq] at h; rw [← h]
        exact erc1155_decoded_refused id cd resp num v dk hdec hc
  | btc =>
    simp only [] at h
    cases ht : Src.parseBtcText cd with
    | none => rw [ht] at h; cases h
    | some ad =>
      obtain ⟨addr, dst⟩ := ad
      rw [ht] at h
      simp only [] at h
      cases dk with
      | evm =>
        simp only [] at h
        by_cases hf : num * 10 ^ 10 < 2 ^ 256
        · rw [if_pos hf] at h; simp only [Option.some.injEq] at h; rw [← h]
          exact btc_to_evm id num cd addr dst ht hf
        · rw [if_neg hf] at h; cases h
      | sub =>
        simp only [] at h
        by_cases hf : num * 10 ^ 10 < 2 ^ 256
        · rw [if_pos hf] at h; simp only [Option.some.injEq] at h; rw [← h]
          exact btc_to_sub id num cd addr dst ht hf
        · rw [if_neg hf] at h; cases h
      | btc =>
        simp only [] at h
        by_cases hf : num < 2 ^ 64
        · rw [if_pos hf] at h; simp only [Option.some.injEq] at h; rw [← h]
          exact btc_to_btc id num cd addr dst ht hf
        · rw [if_neg hf] at h; simp only [Option.some.injEq] at h; rw [← h]
          exact btc_to_btc_refused id num cd addr dst ht hf

/-! ### destination handlers alone: every length word / length byte carries the full length of its field -/

/-- for every message whose fields fit the destination wire format — whatever their lengths, in particular ≥ 256 and
    ≥ 65536 bytes where the format has 32-byte length words — the destination handler's data is the reference encoding:
    full-width length words, field bytes unaltered -/
theorem expectedMsg_sound (dk : DstKind) (m : Msg) (e : Out) (h : expectedMsg dk m = some e) : destOut dk m = e := by
  obtain ⟨id, typ, payload, gas⟩ := m
  unfold expectedMsg at h
  split at h
  · next _ _ _ a r ht hp =>
    subst ht hp
    split at h
    · next ha =>
      simp only [Option.some.injEq] at h; rw [← h]
      simp [destOut, dest, evmHandle, fungibleData_word _ _ ha, Canon.subFungible, pad32_beToNat _ ha]
    · cases h
  · next _ _ _ a r o ht hp =>
    subst ht hp
    split at h
    · next ha =>
      simp only [Option.some.injEq] at h; rw [← h]
      simp [destOut, dest, evmHandle, fungibleData_word _ _ ha, Canon.subFungible, pad32_beToNat _ ha]
    · cases h
  · next _ _ _ a r ht hp =>
    subst ht hp
    split at h
    · next ha =>
      simp only [Option.some.injEq] at h; rw [← h]
      simp [destOut, dest, subHandle, fungibleData_word _ _ ha, Canon.subFungible, pad32_beToNat _ ha]
    · cases h
  · next _ _ _ a r ht hp =>
    subst ht hp
    split at h
    · next ha =>
      simp only [Option.some.injEq] at h; rw [← h]
      show (match dest .btc _ with | .ok p => Out.ok p | .err => .errDst | .panic => .panicDst) = _
      rw [dest_btc, btcHandle_ok _ _ _ _ _ rfl ha]
    · next hbig =>
      simp only [Option.some.injEq] at h; rw [← h]
      show (match dest .btc _ with | .ok p => Out.ok p | .err => .errDst | .panic => .panicDst) = _
      rw [dest_btc, btcHandle_big _ _ _ _ hbig]
  · next _ _ _ t r md ht hp =>
    subst ht hp
    split at h
    · next ha =>
      simp only [Option.some.injEq] at h; rw [← h]
      simp [destOut, dest, evmHandle, leftPad_of_length (Nat.le_of_eq ha.symm), Canon.nft, pad32_beToNat _ ha]
    · cases h
  · next _ _ _ fs ca fee dep ex ht hp =>
    subst ht hp
    split at h
    · next hc =>
      obtain ⟨ha, hfs, hca, hdep⟩ := hc
      simp only [Option.some.injEq] at h; rw [← h]
      simp [destOut, dest, evmHandle, leftPad_of_length (Nat.le_of_eq ha.symm), Src.generic, pad32_beToNat _ ha,
        leftPad2 _ hfs]
    · cases h
  · next _ _ _ md ht hp =>
    subst ht hp
    simp only [Option.some.injEq] at h; rw [← h]
    simp [destOut, dest, evmHandle]
  · next _ _ _ ids ams r d ht hp =>
    subst ht hp
    split at h
    · next hwf =>
      simp only [Option.some.injEq] at h; rw [← h]
      simp [destOut, dest, evmHandle, hwf.2.2.1]
    · cases h
  · cases h

theorem msg_model_satisfies (dk : DstKind) (m : Msg) : P01m dk m (destOut dk m) := by
  unfold P01m
  cases h : expectedMsg dk m with
  | none => trivial
  | some e => exact expectedMsg_sound dk m e h

/-- non-vacuity at the lengths a one-byte length helper gets wrong: 300-byte recipient, 512-byte metadata -/
example : expectedMsg .evm ⟨⟨1, 2, 3, []⟩, .nonFungible,
    [.bytes (List.replicate 32 1), .bytes (List.replicate 300 2), .bytes (List.replicate 512 3)], none⟩ ≠ none := by
  decide

/-- the predicate the driver evaluates on the implementation's output holds of the model, for every request:
    whenever the request is a well-formed deposit for its (source, destination) pair, `relay` yields exactly the
    expected proposal -/
theorem model_satisfies (i : Input) : P01 i (relay i) := by
  unfold P01
  cases h : expected i with
  | none => trivial
  | some e => exact expected_sound i e h

end Property

end Sygma.C01
