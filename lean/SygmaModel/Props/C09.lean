/-
  C09 — property theorems (DESIGN.md 5.9). What each part says, and what it does not.

  (a) Admission (`mutex_all_schedules`, `peak_le_one`, `exactly_one_admitted`, `admitted_when_free`,
      `quiescent_clears_flags`): an interleaving semantics over ANY number of requests and ANY schedule; one step =
      one critical section of `processLock` (that test-and-set is one critical section is the regenerated fact of
      Oblig/C09; that critical sections exclude each other is an ASSUMPTION, probed by the `excl` op and by -race).
      The body of a running session is one abstract `finish` step here.
  (b) One session, SEQUENTIALLY composed (`session_cleans_up`, `sessions_any_order` = any order of kinds/outcomes, one
      session after the other on one coordinator; concurrency between sessions of DIFFERENT ids is not modelled beyond
      the registries being keyed by session id). The session is a straight-line ledger program over the two
      communications' registries. An outcome enters it only through what it makes the code DO to the registries:
        · does the first attempt reach `Run`            (`Outcome.ran`:   ok fail failmsg gtorun cancelrun comm subset)
        · does `Execute`/`start` return nil             (`Outcome.retOk`: ok cancelrun cancel precancel)
        · is `handleError` entered and what it then does (`retryable`, `second`: election or not, who coordinates,
          whether the processes run again, how it ends).
      Outcomes that agree on these do the same registry operations in the code (they differ in WHICH select arm
      returns), so they have identical reports by construction: {ok}, {cancelrun}, {fail failmsg gtorun comm subset},
      {cancel precancel}, {silent gto badstart stranger readyerr}. The processes of a session are one group (run
      together, stopped together, as `Execute`'s loops do); `Report.runs/stops` are that group's counters.
      `releaseAll` returns the empty entry because `ReleaseStreams` deletes the entry whatever `Close()` returned - the
      content of the theorem is that the REPORT (streams left, unclosed, stale) is clean for every pattern in
      `Sess.opened`; `release_leaves_nothing` is a projection of `session_cleans_up`, and `timeout_not_postponed`,
      `refusal_touches_nothing` hold by unfolding definitions (they pin the model down, they are not results).
      Hypotheses that restrict the quantifier: the id is not pending and has no stream / subscription left at the
      start (`hp hs hes hl hel`) - exactly what the previous session's theorem establishes.
  (c) Shared registries (`no_stream_lost`): sends against releases of one session, each one critical section, any
      interleaving. `rerun_releases_all`: a process object run n times, stopped once.
  Not covered by proof: Go-memory-model data races (-race runs); third-party MPC code inside `Run`; a `Run` that never
  returns (known finding C10-run-stuck-on-outchn); timers are events (every wait loop eventually gets one).
-/
import SygmaModel.Model.C09
namespace Sygma.C09

section Helpers

/-- the inductive invariant: per session id, #running = 1 if the flag is set, 0 otherwise -/
def Inv (w : World) : Prop := ∀ s, running w s = if s ∈ w.pending then 1 else 0

/-- second invariant: a refused request of `s` is explained by a set flag or a finished request of `s` -/
def Inv2 (w : World) : Prop := ∀ s, (s, St.refused) ∈ w.th → s ∈ w.pending ∨ (s, St.done) ∈ w.th

theorem inv_init (sids : List Sid) : Inv (init sids) := by
  intro s
  simp only [running, init, List.not_mem_nil, if_false]
  rw [List.count_eq_zero]
  simp

theorem inv2_init (sids : List Sid) : Inv2 (init sids) := by
  intro s h
  simp [init] at h

private theorem count_set_pair (l : List (Sid × St)) (t : Nat) (h : t < l.length) (a b : Sid × St) :
    (l.set t a).count b = l.count b - (if l[t] = b then 1 else 0) + (if a = b then 1 else 0) := by
  rw [List.count_set h]; simp

private theorem count_pos_of_getElem (l : List (Sid × St)) (t : Nat) (h : t < l.length) :
    0 < l.count l[t] := List.count_pos_iff.2 (List.getElem_mem h)

theorem inv_step (w : World) (t : Nat) (h : Inv w) : Inv (step w t) := by
  unfold step
  split
  · -- idle → yield
    next s ht =>
    obtain ⟨hlt, hget⟩ := List.getElem?_eq_some_iff.1 ht
    intro s'
    have := h s'
    simp only [running] at this ⊢
    rw [count_set_pair _ _ hlt, hget]
    simp [this]
  · -- yield → running | refused
    next s ht =>
    obtain ⟨hlt, hget⟩ := List.getElem?_eq_some_iff.1 ht
    split
    · next hp =>
      intro s'
      have := h s'
      simp only [running] at this ⊢
      rw [count_set_pair _ _ hlt, hget]
      simp [this]
    · next hp =>
      intro s'
      have := h s'
      simp only [running] at this ⊢
      rw [count_set_pair _ _ hlt, hget]
      by_cases hs : s = s'
      · subst hs; simp [hp] at this ⊢; omega
      · have hs' : ¬ s' = s := fun e => hs e.symm
        simp [hs, hs', this]
  · -- running → done
    next s ht =>
    obtain ⟨hlt, hget⟩ := List.getElem?_eq_some_iff.1 ht
    intro s'
    have := h s'
    simp only [running] at this ⊢
    rw [count_set_pair _ _ hlt, hget]
    by_cases hs : s = s'
    · subst hs
      have hpos := count_pos_of_getElem w.th t hlt
      rw [hget] at hpos
      have hin : s ∈ w.pending := by
        by_cases hin : s ∈ w.pending
        · exact hin
        · simp [hin] at this; omega
      simp [hin] at this
      simp [this]
    · have hs' : ¬ s' = s := fun e => hs e.symm
      simp [hs, hs', this, List.mem_filter]
  · exact h

theorem inv2_step (w : World) (t : Nat) (h : Inv2 w) : Inv2 (step w t) := by
  unfold step
  split
  · next s ht =>
    obtain ⟨hlt, hget⟩ := List.getElem?_eq_some_iff.1 ht
    intro s' hm
    simp only at hm ⊢
    rcases List.mem_or_eq_of_mem_set hm with hm | hm
    · rcases h s' hm with hp | hd
      · exact Or.inl hp
      · right
        obtain ⟨i, hi, hgi⟩ := List.getElem_of_mem hd
        have hne : i ≠ t := by intro e; subst e; rw [hget] at hgi; cases hgi
        exact List.mem_iff_getElem.2 ⟨i, by simpa using hi, by rw [List.getElem_set_ne (Ne.symm hne)]; exact hgi⟩
    · cases hm
  · next s ht =>
    obtain ⟨hlt, hget⟩ := List.getElem?_eq_some_iff.1 ht
    have keep : ∀ s' (a : Sid × St), (s', St.done) ∈ w.th → (s', St.done) ∈ w.th.set t a := by
      intro s' a hd
      obtain ⟨i, hi, hgi⟩ := List.getElem_of_mem hd
      have hne : i ≠ t := by intro e; subst e; rw [hget] at hgi; cases hgi
      exact List.mem_iff_getElem.2 ⟨i, by simpa using hi, by rw [List.getElem_set_ne (Ne.symm hne)]; exact hgi⟩
    split
    · next hp =>
      intro s' hm
      simp only at hm ⊢
      rcases List.mem_or_eq_of_mem_set hm with hm | hm
      · rcases h s' hm with hp' | hd
        · exact Or.inl hp'
        · exact Or.inr (keep _ _ hd)
      · cases hm; exact Or.inl hp
    · next hp =>
      intro s' hm
      simp only at hm ⊢
      rcases List.mem_or_eq_of_mem_set hm with hm | hm
      · rcases h s' hm with hp' | hd
        · exact Or.inl (List.mem_cons_of_mem _ hp')
        · exact Or.inr (keep _ _ hd)
      · cases hm
  · next s ht =>
    obtain ⟨hlt, hget⟩ := List.getElem?_eq_some_iff.1 ht
    intro s' hm
    simp only at hm ⊢
    by_cases hs : s' = s
    · subst hs
      right
      exact List.mem_iff_getElem.2 ⟨t, by simpa using hlt, by simp⟩
    · rcases List.mem_or_eq_of_mem_set hm with hm | hm
      · rcases h s' hm with hp' | hd
        · left; simp [List.mem_filter, hp', hs]
        · right
          obtain ⟨i, hi, hgi⟩ := List.getElem_of_mem hd
          have hne : i ≠ t := by intro e; subst e; rw [hget] at hgi; cases hgi
          exact List.mem_iff_getElem.2 ⟨i, by simpa using hi, by rw [List.getElem_set_ne (Ne.symm hne)]; exact hgi⟩
      · cases hm
  · exact h

theorem inv_run (w : World) (sched : List Nat) (h : Inv w) (h2 : Inv2 w) :
    Inv (run w sched) ∧ Inv2 (run w sched) := by
  induction sched generalizing w with
  | nil => exact ⟨h, h2⟩
  | cons t ts ih => exact ih (step w t) (inv_step w t h) (inv2_step w t h2)

end Helpers

section Property

/-- **C09 (a), mutual exclusion.** For every set of requests (any number of threads, equal and distinct session
    ids) and EVERY schedule, at most one request per session id is running, and the pending flag is set exactly
    for the ids that have one. -/
theorem mutex_all_schedules (sids : List Sid) (sched : List Nat) :
    Mutex (run (init sids) sched) ∧ FlagExact (run (init sids) sched) := by
  have hI := (inv_run (init sids) sched (inv_init sids) (inv2_init sids)).1
  refine ⟨fun s _ => ?_, fun s _ => ?_⟩
  · rw [hI s]; split <;> omega
  · rw [hI s]; split <;> simp_all

/-- **C09 (a), at every moment.** Along every schedule the number of simultaneously running requests of one
    session id never exceeds one. -/
theorem peak_le_one (sids : List Sid) (sched : List Nat) (s : Sid) : peak (init sids) s sched ≤ 1 := by
  have key : ∀ (w : World), Inv w → peak w s sched ≤ 1 := by
    induction sched with
    | nil => intro w h; simp only [peak]; rw [h s]; split <;> omega
    | cons t ts ih =>
      intro w h
      simp only [peak]
      have := ih (step w t) (inv_step w t h)
      have h0 : running w s ≤ 1 := by rw [h s]; split <;> omega
      omega
  exact key _ (inv_init sids)

/-- **C09 (a), exactly one.** In every reachable state in which all requests for a session id have passed admission
    and none has finished yet, exactly one of them is running (so the others were refused); and a refusal is always
    explained by a request of the same id that still runs or has finished. -/
theorem exactly_one_admitted (sids : List Sid) (sched : List Nat) :
    ExactlyOne (run (init sids) sched) ∧ RefusalJustified (run (init sids) sched) := by
  obtain ⟨hI, hI2⟩ := inv_run (init sids) sched (inv_init sids) (inv2_init sids)
  refine ⟨fun s hs hall => ?_, fun s _ hr => hI2 s hr⟩
  generalize run (init sids) sched = w at *
  rw [hI s]
  by_cases hp : s ∈ w.pending
  · simp [hp]
  · exfalso
    -- nobody runs, so every request of `s` is refused; one exists; the invariant asks for a flag or a finished one
    have h0 : running w s = 0 := by rw [hI s]; simp [hp]
    have hnr : (s, St.running) ∉ w.th := by
      intro hm; have := List.count_pos_iff.2 hm; simp only [running] at h0; omega
    obtain ⟨p, hpm, hps⟩ : ∃ p ∈ w.th, p.1 = s := by
      simp only [sidsOf, List.mem_eraseDups, List.mem_map] at hs
      obtain ⟨p, hpm, hps⟩ := hs; exact ⟨p, hpm, hps⟩
    have hpr : p = (s, St.refused) := by
      rcases hall p hpm hps with h | h
      · exfalso; apply hnr; rw [← hps, ← h]; exact hpm
      · rw [← hps, ← h]
    rcases hI2 s (hpr ▸ hpm) with h | h
    · exact hp h
    · rcases hall _ h rfl with h' | h' <;> cases h'

/-- all four state predicates the driver evaluates on the implementation hold in every reachable model state -/
theorem model_satisfies_a (sids : List Sid) (sched : List Nat) : P9a (run (init sids) sched) :=
  ⟨(mutex_all_schedules sids sched).1, (mutex_all_schedules sids sched).2,
   (exactly_one_admitted sids sched).2, (exactly_one_admitted sids sched).1⟩

/-- **C09 (a), restart.** A request that reaches admission when no request of its id is running is admitted. -/
theorem admitted_when_free (sids : List Sid) (sched : List Nat) (t : Nat) (s : Sid)
    (hy : (run (init sids) sched).th[t]? = some (s, St.yield))
    (hfree : running (run (init sids) sched) s = 0) :
    (step (run (init sids) sched) t).th[t]? = some (s, St.running) := by
  have hI := (inv_run (init sids) sched (inv_init sids) (inv2_init sids)).1
  generalize run (init sids) sched = w at *
  have hp : s ∉ w.pending := by
    intro hp; have := hI s; simp [hp] at this; omega
  obtain ⟨hlt, _⟩ := List.getElem?_eq_some_iff.1 hy
  unfold step; rw [hy]; simp [hp, hlt]

/-- **C09 (a), quiescence.** Whenever no request is running — however the earlier ones ended — no session id is
    left pending, so every id can be started again. -/
theorem quiescent_clears_flags (sids : List Sid) (sched : List Nat)
    (h : ∀ p ∈ (run (init sids) sched).th, p.2 ≠ St.running) : (run (init sids) sched).pending = [] := by
  have hI := (inv_run (init sids) sched (inv_init sids) (inv2_init sids)).1
  generalize run (init sids) sched = w at *
  apply List.eq_nil_iff_forall_not_mem.2
  intro s hs
  have h1 := hI s
  simp only [hs, if_true, running] at h1
  have hm : (s, St.running) ∈ w.th := List.count_pos_iff.1 (by omega)
  exact h _ hm rfl

/-- the as-found admission (flag read outside the lock, set in a second critical section) is NOT mutually
    exclusive: two requests for one id, schedule read–read–set–set, both run. Kept as the witness of the repaired
    defect (corpus line `race a:p:ok,a:p:ok 0,1,0,1`). -/
theorem asfound_double_admission :
    ¬ Mutex ([0, 1, 0, 1].foldl stepAsFound (init ["a", "a"])) := by decide

/-- non-vacuity: three requests, two ids, a schedule in which a refused, a running, a finished and a re-admitted
    request all occur -/
example :
    (run (init ["a", "a", "b", "a"]) [0, 1, 2, 0, 1, 2, 0, 3, 3]).th =
      [("a", .done), ("a", .refused), ("b", .running), ("a", .running)] ∧
    peak (init ["a", "a", "b", "a"]) "a" [0, 1, 2, 0, 1, 2, 0, 3, 3] = 1 := by decide

end Property

/-! ## (b) clean-up -/

section HelpersB

/-- ids in the registry are below the next id to be handed out -/
def Reg.Fresh (r : Reg) : Prop := ∀ x ∈ r.live, x.2 < r.next

/-- state after some runs of one process object: the registry is the original one plus at most the current subscription -/
private def RunInv (r : Reg) (sid : Sid) (st : Reg × Option Nat) : Prop :=
  r.next ≤ st.1.next ∧ st.1.pending = r.pending ∧ st.1.streams = r.streams ∧
  match st.2 with
  | some i => st.1.live = r.live ++ [(sid, i)] ∧ r.next ≤ i ∧ i < st.1.next
  | none => st.1.live = r.live

private theorem drop_current (l : List (Sid × Nat)) (sid : Sid) (n i : Nat) (h : ∀ x ∈ l, x.2 < n) (hi : n ≤ i) :
    (l ++ [(sid, i)]).filter (fun x => ![i].contains x.2) = l := by
  rw [List.filter_append]
  have h1 : l.filter (fun x => ![i].contains x.2) = l := by
    apply List.filter_eq_self.2
    intro x hx; have := h x hx
    simp; omega
  rw [h1]; simp

private theorem runInv_step (r : Reg) (sid : Sid) (hf : r.Fresh) (st : Reg × Option Nat) (h : RunInv r sid st) :
    RunInv r sid (runAgain sid st) := by
  obtain ⟨r', cur⟩ := st
  obtain ⟨hn, hp, hs, hc⟩ := h
  cases cur with
  | none =>
    simp only at hc hn hp hs
    simp only [RunInv, runAgain, Reg.subscribe, List.range'_one, List.map_cons, List.map_nil, List.head?_cons, hc]
    refine ⟨by omega, hp, hs, trivial, hn, by omega⟩
  | some i =>
    simp only at hc hn hp hs
    obtain ⟨hl, hi, hi'⟩ := hc
    have := drop_current r.live sid r.next i hf hi
    simp only [RunInv, runAgain, Reg.subscribe, Reg.unsubscribe, List.range'_one, List.map_cons, List.map_nil,
      List.head?_cons, hl, this]
    refine ⟨by omega, hp, hs, trivial, hn, by omega⟩

private theorem runInv_iter (r : Reg) (sid : Sid) (hf : r.Fresh) (n : Nat) (st : Reg × Option Nat)
    (h : RunInv r sid st) : RunInv r sid (iter (runAgain sid) n st) := by
  induction n generalizing st with
  | zero => exact h
  | succ n ih => exact ih _ (runInv_step r sid hf st h)

end HelpersB

section PropertyB

/-- **C09 (b), one session, retry rounds included.** From any state of the registries (other sessions may be live)
    in which the session id is not pending, has no streams and no leftover subscriptions: for EVERY role, number
    of processes, outcome of the first attempt and — for retryable processes — every second attempt (`handleError`:
    bully election won by this relayer or by another one, or the wait after a SubsetError; started again or not;
    ended by success, error, cancellation or the elected coordinator's silence), the session is admitted and at exit
    BOTH communications' registries are exactly as before (every subscription obtained — wait loops, both
    fail-watches, the election's six, every Run of every process — is released; streams are gone; the flag is
    cleared), every process was stopped exactly once and run at most twice. -/
theorem session_cleans_up (l : Led) (s : Sess) (hp : s.sid ∉ l.pending) (hs : l.streams s.sid = [])
    (hes : s.sid ∉ l.estreams) (hl : l.live s.sid = []) (hel : l.elive s.sid = []) :
    (execute l s).1.pending = l.pending ∧ (execute l s).1.live = l.live ∧ (execute l s).1.streams = l.streams ∧
    (execute l s).1.elive = l.elive ∧ (execute l s).1.estreams = l.estreams ∧
    Clean s.nproc (execute l s).2 := by
  have hpf : l.pending.filter (· ≠ s.sid) = l.pending :=
    List.filter_eq_self.2 (fun x hx => by simp; intro e; exact hp (e ▸ hx))
  have hef : l.estreams.filter (· ≠ s.sid) = l.estreams :=
    List.filter_eq_self.2 (fun x hx => by simp; intro e; exact hes (e ▸ hx))
  have hp' : ∀ a ∈ l.pending, ¬a = s.sid := fun a ha e => hp (e ▸ ha)
  have hes' : ∀ a ∈ l.estreams, ¬a = s.sid := fun a ha e => hes (e ▸ ha)
  have upd_upd : ∀ {α : Type} (f : Sid → List α) (sid : Sid) (v w : List α), upd (upd f sid v) sid w = upd f sid w := by
    intro α f sid v w; funext x; unfold upd; split <;> rfl
  have upd_self : ∀ {α : Type} (f : Sid → List α) (sid : Sid) (v : List α), upd f sid v sid = v := by
    intro α f sid v; simp [upd]
  have same : ∀ {α : Type} (f : Sid → List α) (sid : Sid), f sid = [] → upd f sid [] = f := by
    intro α f sid h; funext x; unfold upd; split <;> simp_all
  have ft : ∀ (xs : List Strm), xs.filter (fun _ => true) = xs := fun xs => List.filter_eq_self.2 (fun _ _ => rfl)
  have ff : ∀ (xs : List Strm), xs.filter (fun _ => false) = [] := fun xs => List.filter_eq_nil_iff.2 (fun _ _ => by simp)
  obtain ⟨sid, role, nproc, out, retryable, second, opened⟩ := s
  simp only at hp hs hes hpf hef hl hel hp' hes'
  have sl := same l.live sid hl
  have se := same l.elive sid hel
  have ss := same l.streams sid hs
  cases hh : (Sess.handled ⟨sid, role, nproc, out, retryable, second, opened⟩)
  · -- handleError is not entered
    cases hran : out.ran <;>
      simp [execute, executeWith, hh, hp, hran, Led.sub, Led.unsub, Led.unsubOpt, upd_upd, upd_self, sl, se, ss, hl, hel,
        hp', hes', sizeOf', Clean, liveOf, hs, hes, releaseAll, registerAll, staleHits, runGroup, stopGroup, addStreams, ft, ff] <;>
      ((repeat' constructor) <;> first | assumption | omega | (split <;> simp) | (intro n hn; omega) | (simp +arith [List.filter] <;> omega))
  · cases hran : out.ran <;> rcases second with _ | ⟨el, fin, alive⟩
    · simp [execute, executeWith, hh, hp, hran, Led.sub, Led.unsub, Led.unsubOpt, upd_upd, upd_self, sl, se, ss, hl, hel,
        hp', hes', sizeOf', Clean, liveOf, hs, hes, releaseAll, registerAll, staleHits, runGroup, stopGroup, addStreams, ft, ff]
      all_goals ((repeat' constructor) <;> first | assumption | omega | (split <;> simp) | (intro n hn; omega) | (simp +arith [List.filter] <;> omega))
    · cases el <;> cases hr2 : fin.ran <;>
        simp [execute, executeWith, hh, secondAttempt, election, hp, hran, hr2, Led.sub, Led.unsub, Led.unsubOpt,
          Led.esub, Led.eunsub, upd_upd, upd_self, sl, se, ss, hl, hel, hp', hes', sizeOf', Clean, liveOf, hs, hes,
          waitSubs2, releaseAll, registerAll, staleHits, runGroup, stopGroup, addStreams, ft, ff] <;>
        ((repeat' constructor) <;> first | assumption | omega | (split <;> simp) | (intro n hn; omega) | (simp +arith [List.filter] <;> omega))
    · simp [execute, executeWith, hh, hp, hran, Led.sub, Led.unsub, Led.unsubOpt, upd_upd, upd_self, sl, se, ss, hl, hel,
        hp', hes', sizeOf', Clean, liveOf, hs, hes, releaseAll, registerAll, staleHits, runGroup, stopGroup, addStreams, ft, ff]
      all_goals ((repeat' constructor) <;> first | assumption | omega | (split <;> simp) | (intro n hn; omega) | (simp +arith [List.filter] <;> omega))
    · cases el <;> cases hr2 : fin.ran <;>
        simp [execute, executeWith, hh, secondAttempt, election, hp, hran, hr2, Led.sub, Led.unsub, Led.unsubOpt,
          Led.esub, Led.eunsub, upd_upd, upd_self, sl, se, ss, hl, hel, hp', hes', sizeOf', Clean, liveOf, hs, hes,
          waitSubs2, releaseAll, registerAll, staleHits, runGroup, stopGroup, addStreams, ft, ff] <;>
        ((repeat' constructor) <;> first | assumption | omega | (split <;> simp) | (intro n hn; omega) | (simp +arith [List.filter] <;> omega))

/-- **C09 (b), any order.** Any sequence of sessions (any ids, roles, process counts, first and second attempts in any
    order) run one after another on an idle coordinator leaves it idle, and every single one of them — including a
    re-use of an id whose earlier session failed, timed out, was retried or was cancelled — is admitted and cleans up. -/
theorem sessions_any_order (ss : List Sess) (l : Led) (hi : l.Idle) :
    (executeAll l ss).1.Idle ∧
    (executeAll l ss).2.length = ss.length ∧
    ∀ i (h : i < ss.length) (h' : i < (executeAll l ss).2.length),
      Clean ss[i].nproc (executeAll l ss).2[i] := by
  induction ss generalizing l with
  | nil => exact ⟨hi, rfl, fun i h => absurd h (Nat.not_lt_zero _)⟩
  | cons s ss ih =>
    obtain ⟨hp, hl, hs, hel, hes⟩ := hi
    obtain ⟨h1, h2, h3, h4, h5, h7⟩ := session_cleans_up l s (by simp [hp]) (hs _) (by simp [hes])
      (hl _) (hel _)
    have ih' := ih (execute l s).1 ⟨h1.trans hp, fun x => by rw [h2]; exact hl x, fun x => by rw [h3]; exact hs x,
      fun x => by rw [h4]; exact hel x, h5.trans hes⟩
    simp only [executeAll]
    refine ⟨ih'.1, by simp [ih'.2.1], ?_⟩
    intro i h h'
    cases i with
    | zero => simpa using h7
    | succ i =>
      simp only [List.getElem_cons_succ]
      exact ih'.2.2 i (by simpa using h) (by simpa using h')

/-- a refused duplicate touches no registry -/
theorem refusal_touches_nothing (l : Led) (s : Sess) (hp : s.sid ∈ l.pending) :
    (execute l s).1 = l ∧ (execute l s).2.ret = .refused := by
  simp [execute, executeWith, hp, stopGroup, Led.unsubOpt]

/-- **C09 (b), streams.** Whatever `Close()` returns for each of a session's streams, after the session no stream is
    registered under its id, and a later session of the same id gets every one of its own streams registered (none
    is refused in favour of a stale entry). Both are conjuncts of `Clean`, so `session_cleans_up` and
    `sessions_any_order` already quantify over every pattern of Close failures (`Sess.opened`); stated alone: -/
theorem release_leaves_nothing (l : Led) (s : Sess) (hp : s.sid ∉ l.pending) (hs : l.streams s.sid = [])
    (hes : s.sid ∉ l.estreams) (hl : l.live s.sid = []) (hel : l.elive s.sid = []) :
    (execute l s).1.streams s.sid = [] ∧ (execute l s).2.streams = 0 ∧ (execute l s).2.unclosed = 0 ∧
    (execute l s).2.stale = 0 := by
  obtain ⟨_, _, h3, _, _, hc⟩ := session_cleans_up l s hp hs hes hl hel
  exact ⟨by rw [h3]; exact hs, hc.2.2.2.2.1, hc.2.2.2.2.2.1, hc.2.2.2.2.2.2.1⟩

/-- the seeded variant re-derived: keeping a stream whose Close() failed leaves it registered after the session, and
    the next session of the same id is refused its fresh stream to that peer (corpus line `sess a:c:1f1:ok,a:c:1:ok`) -/
theorem keep_failed_goes_stale :
    let r1 := executeWith election releaseKeepFailed registerAll (Led.empty 0) ⟨"a", .coord, 1, .ok, false, none, [⟨1, true, false⟩, ⟨2, false, true⟩]⟩
    let r2 := executeWith election releaseKeepFailed registerAll r1.1 ⟨"a", .coord, 1, .ok, false, none, [⟨1, false, false⟩, ⟨2, false, false⟩]⟩
    r1.2.streams = 1 ∧ r2.2.stale = 1 := by decide

/-- the seeded variants of wave C re-derived: a stream registered only after its first write succeeded is never closed
    when that write fails (corpus line `sess a:c:1w3:ok`) … -/
theorem register_after_write_leaks :
    (executeWith election releaseAll registerWritten (Led.empty 0)
      ⟨"a", .coord, 1, .ok, false, none, [⟨1, false, true⟩, ⟨2, false, false⟩]⟩).2.unclosed = 1 := by decide

/-- … and a listener that blocks on the third alive answer never releases the election's registrations
    (corpus line `sess c:P:1:silent>selfA3:ok`) -/
theorem wedged_listener_leaks :
    (executeWith electionWedging releaseAll registerAll (Led.empty 0)
      ⟨"c", .part, 1, .silent, true, some ⟨.self, .ok, 3⟩, []⟩).2.elive = 6 ∧
    (executeWith electionWedging releaseAll registerAll (Led.empty 0)
      ⟨"c", .part, 1, .silent, true, some ⟨.self, .ok, 2⟩, []⟩).2.elive = 0 := by decide

/-- as found, every bully election left its six subscriptions and its streams on the election communication (witness
    kept as corpus line `sess a:P:1:silent>self:idle`) -/
theorem asfound_election_leaks :
    (executeWith electionAsFound releaseAll registerAll (Led.empty 0)
      ⟨"a", .part, 1, .silent, true, some ⟨.self, .idle, 0⟩, []⟩).2.elive = 6 := by decide

/-- non-vacuity: a participant session with two retryable processes whose coordinator stays silent, retried through
    an election this relayer wins and then successful; then the same id again; another id's subscriptions (handle 7,
    on both communications) stay untouched -/
example :
    let l0 : Led := ⟨[], fun s => if s = "z" then [⟨"z", 7, 2⟩] else [], fun _ => [], fun _ => [], ["z"], 8, 2, 0⟩
    let r1 := execute l0 ⟨"a", .part, 2, .silent, true, some ⟨.self, .ok, 4⟩, [⟨1, true, false⟩, ⟨2, false, true⟩]⟩
    let r2 := execute r1.1 ⟨"a", .coord, 2, .comm, true, some ⟨.self, .fail, 0⟩, [⟨1, false, true⟩]⟩
    r1.2.ret = .ok ∧ r1.2.sub = 7 ∧ r1.2.unsub = 7 ∧ r1.2.runs = [1, 1] ∧ r1.2.stops = [1, 1] ∧
    r2.2.ret = .err ∧ r2.2.sub = 8 ∧ r2.2.runs = [2, 2] ∧ r2.2.elive = 0 ∧
    r2.1.live "z" = [⟨"z", 7, 2⟩] ∧ r2.1.live "a" = [] ∧ r2.1.estreams = ["z"] := by decide

/-- **C09 (b), late sends.** However sends of a session (each registering its fresh stream, or - when another send to the same peer registered
    first - closing it) interleave with releases
    of that session - any number of either, in any order - no stream is ever dropped from the manager without having
    been closed: every opened stream is registered or closed. (`release` is ONE critical section.) -/
theorem no_stream_lost (evs : List SEv) (hreal : ∀ e ∈ evs, e.real = true) : (SMgr.run evs).NoneLost := by
  have key : ∀ (m : SMgr), m.NoneLost → (∀ e ∈ evs, e.real = true) → (evs.foldl SMgr.step m).NoneLost := by
    induction evs with
    | nil => intro m h _; exact h
    | cons e es ih =>
      intro m h hr
      apply ih (hreal := fun x hx => hr x (List.mem_cons_of_mem _ hx)) (m.step e) _ (fun x hx => hr x (List.mem_cons_of_mem _ hx))
      have he := hr e (List.mem_cons_self ..)
      cases e with
      | add i =>
        intro j hj
        simp only [SMgr.step, List.mem_cons] at hj ⊢
        rcases hj with rfl | hj
        · exact Or.inl (Or.inl rfl)
        · rcases h j hj with h' | h'
          · exact Or.inl (Or.inr h')
          · exact Or.inr h'
      | dup i =>
        intro j hj
        simp only [SMgr.step, List.mem_cons] at hj ⊢
        rcases hj with rfl | hj
        · exact Or.inr (Or.inl rfl)
        · rcases h j hj with h' | h'
          · exact Or.inl h'
          · exact Or.inr (Or.inr h')
      | dupKept i => cases he
      | release =>
        intro j hj
        simp only [SMgr.step] at hj ⊢
        rcases h j hj with h' | h'
        · exact Or.inr (List.mem_append_left _ h')
        · exact Or.inr (List.mem_append_right _ h')
      | snap => cases he
      | closeSnap => cases he
      | del => cases he
  exact key _ (by intro i hi; cases hi) hreal

/-- a session's sends are part of its control flow: they all come before its final release, so after that release
    nothing is registered under the id (holds by unfolding: `release` empties the entry) … -/
theorem sends_before_release_leave_nothing (evs : List SEv) : (SMgr.run (evs ++ [.release])).reg = [] := by
  simp [SMgr.run, List.foldl_append, SMgr.step]

/-- … whereas a send that outlives the session (a fire-and-forget reply still dialling when Execute cleans up; corpus
    line `sess a:p:1:slowdial`) registers its stream after the release, where nobody releases it any more -/
theorem send_after_release_stays : (SMgr.run [.add 1, .release, .add 2]).reg = [2] := by decide

/-- the seeded variant re-derived (corpus line `latesend -`): a stream registered between the snapshot and the delete
    is dropped unclosed -/
theorem snapshot_release_loses : ¬ (SMgr.run [.add 1, .snap, .add 2, .closeSnap, .del]).NoneLost := by decide

/-- as found (repaired by `fix: a send that loses the race for a session's stream slot closes its own stream`; corpus
    line `twosends 2`): the stream of a send that lost the registration race stayed open for ever -/
theorem asfound_duplicate_send_leaks : ¬ (SMgr.run [.add 1, .dupKept 2, .release]).NoneLost := by decide

example : (SMgr.run [.add 1, .release, .add 2, .add 3, .release, .add 4]).reg = [4] ∧
    (SMgr.run [.add 1, .release, .add 2, .add 3, .release, .add 4]).closed = [3, 2, 1] := by decide

/-- **C09 (b), global time-out.** Fail messages that are ignored do not postpone the time-out: it comes `T` after the
    watch started, for every sequence of arrivals. -/
theorem timeout_not_postponed (T : Nat) (foreign : List Nat) : watchEnd T foreign = T := rfl

/-- the seeded variant re-derived (corpus line `sess a:p:1:gtoforeign`): re-arming on every ignored message, one
    message every 20 ms keeps a 100 ms time-out away for as long as the messages keep coming -/
theorem rearmed_timeout_recedes :
    watchEndRearmed 100 100 ((List.range 50).map (fun k => 20 * (k + 1))) = 1100 := by decide

/-- **C09 (b), retried process.** A process object that is Run any number of times (the coordinator's retry rounds)
    and then stopped once leaves the subscription registry exactly as it found it. -/
theorem rerun_releases_all (r : Reg) (sid : Sid) (n : Nat) (hf : r.Fresh) :
    (rerun r sid n).live = r.live ∧ (rerun r sid n).pending = r.pending ∧ (rerun r sid n).streams = r.streams := by
  have h := runInv_iter r sid hf n (r, none) ⟨Nat.le_refl _, rfl, rfl, rfl⟩
  unfold rerun stopProc
  generalize iter (runAgain sid) n (r, none) = st at h
  obtain ⟨r', cur⟩ := st
  obtain ⟨_, hp, hs, hc⟩ := h
  cases cur with
  | none => exact ⟨hc, hp, hs⟩
  | some i =>
    simp only at hc
    obtain ⟨hl, hi, _⟩ := hc
    simp only [Reg.unsubscribe, hl]
    exact ⟨drop_current r.live sid r.next i hf hi, hp, hs⟩

/-- as found (`Run` overwrote the id, `Stop` released only the last one) a process run twice leaked a subscription;
    witness kept as corpus line `rerun esigning 2` -/
theorem asfound_rerun_leaks : (rerunAsFound ⟨[], [], [], 0⟩ "a" 2).live = [("a", 0)] := by decide

example : (rerun ⟨[], [("z", 7)], [], 8⟩ "a" 3).live = [("z", 7)] ∧ (rerun ⟨[], [("z", 7)], [], 8⟩ "a" 3).next = 11 := by
  decide

end PropertyB
end Sygma.C09
