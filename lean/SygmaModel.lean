import SygmaModel.Base
