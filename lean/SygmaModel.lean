import SygmaModel.Base
import SygmaModel.Model.C14
import SygmaModel.Generated.C14
import SygmaModel.Props.C14
import SygmaModel.Oblig.C14
import SygmaModel.Drv.All
import SygmaModel.Drv.C14
import SygmaModel.Drv.Util
