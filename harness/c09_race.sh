#!/bin/bash
# C09/C10 thorough tier: re-run the quick correspondence of property $1 with the driver built under Go's race
# detector. Fails if the detector reports a race inside the repository's packages or if any line stops agreeing with
# the model. (Data-race freedom is not part of the Lean proof; this is the labelled test run for it.)
set -e
P=${1:-C09}
V=${VERIF_ROOT:-/verif}
R=${REPO_ROOT:-/repo}
H=$V/harness
. $H/env.sh
mkdir -p $V/work
BIN=$H/bin/drive_race_$P
$H/build.sh $P   # (re)writes the per-property overlay o-$P.json
(cd $R && go build -race -overlay=$H/overlay/o-$P.json -tags verif -o $BIN ./verifdrive)
LOG=$V/work/$P.race.$$
rm -f $LOG.*
VERIF_RACE=1 GORACE="halt_on_error=0 log_path=$LOG" $BIN -prop $P -tier quick -seed ${VERIF_SEED:-1} > $V/work/$P.race.lines || true  # exit code 66 = races were reported
n=$(wc -l < $V/work/$P.race.lines)
bad=$($V/lean/.lake/build/bin/driver < $V/work/$P.race.lines | grep -vc '^ok ' || true)
known=0
if [ "$P" = C10 ]; then known=$(grep -c '^C10 stuck ' $V/work/$P.race.lines || true); fi
read races inrepo <<< $(python3 - $LOG <<'PY'
import sys, glob, re
races = inrepo = 0
for f in glob.glob(sys.argv[1] + ".*"):
    lines = open(f, errors="replace").read().split("\n")
    for i, l in enumerate(lines):
        if "WARNING: DATA RACE" in l:
            races += 1
        # the racing accesses themselves: first frame under "Read at / Write at / Previous read at / Previous write at"
        if re.match(r"^(Read|Write|Previous read|Previous write) at ", l) and i + 1 < len(lines):
            # (a runtime map/slice helper may sit on top of the repository frame)
            if re.search(r"sygma-relayer/(tss|comm|keyshare)[/.]", lines[i + 1]) or (
                    lines[i + 1].strip().startswith("runtime.") and i + 3 < len(lines)
                    and re.search(r"sygma-relayer/(tss|comm|keyshare)[/.]", lines[i + 3])):
                inrepo += 1
print(races, inrepo)
PY
)
if [ "$inrepo" -gt 0 ]; then
  echo "race detector: $races report(s), $inrepo racing access(es) in tss/comm/keyshare:"; grep -h -A12 'WARNING: DATA RACE' $LOG.* | head -60
  rm -f $LOG.*
  exit 1
fi
rm -f $LOG.*
if [ "$bad" -gt "$known" ]; then echo "under -race $bad of $n lines disagree with the model (known: $known)"; exit 1; fi
echo "race-run ok: $n lines under -race, $races race report(s) outside the repository's packages, 0 inside"
