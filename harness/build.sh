#!/bin/bash
# Builds the correspondence driver from the repository's CURRENT WORKING TREE with hooks (tag verif) enabled.
#   build.sh            -> bin/drive        (all properties' ops; development)
#   build.sh C07        -> bin/drive-C07    (only the shared files, c07*.go, and the files of the properties named in
#                                            checks/C07.json "go_deps"; likewise only those hook files) — so that a source
#                                            change which stops ANOTHER property's accessors from compiling cannot make
#                                            this property's check fail.
# Everything is injected through a build overlay: the driver's main package appears as $REPO_ROOT/verifdrive,
# accessor files appear inside the packages they need to reach, and libp2p's defaults.go is replaced by a
# copy without the QUIC transport (quic-go v0.29.1 does not compile with the installed go1.23).
set -e
V=${VERIF_ROOT:-/verif}
R=${REPO_ROOT:-/repo}
H=$V/harness
PID=$1
. $H/env.sh
mkdir -p $H/overlay $H/bin
LIBP2P=/root/go/pkg/mod/github.com/libp2p/go-libp2p@v0.23.4/defaults.go
[ -s $H/overlay/libp2p_defaults.go ] || sed -e '/p2p\/transport\/quic"/d' -e '/Transport(quic.NewTransport),/d' $LIBP2P > $H/overlay/libp2p_defaults.go
OJ=$H/overlay/o${PID:+-$PID}.json
python3 - "$PID" "$OJ" <<PY
import json, os, re, sys
H="$H"; R="$R"; V="$V"
pid=sys.argv[1]; oj=sys.argv[2]
keep=None
if pid:
    keep={pid.lower()}
    try: keep |= {d.lower() for d in json.load(open(f"{V}/checks/{pid}.json")).get("go_deps",[])}
    except Exception: pass
def wanted(fn):
    m=re.match(r"(?:zz_verif_)?(c\d\d)", fn)
    if not m: return True            # shared file
    return keep is None or m.group(1) in keep
rep={"$LIBP2P": H+"/overlay/libp2p_defaults.go"}
for f in sorted(os.listdir(H+"/drive")):
    if f.endswith(".go") and wanted(f): rep[R+"/verifdrive/"+f]=H+"/drive/"+f
for root,_,files in os.walk(H+"/hooks"):
    for f in files:
        if f.endswith(".go") and wanted(f):
            rel=os.path.relpath(os.path.join(root,f), H+"/hooks")
            rep[R+"/"+rel]=os.path.join(root,f)
json.dump({"Replace":rep}, open(oj,"w"), indent=1)
PY
cd $R
# An accessor hook that no longer compiles because an unexported declaration it reaches was RENAMED (same receiver and
# signature) is re-bound by harness/hookfix.py and the build retried; anything else fails as before.
ERR=$H/overlay/builderr${PID:+-$PID}.txt
for attempt in 1 2 3 4; do
  if go build -overlay=$OJ -tags verif -o $H/bin/drive${PID:+-$PID} ./verifdrive 2> $ERR; then cat $ERR >&2; exit 0; fi
  [ -x $H/bin/sygx ] || (cd $H/sygx && go build -o $H/bin/sygx .)
  python3 $H/hookfix.py $OJ $ERR || break
done
cat $ERR >&2
exit 1
