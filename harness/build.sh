#!/bin/bash
# Builds the correspondence driver from /repo's CURRENT WORKING TREE with hooks (tag verif) enabled.
# Everything is injected through a build overlay: the driver's main package appears as /repo/verifdrive,
# accessor files appear inside the packages they need to reach, and libp2p's defaults.go is replaced by a
# copy without the QUIC transport (quic-go v0.29.1 does not compile with the installed go1.23).
set -e
V=${VERIF_ROOT:-/verif}
R=${REPO_ROOT:-/repo}
H=$V/harness
. $H/env.sh
mkdir -p $H/overlay $H/bin
LIBP2P=/root/go/pkg/mod/github.com/libp2p/go-libp2p@v0.23.4/defaults.go
sed -e '/p2p\/transport\/quic"/d' -e '/Transport(quic.NewTransport),/d' $LIBP2P > $H/overlay/libp2p_defaults.go
python3 - <<PY
import json, os
H="$H"
R="$R"
rep={"$LIBP2P": H+"/overlay/libp2p_defaults.go"}
for f in sorted(os.listdir(H+"/drive")):
    if f.endswith(".go"): rep[R+"/verifdrive/"+f]=H+"/drive/"+f
for root,_,files in os.walk(H+"/hooks"):
    for f in files:
        if f.endswith(".go"):
            rel=os.path.relpath(os.path.join(root,f), H+"/hooks")
            rep[R+"/"+rel]=os.path.join(root,f)
json.dump({"Replace":rep}, open(H+"/overlay/o.json","w"), indent=1)
PY
cd $R
go build -overlay=$H/overlay/o.json -tags verif "$@" -o $H/bin/drive ./verifdrive
