#!/usr/bin/env python3
"""
harness/hookfix.py <overlay.json> <go build error output file>

Called by harness/build.sh when the driver build fails.  If the errors are "undefined" errors inside the accessor hook
files (harness/hooks/**/zz_verif_cNN.go) that name an UNEXPORTED function, method or struct field of the repository, the
declaration may simply have been RENAMED (a harmless refactor).  For each such name: look it up in the committed baseline
(harness/hooks/baseline_sigs.json: receiver/struct + signature/type on the pinned tree), list the current tree's
declarations of the package (`sygx sigs`), and if exactly ONE current declaration has the same receiver and signature and
a name the baseline does not know, write a patched copy of the hook file (identifier replaced) under harness/overlay/patched/
and point the overlay at it.  Prints `HOOK-REBOUND: <pkg>: <old> -> <new>` per rename.  Exit 0 if at least one re-binding was
made (build.sh retries), 1 otherwise (the build error stands and is reported by bin/check as before).
Nothing here can hide a behavioural change: only the NAME through which the hook reaches the same-shaped declaration changes;
what that declaration does is still exercised by the correspondence run.
"""
import sys, os, re, json, subprocess
V = os.environ.get("VERIF_ROOT", "/verif"); R = os.environ.get("REPO_ROOT", "/repo"); H = V + "/harness"
oj, errf = sys.argv[1], sys.argv[2]
err = open(errf).read()
ov = json.load(open(oj))["Replace"]
inv = {v: k for k, v in ov.items()}           # source file (hooks dir or patched copy) -> path inside the repo
base = json.load(open(H + "/hooks/baseline_sigs.json")) if os.path.exists(H + "/hooks/baseline_sigs.json") else {}
missing = {}                                   # (hook source file) -> set(names)
pats = [r"^(\S+\.go):\d+:\d+: \S+\.(\w+) undefined \(type \S+ has no field or method (\w+)",
        r"^(\S+\.go):\d+:\d+: undefined: (\w+)()",
        r"^(\S+\.go):\d+:\d+: unknown field (\w+) in struct literal()",
        r"^(\S+\.go):\d+:\d+: \S+\.(\w+) undefined \(type \S+ has no field or method (\w+), but does have"]
for l in err.split("\n"):
    for p in pats:
        m = re.match(p, l.strip())
        if m:
            f = m.group(1)
            if not os.path.isabs(f): f = os.path.normpath(os.path.join(R, f))
            src = ov.get(f, f)
            if "/harness/hooks/" in src or "/harness/overlay/patched/" in src:
                missing.setdefault(src, set()).add(m.group(2))
            break
if not missing: sys.exit(1)
done = 0
for src, names in missing.items():
    target = inv.get(src)
    if not target: continue
    pkg = os.path.relpath(os.path.dirname(target), R)
    cur = json.loads(subprocess.run([H + "/bin/sygx", "sigs", pkg], stdout=subprocess.PIPE, text=True,
                                    env=dict(os.environ, REPO_ROOT=R, VERIF_ROOT=V)).stdout or "{}").get(pkg, [])
    b = base.get(pkg, [])
    bnames = {(e["Kind"], e["Recv"], e["Name"]) for e in b}
    text = open(src).read()
    # names this hook was already re-bound to in an earlier attempt of this build (they no longer count as "fresh")
    rebound_new = set(re.findall(r"HOOK-REBOUND-NOTE: \w+ -> (\w+)", text)); rebound_old = set(re.findall(r"HOOK-REBOUND-NOTE: (\w+) -> ", text))
    for n in sorted(names):
        if n[:1].isupper(): continue            # exported API changed: not a harmless rename
        cands_b = [e for e in b if e["Name"] == n]
        new = set()
        for e in cands_b:
            if any(c["Kind"] == e["Kind"] and c["Recv"] == e["Recv"] and c["Name"] == n for c in cur): continue   # still there
            cs = [c for c in cur if c["Kind"] == e["Kind"] and c["Recv"] == e["Recv"] and c["Sig"] == e["Sig"]
                  and (c["Kind"], c["Recv"], c["Name"]) not in bnames and not c["Name"][:1].isupper()]
            if len(cs) == 1: new.add(cs[0]["Name"])
            elif not cs and e["Kind"] in ("field", "var"):
                # same struct (or package), type spelled differently (a type alias was introduced, a constant renamed with a
                # re-spelled value …): re-bind by elimination when exactly ONE field of that struct disappeared and exactly
                # ONE unexported field the baseline does not know appeared
                gone = [x for x in b if x["Kind"] == e["Kind"] and x["Recv"] == e["Recv"]
                        and not any(c["Kind"] == x["Kind"] and c["Recv"] == x["Recv"] and c["Name"] == x["Name"] for c in cur)
                        and x["Name"] not in rebound_old]
                fresh = [c for c in cur if c["Kind"] == e["Kind"] and c["Recv"] == e["Recv"]
                         and (c["Kind"], c["Recv"], c["Name"]) not in bnames and not c["Name"][:1].isupper()
                         and c["Name"] not in rebound_new]
                if len(gone) == 1 and len(fresh) == 1 and e["Kind"] == "field": new.add(fresh[0]["Name"])
        if len(new) == 1:
            nn = new.pop()
            text2 = re.sub(r"(?<![\w])" + re.escape(n) + r"(?![\w])", nn, text)
            if text2 != text:
                text = text2 + f"\n// HOOK-REBOUND-NOTE: {n} -> {nn}\n"; done += 1
                print(f"HOOK-REBOUND: {pkg}: {n} -> {nn} (same receiver and signature; renamed in the source)")
    if text != open(src).read():
        out = H + "/overlay/patched/" + os.path.relpath(target, R)
        os.makedirs(os.path.dirname(out), exist_ok=True)
        open(out, "w").write(text)
        ov[target] = out
json.dump({"Replace": ov}, open(oj, "w"), indent=1)
sys.exit(0 if done else 1)
