package main

// Scripted scan environment shared by C04 / C05 / C19: runs the REAL listeners
//   - chains/btc/listener.BtcListener
//   - sygma-core chains/evm/listener.EVMListener
//   - sygma-core chains/substrate/listener.SubstrateListener
// against a fake chain whose head answers, handler results, store results and process deaths are scripted
// per loop iteration ("round"). The block store is the real sygma-core store.BlockStore over an in-memory
// (or leveldb) key-value store.
//
// Determinism: the retry interval is 0, the listener goroutine is the only one touching the environment,
// the script's end (or a scripted death) terminates that goroutine with runtime.Goexit() from inside the
// fake, i.e. exactly at an externally visible step, after which it cannot perform any further action.

import (
	"context"
	"os"
	"path/filepath"
	"encoding/binary"
	"errors"
	"fmt"
	"net"
	"math/big"
	"runtime"
	"strings"
	"sync"
	"time"

	btcConfig "github.com/ChainSafe/sygma-relayer/chains/btc/config"
	btcListener "github.com/ChainSafe/sygma-relayer/chains/btc/listener"
	evmEvents "github.com/ChainSafe/sygma-relayer/chains/evm/calls/events"
	evmHandlers "github.com/ChainSafe/sygma-relayer/chains/evm/listener/eventHandlers"
	subHandlers "github.com/ChainSafe/sygma-relayer/chains/substrate/listener"
	"github.com/ChainSafe/sygma-relayer/keyshare"
	relayerStore "github.com/ChainSafe/sygma-relayer/store"
	"github.com/centrifuge/go-substrate-rpc-client/v4/registry/parser"
	"github.com/ethereum/go-ethereum/common"
	ethTypes "github.com/ethereum/go-ethereum/core/types"
	"github.com/rs/zerolog"
	"github.com/sygmaprotocol/sygma-core/relayer/message"
	"github.com/ChainSafe/sygma-relayer/config/chain"
	"github.com/btcsuite/btcd/btcjson"
	"github.com/btcsuite/btcd/chaincfg/chainhash"
	"github.com/centrifuge/go-substrate-rpc-client/v4/types"
	evmListener "github.com/sygmaprotocol/sygma-core/chains/evm/listener"
	subListener "github.com/sygmaprotocol/sygma-core/chains/substrate/listener"
	"github.com/sygmaprotocol/sygma-core/store"
	"github.com/syndtr/goleveldb/leveldb"
)

const scanDomain = uint8(1)

// memKV is an in-memory KeyValueReaderWriter with leveldb's not-found error.
type memKV struct {
	mu sync.Mutex
	m  map[string][]byte
}

func newMemKV() *memKV { return &memKV{m: map[string][]byte{}} }
func (k *memKV) GetByKey(key []byte) ([]byte, error) {
	k.mu.Lock()
	defer k.mu.Unlock()
	v, ok := k.m[string(key)]
	if !ok {
		return nil, leveldb.ErrNotFound
	}
	return append([]byte{}, v...), nil
}
func (k *memKV) SetByKey(key, value []byte) error {
	k.mu.Lock()
	defer k.mu.Unlock()
	k.m[string(key)] = append([]byte{}, value...)
	return nil
}

type roundSpec struct {
	head    string // decimal | E (first RPC fails) | F (second RPC fails)
	fail    int    // index of the failing handler, -1 = none
	storeOk bool
	crash   int // -1 = none; otherwise the process dies after this many visible actions of the round
	panicAt int // -1 = none; otherwise this handler PANICS instead of returning (fail = panicAt as well)
	point   byte // 'a': the handler's first node read fails, 'b': its second one (where the real handler has one)
	kind    byte // error kind of the scripted failure: g generic, t time-out (net.Error), w wrapped time-out,
	// u "unknown block", n "header not found", c context.DeadlineExceeded
	retry  string // store field `s@<h>` / `x@<h>`: a retry request for height h is handled right before this round
	branch int    // which branch of the chain is the active one in this round (a re-organisation switches it)
}

type scanTimeout struct{}

func (scanTimeout) Error() string   { return "i/o timeout" }
func (scanTimeout) Timeout() bool   { return true }
func (scanTimeout) Temporary() bool { return true }

var _ net.Error = scanTimeout{}

func scriptedErr(kind byte) error {
	switch kind {
	case 't':
		return scanTimeout{}
	case 'w':
		return fmt.Errorf("rpc call failed: %w", scanTimeout{})
	case 'u':
		return errors.New("unknown block")
	case 'n':
		return errors.New("header not found")
	case 'c':
		return context.DeadlineExceeded
	case 'l': // provider limit on the SIZE of a log query; only raised for a query that spans more than one block
		return errors.New("query returned more than 10000 results")
	case 'L':
		return errors.New("block range is too large")
	case 'r': // JSON-RPC errors as the btcd rpcclient hands them on
		return &btcjson.RPCError{Code: btcjson.ErrRPCInvalidParameter, Message: "Block height out of range"}
	case 'R':
		return &btcjson.RPCError{Code: btcjson.ErrRPCBlockNotFound, Message: "Block not found"}
	case 'W':
		return &btcjson.RPCError{Code: btcjson.ErrRPCInWarmup, Message: "Loading block index..."}
	case 'M':
		return fmt.Errorf("rpc: %w", &btcjson.RPCError{Code: btcjson.ErrRPCMisc, Message: "misc"})
	}
	return errors.New("scripted handler failure")
}

// parseRounds: `head:fail:store[:crash]` separated by ';'   fail = n|<idx>|p<idx>   store = s|x   crash = <n>
// `p<idx>`: handler idx panics. On code that lets the panic through, that is the death of the process at that point
// (the lifetime ends: nothing stored, nothing advanced); code that swallows the panic carries on with the round and is
// observed doing so. A round scripted with a panic is always the last one of its lifetime (also when the handler is not reached).
func parseRounds(s string) []roundSpec {
	out := []roundSpec{}
	for _, it := range items(s, ";") {
		f := strings.Split(it, ":")
		r := roundSpec{head: f[0], fail: -1, storeOk: true, crash: -1, panicAt: -1, point: 'a', kind: 'g'}
		if hp := strings.Split(f[0], "~"); len(hp) == 3 {
			r.branch = int(u64(hp[2]))
		}
		if len(f) > 1 && strings.HasPrefix(f[1], "p") {
			r.panicAt = int(u64(f[1][1:]))
			r.fail = r.panicAt
		} else if len(f) > 1 && f[1] != "n" {
			// <idx>[a|b][kind]
			digits := strings.TrimRight(f[1], "abgtwunclLrRWM")
			r.fail = int(u64(digits))
			rest := f[1][len(digits):]
			if len(rest) > 0 && (rest[0] == 'a' || rest[0] == 'b') {
				r.point = rest[0]
				rest = rest[1:]
			}
			if len(rest) > 0 {
				r.kind = rest[0]
			}
		}
		if len(f) > 2 && strings.HasPrefix(f[2], "x") {
			r.storeOk = false
		}
		if len(f) > 2 {
			if i := strings.Index(f[2], "@"); i >= 0 {
				r.retry = f[2][i+1:]
			}
		}
		if len(f) > 3 {
			r.crash = int(u64(f[3]))
		}
		out = append(out, r)
	}
	return out
}

type roundObs struct {
	head  string
	calls []string
	store string
}

type scanEnv struct {
	mu      sync.Mutex
	kind    string
	conf, k int64
	nh      int
	rounds  []roundSpec
	pos     int
	actions int
	obs     []roundObs
	done    chan struct{}
	once    sync.Once
	cancel  context.CancelFunc
	bs      *store.BlockStore
	real    bool // the REAL event handlers (and events.Listener) sit between the listener and the node fake; a
	// "handler call" is then what the NODE sees: the range/block of the handler's first read in the round
	fetches int  // reads seen by the Substrate node fake in the current round (real mode: handler index)
	confPtr *big.Int // optional: the confirmations big.Int shared with other components (C04 seq)
	onCall  func(idx int, s, e *big.Int) // optional extra observer (C19)
	onRetry func(height string)          // optional: handles a retry request for that height (shared config objects)
}

func newScanEnv(kind string, conf, k int64, nh int, rounds []roundSpec, kv store.KeyValueReaderWriter) *scanEnv {
	real := strings.HasSuffix(kind, "+")
	kind = strings.TrimSuffix(kind, "+")
	return &scanEnv{real: real, kind: kind, conf: conf, k: k, nh: nh, rounds: rounds, pos: -1, done: make(chan struct{}),
		bs: store.NewBlockStore(kv)}
}

// die ends the listener goroutine here and now (process death / end of script).
func (e *scanEnv) die() {
	e.once.Do(func() {
		if e.cancel != nil {
			e.cancel()
		}
		close(e.done)
	})
	e.mu.Unlock()
	runtime.Goexit()
}

// finish marks the end of the lifetime from outside the listener goroutine's fakes (a panic left the listener).
func (e *scanEnv) finish() {
	e.once.Do(func() {
		if e.cancel != nil {
			e.cancel()
		}
		close(e.done)
	})
}

// guarded runs the listener and turns a panic that propagates out of it into the end of the lifetime.
func (e *scanEnv) guarded(l scanListener, ctx context.Context, start *big.Int) {
	defer func() {
		if r := recover(); r != nil {
			e.finish()
		}
	}()
	l.ListenToEvents(ctx, start)
}

// nextRound is called by the head query; returns the head spec of the new round.
func (e *scanEnv) nextRound() string {
	e.mu.Lock()
	if e.pos >= 0 && e.pos < len(e.rounds) && (e.rounds[e.pos].crash >= 0 || e.rounds[e.pos].panicAt >= 0) {
		e.die()
	}
	e.pos++
	if e.pos >= len(e.rounds) {
		e.die()
	}
	e.actions = 0
	e.fetches = 0
	if rt := e.rounds[e.pos].retry; rt != "" && e.onRetry != nil {
		// a retry-by-height message arrives between two scan steps and is handled by the retry message handler that
		// shares the chain config with this listener
		hook := e.onRetry
		e.mu.Unlock()
		hook(rt)
		e.mu.Lock()
	}
	h := e.rounds[e.pos].head
	o := roundObs{head: strings.SplitN(h, "~", 2)[0], store: "-"}
	if h == "F" {
		o.head = "E"
	}
	e.obs = append(e.obs, o)
	e.mu.Unlock()
	return h
}

// action is called before every externally visible step of a round (handler call, store write).
func (e *scanEnv) action() {
	r := e.rounds[e.pos]
	if r.crash >= 0 && e.actions >= r.crash {
		e.die()
	}
	e.actions++
}

func (e *scanEnv) handle(idx int, s, end *big.Int) error {
	e.mu.Lock()
	e.action()
	o := &e.obs[len(e.obs)-1]
	endS := "nil"
	if end != nil {
		endS = end.String()
	} else {
		end = new(big.Int).Set(s)
	}
	o.calls = append(o.calls, itoa(idx)+"."+s.String()+"."+endS)
	fail := e.rounds[e.pos].fail == idx && (e.rounds[e.pos].point == 'a' || !e.hasPointB(idx))
	kind := e.rounds[e.pos].kind
	if (kind == 'l' || kind == 'L') && s.Cmp(end) >= 0 {
		fail = false // a size limit does not hit a single-block query
	}
	pan := e.rounds[e.pos].panicAt == idx
	cb := e.onCall
	e.mu.Unlock()
	if cb != nil {
		cb(idx, new(big.Int).Set(s), new(big.Int).Set(end))
	}
	if pan && e.kind == "sub" {
		// the sygma-core Substrate listener runs its loop in a goroutine of its own: a real panic there cannot be
		// intercepted by the harness and would kill it, so the death is enacted directly
		e.mu.Lock()
		e.die()
	}
	if pan {
		panic("scripted handler panic")
	}
	if fail {
		return scriptedErr(kind)
	}
	return nil
}

// hasPointB: does handler idx of this stack make a second node read after the recorded one?
func (e *scanEnv) hasPointB(idx int) bool {
	return e.real && (e.kind == "btc" || (e.kind == "sub" && idx == 0))
}

// failB: the error of the handler's second node read, if this round scripts one (it keeps failing for the whole round)
func (e *scanEnv) failB(idx int) error {
	e.mu.Lock()
	defer e.mu.Unlock()
	r := e.rounds[e.pos]
	if r.fail == idx && r.point == 'b' && e.hasPointB(idx) {
		return scriptedErr(r.kind)
	}
	return nil
}

// note appends an observation that is not a handler invocation of the model (idx 7 = a block that is NOT on the active
// chain of this round was read)
func (e *scanEnv) note(call string) {
	e.mu.Lock()
	defer e.mu.Unlock()
	o := &e.obs[len(e.obs)-1]
	o.calls = append(o.calls, call)
}

func (e *scanEnv) branchNow() int {
	e.mu.Lock()
	defer e.mu.Unlock()
	return e.rounds[e.pos].branch
}

// StoreBlock implements the listeners' BlockStorer on top of the real BlockStore.
func (e *scanEnv) StoreBlock(block *big.Int, domainID uint8) error {
	e.mu.Lock()
	e.action()
	o := &e.obs[len(e.obs)-1]
	ok := e.rounds[e.pos].storeOk
	if !ok {
		o.store = "X" + block.String()
		e.mu.Unlock()
		return errors.New("scripted store failure")
	}
	err := e.bs.StoreBlock(block, domainID)
	o.store = "S" + block.String()
	e.mu.Unlock()
	return err
}

func (e *scanEnv) headOf() int64 {
	e.mu.Lock()
	defer e.mu.Unlock()
	return i64(strings.SplitN(e.rounds[e.pos].head, "~", 2)[0])
}

// confsOf: the `confirmations` field the node reports for the best block it hands out: head spec `<height>~<c>`
// (c > 1: the tip moved on between GetBestBlockHash and GetBlockVerboseTx); default 1.
func (e *scanEnv) confsOf() int64 {
	e.mu.Lock()
	defer e.mu.Unlock()
	f := strings.Split(e.rounds[e.pos].head, "~")
	if len(f) >= 2 {
		return i64(f[1])
	}
	return 1
}
func (e *scanEnv) curSpec() string {
	e.mu.Lock()
	defer e.mu.Unlock()
	return e.rounds[e.pos].head
}

// ---- BTC connection
type btcScanConn struct{ e *scanEnv }

func (c btcScanConn) GetBestBlockHash() (*chainhash.Hash, error) {
	if c.e.nextRound() == "E" {
		return nil, errors.New("rpc down")
	}
	return &chainhash.Hash{}, nil
}
func (c btcScanConn) GetBlockVerboseTx(*chainhash.Hash) (*btcjson.GetBlockVerboseTxResult, error) {
	if c.e.curSpec() == "F" {
		return nil, errors.New("rpc down")
	}
	return &btcjson.GetBlockVerboseTxResult{Height: c.e.headOf(), Confirmations: c.e.confsOf()}, nil
}
func (c btcScanConn) GetRawTransactionVerbose(*chainhash.Hash) (*btcjson.TxRawResult, error) {
	return nil, errors.New("unused")
}
func (c btcScanConn) GetBlockHash(int64) (*chainhash.Hash, error) { return nil, errors.New("unused") }

type btcScanHandler struct {
	e   *scanEnv
	idx int
}

func (h btcScanHandler) HandleEvents(b *big.Int) error { return h.e.handle(h.idx, b, b) }

// ---- EVM client
type evmScanClient struct{ e *scanEnv }

func (c evmScanClient) LatestBlock() (*big.Int, error) {
	h := strings.SplitN(c.e.nextRound(), "~", 2)[0]
	if h == "E" || h == "F" {
		return nil, errors.New("rpc down")
	}
	return bigArg(h), nil
}

type rangeScanHandler struct {
	e   *scanEnv
	idx int
}

func (h rangeScanHandler) HandleEvents(s, end *big.Int) error { return h.e.handle(h.idx, s, end) }

type noMetrics struct{}

func (noMetrics) TrackBlockDelta(uint8, *big.Int, *big.Int) {}

// ---- Substrate connection
type subScanConn struct{ e *scanEnv }

func (c subScanConn) GetFinalizedHead() (types.Hash, error) {
	if c.e.nextRound() == "E" {
		return types.Hash{}, errors.New("rpc down")
	}
	return types.Hash{}, nil
}
func (c subScanConn) GetBlock(types.Hash) (*types.SignedBlock, error) {
	if c.e.curSpec() == "F" {
		return nil, errors.New("rpc down")
	}
	return &types.SignedBlock{Block: types.Block{Header: types.Header{Number: types.BlockNumber(c.e.headOf())}}}, nil
}

// ---- node fakes underneath the REAL handlers (real mode)
type realEvmNode struct{ e *scanEnv }

func (n realEvmNode) FetchEventLogs(ctx context.Context, a common.Address, event string, s, end *big.Int) ([]ethTypes.Log, error) {
	// handler index = position in the list app.Run registers
	idx := map[string]int{string(evmEvents.DepositSig): 0, string(evmEvents.StartKeygenSig): 1, string(evmEvents.StartFrostKeygenSig): 2,
		string(evmEvents.KeyRefreshSig): 3, string(evmEvents.RetryV1Sig): 4, string(evmEvents.RetryV2Sig): 5}[event]
	if err := n.e.handle(idx, s, end); err != nil {
		return nil, err
	}
	return nil, nil
}
func (n realEvmNode) WaitAndReturnTxReceipt(common.Hash) (*ethTypes.Receipt, error) { return nil, errors.New("unused") }
func (n realEvmNode) LatestBlock() (*big.Int, error)                               { return nil, errors.New("unused") }
func (n realEvmNode) BlockByNumber(context.Context, *big.Int) (*ethTypes.Block, error) {
	return nil, errors.New("unused")
}

type realBtcNode struct{ e *scanEnv }

func (n realBtcNode) GetRawTransactionVerbose(*chainhash.Hash) (*btcjson.TxRawResult, error) {
	return nil, errors.New("unused")
}
// block identity: the hash encodes height and branch; a re-organisation changes the branch of the active chain
func scanBlockHash(h int64, branch int) *chainhash.Hash {
	var x chainhash.Hash
	binary.BigEndian.PutUint64(x[0:8], uint64(h))
	x[8] = byte(branch)
	x[31] = 1
	return &x
}

func (n realBtcNode) GetBlockHash(h int64) (*chainhash.Hash, error) {
	if err := n.e.handle(0, big.NewInt(h), big.NewInt(h)); err != nil {
		return nil, err
	}
	return scanBlockHash(h, n.e.branchNow()), nil
}
func (n realBtcNode) GetBlockVerboseTx(hash *chainhash.Hash) (*btcjson.GetBlockVerboseTxResult, error) {
	h := int64(binary.BigEndian.Uint64(hash[0:8]))
	br := int(hash[8])
	if br != n.e.branchNow() {
		n.e.note("7." + itoa64(h) + "." + itoa64(h)) // a block that is not on the active chain is being read
	}
	if err := n.e.failB(0); err != nil {
		return nil, err
	}
	return &btcjson.GetBlockVerboseTxResult{Hash: hash.String(), Height: h, Confirmations: 1,
		NextHash: scanBlockHash(h+1, br).String()}, nil
}
func (n realBtcNode) GetBestBlockHash() (*chainhash.Hash, error) { return &chainhash.Hash{}, nil }

type realSubNode struct{ e *scanEnv }

func (n realSubNode) GetFinalizedHead() (types.Hash, error) {
	if err := n.e.failB(0); err != nil {
		return types.Hash{}, err
	}
	return types.Hash{}, nil
}
func (n realSubNode) GetBlock(types.Hash) (*types.SignedBlock, error) {
	return &types.SignedBlock{Block: types.Block{Header: types.Header{Number: 1 << 30}}}, nil
}
func (n realSubNode) GetBlockLatest() (*types.SignedBlock, error) { return n.GetBlock(types.Hash{}) }
func (n realSubNode) GetBlockHash(uint64) (types.Hash, error)     { return types.Hash{}, nil }
func (n realSubNode) GetBlockEvents(types.Hash) ([]*parser.Event, error) { return nil, nil }
func (n realSubNode) UpdateMetatdata() error                              { return nil }
func (n realSubNode) FetchEvents(s, end *big.Int) ([]*parser.Event, error) {
	n.e.mu.Lock()
	idx := n.e.fetches
	n.e.fetches++
	n.e.mu.Unlock()
	if err := n.e.handle(idx, s, end); err != nil {
		return nil, err
	}
	return nil, nil
}

type noPropStore struct{}

func (noPropStore) StorePropStatus(s, d uint8, n uint64, st relayerStore.PropStatus) error { return nil }
func (noPropStore) PropStatus(s, d uint8, n uint64) (relayerStore.PropStatus, error) {
	return relayerStore.MissingProp, nil
}

// realStackSize: number of handlers app.Run registers that read the node once per range (in this order):
// evm: DepositEventHandler, KeygenEventHandler, FrostKeygenEventHandler, RefreshEventHandler, RetryV1EventHandler;
// substrate: RetryEventHandler, FungibleTransferEventHandler; btc: deposits
func realStackSize(kind string) int {
	switch kind {
	case "btc":
		return 1
	case "evm":
		return 5
	}
	return 2
}

// scanListener is what the chain objects need.
type scanListener interface {
	ListenToEvents(ctx context.Context, startBlock *big.Int)
}

func (e *scanEnv) confBig() *big.Int {
	if e.confPtr != nil {
		return e.confPtr
	}
	return big.NewInt(e.conf)
}

// build constructs the real listener of e.kind wired to the environment.
func (e *scanEnv) build() scanListener {
	if e.real {
		ch := make(chan []*message.Message, 64)
		switch e.kind {
		case "btc":
			id := scanDomain
			cfg := &btcConfig.BtcConfig{GeneralChainConfig: chain.GeneralChainConfig{Id: &id},
				BlockRetryInterval: 0, BlockConfirmations: e.confBig()}
			h := btcListener.NewFungibleTransferEventHandler(zerolog.Context{}, scanDomain, &btcListener.BtcDepositHandler{}, ch, realBtcNode{e}, nil, nil)
			return btcListener.NewBtcListener(btcScanConn{e}, []btcListener.EventHandler{h}, cfg, e)
		case "evm":
			el := evmEvents.NewListener(realEvmNode{e}) // the real events.Listener between the handlers and the node
			// the handlers in the order app.Run registers them; the TSS handlers get no coordinator/host: they only come
			// into play when an event is found, and the fake chain holds none
			noKey := keyshare.NewECDSAKeyshareStore(filepath.Join(os.TempDir(), "verif-no-such-keyshare"))
			noFrost := keyshare.NewFrostKeyshareStore(filepath.Join(os.TempDir(), "verif-no-such-frost-keyshare"))
			hs := []evmListener.EventHandler{
				evmHandlers.NewDepositEventHandler(el, nil, common.Address{}, scanDomain, ch),
				evmHandlers.NewKeygenEventHandler(zerolog.Context{}, el, nil, nil, nil, noKey, common.Address{}, 1),
				evmHandlers.NewFrostKeygenEventHandler(zerolog.Context{}, el, nil, nil, nil, noFrost, common.Address{}, 1),
				evmHandlers.NewRefreshEventHandler(zerolog.Context{}, nil, nil, el, nil, nil, nil, nil, noKey, noFrost, common.Address{}),
				evmHandlers.NewRetryV1EventHandler(zerolog.Context{}, el, nil, noPropStore{}, common.Address{}, scanDomain, e.confBig(), ch),
			}
			return evmListener.NewEVMListener(evmScanClient{e}, hs[:e.nh], e, noMetrics{}, scanDomain, 0, e.confBig(), big.NewInt(e.k))
		case "sub":
			hs := []subListener.EventHandler{
				subHandlers.NewRetryEventHandler(zerolog.Context{}, realSubNode{e}, nil, scanDomain, ch),
				subHandlers.NewFungibleTransferEventHandler(zerolog.Context{}, scanDomain, nil, ch, realSubNode{e}),
			}
			return subListener.NewSubstrateListener(subScanConn{e}, hs[:e.nh], e, noMetrics{}, scanDomain, 0, big.NewInt(e.k))
		}
	}
	switch e.kind {
	case "btc":
		id := scanDomain
		hs := []btcListener.EventHandler{}
		for i := 0; i < e.nh; i++ {
			hs = append(hs, btcScanHandler{e, i})
		}
		cfg := &btcConfig.BtcConfig{GeneralChainConfig: chain.GeneralChainConfig{Id: &id},
			BlockRetryInterval: 0, BlockConfirmations: e.confBig()}
		return btcListener.NewBtcListener(btcScanConn{e}, hs, cfg, e)
	case "evm":
		hs := []evmListener.EventHandler{}
		for i := 0; i < e.nh; i++ {
			hs = append(hs, rangeScanHandler{e, i})
		}
		return evmListener.NewEVMListener(evmScanClient{e}, hs, e, noMetrics{}, scanDomain, 0, e.confBig(), big.NewInt(e.k))
	case "sub":
		hs := []subListener.EventHandler{}
		for i := 0; i < e.nh; i++ {
			hs = append(hs, rangeScanHandler{e, i})
		}
		return subListener.NewSubstrateListener(subScanConn{e}, hs, e, noMetrics{}, scanDomain, 0, big.NewInt(e.k))
	}
	panic("bad kind " + e.kind)
}

// runDirect starts the listener's ListenToEvents(ctx, start) and waits for the script to end.
func (e *scanEnv) runDirect(start *big.Int) {
	ctx, cancel := context.WithCancel(context.Background())
	e.cancel = cancel
	l := e.build()
	go e.guarded(l, ctx, start)
	e.wait()
}

func (e *scanEnv) wait() {
	select {
	case <-e.done:
	case <-time.After(15 * time.Second):
		panic("scan script did not terminate")
	}
}

func (e *scanEnv) render() string {
	e.mu.Lock()
	defer e.mu.Unlock()
	out := []string{}
	for _, o := range e.obs {
		out = append(out, o.head+"/"+joinOr(o.calls, ",")+"/"+o.store)
	}
	return joinOr(out, ";")
}

func startArg(s string) *big.Int {
	if s == "nil" {
		return nil
	}
	v, ok := new(big.Int).SetString(s, 10)
	if !ok {
		panic("bad start " + s)
	}
	return v
}

func itoa64(v int64) string { return new(big.Int).SetInt64(v).String() }
func timeZero() time.Time  { return time.Unix(0, 0) }
