package main

// C10 — wave C: the key-share lock when it is BUSY at the moment a process wants it, and the production entry
// points (event handlers) around Coordinator.Execute.

import (
	"context"
	"errors"
	"fmt"
	"math/big"
	"strings"
	"time"

	"github.com/ChainSafe/sygma-relayer/chains/evm/calls/events"
	"github.com/ChainSafe/sygma-relayer/chains/evm/listener/eventHandlers"
	"github.com/ChainSafe/sygma-relayer/comm"
	"github.com/ChainSafe/sygma-relayer/comm/p2p"
	"github.com/ChainSafe/sygma-relayer/keyshare"
	"github.com/ChainSafe/sygma-relayer/topology"
	"github.com/ChainSafe/sygma-relayer/tss"
	"github.com/ChainSafe/sygma-relayer/tss/message"
	"github.com/ChainSafe/sygma-relayer/tss/util"
	ethCommon "github.com/ethereum/go-ethereum/common"
	"github.com/ethereum/go-ethereum/core/types"
	"github.com/libp2p/go-libp2p/core/peer"
	"github.com/rs/zerolog/log"
)

// busyCell: somebody else (another session on the same store) holds the key-share lock at the moment this kind's
// process wants it - in its constructor, or for ECDSA keygen in Run - and the session is cancelled before the lock
// is free again. Whoever was waiting for the lock gets it after the holder's release and must give it back.
//
//	=> ret;L=… with the holder's own lock/unlock included (L=2,U=2 for every kind that locks at all)
func (w *c10world) busyCell(kind, sid string) string {
	nd := w.nodes[0]
	cnt := nd.ec.c
	lock, unlock := nd.ec.LockKeyshare, nd.ec.UnlockKeyshare
	if strings.HasPrefix(kind, "f") {
		cnt = nd.fr.c
		lock, unlock = nd.fr.LockKeyshare, nd.fr.UnlockKeyshare
	}
	locks0 := cnt.locksNow()
	lock() // the holder
	ctx, cancel := context.WithCancel(context.Background())
	defer cancel()
	ret := make(chan string, 1)
	ghost := w.nodes[1].ledger
	live0 := nd.ledger.inner.VerifLiveSubscriptions(sid)
	if kind == "ekeygen" {
		// locks in Run: start it (with a threshold the parties cannot satisfy, so that Run leaves right after it got
		// the lock instead of generating safe primes) and cancel the session while Run waits for the lock
		proc, _, _ := w.mk(kind, nd, sid, 7)
		go func() { ret <- c10ret(nd.coord.Execute(ctx, []tss.TssProcess{proc}, make(chan interface{}, 4))) }()
		if !waitUntil(c9wait, func() bool { return nd.ledger.inner.VerifLiveSubscriptions(sid) >= live0+3 }) {
			unlock()
			return "hang;" + cnt.String()
		}
		b, _ := message.MarshalStartMessage([]byte{})
		_ = ghost.inner.Broadcast(peer.IDSlice{w.ids[0]}, b, comm.TssStartMsg, sid)
	} else {
		// locks in its constructor (or, signing, locks and unlocks there): the caller is stuck in the constructor,
		// gives the session up meanwhile, and executes the process with the cancelled context afterwards
		go func() {
			proc, _, ok := w.mk(kind, nd, sid, 1)
			if !ok {
				ret <- "ctorerr"
				return
			}
			ret <- c10ret(nd.coord.Execute(ctx, []tss.TssProcess{proc}, make(chan interface{}, 4)))
		}()
	}
	waited := waitUntil(c9wait, func() bool { return cnt.waitingNow() >= 1 })
	cancel()
	time.Sleep(2 * time.Millisecond)
	unlock()
	r := "hang"
	select {
	case r = <-ret:
	case <-time.After(c9wait + 8*time.Second):
	}
	// whoever queued for the lock has taken it by now (on every tree); let a release that is still under way finish
	waitUntil(3*time.Second, func() bool { return cnt.locksNow() >= locks0+2 })
	waitUntil(time.Second, func() bool { return cnt.heldNow() == 0 })
	if !waited {
		r = "hang"
	}
	return r + ";" + cnt.String()
}

func c10ret(err error) string {
	switch {
	case err == nil:
		return "ok"
	}
	return "err"
}

// ---------------------------------------------------------------- event handlers

type c10Listener struct {
	block uint64
	n     int // events returned
	err   bool
	hash  string // topology hash announced by a refresh event
}

func (l *c10Listener) logs() ([]types.Log, error) {
	if l.err {
		return nil, errors.New("rpc failed")
	}
	out := []types.Log{}
	for i := 0; i < l.n; i++ {
		out = append(out, types.Log{BlockNumber: l.block})
	}
	return out, nil
}
func (l *c10Listener) FetchKeygenEvents(ctx context.Context, a ethCommon.Address, s, e *big.Int) ([]types.Log, error) {
	return l.logs()
}
func (l *c10Listener) FetchFrostKeygenEvents(ctx context.Context, a ethCommon.Address, s, e *big.Int) ([]types.Log, error) {
	return l.logs()
}
func (l *c10Listener) FetchRefreshEvents(ctx context.Context, a ethCommon.Address, s, e *big.Int) ([]*events.Refresh, error) {
	if l.err {
		return nil, errors.New("rpc failed")
	}
	out := []*events.Refresh{}
	for i := 0; i < l.n; i++ {
		out = append(out, &events.Refresh{Hash: l.hash})
	}
	return out, nil
}
func (l *c10Listener) FetchDeposits(ctx context.Context, a ethCommon.Address, s, e *big.Int) ([]*events.Deposit, error) {
	return nil, nil
}
func (l *c10Listener) FetchRetryV1Events(ctx context.Context, a ethCommon.Address, s, e *big.Int) ([]events.RetryV1Event, error) {
	return nil, nil
}
func (l *c10Listener) FetchRetryV2Events(ctx context.Context, a ethCommon.Address, s, e *big.Int) ([]events.RetryV2Event, error) {
	return nil, nil
}
func (l *c10Listener) FetchRetryDepositEvents(ev events.RetryV1Event, a ethCommon.Address, c *big.Int) ([]events.Deposit, error) {
	return nil, nil
}

type c10Topology struct {
	t   *topology.NetworkTopology
	err bool
}

func (p c10Topology) NetworkTopology(hash string) (*topology.NetworkTopology, error) {
	if p.err {
		return nil, errors.New("topology does not match the announced hash")
	}
	return p.t, nil
}

// C10.handler <keygen|fkeygen|refresh> <noevents|fetcherr|silent|gto|refused>[+key]  (refresh also: emptyhash|topoerr|storefail)
//
//	the REAL event handler is the entry point: HandleEvents constructs the process and runs Coordinator.Execute itself.
//	=> <HandleEvents returned ok|err>;L=… of the store the handler's process uses
func c10handler(a []string) string {
	which, oc := a[0], a[1]
	// `<outcome>+key`: the relayer already HAS a key share when the (key generation) event arrives - a re-processed
	// block range, a second keygen event
	hasKey := strings.HasSuffix(oc, "+key")
	oc = strings.TrimSuffix(oc, "+key")
	w := newC10World(2, which == "refresh" || hasKey)
	defer w.close()
	nd := w.nodes[0]
	cnt := nd.ec.c
	if which == "fkeygen" {
		cnt = nd.fr.c
	}
	prefix := map[string]string{"keygen": "keygen-", "fkeygen": "frost-keygen-", "refresh": "resharing-"}[which]
	// a block number under which relayer 1, not this relayer, is the session's static coordinator
	block := uint64(1)
	for ; util.SortPeersForSession(w.ids, prefix+fmt.Sprint(block))[0].ID != w.ids[1]; block++ {
	}
	sid := prefix + fmt.Sprint(block)
	lst := &c10Listener{block: block, n: 1, hash: "topology-hash"}
	topoErr := false
	topoPath := w.dir + "/topology"
	switch oc {
	case "noevents":
		lst.n = 0
	case "fetcherr":
		lst.err = true
	case "silent":
		nd.coord.CoordinatorTimeout = 25 * time.Millisecond
	case "gto":
		nd.coord.TssTimeout = 25 * time.Millisecond
	// faults of what the refresh handler depends on, each at its own point before the session
	case "emptyhash":
		lst.hash = ""
	case "topoerr":
		topoErr = true
	case "storefail":
		topoPath = w.dir + "/no-such-directory/topology" // the topology file cannot be written
	}
	bctx, bcancel := context.WithCancel(context.Background())
	defer bcancel()
	blockRet := make(chan error, 1)
	if oc == "refused" {
		blocker := newRecProc(sid, []peer.ID{w.ids[1]}, nd.ledger, newSidStats())
		go func() { blockRet <- nd.coord.Execute(bctx, []tss.TssProcess{blocker}, make(chan interface{}, 1)) }()
		if !waitUntil(c9wait, func() bool { return nd.coord.VerifPending(sid) }) {
			return "hang"
		}
	}
	var handle func(*big.Int, *big.Int) error
	lc := log.With()
	switch which {
	case "keygen":
		handle = eventHandlers.NewKeygenEventHandler(lc, lst, nd.coord, nd.host, nd.ledger, nd.ec, ethCommon.Address{}, 1).HandleEvents
	case "fkeygen":
		handle = eventHandlers.NewFrostKeygenEventHandler(lc, lst, nd.coord, nd.host, nd.ledger, nd.fr, ethCommon.Address{}, 1).HandleEvents
	case "refresh":
		peers := []*peer.AddrInfo{}
		for _, id := range w.ids {
			pi := nd.host.Peerstore().PeerInfo(id)
			peers = append(peers, &pi)
		}
		topo := &topology.NetworkTopology{Peers: peers, Threshold: 1}
		handle = eventHandlers.NewRefreshEventHandler(lc, c10Topology{topo, topoErr}, topology.NewTopologyStore(topoPath), lst,
			nd.coord, nd.host, nd.ledger, p2p.NewConnectionGate(topo), nd.ec, nd.fr, ethCommon.Address{}).HandleEvents
	default:
		return "badhandler"
	}
	ret := make(chan error, 1)
	go func() { ret <- handle(new(big.Int).SetUint64(block), new(big.Int).SetUint64(block+5)) }()
	r := "hang"
	select {
	case err := <-ret:
		r = "ok"
		if err != nil {
			r = "err"
		}
	case <-time.After(c9wait + 8*time.Second):
	}
	if oc == "refused" {
		bcancel()
		select {
		case <-blockRet:
		case <-time.After(c9wait):
			r = "hang"
		}
	}
	return r + ";" + cnt.String()
}

// C10.midrun <kind>   (kinds that must hold the lock while their protocol runs) the process is started for real and the
//
//	lock is watched for 300 ms from the moment the process has subscribed to its message type, i.e. while the protocol
//	is in its rounds (ECDSA keygen is generating safe primes then, for seconds). => R=<1 held all the time | 0 seen free>
//	The session is NOT ended (ending a run in that phase is the known finding C10-run-stuck-on-outchn): the op is the
//	last one of a run, the driver exits right after it.
func c10midrun(a []string) string {
	kind := a[0]
	w := newC10World(2, !strings.HasSuffix(kind, "keygen"))
	nd := w.nodes[0]
	sid := w.sidWithCoordinator("s", 1)
	proc, cnt, ok := w.mk(kind, nd, sid, 1)
	if !ok {
		return "ctorerr"
	}
	go func() {
		_ = nd.coord.Execute(context.Background(), []tss.TssProcess{proc}, make(chan interface{}, 4))
	}()
	ghost := w.nodes[1].ledger
	if !waitUntil(c9wait, func() bool { return nd.ledger.inner.VerifLiveSubscriptions(sid) >= 3 }) {
		return "hang"
	}
	b, _ := message.MarshalStartMessage(w.startParams(kind, sid))
	_ = ghost.inner.Broadcast(peer.IDSlice{w.ids[0]}, b, comm.TssStartMsg, sid)
	if !waitUntil(c9wait, func() bool { return len(nd.ledger.inner.GetSubscribers(sid, c10msgType(kind))) > 0 }) {
		return "hang"
	}
	free := waitUntil(300*time.Millisecond, func() bool { return cnt.heldNow() == 0 })
	if free {
		return "R=0"
	}
	return "R=1"
}

// C10.multi <kind+kind+…> <refused|silent|gto|cancel|precancel>   ONE session made of several processes (Execute takes an
//
//	array), each with a key-share store of its own. => <ret>;<per process L=…>|…
func c10multi(a []string) string {
	kinds, oc := strings.Split(a[0], "+"), a[1]
	w := newC10World(1, true)
	defer w.close()
	nd := w.nodes[0]
	sid := w.sidWithCoordinator("s", 1)
	var blocker *recProc
	bctx, bcancel := context.WithCancel(context.Background())
	defer bcancel()
	blockRet := make(chan error, 1)
	if oc == "refused" {
		blocker = newRecProc(sid, []peer.ID{w.ids[1]}, nd.ledger, newSidStats())
		go func() { blockRet <- nd.coord.Execute(bctx, []tss.TssProcess{blocker}, make(chan interface{}, 1)) }()
		if !waitUntil(c9wait, func() bool { return nd.coord.VerifPending(sid) && nd.ledger.inner.VerifLiveSubscriptions(sid) >= 3 }) {
			return "hang"
		}
	}
	procs := []tss.TssProcess{}
	cnts := []*lockCounter{}
	for i, k := range kinds {
		// a store of its own for every process (the fixture share of relayer 0 behind a fresh counting lock)
		ep, fp := fmt.Sprintf("%s/m%d.keyshare", w.dir, i), fmt.Sprintf("%s/m%d-frost.keyshare", w.dir, i)
		copyFile(w.dir+"/0.keyshare", ep)
		copyFile(w.dir+"/0-frost.keyshare", fp)
		one := &c10node{host: nd.host, ledger: nd.ledger,
			ec: &cntECDSA{inner: keyshare.NewECDSAKeyshareStore(ep), c: &lockCounter{}},
			fr: &cntFrost{inner: keyshare.NewFrostKeyshareStore(fp), c: &lockCounter{}}}
		p, c, ok := w.mk(k, one, sid, 1)
		if !ok {
			return "ctorerr"
		}
		procs = append(procs, p)
		cnts = append(cnts, c)
	}
	switch oc {
	case "silent":
		nd.coord.CoordinatorTimeout = 25 * time.Millisecond
	case "gto":
		nd.coord.TssTimeout = 25 * time.Millisecond
	}
	ctx, cancel := context.WithCancel(context.Background())
	defer cancel()
	if oc == "precancel" {
		cancel()
	}
	subX, _, _ := nd.ledger.counts(sid)
	ret := make(chan error, 1)
	go func() { ret <- nd.coord.Execute(ctx, procs, make(chan interface{}, 4)) }()
	if oc == "cancel" {
		waitUntil(c9wait, func() bool { return nd.ledger.inner.VerifLiveSubscriptions(sid) >= 3 })
		cancel()
	}
	if oc == "silent" && strings.HasSuffix(kinds[0], "signing") {
		// (a retryable first process: the silent coordinator is excluded, this relayer elects itself, nobody is ready)
		waitUntil(c9wait, func() bool { return len(nd.ledger.inner.GetSubscribers(sid, comm.TssReadyMsg)) > 0 })
		cancel()
	}
	r := "hang"
	select {
	case err := <-ret:
		n, _, _ := nd.ledger.counts(sid)
		switch {
		case err == nil:
			r = "ok"
		case refusedBy(err, n-subX):
			r = "refused"
		default:
			r = "err"
		}
	case <-time.After(c9wait + 8*time.Second):
	}
	if blocker != nil {
		bcancel()
		select {
		case <-blockRet:
		case <-time.After(c9wait):
			r = "hang"
		}
	}
	out := []string{}
	for _, c := range cnts {
		out = append(out, c.String())
	}
	return r + ";" + strings.Join(out, "|")
}

func init() {
	ops["C10.handler"] = c10handler
	ops["C10.midrun"] = c10midrun
	ops["C10.multi"] = c10multi
}
