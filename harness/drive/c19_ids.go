package main

// C19 — identifiers derived by the handlers that were not reached before round 4:
//   Substrate FungibleTransferEventHandler / RetryEventHandler message ids, EVM RetryV1 / RetryV2 message ids.
// Every op runs SEVERAL differently-historied instances of the real handler over the same chain data (a fresh one, one
// that has already handled other ranges, the first one again) and prints the common result, or all results joined by
// '|' if they differ — identifiers must be a function of the chain data alone.

import (
	"context"
	"math/big"
	"sort"
	"strings"
	"time"

	"github.com/ChainSafe/sygma-relayer/chains/evm/calls/events"
	"github.com/ChainSafe/sygma-relayer/chains/evm/listener/depositHandlers"
	"github.com/ChainSafe/sygma-relayer/chains/evm/listener/eventHandlers"
	subListenerR "github.com/ChainSafe/sygma-relayer/chains/substrate/listener"
	"github.com/ChainSafe/sygma-relayer/relayer/retry"
	"github.com/ChainSafe/sygma-relayer/relayer/transfer"
	"github.com/centrifuge/go-substrate-rpc-client/v4/registry"
	"github.com/centrifuge/go-substrate-rpc-client/v4/registry/parser"
	"github.com/centrifuge/go-substrate-rpc-client/v4/types"
	"github.com/ethereum/go-ethereum/common"
	"github.com/rs/zerolog"
	"github.com/sygmaprotocol/sygma-core/relayer/message"
)

// agreeOut: the common value of the runs, or all distinct values joined by '|'.
func agreeOut(outs []string) string {
	seen := map[string]bool{}
	xs := []string{}
	for _, o := range outs {
		if !seen[o] {
			seen[o] = true
			xs = append(xs, o)
		}
	}
	sort.Strings(xs)
	return strings.Join(xs, "|")
}

// ---- Substrate
type c19SubDepositHandler struct{}

func (c19SubDepositHandler) HandleDeposit(sourceID uint8, destID types.U8, nonce types.U64, resourceID types.Bytes32,
	calldata []byte, transferType types.U8, messageID string, timestamp time.Time) (*message.Message, error) {
	if len(calldata) > 0 && calldata[0] == 0xff {
		return nil, errRPC
	}
	return message.NewMessage(sourceID, uint8(destID), transfer.TransferMessageData{DepositNonce: uint64(nonce), ResourceId: resourceID},
		messageID, transfer.TransferMessageType, timestamp), nil
}

func c19SubDepositEvent(dest uint8, nonce uint64, bad bool) *parser.Event {
	data := []byte{}
	if bad {
		data = []byte{0xff}
	}
	return &parser.Event{Name: "SygmaBridge.Deposit", Fields: registry.DecodedFields{
		&registry.DecodedField{Name: "dest_domain_id", Value: types.NewU8(dest)},
		&registry.DecodedField{Name: "resource_id", Value: types.Bytes32{1}},
		&registry.DecodedField{Name: "deposit_nonce", Value: types.NewU64(nonce)},
		&registry.DecodedField{Name: "sygma_traits_TransferType", Value: types.NewU8(0)},
		&registry.DecodedField{Name: "deposit_data", Value: data},
		&registry.DecodedField{Name: "handler_response", Value: [1]byte{0}},
	}}
}

// c19SubEvents: deposits spec ','-separated `dest` | `x<dest>`; nonce = position
func c19SubEvents(spec string) []*parser.Event {
	out := []*parser.Event{{Name: "System.ExtrinsicSuccess"}}
	for i, d := range items(spec, ",") {
		bad := strings.HasPrefix(d, "x")
		d = strings.TrimPrefix(d, "x")
		out = append(out, c19SubDepositEvent(uint8(u64(d)), uint64(i), bad))
	}
	return out
}

// c19SubConn: FetchEvents answers from `byRange` (range -> events), the retried block's events from blockEvents.
type c19SubConn struct {
	events      func(s, e *big.Int) []*parser.Event
	blockEvents []*parser.Event
	fin         uint32
}

func (c *c19SubConn) GetFinalizedHead() (types.Hash, error) { return types.Hash{}, nil }
func (c *c19SubConn) GetBlock(types.Hash) (*types.SignedBlock, error) {
	return &types.SignedBlock{Block: types.Block{Header: types.Header{Number: types.BlockNumber(c.fin)}}}, nil
}
func (c *c19SubConn) GetBlockLatest() (*types.SignedBlock, error)        { return c.GetBlock(types.Hash{}) }
func (c *c19SubConn) GetBlockHash(uint64) (types.Hash, error)            { return types.Hash{}, nil }
func (c *c19SubConn) GetBlockEvents(types.Hash) ([]*parser.Event, error) { return c.blockEvents, nil }
func (c *c19SubConn) UpdateMetatdata() error                             { return nil }
func (c *c19SubConn) FetchEvents(s, e *big.Int) ([]*parser.Event, error) { return c.events(s, e), nil }

// drain collects what is on the channel right now (plus what arrives within a short grace period when `want` > 0).
func c19Drain(ch chan []*message.Message, want int) map[uint8][]*message.Message {
	out := map[uint8][]*message.Message{}
	got := 0
	deadline := time.After(2 * time.Second)
	for {
		if got >= want {
			select {
			case ms := <-ch:
				for _, m := range ms {
					out[m.Destination] = append(out[m.Destination], m)
					got++
				}
				continue
			default:
				return out
			}
		}
		select {
		case ms := <-ch:
			for _, m := range ms {
				out[m.Destination] = append(out[m.Destination], m)
				got++
			}
		case <-deadline:
			return out
		}
	}
}

func c19CountGood(spec string) int {
	n := 0
	for _, d := range items(spec, ",") {
		if !strings.HasPrefix(d, "x") {
			n++
		}
	}
	return n
}

// ---- EVM retry handlers
type c19RetryListener struct {
	c05EvmListener
	v1       []events.RetryV1Event
	v2       []events.RetryV2Event
	deposits []events.Deposit
}

func (l c19RetryListener) FetchRetryV1Events(ctx context.Context, a common.Address, s, e *big.Int) ([]events.RetryV1Event, error) {
	return l.v1, nil
}
func (l c19RetryListener) FetchRetryV2Events(ctx context.Context, a common.Address, s, e *big.Int) ([]events.RetryV2Event, error) {
	return l.v2, nil
}
func (l c19RetryListener) FetchRetryDepositEvents(ev events.RetryV1Event, a common.Address, c *big.Int) ([]events.Deposit, error) {
	return l.deposits, nil
}

// ---- one relayer's deposit-handler objects over a sequence of ranges, with transient outages of the on-chain lookup
type c19OutageMatcher struct{ down *bool }

func (m c19OutageMatcher) GetHandlerAddressForResourceID(rid [32]byte) (common.Address, error) {
	if *m.down {
		return common.Address{}, errRPC
	}
	return common.Address{rid[0]}, nil
}

type c19SeqListener struct {
	c05EvmListener
	ds []*events.Deposit
}

func (l *c19SeqListener) FetchDeposits(ctx context.Context, a common.Address, s, e *big.Int) ([]*events.Deposit, error) {
	return l.ds, nil
}

func init() {
	// evmoutage <domain> <ranges>   ranges '/'-separated `<o|n>:<deposits>`; o = the on-chain handler lookup is down while
	//   this range is processed (a transient RPC outage), n = it works; deposits ','-separated `<dest>[b]` (b: second resource)
	//   => per range the messages resolved (`dest=nonce.msgid,…;…`), '/'-separated. ONE DepositEventHandler + ONE real
	//   ETHDepositHandler serve the whole sequence; range i is [10i, 10i+4]. Every range without an outage is also handled
	//   by a fresh pair (a relayer that never saw the outage) and a difference is printed as `<long-lived>!<fresh>`.
	ops["C19.evmoutage"] = func(a []string) string {
		dom := uint8(u64(a[0]))
		mk := func() (*eventHandlers.DepositEventHandler, *c19SeqListener, *bool) {
			down := false
			dh := depositHandlers.NewETHDepositHandler(c19OutageMatcher{&down})
			dh.RegisterDepositHandler(common.Address{0xa}.Hex(), c19DepositHandler{})
			dh.RegisterDepositHandler(common.Address{0xb}.Hex(), c19DepositHandler{})
			l := &c19SeqListener{}
			return eventHandlers.NewDepositEventHandler(l, dh, common.Address{}, dom, make(chan []*message.Message, 1)), l, &down
		}
		call := func(eh *eventHandlers.DepositEventHandler, l *c19SeqListener, i int, spec string) string {
			l.ds = nil
			for j, d := range items(spec, ",") {
				rid := [32]byte{0xa}
				if strings.HasSuffix(d, "b") {
					rid = [32]byte{0xb}
					d = strings.TrimSuffix(d, "b")
				}
				l.ds = append(l.ds, &events.Deposit{DestinationDomainID: uint8(u64(d)), DepositNonce: uint64(j), ResourceID: rid})
			}
			dd, err := eh.ProcessDeposits(big.NewInt(int64(10*i)), big.NewInt(int64(10*i+4)))
			if err != nil {
				return "err"
			}
			return renderEvmDeposits(dd)
		}
		eh, l, down := mk()
		out := []string{}
		for i, r := range strings.Split(a[1], "/") {
			f := strings.SplitN(r, ":", 2)
			*down = f[0] == "o"
			res := call(eh, l, i, f[1])
			*down = false
			if f[0] != "o" {
				feh, fl, _ := mk()
				if fr := call(feh, fl, i, f[1]); fr != res {
					res += "!" + fr
				}
			}
			out = append(out, res)
		}
		return strings.Join(out, "/")
	}
	// subids <domain> <start> <end> <deposits>  =>  dest=nonce.msgid,…;…
	ops["C19.subids"] = func(a []string) string {
		evs := c19SubEvents(a[3])
		s, e := bigArg(a[1]), bigArg(a[2])
		mk := func() *subListenerR.FungibleTransferEventHandler {
			conn := &c19SubConn{events: func(s, e *big.Int) []*parser.Event { return evs }}
			return subListenerR.NewFungibleTransferEventHandler(zerolog.Context{}, uint8(u64(a[0])), c19SubDepositHandler{}, make(chan []*message.Message, 64), conn)
		}
		run := func(h *subListenerR.FungibleTransferEventHandler) string {
			dd, err := h.ProcessDeposits(new(big.Int).Set(s), new(big.Int).Set(e))
			if err != nil {
				return "err"
			}
			return renderEvmDeposits(dd)
		}
		h1, h2 := mk(), mk()
		outs := []string{run(h1)}
		_, _ = h2.ProcessDeposits(big.NewInt(3), big.NewInt(7)) // an instance with a history
		outs = append(outs, run(h2), run(h1))
		if outs[0] != "err" { // what HandleEvents puts on the message channel
			ch := make(chan []*message.Message, 64)
			conn := &c19SubConn{events: func(s, e *big.Int) []*parser.Event { return evs }}
			h3 := subListenerR.NewFungibleTransferEventHandler(zerolog.Context{}, uint8(u64(a[0])), c19SubDepositHandler{}, ch, conn)
			if h3.HandleEvents(new(big.Int).Set(s), new(big.Int).Set(e)) != nil {
				outs = append(outs, "err")
			} else {
				outs = append(outs, renderEvmDeposits(c19Drain(ch, c19CountGood(a[3]))))
			}
		}
		return agreeOut(outs)
	}
	// subretryids <domain> <start> <end> <height> <deposits>  =>  dest=nonce.msgid,…;…   (messages of the retried block)
	ops["C19.subretryids"] = func(a []string) string {
		s, e := bigArg(a[1]), bigArg(a[2])
		h := bigArg(a[3])
		retryEv := &parser.Event{Name: "SygmaBridge.Retry", Fields: registry.DecodedFields{
			&registry.DecodedField{Name: "deposit_on_block_height", Value: types.NewU128(*h)},
			&registry.DecodedField{Name: "dest_domain_id", Value: types.NewU8(2)},
		}}
		want := c19CountGood(a[4])
		mk := func() (*subListenerR.RetryEventHandler, chan []*message.Message) {
			ch := make(chan []*message.Message, 64)
			conn := &c19SubConn{fin: 1 << 30, blockEvents: c19SubEvents(a[4]),
				events: func(s, e *big.Int) []*parser.Event { return []*parser.Event{retryEv} }}
			return subListenerR.NewRetryEventHandler(zerolog.Context{}, conn, c19SubDepositHandler{}, uint8(u64(a[0])), ch), ch
		}
		run := func(rh *subListenerR.RetryEventHandler, ch chan []*message.Message) string {
			if err := rh.HandleEvents(new(big.Int).Set(s), new(big.Int).Set(e)); err != nil {
				c19Drain(ch, 0)
				return "err"
			}
			return renderEvmDeposits(c19Drain(ch, want))
		}
		h1, c1 := mk()
		h2, c2 := mk()
		outs := []string{run(h1, c1)}
		_ = h2.HandleEvents(big.NewInt(3), big.NewInt(7))
		c19Drain(c2, 0)
		outs = append(outs, run(h2, c2), run(h1, c1))
		return agreeOut(outs)
	}
	// evmretry1ids <domain> <start> <end> <deposits>  =>  dest=nonce.msgid,…;…
	ops["C19.evmretry1ids"] = func(a []string) string {
		ds := []events.Deposit{}
		for i, d := range items(a[3], ",") {
			ds = append(ds, events.Deposit{DepositNonce: uint64(i), DestinationDomainID: uint8(u64(d))})
		}
		s, e := bigArg(a[1]), bigArg(a[2])
		mk := func() (*eventHandlers.RetryV1EventHandler, chan []*message.Message) {
			ch := make(chan []*message.Message, 64)
			l := c19RetryListener{v1: []events.RetryV1Event{{TxHash: "0x01"}}, deposits: ds}
			return eventHandlers.NewRetryV1EventHandler(zerolog.Context{}, l, c19DepositHandler{}, noPropStore{}, common.Address{}, uint8(u64(a[0])), big.NewInt(2), ch), ch
		}
		run := func(h *eventHandlers.RetryV1EventHandler, ch chan []*message.Message) string {
			if err := h.HandleEvents(new(big.Int).Set(s), new(big.Int).Set(e)); err != nil {
				return "err"
			}
			return renderEvmDeposits(c19Drain(ch, len(ds)))
		}
		h1, c1 := mk()
		h2, c2 := mk()
		outs := []string{run(h1, c1)}
		_ = h2.HandleEvents(big.NewInt(3), big.NewInt(7))
		c19Drain(c2, len(ds))
		outs = append(outs, run(h2, c2), run(h1, c1))
		return agreeOut(outs)
	}
	// evmretry2ids <domain> <start> <end> <events>   events ','-separated `src.dst.height`
	//   =>  ','-separated (sorted) `msgid/source/destination/src.dst.height`
	ops["C19.evmretry2ids"] = func(a []string) string {
		evs := []events.RetryV2Event{}
		for _, it := range items(a[3], ",") {
			f := strings.Split(it, ".")
			evs = append(evs, events.RetryV2Event{SourceDomainID: uint8(u64(f[0])), DestinationDomainID: uint8(u64(f[1])), BlockHeight: bigArg(f[2]), ResourceID: [32]byte{1}})
		}
		s, e := bigArg(a[1]), bigArg(a[2])
		mk := func() (*eventHandlers.RetryV2EventHandler, chan []*message.Message) {
			ch := make(chan []*message.Message, 64)
			return eventHandlers.NewRetryV2EventHandler(zerolog.Context{}, c19RetryListener{v2: evs}, common.Address{}, uint8(u64(a[0])), ch), ch
		}
		run := func(h *eventHandlers.RetryV2EventHandler, ch chan []*message.Message) string {
			if err := h.HandleEvents(new(big.Int).Set(s), new(big.Int).Set(e)); err != nil {
				return "err"
			}
			out := []string{}
			for _, ms := range c19Drain(ch, len(evs)) {
				for _, m := range ms {
					rd := m.Data.(retry.RetryMessageData)
					out = append(out, m.ID+"/"+itoa(int(m.Source))+"/"+itoa(int(m.Destination))+"/"+itoa(int(rd.SourceDomainID))+"."+itoa(int(rd.DestinationDomainID))+"."+rd.BlockHeight.String())
				}
			}
			sort.Strings(out)
			return joinOr(out, ",")
		}
		h1, c1 := mk()
		h2, c2 := mk()
		outs := []string{run(h1, c1)}
		_ = h2.HandleEvents(big.NewInt(3), big.NewInt(7))
		c19Drain(c2, len(evs))
		outs = append(outs, run(h2, c2), run(h1, c1))
		return agreeOut(outs)
	}
}
