package main

// C18 — key shares and the topology survive crashes intact.
//
// Runs the REAL keyshare.ECDSAKeyshareStore / keyshare.FrostKeyshareStore / topology.TopologyStore against a real
// directory. Faults are injected by the kernel, not by a fake: RLIMIT_FSIZE = k makes the k-th byte the last one any
// write to a regular file can put down.
//   mode none : no fault
//   mode fail : in-process, SIGXFSZ left to the Go runtime (caught, no action) => write returns k, EFBIG: "the write fails"
//   mode die  : a child process (this binary re-executed, see init) with SIGXFSZ reset to SIG_DFL => the kernel kills the
//               process at the first write that cannot put down a byte: "the process dies" with exactly k bytes written
// The parent then reads the file raw and through the real getters.

import (
	"bytes"
	"crypto/sha256"
	"fmt"
	"math/big"
	"os"
	"os/exec"
	"path/filepath"
	"reflect"
	"sort"
	"strings"
	"sync"
	"syscall"
	"unsafe"

	"github.com/ChainSafe/sygma-relayer/keyshare"
	"github.com/ChainSafe/sygma-relayer/topology"
	"github.com/binance-chain/tss-lib/crypto"
	"github.com/binance-chain/tss-lib/crypto/paillier"
	"github.com/binance-chain/tss-lib/tss"
	"github.com/libp2p/go-libp2p/core/peer"
	ma "github.com/multiformats/go-multiaddr"
	"github.com/taurusgroup/multi-party-sig/pkg/math/curve"
	"github.com/taurusgroup/multi-party-sig/pkg/party"
)

// ---------------------------------------------------------------------------------------------- values

type c18Val struct {
	kind  string
	ecdsa keyshare.ECDSAKeyshare
	frost keyshare.FrostKeyshare
	topo  *topology.NetworkTopology
}

type c18rng struct{ s uint64 }

func (r *c18rng) u64() uint64 {
	r.s += 0x9E3779B97F4A7C15
	z := r.s
	z = (z ^ (z >> 30)) * 0xBF58476D1CE4E5B9
	z = (z ^ (z >> 27)) * 0x94D049BB133111EB
	return z ^ (z >> 31)
}
func (r *c18rng) bytes(n int) []byte {
	b := make([]byte, n)
	for i := range b {
		b[i] = byte(r.u64())
	}
	return b
}

func c18Peer(r *c18rng) peer.ID {
	h := sha256.Sum256(r.bytes(16))
	return peer.ID(string(append([]byte{0x12, 0x20}, h[:]...)))
}

var c18fix sync.Map // "ecdsa0" -> value loaded through the real getter

func c18Fixture(kind string, i int) (c18Val, error) {
	key := kind + itoa(i)
	if v, ok := c18fix.Load(key); ok {
		return v.(c18Val), nil
	}
	v := c18Val{kind: kind}
	var err error
	switch kind {
	case "ecdsa":
		v.ecdsa, err = keyshare.NewECDSAKeyshareStore(fmt.Sprintf("%s/tss/test/keyshares/%d.keyshare", repoRoot(), i%3)).GetKeyshare()
	case "frost":
		v.frost, err = keyshare.NewFrostKeyshareStore(fmt.Sprintf("%s/tss/test/keyshares/%d-frost.keyshare", repoRoot(), i%3)).GetKeyshare()
	}
	if err == nil {
		c18fix.Store(key, v)
	}
	return v, err
}

// c18Build: spec `<fixture>.<seed>.<npeers>.<threshold>.<size>`; seed 0 = the fixture unchanged.
// threshold is written biased by 1000 (wire value 1000 = 0, 999 = -1) so negative thresholds are representable.
var c18valCache sync.Map // values are never written through after they are built

func c18Build(kind, spec string) (c18Val, error) {
	if v, ok := c18valCache.Load(kind + "/" + spec); ok {
		return v.(c18Val), nil
	}
	v, err := c18BuildRaw(kind, spec)
	if err == nil {
		c18valCache.Store(kind+"/"+spec, v)
	}
	return v, err
}

// size >= 100 asks for a LARGE value: ecdsa: a share for (size-100) parties (2048-bit NTilde/H1/H2/Paillier N per party,
// ~2.8 kB of JSON each); frost: (size-100)*100 additional verification shares; topology: npeers is simply large.
func c18BuildRaw(kind, spec string) (c18Val, error) {
	f := strings.Split(spec, ".")
	if len(f) != 5 && len(f) != 6 {
		return c18Val{}, fmt.Errorf("bad spec")
	}
	fi, seed, np, thr, sz := int(u64(f[0])), u64(f[1]), int(u64(f[2])), int(u64(f[3]))-1000, int(u64(f[4]))
	// optional 6th field: a VARIANT of the value named by the first five - 1: one secret digit differs (key shares) /
	// one peer's multiaddress differs (topology); 2: the same peers in reverse order; 3: both;
	// 4 (ECDSA): a value the encoder REFUSES (the public key is a curve point without a registered curve): it cannot be stored
	variant := 0
	if len(f) == 6 {
		variant = int(u64(f[5]))
	}
	if variant != 0 {
		base, err := c18Build(kind, strings.Join(f[:5], "."))
		if err != nil {
			return base, err
		}
		return c18Variant(base, variant), nil
	}
	r := &c18rng{s: seed*0x2545F4914F6CDD1D + 77}
	peers := []peer.ID{}
	for i := 0; i < np; i++ {
		peers = append(peers, c18Peer(r))
	}
	switch kind {
	case "ecdsa":
		v, err := c18Fixture(kind, fi)
		if err != nil || seed == 0 {
			return v, err
		}
		k := v.ecdsa.Key // struct copy; slices are re-sliced, never written through
		m := sz % 4
		if sz >= 100 {
			m = sz - 100
			k.Ks, k.NTildej, k.H1j, k.H2j, k.BigXj, k.PaillierPKs = nil, nil, nil, nil, nil, nil
			for j := 0; j < m; j++ {
				k.Ks = append(k.Ks, new(big.Int).SetBytes(r.bytes(32)))
				k.NTildej = append(k.NTildej, new(big.Int).SetBytes(r.bytes(256)))
				k.H1j = append(k.H1j, new(big.Int).SetBytes(r.bytes(256)))
				k.H2j = append(k.H2j, new(big.Int).SetBytes(r.bytes(256)))
				k.BigXj = append(k.BigXj, crypto.ScalarBaseMult(tss.S256(), new(big.Int).SetBytes(r.bytes(31))))
				k.PaillierPKs = append(k.PaillierPKs, &paillier.PublicKey{N: new(big.Int).SetBytes(r.bytes(256))})
			}
		} else if m < len(k.Ks) {
			k.Ks, k.NTildej, k.H1j, k.H2j, k.BigXj, k.PaillierPKs = k.Ks[:m], k.NTildej[:m], k.H1j[:m], k.H2j[:m], k.BigXj[:m], k.PaillierPKs[:m]
		}
		k.Xi = new(big.Int).SetBytes(r.bytes(sz))
		if sz%5 == 4 {
			k.ShareID = nil
		}
		return c18Val{kind: kind, ecdsa: keyshare.NewECDSAKeyshare(k, thr, peers)}, nil
	case "frost":
		v, err := c18Fixture(kind, fi)
		if err != nil || seed == 0 {
			return v, err
		}
		k := v.frost.Key.Clone()
		k.ChainKey = r.bytes(sz)
		if sz >= 100 {
			for j := 0; j < (sz-100)*100; j++ {
				e := &curve.Secp256k1Scalar{}
				_ = e.UnmarshalBinary(r.bytes(32))
				k.VerificationShares[party.ID(c18Peer(r).String())] = e.ActOnBase().(*curve.Secp256k1Point)
			}
		}
		sc := &curve.Secp256k1Scalar{}
		_ = sc.UnmarshalBinary(r.bytes(32)) // reduced mod the group order by the library
		k.PrivateShare = sc
		k.Threshold = thr
		if sz%3 == 1 { // drop one verification share
			ids := []string{}
			for id := range k.VerificationShares {
				if string(id) != string(k.ID) {
					ids = append(ids, string(id))
				}
			}
			sort.Strings(ids)
			if len(ids) > 0 {
				delete(k.VerificationShares, party.ID(ids[0]))
			}
		}
		return c18Val{kind: kind, frost: keyshare.NewFrostKeyshare(k, thr, peers)}, nil
	case "topo":
		if seed == 0 { // the "fixture" topologies: three peers, threshold by fixture index
			thr, sz = 1+fi, fi
			r = &c18rng{s: uint64(fi) + 1}
			peers = []peer.ID{c18Peer(r), c18Peer(r), c18Peer(r)}
		}
		t := &topology.NetworkTopology{Threshold: thr}
		for i, p := range peers {
			ai := &peer.AddrInfo{ID: p}
			for j := 0; j < (i+sz)%3; j++ {
				a, err := ma.NewMultiaddr(fmt.Sprintf("/ip4/10.%d.%d.%d/tcp/%d", r.u64()%256, r.u64()%256, r.u64()%256, 1+r.u64()%65535))
				if err != nil {
					return c18Val{}, err
				}
				ai.Addrs = append(ai.Addrs, a)
			}
			t.Peers = append(t.Peers, ai)
		}
		return c18Val{kind: kind, topo: t}, nil
	}
	return c18Val{}, fmt.Errorf("bad kind")
}

// c18Variant: a value that differs from v in one small place (v itself is never written through)
func c18Variant(v c18Val, variant int) c18Val {
	rev := func(ps []peer.ID) []peer.ID {
		out := make([]peer.ID, len(ps))
		for i, p := range ps {
			out[len(ps)-1-i] = p
		}
		return out
	}
	switch v.kind {
	case "ecdsa":
		k := v.ecdsa
		if variant&1 != 0 && k.Key.Xi != nil {
			k.Key.Xi = new(big.Int).Xor(k.Key.Xi, big.NewInt(1)) // last digit only: the encoding keeps its length
		}
		if variant&2 != 0 {
			k.Peers = rev(k.Peers)
		}
		if variant&4 != 0 {
			k.Key.ECDSAPub = &crypto.ECPoint{}
		}
		return c18Val{kind: v.kind, ecdsa: k}
	case "frost":
		k := v.frost
		k.Key = v.frost.Key.Clone()
		if variant&1 != 0 {
			one := &curve.Secp256k1Scalar{}
			b := make([]byte, 32)
			b[31] = 1
			_ = one.UnmarshalBinary(b)
			k.Key.PrivateShare = curve.Secp256k1{}.NewScalar().Set(k.Key.PrivateShare).Add(one).(*curve.Secp256k1Scalar)
		}
		if variant&2 != 0 {
			k.Peers = rev(k.Peers)
		}
		return c18Val{kind: v.kind, frost: k}
	default:
		t := &topology.NetworkTopology{Threshold: v.topo.Threshold}
		for _, p := range v.topo.Peers {
			t.Peers = append(t.Peers, &peer.AddrInfo{ID: p.ID, Addrs: append([]ma.Multiaddr{}, p.Addrs...)})
		}
		if variant&1 != 0 && len(t.Peers) > 0 {
			done := false
			for _, p := range t.Peers {
				if len(p.Addrs) > 0 { // the same peer announces another address
					a, _ := ma.NewMultiaddr("/ip4/10.9.8.7/tcp/4001")
					if p.Addrs[0].Equal(a) {
						a, _ = ma.NewMultiaddr("/ip4/10.9.8.7/tcp/4002")
					}
					p.Addrs[0] = a
					done = true
					break
				}
			}
			if !done { // nobody had an address: the first peer gets one
				a, _ := ma.NewMultiaddr("/ip4/10.9.8.7/tcp/4001")
				t.Peers[0].Addrs = []ma.Multiaddr{a}
			}
		}
		if variant&2 != 0 {
			for i, j := 0, len(t.Peers)-1; i < j; i, j = i+1, j-1 {
				t.Peers[i], t.Peers[j] = t.Peers[j], t.Peers[i]
			}
		}
		return c18Val{kind: v.kind, topo: t}
	}
}

// one long-lived store object, as the application holds it
type c18Obj struct {
	kind string
	e    *keyshare.ECDSAKeyshareStore
	f    *keyshare.FrostKeyshareStore
	t    *topology.TopologyStore
}

func c18NewObj(kind, path string) *c18Obj {
	return &c18Obj{kind: kind, e: keyshare.NewECDSAKeyshareStore(path), f: keyshare.NewFrostKeyshareStore(path), t: topology.NewTopologyStore(path)}
}
// Every user of the key-share stores brackets its access with LockKeyshare / UnlockKeyshare (signing: Lock, Get, Unlock;
// keygen / resharing: Lock, …, Store, Unlock) — so do these. The topology store locks internally.
func (o *c18Obj) store(v c18Val) error {
	switch o.kind {
	case "ecdsa":
		o.e.LockKeyshare()
		defer o.e.UnlockKeyshare()
		return o.e.StoreKeyshare(v.ecdsa)
	case "frost":
		o.f.LockKeyshare()
		defer o.f.UnlockKeyshare()
		return o.f.StoreKeyshare(v.frost)
	}
	return o.t.StoreTopology(v.topo)
}
func (o *c18Obj) get() (c18Val, error) {
	v := c18Val{kind: o.kind}
	var err error
	switch o.kind {
	case "ecdsa":
		o.e.LockKeyshare()
		defer o.e.UnlockKeyshare()
		v.ecdsa, err = o.e.GetKeyshare()
	case "frost":
		o.f.LockKeyshare()
		defer o.f.UnlockKeyshare()
		v.frost, err = o.f.GetKeyshare()
	default:
		v.topo, err = o.t.Topology()
	}
	return v, err
}

// the REAL store / getter for each kind, through a fresh store object (a freshly started relayer)
func c18Store(path string, v c18Val) error { return c18NewObj(v.kind, path).store(v) }

func c18Get(kind, path string) (c18Val, error) { return c18NewObj(kind, path).get() }

// ---------------------------------------------------------------------------------------------- equality of values
// field-by-field, independent of the file format: big integers by Cmp, curve points / scalars by their Equal,
// byte strings and lists by length and content (nil and empty are the same list), everything else structurally.

func c18Eq(a, b c18Val) (eq bool) {
	defer func() { // a value the libraries cannot even compare (see variant 4) equals nothing
		if recover() != nil {
			eq = false
		}
	}()
	switch a.kind {
	case "ecdsa":
		return semEq(reflect.ValueOf(a.ecdsa), reflect.ValueOf(b.ecdsa))
	case "frost":
		return semEq(reflect.ValueOf(a.frost), reflect.ValueOf(b.frost))
	default:
		return semEq(reflect.ValueOf(a.topo), reflect.ValueOf(b.topo))
	}
}

func semEq(a, b reflect.Value) bool {
	if a.Type() != b.Type() {
		return false
	}
	if a.CanInterface() {
		switch x := a.Interface().(type) {
		case *big.Int:
			y := b.Interface().(*big.Int)
			if x == nil || y == nil {
				return x == nil && y == nil
			}
			return x.Cmp(y) == 0
		case *crypto.ECPoint:
			y := b.Interface().(*crypto.ECPoint)
			if x == nil || y == nil {
				return x == nil && y == nil
			}
			return x.Equals(y)
		case *curve.Secp256k1Scalar:
			y := b.Interface().(*curve.Secp256k1Scalar)
			if x == nil || y == nil {
				return x == nil && y == nil
			}
			return x.Equal(y)
		case *curve.Secp256k1Point:
			y := b.Interface().(*curve.Secp256k1Point)
			if x == nil || y == nil {
				return x == nil && y == nil
			}
			return x.Equal(y)
		case ma.Multiaddr:
			y, _ := b.Interface().(ma.Multiaddr)
			if x == nil || y == nil {
				return x == nil && y == nil
			}
			return x.Equal(y)
		}
	}
	switch a.Kind() {
	case reflect.Ptr, reflect.Interface:
		if a.IsNil() || b.IsNil() {
			return a.IsNil() && b.IsNil()
		}
		return semEq(a.Elem(), b.Elem())
	case reflect.Struct:
		for i := 0; i < a.NumField(); i++ {
			if !semEq(a.Field(i), b.Field(i)) {
				return false
			}
		}
		return true
	case reflect.Slice, reflect.Array:
		if a.Len() != b.Len() {
			return false
		}
		for i := 0; i < a.Len(); i++ {
			if !semEq(a.Index(i), b.Index(i)) {
				return false
			}
		}
		return true
	case reflect.Map:
		if a.Len() != b.Len() {
			return false
		}
		for _, k := range a.MapKeys() {
			bv := b.MapIndex(k)
			if !bv.IsValid() || !semEq(a.MapIndex(k), bv) {
				return false
			}
		}
		return true
	case reflect.String:
		return a.String() == b.String()
	case reflect.Int, reflect.Int8, reflect.Int16, reflect.Int32, reflect.Int64:
		return a.Int() == b.Int()
	case reflect.Uint, reflect.Uint8, reflect.Uint16, reflect.Uint32, reflect.Uint64:
		return a.Uint() == b.Uint()
	case reflect.Bool:
		return a.Bool() == b.Bool()
	}
	return false // a kind this comparison does not know is never "equal"
}

// ---------------------------------------------------------------------------------------------- fault injection

var c18mu sync.Mutex // rlimit is process-wide

func c18SetLimit(k uint64) (restore func(), err error) {
	var old syscall.Rlimit
	if err = syscall.Getrlimit(syscall.RLIMIT_FSIZE, &old); err != nil {
		return nil, err
	}
	if err = syscall.Setrlimit(syscall.RLIMIT_FSIZE, &syscall.Rlimit{Cur: k, Max: old.Max}); err != nil {
		return nil, err
	}
	return func() { _ = syscall.Setrlimit(syscall.RLIMIT_FSIZE, &old) }, nil
}

// child entry: VERIF_C18_CHILD="<kind> <mode none|fail|die> <uid or -> <k> <path> <spec>"
// exit 0 = Store returned nil, 3 = Store returned an error; killed by SIGXFSZ = died
func c18Child(arg string) {
	f := strings.Fields(arg)
	if len(f) != 6 {
		os.Exit(9)
	}
	v, err := c18Build(f[0], f[5])
	if err != nil {
		os.Exit(9)
	}
	_ = syscall.Setrlimit(syscall.RLIMIT_CORE, &syscall.Rlimit{Cur: 0, Max: 0})
	if f[1] == "die" {
		// SIGXFSZ back to SIG_DFL (terminate): struct sigaction{handler, flags, restorer, mask} all zero
		var sa [4]uintptr
		if _, _, e := syscall.RawSyscall6(syscall.SYS_RT_SIGACTION, uintptr(syscall.SIGXFSZ), uintptr(unsafe.Pointer(&sa[0])), 0, 8, 0, 0); e != 0 {
			os.Exit(9)
		}
	}
	if f[2] != "-" { // become an unprivileged user for good (this process only)
		id := int(u64(f[2]))
		if syscall.Setgroups([]int{}) != nil || syscall.Setgid(id) != nil || syscall.Setuid(id) != nil {
			os.Exit(8)
		}
	}
	if f[1] != "none" {
		k := u64(f[3])
		if err := syscall.Setrlimit(syscall.RLIMIT_FSIZE, &syscall.Rlimit{Cur: k, Max: k}); err != nil {
			os.Exit(9)
		}
	}
	if c18Store(f[4], v) != nil {
		os.Exit(3)
	}
	os.Exit(0)
}

func c18RunChild(kind, mode, uid string, k uint64, path, spec string) string {
	exe, xerr := os.Executable()
	if xerr != nil {
		exe = os.Args[0]
	}
	cmd := exec.Command(exe)
	cmd.Env = append(os.Environ(), fmt.Sprintf("VERIF_C18_CHILD=%s %s %s %d %s %s", kind, mode, uid, k, path, spec))
	e := cmd.Run()
	if e == nil {
		return "ok"
	}
	ee, ok := e.(*exec.ExitError)
	if !ok {
		return "nochild"
	}
	ws := ee.Sys().(syscall.WaitStatus)
	switch {
	case ws.Signaled() && ws.Signal() == syscall.SIGXFSZ:
		return "died"
	case ws.Exited() && ws.ExitStatus() == 3:
		return "err"
	case ws.Exited() && ws.ExitStatus() == 8:
		return "nosetuid"
	}
	return "childfail"
}

// one store of `spec` at path under the given fault: ok | err | died | <harness problem>
func c18RunStore(kind, mode string, k uint64, path, spec string, v c18Val) string {
	switch mode {
	case "none":
		if c18Store(path, v) != nil {
			return "err"
		}
		return "ok"
	case "fail":
		c18mu.Lock()
		restore, err := c18SetLimit(k)
		if err != nil {
			c18mu.Unlock()
			return "nolimit"
		}
		e := c18Store(path, v)
		restore()
		c18mu.Unlock()
		if e != nil {
			return "err"
		}
		return "ok"
	case "die":
		return c18RunChild(kind, "die", "-", k, path, spec)
	}
	return "badmode"
}

func c18Left(dir string) int {
	left := 0
	if es, err := os.ReadDir(dir); err == nil {
		for _, e := range es {
			if e.Name() != "data.json" {
				left++
			}
		}
	}
	return left
}

func c18Encoding(v c18Val) ([]byte, error) {
	d, err := os.MkdirTemp("", "verif-c18r-")
	if err != nil {
		return nil, err
	}
	defer os.RemoveAll(d)
	p := filepath.Join(d, "ref.json")
	if err := c18Store(p, v); err != nil {
		return nil, err
	}
	return os.ReadFile(p)
}

var c18encCache sync.Map

func c18EncodingOf(kind, spec string) ([]byte, error) {
	if b, ok := c18encCache.Load(kind + spec); ok {
		return b.([]byte), nil
	}
	v, err := c18Build(kind, spec)
	if err != nil {
		return nil, err
	}
	b, err := c18Encoding(v)
	if err == nil {
		c18encCache.Store(kind+spec, b)
	}
	return b, err
}

// store   <kind> <mode> <k> <old|-> <new>  =>  n=<oldLen>,<newLen>,<same>;st=<ok|err|died>;file=<new|old|pre<j>|absent|other>;get=<new|old|err|other>;left=<n>
// storero <same args>: the store runs (in a child process) as a user that may write the FILE but may not create files in
// its DIRECTORY: no temp file can be created there (EACCES)
func c18OpStore(a []string) string   { return c18StoreOp(a, false) }
func c18OpStoreRO(a []string) string { return c18StoreOp(a, true) }

const c18Nobody = 65534

func c18StoreOp(a []string, ro bool) string {
	kind, mode, k, oldS, newS := a[0], a[1], u64(a[2]), a[3], a[4]
	newV, err := c18Build(kind, newS)
	if err != nil {
		return "badspec"
	}
	newB, err := c18EncodingOf(kind, newS)
	unstorable := err != nil // the encoder refuses this value: the store has to fail and leave everything as it was
	if unstorable {
		newB = nil
	}
	dir, err := os.MkdirTemp("", "verif-c18-")
	if err != nil {
		return "notmp"
	}
	defer func() { _ = os.Chmod(dir, 0o700); os.RemoveAll(dir) }()
	path := filepath.Join(dir, "data.json")
	var oldV c18Val
	var oldB []byte
	if oldS != "-" {
		if oldV, err = c18Build(kind, oldS); err != nil {
			return "badspec"
		}
		if err = c18Store(path, oldV); err != nil {
			return "nold"
		}
		if oldB, err = os.ReadFile(path); err != nil {
			return "nold"
		}
	}
	var st string
	if !ro {
		st = c18RunStore(kind, mode, k, path, newS, newV)
	} else {
		uid := "-"
		if os.Geteuid() == 0 {
			// directory: owned by root, searchable by everyone, writable by root only; the file (if any): owned by nobody
			if os.Chmod(dir, 0o755) != nil {
				return "nochmod"
			}
			if oldS != "-" && os.Chown(path, c18Nobody, c18Nobody) != nil {
				return "nochown"
			}
			uid = itoa(c18Nobody)
		} else if os.Chmod(dir, 0o555) != nil { // not root: take our own write permission on the directory away
			return "nochmod"
		}
		st = c18RunChild(kind, mode, uid, k, path, newS)
	}
	switch st {
	case "ok", "err", "died":
	default:
		return st
	}
	same := 0
	if oldS != "-" && bytes.Equal(oldB, newB) {
		same = 1
	}
	left := c18Left(dir) // what the store itself left behind, before anybody else touches the directory
	get := "other"
	got, gerr := c18Get(kind, path)
	switch {
	case gerr != nil:
		get = "err"
	case !unstorable && c18Eq(got, newV):
		get = "new"
	case oldS != "-" && c18Eq(got, oldV):
		get = "old"
	}
	file := "other"
	fb, rerr := os.ReadFile(path) // after the read cycle: a reader must not change the file either
	switch {
	case rerr != nil && os.IsNotExist(rerr):
		file = "absent"
	case rerr != nil:
		file = "unreadable"
	case !unstorable && bytes.Equal(fb, newB):
		file = "new"
	case oldS != "-" && bytes.Equal(fb, oldB):
		file = "old"
	case unstorable && len(fb) == 0:
		file = "pre0"
	case len(fb) < len(newB) && bytes.Equal(fb, newB[:len(fb)]):
		file = "pre" + itoa(len(fb))
	}
	return fmt.Sprintf("n=%d,%d,%d;st=%s;file=%s;get=%s;left=%d", len(oldB), len(newB), same, st, file, get, left)
}

// seq <kind> <step;step;…>   step = <mode>:<k>:<value spec>
// Successive stores into ONE directory that is never cleaned in between (a killed store leaves its temp file behind, as after
// a crash and restart). After every step the file and the real getter's result are named relative to ALL values of the
// sequence: v<c> = the complete encoding of the value of class c (c = index of the first step with that encoding).
//   =>  <c>,<len>,<st>,<file: v<c>|absent|x<len>>,<get: v<c>|err|x>,<left>  per step, joined by `/`
func c18OpSeq(a []string) string {
	kind := a[0]
	dir, err := os.MkdirTemp("", "verif-c18s-")
	if err != nil {
		return "notmp"
	}
	defer os.RemoveAll(dir)
	path := filepath.Join(dir, "data.json")
	type val struct {
		v c18Val
		b []byte
	}
	vals := []val{}
	out := []string{}
	for _, stp := range items(a[1], ";") {
		f := strings.Split(stp, ":")
		if len(f) != 3 {
			return "badstep"
		}
		v, err := c18Build(kind, f[2])
		if err != nil {
			return "badspec"
		}
		b, err := c18EncodingOf(kind, f[2])
		if err != nil {
			return "noref"
		}
		cls := len(vals)
		for i, w := range vals {
			if bytes.Equal(w.b, b) {
				cls = i
				break
			}
		}
		vals = append(vals, val{v, b})
		st := c18RunStore(kind, f[0], u64(f[1]), path, f[2], v)
		switch st {
		case "ok", "err", "died":
		default:
			return st
		}
		left := c18Left(dir)
		get := "x"
		got, gerr := c18Get(kind, path)
		if gerr != nil {
			get = "err"
		} else {
			for i, w := range vals {
				if c18Eq(got, w.v) {
					get = "v" + itoa(i)
					break
				}
			}
		}
		file := "absent"
		fb, rerr := os.ReadFile(path)
		if rerr == nil {
			file = "x" + itoa(len(fb))
			for i, w := range vals {
				if bytes.Equal(w.b, fb) {
					file = "v" + itoa(i)
					break
				}
			}
		} else if !os.IsNotExist(rerr) {
			file = "unreadable"
		}
		out = append(out, fmt.Sprintf("%d,%d,%s,%s,%s,%d", cls, len(b), st, file, get, left))
	}
	return joinOr(out, "/")
}

// obj <kind> <step;step;…>   step = g | <none|fail>:<k>:<value spec>
// ONE store object for the whole sequence (as in the application: the relayer keeps its store for its lifetime), stores and
// reads interleaved, back to back, no sleeps. Values are named by class: c = index of the first STORE step with that encoding.
//   =>  per step, joined by `/`:   g,<v<c>|err|x>     or     s,<c>,<len>,<ok|err>,<file: v<c>|absent|x<len>>
func c18OpObj(a []string) string {
	kind := a[0]
	dir, err := os.MkdirTemp("", "verif-c18o-")
	if err != nil {
		return "notmp"
	}
	defer os.RemoveAll(dir)
	path := filepath.Join(dir, "data.json")
	obj := c18NewObj(kind, path)
	type val struct {
		v c18Val
		b []byte
	}
	vals := []val{} // one per store step
	out := []string{}
	for _, stp := range items(a[1], ";") {
		if stp == "g" {
			got, gerr := obj.get()
			res := "x"
			if gerr != nil {
				res = "err"
			} else {
				for i, w := range vals {
					if c18Eq(got, w.v) {
						res = "v" + itoa(i)
						break
					}
				}
			}
			out = append(out, "g,"+res)
			continue
		}
		f := strings.Split(stp, ":")
		if len(f) != 3 {
			return "badstep"
		}
		v, err := c18Build(kind, f[2])
		if err != nil {
			return "badspec"
		}
		b, err := c18EncodingOf(kind, f[2])
		if err != nil {
			return "noref"
		}
		cls := len(vals)
		for i, w := range vals {
			if bytes.Equal(w.b, b) {
				cls = i
				break
			}
		}
		vals = append(vals, val{v, b})
		st := "ok"
		switch f[0] {
		case "none":
			if obj.store(v) != nil {
				st = "err"
			}
		case "fail":
			c18mu.Lock()
			restore, err := c18SetLimit(u64(f[1]))
			if err != nil {
				c18mu.Unlock()
				return "nolimit"
			}
			e := obj.store(v)
			restore()
			c18mu.Unlock()
			if e != nil {
				st = "err"
			}
		default:
			return "badmode"
		}
		file := "absent"
		if fb, rerr := os.ReadFile(path); rerr == nil {
			file = "x" + itoa(len(fb))
			for i, w := range vals {
				if bytes.Equal(w.b, fb) {
					file = "v" + itoa(i)
					break
				}
			}
		}
		out = append(out, fmt.Sprintf("s,%d,%d,%s,%s", cls, len(b), st, file))
	}
	return joinOr(out, "/")
}

// other files that live next to the store's file (names chosen around the store's own name)
var c18SiblingNames = []string{"data.json-ecdsa", "data.json.bak", "data.json2", "data.jso", "xdata.json", "data.json.d"}

// c18Spell: the same file under another legal spelling of its path
func c18Spell(dir, how string) (string, error) {
	switch how {
	case "clean":
		return dir + "/data.json", nil
	case "dot":
		return dir + "/./data.json", nil
	case "dslash":
		return dir + "//data.json", nil
	case "dotdot":
		if err := os.MkdirAll(filepath.Join(dir, "data.json.d"), 0o755); err != nil { // (also a sibling DIRECTORY)
			return "", err
		}
		return dir + "/data.json.d/../data.json", nil
	case "symabs", "symrel", "symchain":
		// the configured path is a symbolic link (absolute target, relative target, a chain of two); nothing exists behind it yet.
		// Storing replaces whatever directory entry carries the name (os.Rename does not follow links).
		target := "vol-data.json"
		if how == "symabs" {
			target = dir + "/vol-data.json"
		}
		if how == "symchain" {
			if err := os.Symlink(target, dir+"/hop.json"); err != nil {
				return "", err
			}
			target = "hop.json"
		}
		if err := os.Symlink(target, dir+"/data.json"); err != nil {
			return "", err
		}
		return dir + "/data.json", nil
	case "rel", "dotrel":
		wd, err := os.Getwd()
		if err != nil {
			return "", err
		}
		r, err := filepath.Rel(wd, filepath.Join(dir, "data.json"))
		if err != nil {
			return "", err
		}
		if how == "dotrel" {
			return "./" + r, nil
		}
		return r, nil
	}
	return "", fmt.Errorf("bad spelling")
}

// life <kind> <path spelling> <sibling idx,…|-> <step;step;…>    step = g | <none|fail|die>:<k>:<value spec>
// The life of one relayer's store: the path spelled as the configuration might spell it, other files next to it, one
// store object (a new one after every `die`: the restart), every access bracketed by Lock/Unlock.
//   =>  per step, joined by `/`:   g,<v<c>|err|x>,<siblings intact>     s,<c>,<len>,<ok|err|died>,<file>,<left>,<siblings intact>
func c18OpLife(a []string) string {
	kind := a[0]
	root, err := os.MkdirTemp("", "verif-c18l-")
	if err != nil {
		return "notmp"
	}
	defer os.RemoveAll(root)
	// the relayer's working directory is NOT the directory of its key share: an empty scratch directory, which must stay empty
	dir, cwd := filepath.Join(root, "store"), filepath.Join(root, "cwd")
	if os.Mkdir(dir, 0o755) != nil || os.Mkdir(cwd, 0o755) != nil {
		return "notmp"
	}
	oldWd, err := os.Getwd()
	if err != nil || os.Chdir(cwd) != nil {
		return "nochdir"
	}
	defer func() { _ = os.Chdir(oldWd) }()
	path, err := c18Spell(dir, a[1])
	if err != nil {
		return "nospell"
	}
	clean := filepath.Join(dir, "data.json")
	sibs := map[string][]byte{}
	links := map[string]string{}
	if a[1] == "symchain" {
		links["hop.json"] = "vol-data.json"
	}
	for _, it := range items(a[2], ",") {
		name := c18SiblingNames[int(u64(it))%len(c18SiblingNames)]
		if name == "data.json.d" {
			if os.MkdirAll(filepath.Join(dir, name), 0o755) != nil {
				return "nosib"
			}
			sibs[name] = nil
			continue
		}
		content := []byte("{\"sibling\":\"" + name + "\"}")
		if os.WriteFile(filepath.Join(dir, name), content, 0o644) != nil {
			return "nosib"
		}
		sibs[name] = content
	}
	if a[1] == "dotdot" {
		sibs["data.json.d"] = nil
	}
	intact := func() int {
		n := 0
		for name, c := range sibs {
			if c == nil {
				if fi, err := os.Stat(filepath.Join(dir, name)); err == nil && fi.IsDir() {
					n++
				}
			} else if b, err := os.ReadFile(filepath.Join(dir, name)); err == nil && bytes.Equal(b, c) {
				n++
			}
		}
		for name, tgt := range links {
			if t, err := os.Readlink(filepath.Join(dir, name)); err == nil && t == tgt {
				n++
			}
		}
		return n
	}
	left := func() int { // strays: in the store's directory, and anything at all in the working directory
		n := 0
		if es, err := os.ReadDir(dir); err == nil {
			for _, e := range es {
				_, isSib := sibs[e.Name()]
				_, isLink := links[e.Name()]
				if !isSib && !isLink && e.Name() != "data.json" {
					n++
				}
			}
		}
		if es, err := os.ReadDir(cwd); err == nil {
			n += len(es)
		}
		return n
	}
	obj := c18NewObj(kind, path)
	type val struct {
		v c18Val
		b []byte
	}
	vals := []val{}
	out := []string{}
	for _, stp := range items(a[3], ";") {
		if stp == "g" {
			got, gerr := obj.get()
			res := "x"
			if gerr != nil {
				res = "err"
			} else {
				for i, w := range vals {
					if c18Eq(got, w.v) {
						res = "v" + itoa(i)
						break
					}
				}
			}
			out = append(out, fmt.Sprintf("g,%s,%d", res, intact()))
			continue
		}
		f := strings.Split(stp, ":")
		if len(f) != 3 {
			return "badstep"
		}
		v, err := c18Build(kind, f[2])
		if err != nil {
			return "badspec"
		}
		b, err := c18EncodingOf(kind, f[2])
		if err != nil {
			return "noref"
		}
		cls := len(vals)
		for i, w := range vals {
			if bytes.Equal(w.b, b) {
				cls = i
				break
			}
		}
		vals = append(vals, val{v, b})
		st := "ok"
		switch f[0] {
		case "none":
			if obj.store(v) != nil {
				st = "err"
			}
		case "fail":
			c18mu.Lock()
			restore, err := c18SetLimit(u64(f[1]))
			if err != nil {
				c18mu.Unlock()
				return "nolimit"
			}
			e := obj.store(v)
			restore()
			c18mu.Unlock()
			if e != nil {
				st = "err"
			}
		case "die":
			st = c18RunChild(kind, "die", "-", u64(f[1]), path, f[2])
			if st != "ok" && st != "err" && st != "died" {
				return st
			}
			obj = c18NewObj(kind, path) // the relayer restarts
		default:
			return "badmode"
		}
		file := "absent"
		if fb, rerr := os.ReadFile(clean); rerr == nil {
			file = "x" + itoa(len(fb))
			for i, w := range vals {
				if bytes.Equal(w.b, fb) {
					file = "v" + itoa(i)
					break
				}
			}
		}
		out = append(out, fmt.Sprintf("s,%d,%d,%s,%s,%d,%d", cls, len(b), st, file, left(), intact()))
	}
	return joinOr(out, "/")
}

func init() {
	if arg := os.Getenv("VERIF_C18_CHILD"); arg != "" {
		c18Child(arg) // never returns
	}
	ops["C18.store"] = c18OpStore
	ops["C18.storero"] = c18OpStoreRO
	ops["C18.seq"] = c18OpSeq
	ops["C18.obj"] = c18OpObj
	ops["C18.life"] = c18OpLife
	gens["C18"] = genC18
}

func c18Spec(fi, seed, np, thr, sz int) string {
	return fmt.Sprintf("%d.%d.%d.%d.%d", fi, seed, np, thr+1000, sz)
}

func genC18(g *G) {
	kinds := []string{"topo", "frost", "ecdsa"}
	rndSpec := func() string {
		thr := []int{0, 1, 2, 3, 5, 64, -1, 1 << 20}[g.Intn(8)]
		if g.Intn(3) > 0 {
			thr = 1 + g.Intn(4)
		}
		return c18Spec(g.Intn(3), 1+g.Intn(1<<30), g.Intn(7), thr, g.Intn(70))
	}
	encLen := func(kind, spec string) int {
		b, err := c18EncodingOf(kind, spec)
		if err != nil {
			return 64
		}
		return len(b)
	}
	// 1. round trip, no fault: fixtures and random values, with and without a previous value
	for _, kind := range kinds {
		for fi := 0; fi < 3; fi++ {
			g.Emit("store", kind, "none", "0", "-", c18Spec(fi, 0, 0, 0, 0))
		}
		for i := 0; i < g.Count(60, 1500); i++ {
			old := "-"
			if g.Bool() {
				old = rndSpec()
			}
			g.Emit("store", kind, "none", "0", old, rndSpec())
		}
	}
	// 2. the write fails after k bytes, EVERY k in [0, len+1], previous value present (in-process, cheap)
	for _, kind := range kinds {
		pairs := [][2]string{{c18Spec(1, 0, 0, 0, 0), c18Spec(0, 0, 0, 0, 0)}}
		for i := 0; i < g.Count(1, 6); i++ {
			pairs = append(pairs, [2]string{rndSpec(), rndSpec()})
		}
		for pi, p := range pairs {
			n := encLen(kind, p[1])
			step := 1
			if kind == "ecdsa" && !(g.Thorough() && pi == 0) {
				step = 1 + n/g.Count(400, 1500) // ~14.5 kB per share: stride, plus the boundaries below
			}
			for k := 0; k <= n+1; k += step {
				g.Emit("store", kind, "fail", itoa(k), p[0], p[1])
			}
			for _, k := range []int{1, 2, n - 2, n - 1, n, n + 1} {
				if k >= 0 {
					g.Emit("store", kind, "fail", itoa(k), p[0], p[1])
				}
			}
		}
	}
	// 3. the process dies after k bytes (child process killed by the kernel), previous value present
	for _, kind := range kinds {
		old, nw := c18Spec(2, 0, 0, 0, 0), c18Spec(0, 0, 0, 0, 0)
		if kind == "topo" {
			old, nw = rndSpec(), rndSpec()
		}
		n := encLen(kind, nw)
		ks := []int{0, 1, 2, n / 2, n - 1, n, n + 1}
		if g.Thorough() && kind != "ecdsa" {
			ks = nil
			for k := 0; k <= n+1; k++ {
				ks = append(ks, k)
			}
		} else {
			for i := 0; i < g.Count(12, 400); i++ {
				ks = append(ks, g.Intn(n+1))
			}
		}
		for _, k := range ks {
			g.Emit("store", kind, "die", itoa(k), old, nw)
		}
	}
	// 5. LARGE values (the property says: every representable value): ECDSA shares for 20..40 parties, FROST shares with
	//    hundreds to thousands of verification shares, topologies with hundreds to thousands of peers - encodings that
	//    cross 64 KiB and (thorough) 1 MiB; round trip, and faults on both sides of the 64 KiB mark
	large := map[string][]string{
		"ecdsa": {c18Spec(0, 11, 22, 11, 122), c18Spec(1, 12, 30, 15, 130), c18Spec(2, 13, 40, 20, 140)},
		"frost": {c18Spec(0, 14, 300, 2, 107), c18Spec(1, 15, 40, 3, 112)},
		"topo":  {c18Spec(0, 16, 700, 3, 1), c18Spec(0, 17, 1500, 5, 2)},
	}
	if g.Thorough() {
		for m := 20; m <= 40; m++ {
			large["ecdsa"] = append(large["ecdsa"], c18Spec(m%3, 100+m, m, m/2, 100+m))
		}
		large["frost"] = append(large["frost"], c18Spec(2, 21, 2000, 2, 101), c18Spec(0, 22, 10, 2, 130), c18Spec(1, 23, 5000, 9, 220))
		large["topo"] = append(large["topo"], c18Spec(0, 24, 60, 3, 0), c18Spec(0, 25, 5000, 3, 1), c18Spec(0, 26, 15000, 7, 2))
	}
	for _, kind := range kinds {
		small := c18Spec(1, 0, 0, 0, 0)
		for i, sp := range large[kind] {
			g.Emit("store", kind, "none", "0", "-", sp)
			g.Emit("store", kind, "none", "0", small, sp)
			n := encLen(kind, sp)
			if i < g.Count(2, 6) {
				for _, k := range []int{65535, 65536, 65537, n - 1, g.Intn(n + 1)} {
					if k >= 0 {
						g.Emit("store", kind, "fail", itoa(k), small, sp)
					}
				}
				g.Emit("store", kind, "die", itoa(g.Intn(n+1)), small, sp)
				g.Emit("store", kind, "die", itoa(n-1), sp, small) // a small value over a large one
			}
		}
	}
	// 6. SEQUENCES in one directory that is never cleaned: killed stores leave their temp files, later stores of shorter and
	//    longer values follow, the file is read after every step
	sized := func(kind string, big bool) string { // a value whose encoding is clearly long / clearly short
		switch kind {
		case "topo":
			if big {
				return c18Spec(0, 1+g.Intn(1<<30), 6+g.Intn(8), 1+g.Intn(4), g.Intn(3))
			}
			return c18Spec(0, 1+g.Intn(1<<30), g.Intn(3), 1, 0)
		case "frost":
			if big {
				return c18Spec(g.Intn(3), 1+g.Intn(1<<30), 4+g.Intn(6), 1+g.Intn(3), 40+g.Intn(30))
			}
			return c18Spec(g.Intn(3), 1+g.Intn(1<<30), 0, 1, 1)
		default:
			if big {
				return c18Spec(g.Intn(3), 1+g.Intn(1<<30), 3+g.Intn(4), 1+g.Intn(3), 3+4*g.Intn(10)) // all three parties
			}
			return c18Spec(g.Intn(3), 1+g.Intn(1<<30), 0, 1, 4*g.Intn(10)) // no per-party data
		}
	}
	for _, kind := range kinds {
		for i := 0; i < g.Count(14, 300); i++ {
			// a value, then a LONG one cut after k bytes, then a SHORT (or another long) one, stored normally or cut as well
			a, b, c := sized(kind, g.Bool()), sized(kind, true), sized(kind, g.Intn(4) == 0)
			nb, nc := encLen(kind, b), encLen(kind, c)
			k := g.Intn(nb + 1)
			if nc < nb && g.Intn(4) > 0 {
				k = nc + 1 + g.Intn(nb-nc) // the leftover is longer than the value stored next
			}
			cut := []string{"die", "die", "fail"}[g.Intn(3)]
			steps := []string{"none:0:" + a, cut + ":" + itoa(k) + ":" + b}
			switch g.Intn(4) {
			case 0:
				steps = append(steps, "fail:"+itoa(g.Intn(nc+1))+":"+c, "none:0:"+c)
			case 1:
				steps = append(steps, "die:"+itoa(g.Intn(nc+1))+":"+c, "none:0:"+sized(kind, false))
			default:
				steps = append(steps, "none:0:"+c)
			}
			if g.Intn(3) == 0 {
				steps = steps[1:] // no value before the first (killed) store
			}
			g.Emit("seq", kind, joinOr(steps, ";"))
		}
		for i := 0; i < g.Count(10, 300); i++ { // random sequences
			steps := []string{}
			for j := 0; j < 2+g.Intn(4); j++ {
				v := sized(kind, g.Bool())
				if g.Intn(5) == 0 {
					v = rndSpec()
				}
				mode := []string{"none", "none", "fail", "die"}[g.Intn(4)]
				steps = append(steps, mode+":"+itoa(g.Intn(encLen(kind, v)+2))+":"+v)
			}
			g.Emit("seq", kind, joinOr(steps, ";"))
		}
	}
	// 7. the process may write the FILE but may not create files in its DIRECTORY (EACCES from CreateTemp), alone and
	//    together with a write fault: the store must return an error and leave the previous value
	for _, kind := range kinds {
		for i := 0; i < g.Count(10, 150); i++ {
			nw := rndSpec()
			old := rndSpec()
			if i%4 == 3 {
				old = "-"
			}
			n := encLen(kind, nw)
			mode := []string{"none", "fail", "die", "fail", "die"}[i%5]
			k := []int{0, 1, n / 2, n - 1, n, g.Intn(n + 1)}[g.Intn(6)]
			g.Emit("storero", kind, mode, itoa(k), old, nw)
		}
	}
	// 8. ONE long-lived store object, reads and stores interleaved back to back; NEAR-IDENTICAL successive values: the same
	//    value with another threshold digit (same encoding length), one secret digit / one multiaddress changed, the same
	//    peers in another order - what a cache, a "nothing changed" short cut or a stale stamp would get wrong
	near := func(kind string) (string, string) {
		thr := 1 + g.Intn(3)
		a := c18Spec(g.Intn(3), 1+g.Intn(1<<30), 1+g.Intn(6), thr, g.Intn(70))
		f := strings.Split(a, ".")
		switch g.Intn(5) {
		case 0: // only the threshold digit
			f[3] = itoa(1000 + thr%3 + 1)
			return a, strings.Join(f, ".")
		case 1:
			return a, a + ".2" // only the order
		case 2:
			return a, a + ".3"
		default:
			return a, a + ".1" // one secret digit / one address
		}
	}
	for _, kind := range kinds {
		for i := 0; i < g.Count(25, 500); i++ {
			a, b := near(kind)
			steps := []string{"none:0:" + a, "g", "none:0:" + b, "g"}
			switch g.Intn(5) {
			case 0:
				steps = []string{"g", "none:0:" + a, "none:0:" + b, "g", "none:0:" + a, "g"}
			case 1:
				steps = append(steps, "fail:"+itoa(g.Intn(encLen(kind, a)+1))+":"+a, "g", "none:0:"+a, "g")
			case 2:
				c, d := near(kind)
				steps = append(steps, "none:0:"+c, "g", "none:0:"+d, "g", "none:0:"+b, "g")
			}
			g.Emit("obj", kind, joinOr(steps, ";"))
			// the same pair through fresh objects: single store over a previous value, and as a sequence
			g.Emit("store", kind, "none", "0", a, b)
			g.Emit("seq", kind, "none:0:"+a+";none:0:"+b+";none:0:"+a)
		}
		for i := 0; i < g.Count(10, 300); i++ { // random interleavings
			steps := []string{}
			for j := 0; j < 3+g.Intn(6); j++ {
				switch g.Intn(5) {
				case 0, 1:
					steps = append(steps, "g")
				case 2:
					v := rndSpec()
					steps = append(steps, "fail:"+itoa(g.Intn(encLen(kind, v)+2))+":"+v)
				default:
					steps = append(steps, "none:0:"+rndSpec())
				}
			}
			g.Emit("obj", kind, joinOr(append(steps, "g"), ";"))
		}
	}
	// 9. the process dies exactly at a STRUCTURAL boundary of the encoding - right after a closing brace / bracket / quote, a
	//    comma, a colon - where the bytes written so far look most like something complete; then the restarted relayer
	//    reads (Lock, Get, Unlock). Every closing brace and bracket of the value, a sample of the other boundaries.
	for _, kind := range kinds {
		old, nw := c18Spec(2, 0, 0, 0, 0), c18Spec(0, 0, 0, 0, 0)
		if i := g.Intn(3); i > 0 {
			old, nw = rndSpec(), rndSpec()
		}
		b, err := c18EncodingOf(kind, nw)
		if err != nil {
			continue
		}
		closers, others := []int{}, []int{}
		for i, c := range b {
			switch c {
			case '}', ']':
				closers = append(closers, i+1)
			case '"', ',', ':', '{', '[':
				others = append(others, i+1)
			}
		}
		for len(closers) > g.Count(30, 400) { // (huge values: a random subset)
			j := g.Intn(len(closers))
			closers = append(closers[:j], closers[j+1:]...)
		}
		for _, k := range closers {
			g.Emit("store", kind, "die", itoa(k), old, nw)
		}
		for i := 0; i < g.Count(8, 300) && len(others) > 0; i++ {
			g.Emit("store", kind, "die", itoa(others[g.Intn(len(others))]), old, nw)
		}
		// … and inside sequences: die at a closing brace, restart, read, store again, read
		for i := 0; i < g.Count(6, 120) && len(closers) > 0; i++ {
			k := closers[g.Intn(len(closers))]
			g.Emit("life", kind, "clean", "-", "none:0:"+old+";g;die:"+itoa(k)+":"+nw+";g;none:0:"+sized(kind, false)+";g")
		}
	}
	// 10. the path as a configuration may spell it (./, //, /./, /x/../, relative) and other files next to the store's file
	//     whose names start like, or extend, the store's file name: every access cycle must leave the share readable and the
	//     neighbours alone
	spellings := []string{"clean", "dot", "dslash", "dotdot", "rel", "dotrel", "symabs", "symrel", "symchain"}
	for _, kind := range kinds {
		for i := 0; i < g.Count(18, 400); i++ {
			sp := spellings[i%len(spellings)]
			sib := "-"
			if i%3 != 0 {
				xs := []string{}
				for j := range c18SiblingNames {
					if g.Intn(3) == 0 || j == i%len(c18SiblingNames) {
						xs = append(xs, itoa(j))
					}
				}
				sib = joinOr(xs, ",")
			}
			a, b := near(kind)
			steps := []string{"none:0:" + a, "g", "g"}
			switch g.Intn(4) {
			case 0:
				steps = append(steps, "none:0:"+b, "g")
			case 1:
				steps = append(steps, "fail:"+itoa(g.Intn(encLen(kind, b)+1))+":"+b, "g", "none:0:"+b, "g")
			case 2:
				steps = append(steps, "die:"+itoa(g.Intn(encLen(kind, b)+1))+":"+b, "g", "none:0:"+b, "g")
			case 3:
				steps = []string{"g", "none:0:" + a, "g", "none:0:" + rndSpec(), "g"}
			}
			g.Emit("life", kind, sp, sib, joinOr(steps, ";"))
		}
	}
	// 11. a value the encoder refuses (ECDSA share whose public key has no registered curve): the store must FAIL and leave the
	//     previous share; alone and combined with write faults, with and without a previous value
	for i := 0; i < g.Count(16, 300); i++ {
		bad := rndSpec() + ".4"
		if i%3 == 0 {
			bad = c18Spec(i%3, 0, 0, 0, 0) + ".4"
		}
		old := rndSpec()
		if i%4 == 3 {
			old = "-"
		}
		mode := []string{"none", "none", "fail", "die"}[i%4]
		g.Emit("store", "ecdsa", mode, itoa(g.Intn(3000)), old, bad)
	}
	// 4. random everything: kind, mode, previous value or none, same value stored twice, k around the boundaries
	for i := 0; i < g.Count(120, 3000); i++ {
		kind := kinds[g.Intn(3)]
		nw := rndSpec()
		old := "-"
		switch g.Intn(4) {
		case 0, 1:
			old = rndSpec()
		case 2:
			old = nw
		}
		n := encLen(kind, nw)
		k := []int{0, 1, n - 1, n, g.Intn(n + 1), g.Intn(n + 1)}[g.Intn(6)]
		if k < 0 {
			k = 0
		}
		mode := "fail"
		if g.Intn(4) == 0 {
			mode = "die"
		}
		g.Emit("store", kind, mode, itoa(k), old, nw)
	}
}
