package main

// C08 — the BTC executor's collection of the per-input signatures and the transaction it submits: the real watchExecution
// and sendTx, signatures arriving on the result channel in a scripted order (out of input order, nil results, repeats),
// a loopback fake bitcoind recording `sendrawtransaction`. Every input of the submitted transaction is then run through
// btcd's script engine (BIP-341 key-path spend: the witness must be a BIP-340 signature over THAT input's signature hash
// under the output key).

import (
	"bytes"
	"context"
	"encoding/hex"
	"encoding/json"
	"fmt"
	"io"
	"net/http"
	"net/http/httptest"
	"strings"
	"sync"
	"time"

	btcConfig "github.com/ChainSafe/sygma-relayer/chains/btc/config"
	"github.com/ChainSafe/sygma-relayer/chains/btc/connection"
	btcExecutor "github.com/ChainSafe/sygma-relayer/chains/btc/executor"
	"github.com/ChainSafe/sygma-relayer/chains/btc/mempool"
	"github.com/ChainSafe/sygma-relayer/store"
	frostSigning "github.com/ChainSafe/sygma-relayer/tss/frost/signing"
	"github.com/btcsuite/btcd/btcec/v2"
	"github.com/btcsuite/btcd/btcec/v2/schnorr"
	"github.com/btcsuite/btcd/btcutil"
	"github.com/btcsuite/btcd/chaincfg"
	"github.com/btcsuite/btcd/chaincfg/chainhash"
	"github.com/btcsuite/btcd/rpcclient"
	"github.com/btcsuite/btcd/txscript"
	"github.com/btcsuite/btcd/wire"
	"github.com/taurusgroup/multi-party-sig/pkg/taproot"
)

type c08PropStore struct {
	mu sync.Mutex
	st []string
}

func (p *c08PropStore) StorePropStatus(s, d uint8, n uint64, st store.PropStatus) error {
	p.mu.Lock()
	defer p.mu.Unlock()
	p.st = append(p.st, string(st))
	return nil
}
func (p *c08PropStore) PropStatus(s, d uint8, n uint64) (store.PropStatus, error) {
	return store.PendingProp, nil
}

// btcwitness <inputs 1..4> <arrivals: input ids in arrival order, `n` = a nil result, e.g. 1,n,0,1> <seed>
//   =>  ret=<nil|err>;sent=<number of sendrawtransaction calls>;valid=<per input: script engine accepts>;own=<per input: the
//       witness is exactly the signature produced for that input>     (valid/own `-` when nothing was sent)
func c08OpBtcWitness(a []string) string {
	c08BtcMu.Lock()
	defer c08BtcMu.Unlock()
	n, seed := int(u64(a[0])), u64(a[2])
	r := &c18rng{s: seed}
	params := chaincfg.RegressionNetParams
	priv, _ := btcec.PrivKeyFromBytes(r.bytes(32))
	outKey := txscript.ComputeTaprootKeyNoScript(priv.PubKey())
	signKey := txscript.TweakTaprootPrivKey(*priv, nil)
	addr, err := btcutil.NewAddressTaproot(schnorr.SerializePubKey(outKey), &params)
	if err != nil {
		return "noaddr"
	}
	script, _ := txscript.PayToAddrScript(addr)
	utxos := []mempool.Utxo{}
	for i := 0; i < n; i++ {
		v := uint64(1000 + r.u64()%500)
		if i == n-1 {
			v = 10_000_000
		}
		utxos = append(utxos, mempool.Utxo{TxID: hex.EncodeToString(r.bytes(32)), Vout: uint32(r.u64() % 3), Value: v})
	}
	var rid [32]byte
	copy(rid[:], r.bytes(32))
	resource := btcConfig.Resource{Address: addr, ResourceID: rid, Tweak: c08One, Script: script}
	props := []*btcExecutor.BtcTransferProposal{{Source: 1, Destination: 2, Data: btcExecutor.BtcTransferProposalData{
		Amount: 20000 + r.u64()%1000, Recipient: addr.String(), DepositNonce: r.u64() % 1000, ResourceId: rid}}}

	var mu sync.Mutex
	sentRaw := []string{}
	srv := httptest.NewServer(http.HandlerFunc(func(w http.ResponseWriter, rq *http.Request) {
		body, _ := io.ReadAll(rq.Body)
		var req struct {
			ID     interface{}   `json:"id"`
			Method string        `json:"method"`
			Params []interface{} `json:"params"`
		}
		_ = json.Unmarshal(body, &req)
		resp := map[string]interface{}{"id": req.ID, "error": nil, "result": nil}
		switch req.Method {
		case "getnetworkinfo":
			resp["result"] = map[string]interface{}{"version": 250000, "subversion": "/Satoshi:25.0.0/"}
		case "sendrawtransaction":
			if len(req.Params) > 0 {
				if s, ok := req.Params[0].(string); ok {
					mu.Lock()
					sentRaw = append(sentRaw, s)
					mu.Unlock()
				}
			}
			resp["result"] = strings.Repeat("ab", 32)
		default:
			resp["error"] = map[string]interface{}{"code": -32601, "message": "method not found"}
		}
		w.Header().Set("Content-Type", "application/json")
		_ = json.NewEncoder(w).Encode(resp)
	}))
	defer srv.Close()
	cl, err := rpcclient.New(&rpcclient.ConnConfig{HTTPPostMode: true, Host: strings.TrimPrefix(srv.URL, "http://"), User: "u", Pass: "p", DisableTLS: true}, nil)
	if err != nil {
		return "norpc"
	}
	defer cl.Shutdown()
	all, _ := c08FixturePeers()
	host := &c08Host{peers: all}
	ex := btcExecutor.NewExecutor(&c08PropStore{}, host, &c08BtcComm{}, nil, nil, &connection.Connection{Client: cl}, &c08BtcMempool{utxos},
		map[[32]byte]btcConfig.Resource{rid: resource}, params, &sync.RWMutex{}, c08BtcUploader{})
	tx, used, err := ex.VerifC08RawTx(props, resource)
	if err != nil {
		return "norawtx"
	}
	prev := map[wire.OutPoint]*wire.TxOut{}
	for _, u := range used {
		h, _ := chainhash.NewHashFromStr(u.TxID)
		prev[*wire.NewOutPoint(h, u.Vout)] = wire.NewTxOut(int64(u.Value), script)
	}
	fetcher := txscript.NewMultiPrevOutFetcher(prev)
	hashes := txscript.NewTxSigHashes(tx, fetcher)
	sigs := [][]byte{}
	for i := range tx.TxIn {
		d, err := txscript.CalcTaprootSignatureHash(hashes, txscript.SigHashDefault, tx, i, fetcher)
		if err != nil {
			return "nosighash"
		}
		sg, err := schnorr.Sign(signKey, d)
		if err != nil {
			return "nosign"
		}
		sigs = append(sigs, sg.Serialize())
	}
	arrivals := items(a[1], ",")
	sigChn := make(chan interface{}, len(arrivals)+1)
	have := map[int]bool{}
	for _, it := range arrivals {
		if it == "n" {
			sigChn <- nil
			continue
		}
		id := int(u64(it))
		if id >= len(sigs) {
			return "badid"
		}
		have[id] = true
		sigChn <- frostSigning.Signature{Id: id, Signature: taproot.Signature(append([]byte{}, sigs[id]...))}
	}
	// all signatures are on the channel before the call: when they complete the transaction the (long) time-out plays no
	// part; when they cannot, the call ends by the (short) time-out whatever the machine load - no outcome depends on timing
	to := 60 * time.Second
	if len(have) < len(sigs) {
		to = 300 * time.Millisecond
	}
	old := btcExecutor.VerifC08SetSigningTimeout(to)
	ctx, cancel := context.WithCancel(context.Background())
	rerr := ex.VerifC08WatchExecution(ctx, func() {}, tx, props, sigChn, "sess", "m")
	cancel()
	btcExecutor.VerifC08SetSigningTimeout(old)
	ret := "nil"
	if rerr != nil {
		ret = "err"
	}
	mu.Lock()
	defer mu.Unlock()
	if len(sentRaw) == 0 {
		return fmt.Sprintf("ret=%s;sent=0;valid=-;own=-", ret)
	}
	rawB, err := hex.DecodeString(sentRaw[0])
	if err != nil {
		return "badsent"
	}
	stx := wire.NewMsgTx(wire.TxVersion)
	if stx.Deserialize(bytes.NewReader(rawB)) != nil || len(stx.TxIn) != len(sigs) {
		return "badsent"
	}
	valid, own := []string{}, []string{}
	shashes := txscript.NewTxSigHashes(stx, fetcher)
	for i, in := range stx.TxIn {
		v := "0"
		if po := prev[in.PreviousOutPoint]; po != nil {
			vm, err := txscript.NewEngine(script, stx, i, txscript.StandardVerifyFlags, nil, shashes, po.Value, fetcher)
			if err == nil && vm.Execute() == nil {
				v = "1"
			}
		}
		valid = append(valid, v)
		o := "0"
		if len(in.Witness) == 1 && bytes.Equal(in.Witness[0], sigs[i]) {
			o = "1"
		}
		own = append(own, o)
	}
	return fmt.Sprintf("ret=%s;sent=%d;valid=%s;own=%s", ret, len(sentRaw), strings.Join(valid, ","), strings.Join(own, ","))
}

func init() { ops["C08.btcwitness"] = c08OpBtcWitness }
