package main

// C19 — signing session ids of the Substrate and the Bitcoin executor.
// The real Execute runs up to and including NewSigning (real key shares from tss/test/keyshares) and hands the
// processes to a real tss.Coordinator whose TssTimeout is a few milliseconds, so Execute comes back quickly. Every
// signing process carries its session id in its logger and says "Stopping tss process." when the coordinator lets it
// go; those log lines are the observation (the same seam harness/drive/c14.go uses for the EVM executor).

import (
	"encoding/json"
	"fmt"
	"sort"
	"strings"
	"sync"
	"time"

	btcConfig "github.com/ChainSafe/sygma-relayer/chains/btc/config"
	btcExecutor "github.com/ChainSafe/sygma-relayer/chains/btc/executor"
	"github.com/ChainSafe/sygma-relayer/chains/btc/mempool"
	evmExecutorPkg "github.com/ChainSafe/sygma-relayer/chains/evm/executor"
	subExecutor "github.com/ChainSafe/sygma-relayer/chains/substrate/executor"
	"github.com/ChainSafe/sygma-relayer/comm"
	"github.com/ChainSafe/sygma-relayer/comm/elector"
	"github.com/ChainSafe/sygma-relayer/keyshare"
	"github.com/ChainSafe/sygma-relayer/relayer/transfer"
	"github.com/ChainSafe/sygma-relayer/tss"
	"github.com/btcsuite/btcd/chaincfg"
	"github.com/btcsuite/btcd/txscript"
	"github.com/centrifuge/go-substrate-rpc-client/v4/rpc/author"
	"github.com/centrifuge/go-substrate-rpc-client/v4/types"
	"github.com/libp2p/go-libp2p/core/host"
	"github.com/libp2p/go-libp2p/core/peer"
	"github.com/libp2p/go-libp2p/core/peerstore"
	"github.com/libp2p/go-libp2p/p2p/host/peerstore/pstoremem"
	"github.com/rs/zerolog"
	"github.com/rs/zerolog/log"
	"github.com/sygmaprotocol/sygma-core/relayer/proposal"
)

type c19Host struct {
	host.Host
	id peer.ID
	ps peerstore.Peerstore
}

func (h *c19Host) ID() peer.ID                    { return h.id }
func (h *c19Host) Peerstore() peerstore.Peerstore { return h.ps }

func newC19Host(id peer.ID) *c19Host {
	ps, _ := pstoremem.NewPeerstore()
	return &c19Host{id: id, ps: ps}
}

type c19Comm struct {
	mu sync.Mutex
	n  int
}

func (c *c19Comm) CloseSession(string) {}
func (c *c19Comm) Broadcast(peer.IDSlice, []byte, comm.MessageType, string) error {
	return nil
}
func (c *c19Comm) Subscribe(sid string, t comm.MessageType, ch chan *comm.WrappedMessage) comm.SubscriptionID {
	c.mu.Lock()
	defer c.mu.Unlock()
	c.n++
	return comm.SubscriptionID(fmt.Sprintf("%s-%d-%d", sid, t, c.n))
}
func (c *c19Comm) UnSubscribe(comm.SubscriptionID) {}

func newC19Coordinator(h host.Host, c comm.Communication) *tss.Coordinator {
	co := tss.NewCoordinator(h, c, &elector.CoordinatorElectorFactory{}) // only the static elector is reached
	co.TssTimeout = 4 * time.Millisecond
	co.CoordinatorTimeout = time.Hour
	co.InitiatePeriod = time.Hour
	return co
}

// c19SidLog collects the session ids the signing processes (and the coordinator running them) log under.
type c19SidLog struct {
	mu   sync.Mutex
	sids []string
}

func (l *c19SidLog) Write(p []byte) (int, error) {
	var m map[string]interface{}
	if json.Unmarshal(p, &m) == nil {
		// a session id is recognised by the structured field the signing process (and the coordinator) attach to their
		// log lines, never by the wording of a message
		if sid, ok := m["SessionID"].(string); ok {
			l.mu.Lock()
			seen := false
			for _, x := range l.sids {
				if x == sid {
					seen = true
				}
			}
			if !seen {
				l.sids = append(l.sids, sid)
			}
			l.mu.Unlock()
		}
	}
	return len(p), nil
}

// withSidLog runs f with the global logger recording, and returns the session ids seen (in release order = process order).
func withSidLog(f func()) string {
	l := &c19SidLog{}
	old, oldLvl := log.Logger, zerolog.GlobalLevel()
	log.Logger = zerolog.New(l)
	zerolog.SetGlobalLevel(zerolog.InfoLevel)
	func() {
		defer func() {
			log.Logger = old
			zerolog.SetGlobalLevel(oldLvl)
		}()
		f()
	}()
	l.mu.Lock()
	defer l.mu.Unlock()
	return joinOr(l.sids, ",")
}

func c19KeyPeers() []peer.ID {
	k, err := keyshare.NewECDSAKeyshareStore(repoRoot() + "/tss/test/keyshares/0.keyshare").GetKeyshare()
	if err != nil {
		panic(err)
	}
	return k.Peers
}

// ---- Substrate
type c19Pallet struct{ status map[uint64]string }

func (p c19Pallet) IsProposalExecuted(tp *transfer.TransferProposal) (bool, error) {
	return p.status[tp.Data.DepositNonce] == "e", nil
}
func (p c19Pallet) ExecuteProposals([]*transfer.TransferProposal, []byte) (types.Hash, *author.ExtrinsicStatusSubscription, error) {
	return types.Hash{}, nil, errRPC
}
func (p c19Pallet) ProposalsHash([]*transfer.TransferProposal) ([]byte, error) { return make([]byte, 32), nil }
func (p c19Pallet) TrackExtrinsic(types.Hash, *author.ExtrinsicStatusSubscription) error {
	return nil
}

func c19SubProps(msgID, statuses string) ([]*proposal.Proposal, map[uint64]string) {
	ps := []*proposal.Proposal{}
	st := map[uint64]string{}
	for i, s := range items(statuses, ",") {
		st[uint64(i)] = s
		ps = append(ps, proposal.NewProposal(1, 3, transfer.TransferProposalData{DepositNonce: uint64(i), Data: []byte{byte(i)}}, msgID, transfer.TransferProposalType))
	}
	return ps, st
}

// ---- Bitcoin
type c19Mempool struct{ utxos []mempool.Utxo }

func (m c19Mempool) RecommendedFee() (*mempool.Fee, error) {
	return &mempool.Fee{FastestFee: 1, HalfHourFee: 1, MinimumFee: 1, EconomyFee: 1, HourFee: 1}, nil
}
func (m c19Mempool) Utxos(string) ([]mempool.Utxo, error) { return m.utxos, nil }

type c19Uploader struct{}

func (c19Uploader) Upload([]map[string]interface{}) (string, error) { return "cid", nil }

const c19Tweak = "0000000000000000000000000000000000000000000000000000000000000001"

func init() {
	// subsession <msgId> <statuses p|e,…>  =>  the session id(s) under which the delivery is signed ("-" if nothing is
	// pending): relayer A (fresh) twice on one Executor, relayer B (another peer id and key share, after another delivery)
	ops["C19.subsession"] = func(a []string) string {
		peers := c19KeyPeers()
		mk := func(i int) *subExecutor.Executor {
			h := newC19Host(peers[i])
			c := &c19Comm{}
			_, st := c19SubProps(a[0], a[1])
			return subExecutor.NewExecutor(h, c, newC19Coordinator(h, c), c19Pallet{st},
				keyshare.NewECDSAKeyshareStore(fmt.Sprintf("%s/tss/test/keyshares/%d.keyshare", repoRoot(), i)), nil, &sync.RWMutex{})
		}
		run := func(e *subExecutor.Executor, msgID, statuses string) string {
			ps, _ := c19SubProps(msgID, statuses)
			return withSidLog(func() { _ = e.Execute(ps) })
		}
		ea, eb := mk(0), mk(1)
		outs := []string{run(ea, a[0], a[1])}
		_ = run(eb, "9-9-1-5", "p") // relayer B has signed something else before
		outs = append(outs, run(eb, a[0], a[1]), run(ea, a[0], a[1]))
		return agreeOut(outs)
	}
	// evmsigsession <cap> <tg> <msgId> <props>  =>  the session ids the signing PROCESSES of the delivery's batches run under
	// (sorted, ','-separated; "-" if nothing is signed): relayer A twice on one Executor, relayer B after another delivery
	ops["C19.evmsigsession"] = func(a []string) string {
		peers := c19KeyPeers()
		mk := func(i int, spec, msgID string) (*evmExecutorPkg.Executor, []*proposal.Proposal) {
			ps, st := mkProps(spec, msgID)
			h := newC19Host(peers[i])
			c := &c19Comm{}
			return evmExecutorPkg.NewExecutor(h, c, newC19Coordinator(h, c), &fakeBridge{status: st},
				keyshare.NewECDSAKeyshareStore(fmt.Sprintf("%s/tss/test/keyshares/%d.keyshare", repoRoot(), i)), &sync.RWMutex{}, u64(a[0]), u64(a[1])), ps
		}
		run := func(e *evmExecutorPkg.Executor, ps []*proposal.Proposal) string {
			r := withSidLog(func() { _ = e.Execute(ps) })
			xs := items(r, ",")
			sort.Strings(xs)
			return joinOr(xs, ",")
		}
		ea, psa := mk(0, a[3], a[2])
		eb, psb := mk(1, a[3], a[2])
		outs := []string{run(ea, psa)}
		other, _ := mkProps("n:p;n:p", "9-9-1-5")
		_ = run(eb, other)
		outs = append(outs, run(eb, psb), run(ea, psa))
		return agreeOut(outs)
	}
	// btcsession <msgId> <inputs 1..3> <props>  =>  same:<number of signing sessions> | the differing id lists
	//   per-input signing session ids (hex of the input's taproot sighash) of one delivery to resource 01, derived by
	//   relayer A (fresh) twice on one Executor and by relayer B (another peer id / key share, after another delivery)
	// btcsessionu <msgId> <inputs> <props> <unknown>: the same delivery ALSO carries <unknown> transfers for a resource id
	// that is not configured on the Bitcoin side (any position); the configured resource's sessions must start all the same
	ops["C19.btcsessionu"] = func(a []string) string { return ops["C19.btcsession"](a) }
	ops["C19.btcsession"] = func(a []string) string {
		peers := c19KeyPeers()
		n := int(u64(a[1]))
		np := int(u64(a[2]))
		unk := 0
		if len(a) > 3 {
			unk = int(u64(a[3]))
		}
		rid := [32]byte{1}
		addr := c19Addr(0)
		script, err := txscript.PayToAddrScript(addr)
		if err != nil {
			panic(err)
		}
		res := map[[32]byte]btcConfig.Resource{rid: {Address: addr, ResourceID: rid, Script: script, Tweak: c19Tweak, FeeAmount: bigArg("1000")}}
		utxos := []mempool.Utxo{}
		for i := 0; i < 4; i++ {
			utxos = append(utxos, mempool.Utxo{TxID: fmt.Sprintf("%064x", i+1), Vout: uint32(i), Value: 100000})
		}
		props := func(msgID string, total uint64, k int) []*proposal.Proposal {
			ps := []*proposal.Proposal{}
			for i := 0; i < k; i++ {
				amt := total / uint64(k)
				if i == 0 {
					amt += total % uint64(k)
				}
				ps = append(ps, proposal.NewProposal(1, 4, btcExecutor.BtcTransferProposalData{Amount: amt, Recipient: c19Addr(7 + i).String(),
					DepositNonce: uint64(i), ResourceId: rid}, msgID, transfer.TransferProposalType))
			}
			for i := 0; i < unk; i++ { // transfers of a resource this chain does not know, before and after the others
				u := proposal.NewProposal(1, 4, btcExecutor.BtcTransferProposalData{Amount: 1000, Recipient: c19Addr(7).String(),
					DepositNonce: uint64(100 + i), ResourceId: [32]byte{0xee, byte(i)}}, msgID, transfer.TransferProposalType)
				if i%2 == 0 {
					ps = append([]*proposal.Proposal{u}, ps...)
				} else {
					ps = append(ps, u)
				}
			}
			return ps
		}
		total := uint64(n-1)*100000 + 50000
		mk := func(i int) *btcExecutor.Executor {
			h := newC19Host(peers[i])
			c := &c19Comm{}
			return btcExecutor.NewExecutor(noPropStore{}, h, c, newC19Coordinator(h, c),
				keyshare.NewFrostKeyshareStore(fmt.Sprintf("%s/tss/test/keyshares/%d-frost.keyshare", repoRoot(), i)), nil,
				c19Mempool{utxos}, res, chaincfg.RegressionNetParams, &sync.RWMutex{}, c19Uploader{})
		}
		run := func(e *btcExecutor.Executor, msgID string, total uint64, k int) string {
			return withSidLog(func() { _ = e.Execute(props(msgID, total, k)) })
		}
		old := btcExecutor.VerifC19SetSigningTimeout(40 * time.Millisecond)
		defer btcExecutor.VerifC19SetSigningTimeout(old)
		ea, eb := mk(0), mk(1)
		outs := []string{run(ea, a[0], total, np)}
		_ = run(eb, "9-9-77", 20000, 1)
		outs = append(outs, run(eb, a[0], total, np), run(ea, a[0], total, np))
		// several proposals of one resource: repeat on both relayers — nothing but the delivery may decide the order of
		// the outputs and hence the sighashes
		for i := 0; (np > 1 || unk > 0) && i < 6; i++ {
			outs = append(outs, run(ea, a[0], total, np), run(eb, a[0], total, np))
		}
		r := agreeOut(outs)
		if strings.Contains(r, "|") {
			return r
		}
		ids := items(r, ",")
		for _, id := range ids {
			if len(id) != 64 || strings.Trim(id, "0123456789abcdef") != "" {
				return "badid:" + r
			}
		}
		return "same:" + itoa(len(ids))
	}
}
