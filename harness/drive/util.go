package main

import (
	"encoding/hex"
	"io"
	"strconv"
	"strings"

	"github.com/rs/zerolog"
	"github.com/rs/zerolog/log"
)

func quietLogs() {
	log.Logger = zerolog.New(io.Discard)
	zerolog.SetGlobalLevel(zerolog.Disabled)
}

func hx(b []byte) string {
	if len(b) == 0 {
		return "-"
	}
	return hex.EncodeToString(b)
}

func unhx(s string) []byte {
	if s == "-" {
		return []byte{}
	}
	b, err := hex.DecodeString(s)
	if err != nil {
		panic("bad hex arg " + s)
	}
	return b
}

func u64(s string) uint64 {
	v, err := strconv.ParseUint(s, 10, 64)
	if err != nil {
		panic("bad uint arg " + s)
	}
	return v
}

func i64(s string) int64 {
	v, err := strconv.ParseInt(s, 10, 64)
	if err != nil {
		panic("bad int arg " + s)
	}
	return v
}

func itoa(i int) string     { return strconv.Itoa(i) }
func utoa(i uint64) string  { return strconv.FormatUint(i, 10) }

func items(s, sep string) []string {
	if s == "-" || s == "" {
		return nil
	}
	return strings.Split(s, sep)
}

func joinOr(xs []string, sep string) string {
	if len(xs) == 0 {
		return "-"
	}
	return strings.Join(xs, sep)
}
