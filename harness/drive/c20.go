package main

// C20 — configuration loading: ports, chain-config validation, start-block alignment, local-over-shared merge, durations.
//
//   C20 portrange <h|m> <lo> <hi>        => runs `<class>:<lo>..<hi>;…` over every integer written in decimal;
//                                            class id = accepted with value n, err = rejected, wrap = accepted as n mod 65536 (≠ n), bad = anything else
//   C20 port <h|m> <d|f|e> <text>        => ok:<healthPort>:<mpcPort> | err     (d = processRawConfig, f = GetConfigFromFile, e = GetConfigFromENV; "-" = not written)
//   C20 chain <evm|sub|btc> <i|f> <bc> <bi> <sb> <ri>   (each `_` = not written, else an integer; i = Go int, f = float64 as JSON decoding yields)
//                                        => ok:<confirmations|_>:<interval>:<startBlock>:<retry ns>:<aligned start|panic> | err
//   C20 merge <d|f|e> <local> <shared>   => chains `;`-separated, each `k=v,…` sorted by key | err    (see c20ParseChains)
//   C20 mergeclash / mergeexc …          the same op; the generator sends inputs in which a local entry holds an empty value
//                                        (0, "", false) over a different value of its shared partner to these two instead of `merge`:
//                                        mergeclash is judged strictly (KNOWN FINDING), mergeexc with that one point excused
//   C20 dur <field> <d|f|e> <hex text>   => ok:<ns> | err

import (
	"encoding/json"
	"fmt"
	"math/big"
	"os"
	"sort"
	"strconv"
	"strings"

	"github.com/ChainSafe/sygma-relayer/chains"
	btcConfig "github.com/ChainSafe/sygma-relayer/chains/btc/config"
	"github.com/ChainSafe/sygma-relayer/chains/evm"
	"github.com/ChainSafe/sygma-relayer/chains/substrate"
	"github.com/ChainSafe/sygma-relayer/config"
	"github.com/ChainSafe/sygma-relayer/config/relayer"
	"github.com/spf13/cobra"
	"github.com/spf13/viper"
)

func c20Raw() relayer.RawRelayerConfig {
	r := relayer.RawRelayerConfig{}
	r.MpcConfig.TopologyConfiguration = relayer.TopologyConfiguration{EncryptionKey: "k", Url: "u", Path: "p"}
	return r
}

var c20DurFields = []string{"comm", "pingwait", "pingbackoff", "pinginterval", "election", "bullywait"}

// c20Set writes one relayer setting into the raw config (the string exactly as written).
func c20Set(r *relayer.RawRelayerConfig, field, val string) {
	switch field {
	case "h":
		r.HealthPort = val
	case "m":
		r.MpcConfig.Port = val
	case "comm":
		r.MpcConfig.CommHealthCheckInterval = val
	case "pingwait":
		r.BullyConfig.PingWaitTime = val
	case "pingbackoff":
		r.BullyConfig.PingBackOff = val
	case "pinginterval":
		r.BullyConfig.PingInterval = val
	case "election":
		r.BullyConfig.ElectionWaitTime = val
	case "bullywait":
		r.BullyConfig.BullyWaitTime = val
	default:
		panic("field " + field)
	}
}

func c20EnvName(field string) string {
	return map[string]string{
		"h": "SYG_RELAYER_HEALTHPORT", "m": "SYG_RELAYER_MPCCONFIG_PORT", "comm": "SYG_RELAYER_MPCCONFIG_COMMHEALTHCHECKINTERVAL",
		"pingwait": "SYG_RELAYER_BULLYCONFIG_PINGWAITTIME", "pingbackoff": "SYG_RELAYER_BULLYCONFIG_PINGBACKOFF",
		"pinginterval": "SYG_RELAYER_BULLYCONFIG_PINGINTERVAL", "election": "SYG_RELAYER_BULLYCONFIG_ELECTIONWAITTIME",
		"bullywait": "SYG_RELAYER_BULLYCONFIG_BULLYWAITTIME",
	}[field]
}

func c20JSONPath(field string) (string, string) {
	switch field {
	case "h":
		return "", "HealthPort"
	case "m":
		return "MpcConfig", "Port"
	case "comm":
		return "MpcConfig", "CommHealthCheckInterval"
	}
	return "BullyConfig", map[string]string{"pingwait": "PingWaitTime", "pingbackoff": "PingBackOff", "pinginterval": "PingInterval",
		"election": "ElectionWaitTime", "bullywait": "BullyWaitTime"}[field]
}

// c20Load runs one of the three real loaders with the given relayer settings (field -> written text) and chain lists.
func c20Load(loader string, settings map[string]string, local []map[string]interface{}, shared *config.Config) (*config.Config, error) {
	switch loader {
	case "d":
		r := c20Raw()
		for f, v := range settings {
			c20Set(&r, f, v)
		}
		return config.VerifProcessRawConfig(config.RawConfig{RelayerConfig: r, ChainConfigs: local}, shared)
	case "f":
		rel := map[string]interface{}{
			"MpcConfig":   map[string]interface{}{"TopologyConfiguration": map[string]interface{}{"EncryptionKey": "k", "Url": "u", "Path": "p"}},
			"BullyConfig": map[string]interface{}{},
		}
		for f, v := range settings {
			sec, key := c20JSONPath(f)
			if sec == "" {
				rel[key] = v
			} else {
				rel[sec].(map[string]interface{})[key] = v
			}
		}
		doc := map[string]interface{}{"relayer": rel}
		if local != nil {
			doc["domains"] = local
		}
		b, err := json.Marshal(doc)
		if err != nil {
			panic(err)
		}
		fh, err := os.CreateTemp("", "verif-c20-*.json")
		if err != nil {
			panic(err)
		}
		defer os.Remove(fh.Name())
		fh.Write(b)
		fh.Close()
		return config.GetConfigFromFile(fh.Name(), shared)
	case "e":
		set := map[string]string{
			"SYG_RELAYER_MPCCONFIG_TOPOLOGYCONFIGURATION_ENCRYPTIONKEY": "k",
			"SYG_RELAYER_MPCCONFIG_TOPOLOGYCONFIGURATION_URL":           "u",
			"SYG_RELAYER_MPCCONFIG_TOPOLOGYCONFIGURATION_PATH":          "p",
		}
		for f, v := range settings {
			set[c20EnvName(f)] = v
		}
		if local != nil {
			b, err := json.Marshal(local)
			if err != nil {
				panic(err)
			}
			set["SYG_CHAINS"] = string(b)
		}
		for k, v := range set {
			os.Setenv(k, v)
		}
		defer func() {
			for k := range set {
				os.Unsetenv(k)
			}
		}()
		return config.GetConfigFromENV(shared)
	}
	panic("loader " + loader)
}

func c20PortClass(which string, n int64) string {
	r := c20Raw()
	c20Set(&r, "h", "9001")
	c20Set(&r, "m", "9000")
	c20Set(&r, which, strconv.FormatInt(n, 10))
	c20Set(&r, "comm", "5m")
	for _, f := range c20DurFields[1:] {
		c20Set(&r, f, "1s")
	}
	c, err := relayer.NewRelayerConfig(r)
	if err != nil {
		return "err"
	}
	v := int64(c.HealthPort)
	if which == "m" {
		v = int64(c.MpcConfig.Port)
	}
	switch {
	case v == n:
		return "id"
	case v == ((n%65536)+65536)%65536:
		return "wrap"
	}
	return "bad"
}

func c20Num(s, repr string) interface{} {
	n := i64(s)
	if repr == "f" {
		return float64(n)
	}
	return int(n)
}

func c20Chain(a []string) string {
	kind, repr := a[0], a[1]
	m := map[string]interface{}{"id": c20Num("1", repr), "name": "c", "endpoint": "ws://e", "type": kind}
	for i, k := range []string{"blockConfirmations", "blockInterval", "startBlock", "blockRetryInterval"} {
		if a[2+i] != "_" {
			m[k] = c20Num(a[2+i], repr)
		}
	}
	var bc, bi, sb *big.Int
	var ri int64
	switch kind {
	case "evm":
		m["bridge"] = "0xb"
		c, err := evm.NewEVMConfig(m)
		if err != nil {
			return "err"
		}
		bc, bi, sb, ri = c.BlockConfirmations, c.BlockInterval, c.StartBlock, int64(c.BlockRetryInterval)
	case "sub":
		c, err := substrate.NewSubstrateConfig(m)
		if err != nil {
			return "err"
		}
		bi, sb, ri = c.BlockInterval, c.StartBlock, int64(c.BlockRetryInterval)
	case "btc":
		m["username"], m["password"], m["feeAddress"] = "u", "p", "1A1zP1eP5QGefi2DMPTfTL5SLmv7DivfNa"
		c, err := btcConfig.NewBtcConfig(m)
		if err != nil {
			return "err"
		}
		bc, bi, sb, ri = c.BlockConfirmations, c.BlockInterval, c.StartBlock, int64(c.BlockRetryInterval)
	default:
		panic("kind")
	}
	start := func() (res string) {
		defer func() {
			if recover() != nil {
				res = "panic"
			}
		}()
		s, err := chains.CalculateStartingBlock(new(big.Int).Set(sb), bi)
		if err != nil {
			return "err"
		}
		return s.String()
	}()
	bcs := "_"
	if bc != nil {
		bcs = bc.String()
	}
	return "ok:" + bcs + ":" + bi.String() + ":" + sb.String() + ":" + strconv.FormatInt(ri, 10) + ":" + start
}

// chains on the wire: `;`-separated chains, each `,`-separated `key=value`; values: n<int> (Go int), f<int> (float64),
// s<text> (string, may be empty), t / b (true / false). "-" = no chains.
func c20ParseChains(s string) []map[string]interface{} {
	out := []map[string]interface{}{}
	for _, c := range items(s, ";") {
		m := map[string]interface{}{}
		for _, kv := range items(c, ",") {
			i := strings.Index(kv, "=")
			k, v := kv[:i], kv[i+1:]
			switch v[0] {
			case 'n':
				m[k] = int(i64(v[1:]))
			case 'f':
				x, err := strconv.ParseFloat(v[1:], 64)
				if err != nil {
					panic("bad float arg " + v)
				}
				m[k] = x
			case 's':
				m[k] = v[1:]
			case 't':
				m[k] = true
			case 'b':
				m[k] = false
			case 'l': // a list-valued setting, as JSON decoding yields it
				l := []interface{}{}
				if len(v) > 1 {
					for _, it := range strings.Split(v[1:], "|") {
						l = append(l, it)
					}
				}
				m[k] = l
			default:
				panic("value " + v)
			}
		}
		out = append(out, m)
	}
	return out
}

func c20ShowVal(v interface{}) string {
	switch x := v.(type) {
	case int:
		return "n" + strconv.Itoa(x)
	case float64:
		if x == float64(int64(x)) {
			return "n" + strconv.FormatInt(int64(x), 10)
		}
		return "r" + strconv.FormatFloat(x, 'g', -1, 64)
	case string:
		return "s" + x
	case bool:
		if x {
			return "t"
		}
		return "b"
	case []interface{}:
		its := []string{}
		for _, it := range x {
			its = append(its, fmt.Sprint(it))
		}
		return "l" + strings.Join(its, "|")
	}
	return fmt.Sprintf("?%T", v)
}

func c20ShowChains(cs []map[string]interface{}) string {
	out := []string{}
	for _, c := range cs {
		kv := []string{}
		for k, v := range c {
			kv = append(kv, k+"="+c20ShowVal(v))
		}
		sort.Strings(kv)
		out = append(out, joinOr(kv, ","))
	}
	return joinOr(out, ";")
}

func init() {
	ops["C20.portrange"] = func(a []string) string {
		lo, hi := i64(a[1]), i64(a[2])
		out := []string{}
		cur, start := "", lo
		for n := lo; n <= hi; n++ {
			c := c20PortClass(a[0], n)
			if c != cur {
				if cur != "" {
					out = append(out, fmt.Sprintf("%s:%d..%d", cur, start, n-1))
				}
				cur, start = c, n
			}
		}
		out = append(out, fmt.Sprintf("%s:%d..%d", cur, start, hi))
		return strings.Join(out, ";")
	}
	ops["C20.port"] = func(a []string) string {
		st := map[string]string{}
		if a[2] != "-" {
			st[a[0]] = a[2]
		}
		c, err := c20Load(a[1], st, nil, nil)
		if err != nil {
			return "err"
		}
		return "ok:" + utoa(uint64(c.RelayerConfig.HealthPort)) + ":" + utoa(uint64(c.RelayerConfig.MpcConfig.Port))
	}
	// porttext / portbase / portbasex <h|m> <d|f|e> <hex text>  => ok:<healthPort>:<mpcPort> | err   (any text as the port;
	// portbase = texts that base-0 parsing reads differently from decimal, judged strictly (KNOWN FINDING); portbasex = the
	// same texts with that point excused)
	portText := func(a []string) string {
		c, err := c20Load(a[1], map[string]string{a[0]: string(unhx(a[2]))}, nil, nil)
		if err != nil {
			return "err"
		}
		return "ok:" + utoa(uint64(c.RelayerConfig.HealthPort)) + ":" + utoa(uint64(c.RelayerConfig.MpcConfig.Port))
	}
	ops["C20.porttext"], ops["C20.portbase"], ops["C20.portbasex"] = portText, portText, portText
	ops["C20.chain"] = c20Chain
	// subnet / subnetwrap / subnetwrapx <i|f> <n>  => ok:<SubstrateNetwork loaded> | err
	subnet := func(a []string) string {
		c, err := substrate.NewSubstrateConfig(map[string]interface{}{"id": 1, "name": "c", "endpoint": "ws://e", "type": "substrate", "substrateNetwork": c20Num(a[1], a[0])})
		if err != nil {
			return "err"
		}
		return "ok:" + utoa(uint64(c.SubstrateNetwork))
	}
	ops["C20.subnet"], ops["C20.subnetwrap"], ops["C20.subnetwrapx"] = subnet, subnet, subnet
	// descevm <i|f> <maxGasPrice> <gasIncreasePercentage> <gasLimit> <transferGas> <startBlock> <blockConfirmations> <blockInterval> <blockRetryInterval>
	// descsub <i|f> <chainID> <startBlock> <blockInterval> <blockRetryInterval> <tip>
	//   => ok:<fields after load>|<after String()>|<after 2nd String()>|<after CalculateStartingBlock>|<t|f both descriptions equal> | err
	ops["C20.descevm"] = func(a []string) string { return c20Describe("evm", a) }
	ops["C20.descsub"] = func(a []string) string { return c20Describe("sub", a) }
	// general / generalbs / generalbsx <evm|sub|btc> <v|b> <fresh _|t|b> <latest _|t|b> <blockstorePath _|hex> <--fresh t|b> <--latest t|b> <--blockstore _|hex>
	//   => ok:<fresh>:<latest>:<blockstore hex> | err      (v = viper values set directly, b = config.BindFlags + a parsed command line)
	ops["C20.general"], ops["C20.generalbs"], ops["C20.generalbsx"] = c20General, c20General, c20General
	ops["C20.retrywrap"] = func(a []string) string { return c20Chain([]string{a[0], "f", "_", "_", "_", a[1]}) }
	mergeOp := func(a []string) string {
		local := c20ParseChains(a[1])
		shared := &config.Config{ChainConfigs: c20ParseChains(a[2])}
		c, err := c20Load(a[0], map[string]string{}, local, shared)
		if err != nil {
			return "err"
		}
		return c20ShowChains(c.ChainConfigs)
	}
	ops["C20.merge"], ops["C20.mergeclash"], ops["C20.mergeexc"] = mergeOp, mergeOp, mergeOp
	// str <field> <d|f|e> <hex value>  => ok:<hex of the loaded string> | err
	ops["C20.str"] = func(a []string) string {
		c, err := c20LoadStr(a[1], a[0], string(unhx(a[2])))
		if err != nil {
			return "err"
		}
		return "ok:" + hx([]byte(c20GetStr(c.RelayerConfig, a[0])))
	}
	// numstr <evm|sub|btc> <field> <hex text>  => ok:<decimal value loaded> | err   (the setting written as a JSON string)
	// numval / numvalx / numvalk <evm|sub|btc> <field> <i|f> <decimal text, up to 3 decimals>  => ok:<value loaded> | err
	// (the setting written as a JSON number; i = Go int, f = float64)
	numval := func(a []string) string {
		var v interface{}
		if a[2] == "i" {
			v = int(i64(a[3]))
		} else {
			x, err := strconv.ParseFloat(a[3], 64)
			if err != nil {
				panic("bad float " + a[3])
			}
			v = x
		}
		return c20NumVal(a[0], a[1], v)
	}
	ops["C20.numval"], ops["C20.numvalk"], ops["C20.numvalx"] = numval, numval, numval
	ops["C20.numstr"] = func(a []string) string { return c20NumStr(a[0], a[1], string(unhx(a[2]))) }
	// chainsenv / chainsfile <hex raw text>  => <ok:<number of chains>|err>/<oracle>
	// the raw text is the value of SYG_CHAINS resp. the `domains` member of the config file, well-formed or not.
	// oracle = what encoding/json says about that text: ok:<n> if it is a JSON list of objects (or null), err otherwise
	chainsRaw := func(loader string) Op {
		return func(a []string) string {
			raw := string(unhx(a[0]))
			oracle := "err"
			var probe []map[string]interface{}
			if err := json.Unmarshal([]byte(raw), &probe); err == nil {
				oracle = "ok:" + itoa(len(probe))
			}
			var c *config.Config
			var err error
			if loader == "e" {
				set := map[string]string{
					"SYG_RELAYER_MPCCONFIG_TOPOLOGYCONFIGURATION_ENCRYPTIONKEY": "k",
					"SYG_RELAYER_MPCCONFIG_TOPOLOGYCONFIGURATION_URL":           "u",
					"SYG_RELAYER_MPCCONFIG_TOPOLOGYCONFIGURATION_PATH":          "p",
					"SYG_CHAINS": raw,
				}
				for k, v := range set {
					os.Setenv(k, v)
				}
				defer func() {
					for k := range set {
						os.Unsetenv(k)
					}
				}()
				c, err = config.GetConfigFromENV(nil)
			} else {
				doc := `{"relayer":{"MpcConfig":{"TopologyConfiguration":{"EncryptionKey":"k","Url":"u","Path":"p"}}},"domains":` + raw + `}`
				fh, e := os.CreateTemp("", "verif-c20-*.json")
				if e != nil {
					panic(e)
				}
				defer os.Remove(fh.Name())
				fh.WriteString(doc)
				fh.Close()
				c, err = config.GetConfigFromFile(fh.Name(), nil)
			}
			if err != nil {
				return "err/" + oracle
			}
			return "ok:" + itoa(len(c.ChainConfigs)) + "/" + oracle
		}
	}
	ops["C20.chainsenv"], ops["C20.chainsfile"], ops["C20.chainsfilek"] = chainsRaw("e"), chainsRaw("f"), chainsRaw("f")
	ops["C20.dur"] = func(a []string) string {
		st := map[string]string{}
		if a[2] != "-" {
			st[a[0]] = string(unhx(a[2]))
		}
		c, err := c20Load(a[1], st, nil, nil)
		if err != nil {
			return "err"
		}
		rc := c.RelayerConfig
		d := map[string]int64{
			"comm": int64(rc.MpcConfig.CommHealthCheckInterval), "pingwait": int64(rc.BullyConfig.PingWaitTime),
			"pingbackoff": int64(rc.BullyConfig.PingBackOff), "pinginterval": int64(rc.BullyConfig.PingInterval),
			"election": int64(rc.BullyConfig.ElectionWaitTime), "bullywait": int64(rc.BullyConfig.BullyWaitTime),
		}[a[0]]
		return "ok:" + strconv.FormatInt(d, 10)
	}
	gens["C20"] = genC20
}

// ---- string-valued relayer settings: what is loaded must be exactly the string written

var c20StrFields = []string{"otel", "logfile", "env", "id", "keyshare", "frostkeyshare", "key", "enckey", "topourl", "topopath", "upurl", "uptoken"}

type c20StrInfo struct {
	env  string
	path []string // mapstructure path inside "relayer"
}

var c20StrTable = map[string]c20StrInfo{
	"otel":          {"SYG_RELAYER_OPENTELEMETRYCOLLECTORURL", []string{"OpenTelemetryCollectorURL"}},
	"logfile":       {"SYG_RELAYER_LOGFILE", []string{"LogFile"}},
	"env":           {"SYG_RELAYER_ENV", []string{"Env"}},
	"id":            {"SYG_RELAYER_ID", []string{"Id"}},
	"keyshare":      {"SYG_RELAYER_MPCCONFIG_KEYSHAREPATH", []string{"MpcConfig", "KeysharePath"}},
	"frostkeyshare": {"SYG_RELAYER_MPCCONFIG_FROSTKEYSHAREPATH", []string{"MpcConfig", "FrostKeysharePath"}},
	"key":           {"SYG_RELAYER_MPCCONFIG_KEY", []string{"MpcConfig", "Key"}},
	"enckey":        {"SYG_RELAYER_MPCCONFIG_TOPOLOGYCONFIGURATION_ENCRYPTIONKEY", []string{"MpcConfig", "TopologyConfiguration", "EncryptionKey"}},
	"topourl":       {"SYG_RELAYER_MPCCONFIG_TOPOLOGYCONFIGURATION_URL", []string{"MpcConfig", "TopologyConfiguration", "Url"}},
	"topopath":      {"SYG_RELAYER_MPCCONFIG_TOPOLOGYCONFIGURATION_PATH", []string{"MpcConfig", "TopologyConfiguration", "Path"}},
	"upurl":         {"SYG_RELAYER_UPLOADERCONFIG_URL", []string{"uploaderConfig", "url"}},
	"uptoken":       {"SYG_RELAYER_UPLOADERCONFIG_AUTHTOKEN", []string{"uploaderConfig", "authToken"}},
}

func c20GetStr(rc relayer.RelayerConfig, f string) string {
	switch f {
	case "otel":
		return rc.OpenTelemetryCollectorURL
	case "logfile":
		return rc.LogFile
	case "env":
		return rc.Env
	case "id":
		return rc.Id
	case "keyshare":
		return rc.MpcConfig.KeysharePath
	case "frostkeyshare":
		return rc.MpcConfig.FrostKeysharePath
	case "key":
		return rc.MpcConfig.Key
	case "enckey":
		return rc.MpcConfig.TopologyConfiguration.EncryptionKey
	case "topourl":
		return rc.MpcConfig.TopologyConfiguration.Url
	case "topopath":
		return rc.MpcConfig.TopologyConfiguration.Path
	case "upurl":
		return rc.UploaderConfig.URL
	case "uptoken":
		return rc.UploaderConfig.AuthToken
	}
	panic("field " + f)
}

func c20SetStrRaw(r *relayer.RawRelayerConfig, f, v string) {
	switch f {
	case "otel":
		r.OpenTelemetryCollectorURL = v
	case "logfile":
		r.LogFile = v
	case "env":
		r.Env = v
	case "id":
		r.Id = v
	case "keyshare":
		r.MpcConfig.KeysharePath = v
	case "frostkeyshare":
		r.MpcConfig.FrostKeysharePath = v
	case "key":
		r.MpcConfig.Key = v
	case "enckey":
		r.MpcConfig.TopologyConfiguration.EncryptionKey = v
	case "topourl":
		r.MpcConfig.TopologyConfiguration.Url = v
	case "topopath":
		r.MpcConfig.TopologyConfiguration.Path = v
	case "upurl":
		r.UploaderConfig.URL = v
	case "uptoken":
		r.UploaderConfig.AuthToken = v
	default:
		panic("field " + f)
	}
}

// c20LoadStr loads a relayer config in which exactly one string setting is written as v, through one loader.
func c20LoadStr(loader, f, v string) (*config.Config, error) {
	info := c20StrTable[f]
	switch loader {
	case "d":
		r := c20Raw()
		c20SetStrRaw(&r, f, v)
		return config.VerifProcessRawConfig(config.RawConfig{RelayerConfig: r}, nil)
	case "f":
		rel := map[string]interface{}{
			"MpcConfig": map[string]interface{}{"TopologyConfiguration": map[string]interface{}{"EncryptionKey": "k", "Url": "u", "Path": "p"}},
		}
		m := rel
		for _, seg := range info.path[:len(info.path)-1] {
			if _, ok := m[seg]; !ok {
				m[seg] = map[string]interface{}{}
			}
			m = m[seg].(map[string]interface{})
		}
		m[info.path[len(info.path)-1]] = v
		b, err := json.Marshal(map[string]interface{}{"relayer": rel})
		if err != nil {
			panic(err)
		}
		fh, err := os.CreateTemp("", "verif-c20-*.json")
		if err != nil {
			panic(err)
		}
		defer os.Remove(fh.Name())
		fh.Write(b)
		fh.Close()
		return config.GetConfigFromFile(fh.Name(), nil)
	case "e":
		set := map[string]string{
			"SYG_RELAYER_MPCCONFIG_TOPOLOGYCONFIGURATION_ENCRYPTIONKEY": "k",
			"SYG_RELAYER_MPCCONFIG_TOPOLOGYCONFIGURATION_URL":           "u",
			"SYG_RELAYER_MPCCONFIG_TOPOLOGYCONFIGURATION_PATH":          "p",
		}
		set[info.env] = v
		for k, x := range set {
			if err := os.Setenv(k, x); err != nil {
				panic(err)
			}
		}
		defer func() {
			for k := range set {
				os.Unsetenv(k)
			}
		}()
		return config.GetConfigFromENV(nil)
	}
	panic("loader " + loader)
}

// ---- numeric settings of the chain configs given as STRINGS

var c20NumFields = map[string][]string{
	"evm": {"maxGasPrice", "gasMultiplier", "gasIncreasePercentage", "gasLimit", "transferGas", "startBlock", "blockConfirmations", "blockInterval", "blockRetryInterval"},
	"sub": {"chainID", "startBlock", "blockInterval", "blockRetryInterval", "substrateNetwork", "tip"},
	"btc": {"startBlock", "blockInterval", "blockRetryInterval", "blockConfirmations", "feeAmount"},
}

const c20BtcAddr = "1A1zP1eP5QGefi2DMPTfTL5SLmv7DivfNa"

func c20NumStr(kind, field, val string) string { return c20NumVal(kind, field, val) }

// c20NumVal loads a chain config of `kind` in which `field` is written as val (a string, a Go int or a float64) and
// prints the loaded value of that field.
func c20NumVal(kind, field string, val interface{}) string {
	m := map[string]interface{}{"id": 1, "name": "c", "endpoint": "ws://e", "type": kind}
	if field != "feeAmount" {
		m[field] = val
	}
	switch kind {
	case "evm":
		m["bridge"] = "0xb"
		c, err := evm.NewEVMConfig(m)
		if err != nil {
			return "err"
		}
		switch field {
		case "id":
			return "ok:" + utoa(uint64(*c.GeneralChainConfig.Id))
		case "maxGasPrice":
			return "ok:" + c.MaxGasPrice.String()
		case "gasMultiplier":
			return "ok:" + c.GasMultiplier.Text('f', -1)
		case "gasIncreasePercentage":
			return "ok:" + c.GasIncreasePercentage.String()
		case "gasLimit":
			return "ok:" + c.GasLimit.String()
		case "transferGas":
			return "ok:" + utoa(c.TransferGas)
		case "startBlock":
			return "ok:" + c.StartBlock.String()
		case "blockConfirmations":
			return "ok:" + c.BlockConfirmations.String()
		case "blockInterval":
			return "ok:" + c.BlockInterval.String()
		case "blockRetryInterval":
			return "ok:" + strconv.FormatInt(int64(c.BlockRetryInterval), 10)
		}
	case "sub":
		c, err := substrate.NewSubstrateConfig(m)
		if err != nil {
			return "err"
		}
		switch field {
		case "id":
			return "ok:" + utoa(uint64(*c.GeneralChainConfig.Id))
		case "chainID":
			return "ok:" + c.ChainID.String()
		case "startBlock":
			return "ok:" + c.StartBlock.String()
		case "blockInterval":
			return "ok:" + c.BlockInterval.String()
		case "blockRetryInterval":
			return "ok:" + strconv.FormatInt(int64(c.BlockRetryInterval), 10)
		case "substrateNetwork":
			return "ok:" + utoa(uint64(c.SubstrateNetwork))
		case "tip":
			return "ok:" + utoa(c.Tip)
		}
	case "btc":
		m["username"], m["password"], m["feeAddress"] = "u", "p", c20BtcAddr
		if field == "feeAmount" {
			m["resources"] = []interface{}{map[string]interface{}{
				"address": c20BtcAddr, "resourceID": "0x0000000000000000000000000000000000000000000000000000000000000300",
				"feeAmount": val.(string), "tweak": "t", "script": "51",
			}}
		}
		c, err := btcConfig.NewBtcConfig(m)
		if err != nil {
			return "err"
		}
		switch field {
		case "id":
			return "ok:" + utoa(uint64(*c.GeneralChainConfig.Id))
		case "feeAmount":
			if len(c.Resources) != 1 {
				return "ok:noresource"
			}
			return "ok:" + c.Resources[0].FeeAmount.String()
		case "startBlock":
			return "ok:" + c.StartBlock.String()
		case "blockInterval":
			return "ok:" + c.BlockInterval.String()
		case "blockRetryInterval":
			return "ok:" + strconv.FormatInt(int64(c.BlockRetryInterval), 10)
		case "blockConfirmations":
			return "ok:" + c.BlockConfirmations.String()
		}
	}
	panic("numstr " + kind + " " + field)
}

// ---- describing a loaded chain config (String()), then reading every numeric field again

const c20EvmKey = "4c0883a69102937d6231471b5dbb6204fe5129617082792ae468d01a3f362318"

func c20Ints(xs ...interface{}) string {
	out := []string{}
	for _, x := range xs {
		switch v := x.(type) {
		case *big.Int:
			out = append(out, v.String())
		case uint64:
			out = append(out, utoa(v))
		case int64:
			out = append(out, strconv.FormatInt(v, 10))
		default:
			panic("c20Ints")
		}
	}
	return strings.Join(out, ",")
}

// c20Describe: load, snapshot, String(), snapshot, String(), snapshot, CalculateStartingBlock on a copy, snapshot.
func c20Describe(kind string, a []string) string {
	repr := a[0]
	m := map[string]interface{}{"id": c20Num("1", repr), "name": "c", "endpoint": "ws://e", "type": kind}
	set := func(keys []string) {
		for i, k := range keys {
			if a[1+i] != "_" {
				m[k] = c20Num(a[1+i], repr)
			}
		}
	}
	var snap func() string
	var str func() string
	var sb, bi *big.Int
	switch kind {
	case "evm":
		set([]string{"maxGasPrice", "gasIncreasePercentage", "gasLimit", "transferGas", "startBlock", "blockConfirmations", "blockInterval", "blockRetryInterval"})
		m["bridge"], m["key"] = "0xb", c20EvmKey
		c, err := evm.NewEVMConfig(m)
		if err != nil {
			return "err"
		}
		snap = func() string {
			return c20Ints(c.MaxGasPrice, c.GasIncreasePercentage, c.GasLimit, c.TransferGas, c.StartBlock, c.BlockConfirmations, c.BlockInterval, int64(c.BlockRetryInterval))
		}
		str, sb, bi = c.String, c.StartBlock, c.BlockInterval
	case "sub":
		set([]string{"chainID", "startBlock", "blockInterval", "blockRetryInterval", "tip"})
		m["key"] = "//Alice"
		c, err := substrate.NewSubstrateConfig(m)
		if err != nil {
			return "err"
		}
		snap = func() string { return c20Ints(c.ChainID, c.StartBlock, c.BlockInterval, int64(c.BlockRetryInterval), c.Tip) }
		str, sb, bi = c.String, c.StartBlock, c.BlockInterval
	default:
		panic("kind")
	}
	s0 := snap()
	d1 := str()
	s1 := snap()
	d2 := str()
	s2 := snap()
	func() {
		defer func() { recover() }()
		_, _ = chains.CalculateStartingBlock(new(big.Int).Set(sb), bi)
	}()
	s3 := snap()
	same := "t"
	if d1 != d2 {
		same = "f"
	}
	return "ok:" + s0 + "|" + s1 + "|" + s2 + "|" + s3 + "|" + same
}

// ---- general chain settings and the command-line flags that may override them

func c20General(a []string) string {
	kind, mode := a[0], a[1]
	m := map[string]interface{}{"id": 1, "name": "c", "endpoint": "ws://e", "type": kind}
	tb := func(s string) bool { return s == "t" }
	if a[2] != "_" {
		m["fresh"] = tb(a[2])
	}
	if a[3] != "_" {
		m["latest"] = tb(a[3])
	}
	if a[4] != "_" {
		m["blockstorePath"] = string(unhx(a[4]))
	}
	defer viper.Reset()
	switch mode {
	case "v": // the flags' values as viper reports them, nothing bound
		if tb(a[5]) {
			viper.Set(config.FreshStartFlagName, true)
		}
		if tb(a[6]) {
			viper.Set(config.LatestBlockFlagName, true)
		}
		if a[7] != "_" {
			viper.Set(config.BlockstoreFlagName, string(unhx(a[7])))
		}
	case "b": // the real wiring: cobra flags bound by config.BindFlags, then a command line
		cmd := &cobra.Command{Use: "relayer"}
		config.BindFlags(cmd)
		args := []string{}
		if tb(a[5]) {
			args = append(args, "--"+config.FreshStartFlagName)
		}
		if tb(a[6]) {
			args = append(args, "--"+config.LatestBlockFlagName)
		}
		if a[7] != "_" {
			args = append(args, "--"+config.BlockstoreFlagName+"="+string(unhx(a[7])))
		}
		if err := cmd.ParseFlags(args); err != nil {
			panic(err)
		}
	default:
		panic("mode")
	}
	var gc interface {
	}
	_ = gc
	var fresh, latest bool
	var bs string
	switch kind {
	case "evm":
		m["bridge"] = "0xb"
		c, err := evm.NewEVMConfig(m)
		if err != nil {
			return "err"
		}
		fresh, latest, bs = c.GeneralChainConfig.FreshStart, c.GeneralChainConfig.LatestBlock, c.GeneralChainConfig.BlockstorePath
	case "sub":
		c, err := substrate.NewSubstrateConfig(m)
		if err != nil {
			return "err"
		}
		fresh, latest, bs = c.GeneralChainConfig.FreshStart, c.GeneralChainConfig.LatestBlock, c.GeneralChainConfig.BlockstorePath
	case "btc":
		m["username"], m["password"], m["feeAddress"] = "u", "p", c20BtcAddr
		c, err := btcConfig.NewBtcConfig(m)
		if err != nil {
			return "err"
		}
		fresh, latest, bs = c.GeneralChainConfig.FreshStart, c.GeneralChainConfig.LatestBlock, c.GeneralChainConfig.BlockstorePath
	default:
		panic("kind")
	}
	b := func(x bool) string {
		if x {
			return "t"
		}
		return "b"
	}
	return "ok:" + b(fresh) + ":" + b(latest) + ":" + hx([]byte(bs))
}

func c20IdNum(v interface{}) (float64, bool) {
	switch x := v.(type) {
	case int:
		return float64(x), true
	case float64:
		return x, true
	}
	return 0, false
}

func c20IsEmpty(v interface{}) bool {
	switch x := v.(type) {
	case int:
		return x == 0
	case float64:
		return x == 0
	case string:
		return x == ""
	case bool:
		return !x
	case []interface{}:
		return len(x) == 0
	}
	return false
}

// c20HasClash: does some local entry hold an empty value where its shared partner (first entry of numerically equal
// id) has a visibly different one? Purely syntactic routing of generated inputs; the Lean driver re-derives it.
func c20HasClash(loc, sh string) bool {
	shared := c20ParseChains(sh)
	for _, l := range c20ParseChains(loc) {
		lid, ok := c20IdNum(l["id"])
		if !ok {
			continue
		}
		for _, s := range shared {
			sid, ok := c20IdNum(s["id"])
			if !ok || sid != lid {
				continue
			}
			for k, v := range l {
				if sv, has := s[k]; has && c20IsEmpty(v) && c20ShowVal(sv) != c20ShowVal(v) {
					return true
				}
			}
			break
		}
	}
	return false
}

// c20EmitMerge routes one merge input to `merge` or to the pair `mergeclash` + `mergeexc`.
func c20EmitMerge(g *G, loader, loc, sh string) {
	if c20HasClash(loc, sh) {
		g.Emit("mergeclash", loader, loc, sh)
		g.Emit("mergeexc", loader, loc, sh)
		return
	}
	g.Emit("merge", loader, loc, sh)
}

func genC20(g *G) {
	// --- ports: every integer in the range that matters, through the relayer parser
	for _, w := range []string{"h", "m"} {
		g.Emit("portrange", w, "-70000", "70000")
	}
	// --- ports through the three real loaders at the boundaries
	bounds := []string{"-9223372036854775808", "-65537", "-65536", "-65535", "-32769", "-32768", "-32767", "-2", "-1", "0", "1", "2", "80",
		"1023", "1024", "9000", "32766", "32767", "32768", "32769", "40000", "65534", "65535", "65536", "65537", "70000", "2147483647",
		"2147483648", "4294967296", "9223372036854775807", "9223372036854775808", "18446744073709551616", "-"}
	malformed := []string{"abc", "80.0", "1e3", "0x", "9O", "--1", "+-1", "1,0"}
	for _, w := range []string{"h", "m"} {
		for _, l := range []string{"d", "f", "e"} {
			for _, b := range bounds {
				g.Emit("port", w, l, b)
			}
			for _, b := range malformed {
				g.Emit("port", w, l, b)
			}
		}
	}
	for i := 0; i < g.Count(300, 6000); i++ {
		n := int64(g.Intn(140001)) - 70000
		if g.Intn(4) == 0 {
			n = []int64{0, 32768, 65536, -32768, -65536}[g.Intn(5)] + int64(g.Intn(5)) - 2
		}
		g.Emit("port", g.Pick([]string{"h", "m"}), g.Pick([]string{"d", "f", "e"}), strconv.FormatInt(n, 10))
	}
	// --- chain settings: exhaustive grid over written / unwritten boundary values
	bcs := []string{"_", "-1", "0", "1", "2", "10"}
	bis := []string{"_", "-5", "-1", "0", "1", "2", "5", "7"}
	sbs := []string{"_", "-3", "0", "1", "17", "1000"}
	ris := []string{"_", "-1", "0", "1", "7"}
	for _, k := range []string{"evm", "sub", "btc"} {
		for _, r := range []string{"i", "f"} {
			for _, bc := range bcs {
				for _, bi := range bis {
					for _, sb := range sbs {
						for _, ri := range ris {
							g.Emit("chain", k, r, bc, bi, sb, ri)
						}
					}
				}
			}
		}
	}
	rnd := func(lo, hi int64) string { // boundary-biased integer, `_` sometimes
		switch g.Intn(8) {
		case 0:
			return "_"
		case 1:
			return strconv.FormatInt(lo+int64(g.Intn(3)), 10)
		case 2:
			return strconv.FormatInt(hi-int64(g.Intn(3)), 10)
		case 3:
			return strconv.FormatInt(int64(g.Intn(5))-2, 10)
		}
		return strconv.FormatInt(lo+int64(g.U64()%uint64(hi-lo+1)), 10)
	}
	const p53 = int64(1) << 53
	for i := 0; i < g.Count(2000, 150000); i++ {
		g.Emit("chain", g.Pick([]string{"evm", "sub", "btc"}), g.Pick([]string{"i", "f"}),
			rnd(-1000, 100000), rnd(-1000, 100000), rnd(-p53, p53), rnd(-5, 9223372036))
	}
	// known finding: a retry interval that does not fit a time.Duration
	for _, k := range []string{"evm", "sub", "btc"} {
		for _, ri := range []string{"9223372037", "9223372038", "10000000000", "1099511627776"} {
			g.Emit("retrywrap", k, ri)
		}
	}
	// --- merge: one key, every local x shared value pattern, through every loader
	lv := []string{"", "n0", "n5", "s", "sx", "t", "b", "l", "lh1", "lh1|h2"}
	sv := []string{"", "n0", "n7", "sx", "sy", "b", "t", "f5", "l", "lh1", "lh3", "lh3|h4"}
	kv := func(k, v string) string {
		if v == "" {
			return ""
		}
		return "," + k + "=" + v
	}
	for _, l := range []string{"d", "f", "e"} {
		for _, a := range lv {
			for _, b := range sv {
				c20EmitMerge(g, l, "id=n1,type=sevm"+kv("k", a), "id="+g.Pick([]string{"n1", "f1"})+kv("k", b))
			}
		}
	}
	// id / type corner cases and multi-chain lookups
	for _, l := range []string{"d", "f", "e"} {
		for _, c := range [][2]string{
			{"id=n0,type=sevm,k=n5", "id=n0,k=n7"}, {"id=f0,type=sevm,k=n5", "id=n0,k=n7"}, {"type=sevm,k=n5", "id=n1"},
			{"id=n1,k=n5", "id=n1,type=sevm"}, {"id=n1,type=s,k=n5", "id=n1,type=sevm"}, {"id=s1,type=sevm", "id=s1"},
			{"id=n3,type=sevm", "id=n1;id=n2"}, {"id=n2,type=sx,k=n5;id=n1,type=sy", "id=n1,k=n7;id=f2,k=n8;id=n2,k=n9"},
			{"-", "id=n1"}, {"id=n1,type=sevm", "-"}, {"id=t,type=sevm", "id=t"},
		} {
			c20EmitMerge(g, l, c[0], c[1])
		}
	}
	// ids: int | float64, fractional / negative / large / float-equal-to-int, on both sides, through every loader.
	// A local entry may only be merged with a shared entry of numerically EQUAL id; otherwise loading must fail.
	lids := []string{"n1", "n2", "f2", "f2.5", "f2.001", "f1.75", "f3.25", "f3.999", "n-2", "f-2", "f-2.5", "f0.5", "f-0.5", "f0", "n0",
		"n4294967296", "f4294967296", "f4294967296.5", "n9007199254740992", "f9007199254740992", "n255", "f255.5", "n256", "f256"}
	shs := [][]string{{"n1", "n2", "n3"}, {"f1", "f2", "f3"}, {"f2.5", "n2"}, {"n2", "f2.5"}, {"n-2", "f-2.5"}, {"f3.25", "n3", "f1.75", "n1"},
		{"n4294967296", "f9007199254740992"}, {"f4294967296", "n9007199254740992"}, {"f0.5", "n0"}, {"n255", "n256", "n0"}, {}}
	for _, l := range []string{"d", "f", "e"} {
		for _, lid := range lids {
			for _, ss := range shs {
				sh := []string{}
				for _, sid := range ss {
					sh = append(sh, "id="+sid+",bridge=sbridge"+strings.NewReplacer(".", "_", "-", "m").Replace(sid)+",gas=n7")
				}
				c20EmitMerge(g, l, "id="+lid+",type=sevm,gas=n5", joinOr(sh, ";"))
			}
		}
		// two local entries: one legitimate, one fractional neighbour of the same domain
		c20EmitMerge(g, l, "id=n2,type=sevm;id=f2.5,type=sevm", "id=n2,bridge=sb2;id=n3,bridge=sb3")
		c20EmitMerge(g, l, "id=f2.5,type=sevm;id=n2,type=sevm", "id=f2,bridge=sb2;id=f3,bridge=sb3")
		c20EmitMerge(g, l, "id=f2.5,type=sevm;id=f2.5,type=ssubstrate", "id=f2.5,bridge=sb25")
	}
	keys := []string{"a", "b", "c", "d", "e"}
	for i := 0; i < g.Count(1200, 40000); i++ {
		withEmpty := g.Intn(4) == 0
		nl := 1 + g.Intn(3)
		ids := []int{1, 2, 3, 4}
		loc, sh := []string{}, []string{}
		for j := 0; j < nl; j++ {
			lid := "n" + itoa(ids[j])
			switch g.Intn(8) {
			case 0:
				lid = "f" + itoa(ids[j]) + g.Pick([]string{".5", ".25", ".75", ".125", ".001", ".999"})
			case 1:
				lid = "f" + itoa(ids[j])
			case 2:
				lid = g.Pick([]string{"n-", "f-"}) + itoa(ids[j])
			}
			c := "id=" + lid + ",type=s" + g.Pick([]string{"evm", "substrate", "btc"})
			for _, k := range keys {
				if g.Intn(2) == 0 {
					vals := []string{"n5", "n6", "sx", "sy", "t", "n-3", "lh1", "lh1|h2"}
					if withEmpty {
						vals = append(vals, "n0", "s", "b", "l")
					}
					c += "," + k + "=" + g.Pick(vals)
				}
			}
			loc = append(loc, c)
		}
		ns := nl + g.Intn(2)
		if g.Intn(10) == 0 {
			ns = nl - 1 // a local chain without shared entry -> error
		}
		order := []int{0, 1, 2, 3}
		for j := 3; j > 0; j-- {
			k := g.Intn(j + 1)
			order[j], order[k] = order[k], order[j]
		}
		for _, j := range order {
			if j >= ns {
				continue
			}
			c := "id=" + g.Pick([]string{"n", "f"}) + itoa(ids[j])
			switch g.Intn(10) {
			case 0:
				c += g.Pick([]string{".5", ".25", ".75"}) // only after the "f" form below
				c = strings.Replace(c, "id=n", "id=f", 1)
			case 1:
				c = "id=" + g.Pick([]string{"n-", "f-"}) + itoa(ids[j])
			}
			for _, k := range keys {
				if g.Intn(2) == 0 {
					c += "," + k + "=" + g.Pick([]string{"n0", "n5", "n7", "s", "sx", "sz", "t", "b", "lh3", "lh3|h4", "l"})
				}
			}
			sh = append(sh, c)
		}
		c20EmitMerge(g, g.Pick([]string{"d", "f", "e"}), joinOr(loc, ";"), joinOr(sh, ";"))
	}
	// --- durations: integer terms at the unit boundaries, through every loader
	hs := func(t string) string { return hx([]byte(t)) }
	durs := []string{"0", "+0", "-0", "1ns", "1us", "1µs", "1μs", "1ms", "1s", "1m", "1h", "5m", "1h30m", "2h45m30s", "90m", "0s", "00s", "007s",
		"1s1s", "1ns1h", "-5s", "+5s", "-1h30m", "9223372036s", "9223372037s", "-9223372036s", "2562047h", "2562048h", "153722867m", "153722868m",
		"9223372036854775807ns", "9223372036854775808ns", "-9223372036854775808ns", "-9223372036854775809ns", "9223372036854775809ns",
		"9223372036854775808ns9223372036854775808ns", "99999999999999999999s", "2562047h47m16s854ms775us807ns", "2562047h47m16s854ms775us808ns",
		"5", "s", "1d", "1 s", "1S", "h1", "--1s", "1s-", "1ss"}
	for _, f := range c20DurFields {
		for _, l := range []string{"d", "f", "e"} {
			g.Emit("dur", f, l, "-")
		}
	}
	for i, d := range durs {
		for _, l := range []string{"d", "f", "e"} {
			g.Emit("dur", c20DurFields[i%len(c20DurFields)], l, hs(d))
		}
	}
	units := []string{"ns", "us", "µs", "ms", "s", "m", "h"}
	for i := 0; i < g.Count(600, 30000); i++ {
		t := g.Pick([]string{"", "", "-", "+"})
		for j := 0; j <= g.Intn(3); j++ {
			v := uint64(g.Intn(1000))
			switch g.Intn(6) {
			case 0:
				v = g.U64() >> uint(g.Intn(64))
			case 1:
				v = []uint64{9223372036854775807, 9223372036, 153722867, 2562047, 9223372036854}[g.Intn(5)] + uint64(g.Intn(3))
			}
			t += utoa(v) + g.Pick(units)
		}
		g.Emit("dur", g.Pick(c20DurFields), g.Pick([]string{"d", "f", "e"}), hs(t))
	}
	// --- string settings: the loaded string must be exactly the string written, through every loader
	long := strings.Repeat("k3y=", 1500)
	svals := []string{"", "plain", "abcQ==", "Zm9vYmFy=", "=", "==", "=lead", "trail=", "a=b=c", "http://host:8080/path?env=test&v=2", "a:b", "a,b,c", "a b", " lead",
		"trail ", "  both  ", "\ttab\t", "line\nbreak", "a\"b", "it's", "#hash", "a#b", "ключ=значення", "日本語", "é", "a\\b", "{\"a\":1}", "[1,2]",
		"SYG_RELAYER_ID=x", "$HOME", "%s%d", "<&>", "null", "true", "0", "0x10", "-", "--", "_", "a_b", long, long + "="}
	for _, f := range c20StrFields {
		for _, l := range []string{"d", "f", "e"} {
			for _, v := range svals {
				g.Emit("str", f, l, hs(v))
			}
		}
	}
	frag := []string{"=", "==", ":", ",", " ", "\"", "'", "#", "é", "ж", "a", "Z", "0", "/", "?", "&", "\\", "\t", "_", "-", "SYG", "{", "}"}
	for i := 0; i < g.Count(400, 20000); i++ {
		v := ""
		for j := 0; j <= g.Intn(8); j++ {
			v += g.Pick(frag)
		}
		g.Emit("str", g.Pick(c20StrFields), g.Pick([]string{"d", "f", "e"}), hs(v))
	}
	// --- numeric settings written as STRINGS: decimal value or failure, never another base
	nvals := []string{"", "0", "00", "5", "100", "0100000", "010", "017", "08", "0777", "0x10", "0X10", "0b11", "0B11", "0o17", "0O17", "1_000", "0_8", "_1",
		"+5", "-5", "+0", "-0", "+010", "-010", "+-5", "1e3", "1E3", "1e+3", "5.0", "5.", ".5", " 5", "5 ", " 5 ", "\t5", "5\n", "٣", "５", "0x", "x10", "1,000",
		"250000", "15000000", "500000000000", "18446744073709551615", "18446744073709551616", "99999999999999999999999999", "-99999999999999999999999999",
		"NaN", "Inf", "true", "null"}
	for _, k := range []string{"evm", "sub", "btc"} {
		for _, f := range c20NumFields[k] {
			for _, v := range nvals {
				g.Emit("numstr", k, f, hs(v))
			}
		}
	}
	for i := 0; i < g.Count(300, 20000); i++ {
		v := g.Pick([]string{"", "", "+", "-", "0", "00", "0x", "0b", "0o"})
		for j := 0; j <= g.Intn(7); j++ {
			v += g.Pick([]string{"0", "1", "7", "8", "9", "0", "1", "7", "_", "e", " "}[:8+g.Intn(4)])
		}
		g.Emit("numstr", "btc", "feeAmount", hs(v))
	}
	// --- port TEXTS (the setting is a string): plain decimals strictly; anything base-0 parsing may read differently
	// (leading zeros, 0x / 0b / 0o, underscores, signs, blanks, exponents) as the pair portbase (known finding) + portbasex
	ptexts := []string{"0", "1", "80", "8080", "65535", "65536", "99999", "00", "007", "010", "017", "0100000", "08080", "0777", "0177777", "0200000",
		"0x50", "0X50", "0x1F90", "0xffff", "0x10000", "0x", "0b11", "0B1111111111111111", "0b10000000000000000", "0b2", "0o17", "0O177777", "0o200000", "0o8",
		"1_000", "6_5_5_3_5", "1__0", "_1", "1_", "0_17", "0_8", "0x_1", "0x1_", "0b_1_0", "+5", "-5", "+0x10", " 80", "80 ", "8 0", "1e3", "80.0", "٨٠", "８０",
		"0x1_0000", "00000000000000000000080", "000000000000000000000010"}
	emitPort := func(w, l, t string) {
		plain := t != "" && (t[0] != '0' || len(t) == 1)
		for _, c := range []byte(t) {
			if c < '0' || c > '9' {
				plain = false
			}
		}
		if plain {
			g.Emit("porttext", w, l, hs(t))
			return
		}
		g.Emit("portbase", w, l, hs(t))
		g.Emit("portbasex", w, l, hs(t))
	}
	for _, w := range []string{"h", "m"} {
		for _, l := range []string{"d", "f", "e"} {
			for _, t := range ptexts {
				emitPort(w, l, t)
			}
		}
	}
	for i := 0; i < g.Count(500, 30000); i++ {
		t := g.Pick([]string{"", "", "0", "00", "0x", "0X", "0b", "0o", "+", "-"})
		for j := 0; j <= g.Intn(6); j++ {
			t += g.Pick([]string{"0", "1", "7", "8", "9", "5", "f", "F", "_", "a", "x", " "}[:6+g.Intn(7)])
		}
		emitPort(g.Pick([]string{"h", "m"}), g.Pick([]string{"d", "f", "e"}), t)
	}
	// --- describe (String()) a loaded config, then read every numeric field again; all written / unwritten patterns of a value set
	dv := [][]string{{"_", "20000000000", "1", "999999999", "1000000000", "-7"}, {"_", "20", "0"}, {"_", "1000", "0"}, {"_", "300000", "0", "-1"},
		{"_", "17", "1000000007"}, {"_", "3", "0"}, {"_", "2", "7"}, {"_", "7", "0"}}
	for _, r := range []string{"i", "f"} {
		for i, vals := range dv { // one field at a time over its values, the others unwritten
			for _, v := range vals {
				a := []string{r, "_", "_", "_", "_", "_", "_", "_", "_"}
				a[1+i] = v
				g.Emit("descevm", a...)
			}
		}
	}
	for i := 0; i < g.Count(400, 20000); i++ {
		a := []string{g.Pick([]string{"i", "f"})}
		for _, vals := range dv {
			a = append(a, g.Pick(vals))
		}
		if g.Intn(3) == 0 {
			a[1] = strconv.FormatInt(int64(g.U64()%uint64(1<<53)), 10)
		}
		g.Emit("descevm", a...)
	}
	sv2 := [][]string{{"_", "5", "-5", "1000000000000"}, {"_", "17", "1000000007"}, {"_", "2", "7", "0"}, {"_", "7", "0"}, {"_", "9", "0", "-1", "1000000000"}}
	for i := 0; i < g.Count(200, 8000); i++ {
		a := []string{g.Pick([]string{"i", "f"})}
		for _, vals := range sv2 {
			a = append(a, g.Pick(vals))
		}
		g.Emit("descsub", a...)
	}
	// --- general settings x flags: every combination, all chain kinds, both ways of providing the flags
	tri := []string{"_", "t", "b"}
	bsv := []string{"_", hs("/data/chain1"), hs("")}
	fbs := []string{"_", hs("/flag/store")}
	for _, k := range []string{"evm", "sub", "btc"} {
		for _, mode := range []string{"v", "b"} {
			for _, f := range tri {
				for _, l := range tri {
					for _, b := range bsv {
						for _, ff := range []string{"b", "t"} {
							for _, fl := range []string{"b", "t"} {
								for _, fb := range fbs {
									// with the real flag wiring an unset --blockstore still reports its default ./lvldbdata, which
									// replaces a written per-chain blockstorePath: known finding, run strictly and excused
									if mode == "b" && fb == "_" && b != "_" && b != hs("") {
										g.Emit("generalbs", k, mode, f, l, b, ff, fl, fb)
										g.Emit("generalbsx", k, mode, f, l, b, ff, fl, fb)
									} else {
										g.Emit("general", k, mode, f, l, b, ff, fl, fb)
									}
								}
							}
						}
					}
				}
			}
		}
	}
	// --- substrateNetwork (int64 setting stored as uint16): in range strictly; outside as known finding + excused twin
	for _, r := range []string{"i", "f"} {
		for _, n := range []int64{0, 1, 42, 255, 256, 32767, 32768, 65534, 65535} {
			g.Emit("subnet", r, strconv.FormatInt(n, 10))
		}
		for _, n := range []int64{-1, -2, -32768, -65535, -65536, 65536, 65537, 65578, 131072, 1 << 31, 1 << 32, 1<<53 - 1, -(1 << 40)} {
			g.Emit("subnetwrap", r, strconv.FormatInt(n, 10))
			g.Emit("subnetwrapx", r, strconv.FormatInt(n, 10))
		}
	}
	for i := 0; i < g.Count(100, 5000); i++ {
		g.Emit("subnet", g.Pick([]string{"i", "f"}), itoa(g.Intn(65536)))
	}
	// --- numeric settings written as JSON numbers: integers of both representations strictly; fractional values into integer
	// fields and domain ids above 255 as known findings (numvalk) with their excused twins (numvalx)
	nf := map[string][]string{
		"evm": {"id", "maxGasPrice", "gasMultiplier", "gasIncreasePercentage", "gasLimit", "transferGas", "startBlock", "blockConfirmations", "blockInterval", "blockRetryInterval"},
		"sub": {"id", "chainID", "startBlock", "blockInterval", "blockRetryInterval", "tip"},
		"btc": {"id", "startBlock", "blockInterval", "blockRetryInterval", "blockConfirmations"},
	}
	emitNum := func(k, f, r, t string) {
		ip := t
		if i := strings.Index(t, "."); i >= 0 {
			ip = t[:i]
		}
		n, _ := strconv.ParseInt(ip, 10, 64)
		frac := strings.Contains(t, ".")
		if (frac && f != "gasMultiplier") || (f == "id" && n > 255) {
			g.Emit("numvalk", k, f, r, t)
			g.Emit("numvalx", k, f, r, t)
			return
		}
		g.Emit("numval", k, f, r, t)
	}
	ints := []string{"0", "1", "2", "7", "127", "128", "254", "255", "256", "257", "300", "511", "512", "65535", "65536", "1000000007", "-1", "-2", "-256", "9007199254740992"}
	fracs := []string{"0.5", "0.9", "0.999", "1.5", "1.999", "2.7", "2.001", "255.5", "256.5", "257.25", "-0.5", "-0.999", "-1.5", "-2.7", "1000000.125"}
	for _, k := range []string{"evm", "sub", "btc"} {
		for _, f := range nf[k] {
			for _, t := range ints {
				if f == "blockRetryInterval" && len(t) > 9 {
					continue // seconds -> nanoseconds must fit (the wrap is the finding of `retrywrap`)
				}
				emitNum(k, f, "i", t)
				emitNum(k, f, "f", t)
			}
			for _, t := range fracs {
				emitNum(k, f, "f", t)
			}
		}
	}
	for i := 0; i < g.Count(300, 20000); i++ {
		k := g.Pick([]string{"evm", "sub", "btc"})
		f := g.Pick(nf[k])
		t := strconv.FormatInt(int64(g.Intn(2000))-600, 10)
		r := g.Pick([]string{"i", "f"})
		if r == "f" && g.Intn(2) == 0 {
			t = strings.TrimPrefix(t, "-") // keep "-0.x" out: the sign of a zero integer part is written explicitly below
			t = g.Pick([]string{"", "-"}) + t + g.Pick([]string{".5", ".25", ".125", ".75", ".001", ".999"})
		}
		emitNum(k, f, r, t)
	}
	// --- the chain list as raw text (SYG_CHAINS / the file's `domains`): a malformed list must fail the load, a well-formed
	// one must load with all its entries
	raws := []string{`[]`, `[{}]`, `[{"id":1,"type":"evm"}]`, `[{"id":1},{"id":2,"type":"btc"}]`, ` [ {"id":1} ] `, `null`,
		`[{"id":1},]`, `[{"id":1}`, `[{"id":1`, `{"id":1}`, `[1,2]`, `["a"]`, `[[{"id":1}]]`, `[{"id":1}]]`, `[{"id":1}] x`, `[{"id":1,}]`, `[{id:1}]`,
		`[{'id':1}]`, `"[]"`, `1`, `true`, `[`, `]`, `{`, `x`, `[{"id":1} {"id":2}]`, `[{"id":01}]`, `[{"id":1e}]`, `[{"id":NaN}]`, `[null]`, `[{"a":[1,2,{"b":null}]}]`,
		`[{"id":1,"id":2}]`, "[{\"id\":1}]\n", "\ufeff[]", `[{"id":"\ud800"}]`, `[{"k":"v\"]`}
	// viper decodes the file with weakly typed input: a single OBJECT (or a list of one-element lists) where the list of
	// chains belongs is silently taken as a one-entry list - known finding, op chainsfilek
	emitFile := func(raw []byte) {
		var obj map[string]interface{}
		var lol [][]interface{}
		if json.Unmarshal(raw, &obj) == nil && obj != nil || json.Unmarshal(raw, &lol) == nil && len(lol) > 0 {
			g.Emit("chainsfilek", hx(raw))
			return
		}
		g.Emit("chainsfile", hx(raw))
	}
	for _, r := range raws {
		g.Emit("chainsenv", hs(r))
		emitFile([]byte(r))
	}
	for i := 0; i < g.Count(200, 10000); i++ {
		// a well-formed list, then possibly one character deleted, duplicated or replaced
		n := g.Intn(4)
		parts := []string{}
		for j := 0; j < n; j++ {
			parts = append(parts, `{"id":`+itoa(j+1)+`,"type":"evm","k":[1,"x"]}`)
		}
		t := []byte("[" + strings.Join(parts, ",") + "]")
		if g.Intn(3) > 0 && len(t) > 0 {
			p := g.Intn(len(t))
			switch g.Intn(3) {
			case 0:
				t = append(t[:p:p], t[p+1:]...)
			case 1:
				t = append(t[:p:p], append([]byte{t[p]}, t[p:]...)...)
			default:
				t[p] = []byte(`,]}{":x`)[g.Intn(7)]
			}
		}
		if g.Bool() {
			g.Emit("chainsenv", hx(t))
		} else {
			emitFile(t)
		}
	}
}
