package main

// C19 — identical identifiers on independent relayers: aligned ranges (real listeners + wiring, see fakes_scan.go,
// c05.go), message ids from the real deposit event handlers, BTC credit under randomised map iteration.

import (
	"bytes"
	"context"
	"crypto/sha256"
	"encoding/binary"
	"encoding/hex"
	"fmt"
	"math/big"
	"sort"
	"strings"
	"sync"
	"time"

	btcConfig "github.com/ChainSafe/sygma-relayer/chains/btc/config"
	btcListener "github.com/ChainSafe/sygma-relayer/chains/btc/listener"
	"github.com/ChainSafe/sygma-relayer/chains/evm/calls/events"
	"github.com/ChainSafe/sygma-relayer/chains/evm/listener/eventHandlers"
	"github.com/ChainSafe/sygma-relayer/relayer/transfer"
	"github.com/btcsuite/btcd/btcjson"
	"github.com/btcsuite/btcd/btcutil"
	"github.com/btcsuite/btcd/chaincfg"
	"github.com/btcsuite/btcd/chaincfg/chainhash"
	"github.com/ethereum/go-ethereum/common"
	subListenerR "github.com/ChainSafe/sygma-relayer/chains/substrate/listener"
	"github.com/centrifuge/go-substrate-rpc-client/v4/registry/parser"
	"github.com/rs/zerolog"
	"github.com/rs/zerolog/log"
	"github.com/ChainSafe/sygma-relayer/chains/evm/executor"
	"github.com/sygmaprotocol/sygma-core/relayer/message"
)

func c19Addr(i int) btcutil.Address {
	key := make([]byte, 32)
	for j := range key {
		key[j] = byte(i + 1)
	}
	a, err := btcutil.NewAddressTaproot(key, &chaincfg.RegressionNetParams)
	if err != nil {
		panic(err)
	}
	return a
}

// c19BtcConn serves one block.
type c19BtcConn struct {
	txs []btcjson.TxRawResult
}

func (c c19BtcConn) GetRawTransactionVerbose(*chainhash.Hash) (*btcjson.TxRawResult, error) {
	return nil, errRPC
}
func (c c19BtcConn) GetBlockHash(int64) (*chainhash.Hash, error) { return &chainhash.Hash{}, nil }
func (c c19BtcConn) GetBlockVerboseTx(*chainhash.Hash) (*btcjson.GetBlockVerboseTxResult, error) {
	return &btcjson.GetBlockVerboseTxResult{Tx: c.txs}, nil
}
func (c c19BtcConn) GetBestBlockHash() (*chainhash.Hash, error) { return &chainhash.Hash{}, nil }

// mkBtcTxs: txs separated by '/', each `<data>~<vouts>`; vouts ','-separated `addrIdx:wholeBTC:t|o`;
// data = <dest> | bad | none
func mkBtcTxs(spec string) []btcjson.TxRawResult {
	out := []btcjson.TxRawResult{}
	for i, t := range items(spec, "/") {
		f := strings.SplitN(t, "~", 2)
		tx := btcjson.TxRawResult{Hash: fmt.Sprintf("%064x", i+1), Txid: fmt.Sprintf("%064x", i+1), Blocktime: 1000}
		if f[0] != "none" {
			payload := "0x1c5541A79AcC662ab2D2647F3B141a3B7Cdb2Ae4_" + f[0]
			if f[0] == "bad" {
				payload = "0x1c5541A79AcC662ab2D2647F3B141a3B7Cdb2Ae4_x"
			}
			tx.Vout = append(tx.Vout, btcjson.Vout{ScriptPubKey: btcjson.ScriptPubKeyResult{Type: btcListener.OP_RETURN,
				Hex: hex.EncodeToString(append([]byte{0x6a, byte(len(payload))}, []byte(payload)...))}})
		}
		for _, v := range items(f[1], ",") {
			p := strings.Split(v, ":")
			typ := btcListener.WitnessV1Taproot
			if p[2] != "t" {
				typ = "witness_v0_keyhash"
			}
			tx.Vout = append(tx.Vout, btcjson.Vout{Value: float64(u64(p[1])),
				ScriptPubKey: btcjson.ScriptPubKeyResult{Type: typ, Address: c19Addr(int(u64(p[0]))).String()}})
		}
		out = append(out, tx)
	}
	return out
}

// mkBtcResources: ';'-separated `idHex:addrIdx:feeSat`; idHex = up to 32 bytes, right-padded with zeros like `copy` does
func mkBtcResources(spec string) map[[32]byte]btcConfig.Resource {
	rs := map[[32]byte]btcConfig.Resource{}
	for _, r := range items(spec, ";") {
		p := strings.Split(r, ":")
		id := [32]byte{}
		copy(id[:], unhx(p[0]))
		rs[id] = btcConfig.Resource{Address: c19Addr(int(u64(p[1]))), ResourceID: id, FeeAmount: bigArg(p[2])}
	}
	return rs
}

func renderBtcDeposits(dd map[uint8][]*message.Message) string {
	dests := []int{}
	for d := range dd {
		dests = append(dests, int(d))
	}
	sort.Ints(dests)
	out := []string{}
	for _, d := range dests {
		ms := []string{}
		for _, m := range dd[uint8(d)] {
			td := m.Data.(transfer.TransferMessageData)
			amt := new(big.Int).SetBytes(td.Payload[0].([]byte))
			ms = append(ms, hex.EncodeToString(td.ResourceId[:])+"."+amt.String()+"."+m.ID)
		}
		out = append(out, itoa(d)+"="+strings.Join(ms, ","))
	}
	return joinOr(out, ";")
}

func refNonce(block *big.Int, txHash string) uint64 {
	h := sha256.Sum256([]byte(block.String() + "-" + txHash))
	var r uint64
	for i := 0; i < 4; i++ {
		r ^= binary.BigEndian.Uint64(h[i*8 : (i+1)*8])
	}
	return r
}

// ---- EVM deposit handler fakes
type c19EvmListener struct {
	c05EvmListener
	deposits func(s, e *big.Int) []*events.Deposit
}

func (l c19EvmListener) FetchDeposits(ctx context.Context, a common.Address, s, e *big.Int) ([]*events.Deposit, error) {
	return l.deposits(s, e), nil
}

type c19DepositHandler struct{}

func (c19DepositHandler) HandleDeposit(sourceID, destID uint8, nonce uint64, resourceID [32]byte, calldata, handlerResponse []byte, messageID string, timestamp time.Time) (*message.Message, error) {
	if len(calldata) > 0 && calldata[0] == 0xff {
		return nil, errRPC
	}
	return message.NewMessage(sourceID, destID, transfer.TransferMessageData{DepositNonce: nonce, ResourceId: resourceID},
		messageID, transfer.TransferMessageType, timestamp), nil
}

func renderEvmDeposits(dd map[uint8][]*message.Message) string {
	dests := []int{}
	for d := range dd {
		dests = append(dests, int(d))
	}
	sort.Ints(dests)
	out := []string{}
	for _, d := range dests {
		ms := []string{}
		for _, m := range dd[uint8(d)] {
			ms = append(ms, utoa(m.Data.(transfer.TransferMessageData).DepositNonce)+"."+m.ID)
		}
		out = append(out, itoa(d)+"="+strings.Join(ms, ","))
	}
	return joinOr(out, ";")
}

// chainDeposits: the fixed fake chain of the two-relayer op: block b carries one deposit with nonce b to domain 2 + b%2
func chainDeposits(s, e *big.Int) []*events.Deposit {
	out := []*events.Deposit{}
	for b := new(big.Int).Set(s); b.Cmp(e) <= 0; b.Add(b, big.NewInt(1)) {
		if b.Sign() < 0 || !b.IsInt64() {
			continue
		}
		n := b.Uint64()
		out = append(out, &events.Deposit{DestinationDomainID: uint8(2 + n%2), DepositNonce: n})
		if e.Int64()-s.Int64() > 64 {
			break
		}
	}
	return out
}

func init() {
	// btccredit <block> <resources> <feeAddrIdx> <txs>  =>  distinct results over repeated runs, '|'-separated
	ops["C19.btccredit"] = func(a []string) string {
		seen := map[string]bool{}
		for run := 0; run < 24; run++ {
			rs := mkBtcResources(a[1]) // fresh map each run; Go randomises iteration per range statement anyway
			eh := btcListener.NewFungibleTransferEventHandler(zerolog.Context{}, 1, &btcListener.BtcDepositHandler{},
				make(chan []*message.Message, 1), c19BtcConn{mkBtcTxs(a[3])}, rs, c19Addr(int(u64(a[2]))))
			dd, err := eh.ProcessDeposits(bigArg(a[0]))
			if err != nil {
				seen["err"] = true
				continue
			}
			seen[renderBtcDeposits(dd)] = true
			if run == 0 {
				n := 0
				for _, ms := range dd {
					n += len(ms)
				}
				ch := make(chan []*message.Message, 64)
				eh2 := btcListener.NewFungibleTransferEventHandler(zerolog.Context{}, 1, btcListener.NewBtcDepositHandler(),
					ch, c19BtcConn{mkBtcTxs(a[3])}, mkBtcResources(a[1]), c19Addr(int(u64(a[2]))))
				if eh2.HandleEvents(bigArg(a[0])) != nil {
					seen["err"] = true
				} else {
					seen[renderBtcDeposits(c19Drain(ch, n))] = true
				}
			}
		}
		out := []string{}
		for k := range seen {
			out = append(out, k)
		}
		sort.Strings(out)
		return strings.Join(out, "|")
	}
	// btcnonce <block> <txhash>  =>  same | differ   (two differently configured handlers and a reference computation)
	ops["C19.btcnonce"] = func(a []string) string {
		h1 := btcListener.NewFungibleTransferEventHandler(zerolog.Context{}, 1, nil, nil, nil, nil, nil)
		h2 := btcListener.NewFungibleTransferEventHandler(zerolog.Context{}, 7, nil, nil, nil, mkBtcResources("01:0:5;02:1:6"), c19Addr(3))
		n1, e1 := h1.CalculateNonce(bigArg(a[0]), a[1])
		n2, e2 := h2.CalculateNonce(bigArg(a[0]), a[1])
		if e1 != nil || e2 != nil {
			return "err"
		}
		if n1 == n2 && n1 == refNonce(bigArg(a[0]), a[1]) {
			return "same"
		}
		return "differ"
	}
	// evmids <domain> <start> <end> <deposits>  =>  dest=nonce.msgid,…;…   deposits: ','-separated `dest` or `x<dest>` (handler error)
	ops["C19.evmids"] = func(a []string) string {
		ds := []*events.Deposit{}
		for i, d := range items(a[3], ",") {
			dep := &events.Deposit{DepositNonce: uint64(i)}
			if strings.HasPrefix(d, "x") {
				dep.Data = []byte{0xff}
				d = d[1:]
			}
			dep.DestinationDomainID = uint8(u64(d))
			ds = append(ds, dep)
		}
		seen := map[string]bool{}
		for run := 0; run < 6; run++ {
			eh := eventHandlers.NewDepositEventHandler(c19EvmListener{deposits: func(s, e *big.Int) []*events.Deposit { return ds }},
				c19DepositHandler{}, common.Address{}, uint8(u64(a[0])), make(chan []*message.Message, 1))
			dd, err := eh.ProcessDeposits(bigArg(a[1]), bigArg(a[2]))
			if err != nil {
				seen["err"] = true
				continue
			}
			seen[renderEvmDeposits(dd)] = true
			if run == 0 { // what HandleEvents puts on the message channel (one send per destination, from goroutines)
				n := 0
				for _, ms := range dd {
					n += len(ms)
				}
				ch := make(chan []*message.Message, 64)
				eh2 := eventHandlers.NewDepositEventHandler(c19EvmListener{deposits: func(s, e *big.Int) []*events.Deposit { return ds }},
					c19DepositHandler{}, common.Address{}, uint8(u64(a[0])), ch)
				if eh2.HandleEvents(bigArg(a[1]), bigArg(a[2])) != nil {
					seen["err"] = true
				} else {
					seen[renderEvmDeposits(c19Drain(ch, n))] = true
				}
			}
		}
		out := []string{}
		for k := range seen {
			out = append(out, k)
		}
		sort.Strings(out)
		return strings.Join(out, "|")
	}
	// tworel <kind> <k> <relA> <relB>   rel = conf,nh,cfgStart,flags,stored0,boot,lifetimes
	//   => A:<start>@…|…#B:…#ids:<nonce>=<msgid>/<msgid>,…   (for every deposit both relayers saw: the two message ids)
	ops["C19.tworel"] = func(a []string) string {
		kind, k := a[0], i64(a[1])
		var mu sync.Mutex
		ids := [2]map[uint64]map[string]bool{{}, {}}
		hist := [2]string{}
		for ri := 0; ri < 2; ri++ {
			ri := ri
			f := strings.Split(a[2+ri], ",")
			domain := uint8(1)
			// the REAL deposit event handler of the chain type resolves the fixed fake chain's deposits of every range handed
			// to handler 0: block b carries one deposit to domain 2 + b%2 (EVM/Substrate: nonce b; BTC: one paying transaction)
			eh := eventHandlers.NewDepositEventHandler(c19EvmListener{deposits: chainDeposits}, c19DepositHandler{}, common.Address{}, domain, make(chan []*message.Message, 1))
			sh := subListenerR.NewFungibleTransferEventHandler(zerolog.Context{}, domain, c19SubDepositHandler{}, make(chan []*message.Message, 1),
				&c19SubConn{events: func(s, e *big.Int) []*parser.Event {
					out := []*parser.Event{}
					for _, d := range chainDeposits(s, e) {
						out = append(out, c19SubDepositEvent(d.DestinationDomainID, d.DepositNonce, false))
					}
					return out
				}})
			var curBlock int64
			bh := btcListener.NewFungibleTransferEventHandler(zerolog.Context{}, domain, &btcListener.BtcDepositHandler{}, make(chan []*message.Message, 1),
				c19BtcChainConn{&curBlock}, mkBtcResources("01:0:100000000"), c19Addr(5))
			onCall := func(life, idx int, s, e *big.Int) {
				if idx != 0 {
					return
				}
				var dd map[uint8][]*message.Message
				var err error
				switch kind {
				case "evm":
					dd, err = eh.ProcessDeposits(s, e)
				case "sub":
					dd, err = sh.ProcessDeposits(s, e)
				case "btc":
					if s.Sign() < 0 || !s.IsInt64() {
						return
					}
					dd, err = bh.ProcessDeposits(s)
				}
				if err != nil {
					return
				}
				mu.Lock()
				defer mu.Unlock()
				for _, ms := range dd {
					for _, m := range ms {
						n := m.Data.(transfer.TransferMessageData).DepositNonce
						if kind == "btc" {
							n = s.Uint64() // the BTC nonce is a hash; deposits are keyed by their block here
						}
						if ids[ri][n] == nil {
							ids[ri][n] = map[string]bool{}
						}
						ids[ri][n][m.ID] = true
					}
				}
			}
			hist[ri] = runLifetimes(kind, i64(f[0]), k, int(u64(f[1])), f[2], f[3], f[4], f[5], f[6], newMemKV(), onCall)
		}
		common := []uint64{}
		for n := range ids[0] {
			if _, ok := ids[1][n]; ok {
				common = append(common, n)
			}
		}
		sort.Slice(common, func(i, j int) bool { return common[i] < common[j] })
		out := []string{}
		for _, n := range common {
			out = append(out, utoa(n)+"="+setStr(ids[0][n])+"/"+setStr(ids[1][n]))
		}
		return "A:" + hist[0] + "#B:" + hist[1] + "#ids:" + joinOr(out, ",")
	}
	// evmsession <cap> <tg> <msgId> <props> : the session ids under which the EVM executor signs the batches of a delivery
	// (same op as C14.exec; here it backs "signing session ids are identical on all relayers")
	ops["C19.evmsession"] = func(a []string) string { return ops["C14.exec"](a) }
	// evmsession2 <cap> <tg> <msgId> <props> : Execute the SAME delivery twice on ONE Executor object (a re-delivered or
	// retried message) => sessions of round 1 '#' sessions of round 2. Session ids are a function of the delivery alone.
	ops["C19.evmsession2"] = func(a []string) string {
		ps, st := mkProps(a[3], a[2])
		serial := &sync.Mutex{}
		br := &fakeBridge{status: st, serial: serial}
		e := executor.NewExecutor(nil, nil, nil, br, &failFetcher{serial}, &sync.RWMutex{}, u64(a[0]), u64(a[1]))
		rounds := []string{}
		for r := 0; r < 2; r++ {
			br.mu.Lock()
			br.events = nil
			br.mu.Unlock()
			var buf bytes.Buffer
			old, oldLvl := log.Logger, zerolog.GlobalLevel()
			log.Logger = zerolog.New(&lockedWriter{w: &buf, br: br, msgID: a[2]})
			zerolog.SetGlobalLevel(zerolog.InfoLevel)
			_ = e.Execute(ps)
			log.Logger = old
			zerolog.SetGlobalLevel(oldLvl)
			out := []string{}
			for i := 0; i < len(br.events); i++ {
				if strings.HasPrefix(br.events[i], "H:") {
					sid := "?"
					if i+1 < len(br.events) && strings.HasPrefix(br.events[i+1], "S:") {
						sid = br.events[i+1][2:]
					}
					out = append(out, sid+"="+br.events[i][2:])
				}
			}
			sort.Strings(out)
			if len(br.events) == 0 && anyStatus(st, "x") {
				rounds = append(rounds, "err")
			} else {
				rounds = append(rounds, joinOr(out, ";"))
			}
		}
		return strings.Join(rounds, "#")
	}
	// evminterleave <domain> <s1> <e1> <s2> <e2> <order> <deposits>
	//   ONE DepositEventHandler object serves the scan (ProcessDeposits(s1,e1), goroutine A) and a retry-by-height
	//   (ProcessDeposits(s2,e2), goroutine B) at the same time, as app.Run wires it. The node fake blocks inside
	//   FetchDeposits: A enters, then B enters, then they are released in <order> (AB | BA), each running to completion
	//   before the other is released — fully deterministic.  =>  A:<groups>#B:<groups>
	ops["C19.evminterleave"] = func(a []string) string {
		ds := []*events.Deposit{}
		for i, d := range items(a[6], ",") {
			ds = append(ds, &events.Deposit{DepositNonce: uint64(i), DestinationDomainID: uint8(u64(d))})
		}
		entered := make(chan string, 2)
		release := map[string]chan struct{}{}
		var mu sync.Mutex
		fl := &c19BlockingListener{ds: ds, entered: entered, release: release, mu: &mu}
		eh := eventHandlers.NewDepositEventHandler(fl, c19DepositHandler{}, common.Address{}, uint8(u64(a[0])), make(chan []*message.Message, 1))
		res := map[string]string{}
		done := make(chan string, 2)
		run := func(tag string, s, e *big.Int) {
			mu.Lock()
			release[tag] = make(chan struct{})
			mu.Unlock()
			go func() {
				dd, err := eh.ProcessDeposits(s, e)
				mu.Lock()
				if err != nil {
					res[tag] = "err"
				} else {
					res[tag] = renderEvmDeposits(dd)
				}
				mu.Unlock()
				done <- tag
			}()
			<-entered // the call is now blocked inside FetchDeposits
		}
		run("A", bigArg(a[1]), bigArg(a[2]))
		run("B", bigArg(a[3]), bigArg(a[4]))
		for _, tag := range strings.Split(a[5], "") {
			mu.Lock()
			ch := release[tag]
			mu.Unlock()
			close(ch)
			<-done
		}
		return "A:" + res["A"] + "#B:" + res["B"]
	}
	gens["C19"] = genC19
}

// c19BlockingListener: FetchDeposits announces itself and waits to be released; the first call to enter is A's.
type c19BlockingListener struct {
	c05EvmListener
	ds      []*events.Deposit
	entered chan string
	release map[string]chan struct{}
	mu      *sync.Mutex
	count   int
}

func (l *c19BlockingListener) FetchDeposits(ctx context.Context, a common.Address, s, e *big.Int) ([]*events.Deposit, error) {
	l.mu.Lock()
	tag := []string{"A", "B", "?"}[min(l.count, 2)] // A is started first and has entered before B is started
	l.count++
	ch := l.release[tag]
	l.mu.Unlock()
	l.entered <- tag
	<-ch
	return l.ds, nil
}

// c19BtcChainConn: block b of the fixed fake chain holds one transaction paying resource 01 (and the fee) for domain 2 + b%2
type c19BtcChainConn struct{ cur *int64 }

func (c c19BtcChainConn) GetRawTransactionVerbose(*chainhash.Hash) (*btcjson.TxRawResult, error) {
	return nil, errRPC
}
func (c c19BtcChainConn) GetBlockHash(b int64) (*chainhash.Hash, error) {
	*c.cur = b
	return &chainhash.Hash{}, nil
}
func (c c19BtcChainConn) GetBlockVerboseTx(*chainhash.Hash) (*btcjson.GetBlockVerboseTxResult, error) {
	txs := mkBtcTxs(itoa64(2+*c.cur%2) + "~0:2:t,5:1:t")
	txs[0].Hash = fmt.Sprintf("%064x", *c.cur+1)
	return &btcjson.GetBlockVerboseTxResult{Tx: txs}, nil
}
func (c c19BtcChainConn) GetBestBlockHash() (*chainhash.Hash, error) { return &chainhash.Hash{}, nil }

func setStr(m map[string]bool) string {
	xs := []string{}
	for k := range m {
		xs = append(xs, k)
	}
	sort.Strings(xs)
	return strings.Join(xs, "+")
}

func genRel(g *G, kind string, k int64, head int64, base int64) string {
	conf := int64(1 + g.Intn(2))
	nh := 1 + g.Intn(2)
	cfgStart := base + int64(g.Intn(int(2*k)+2))
	flags := "-"
	switch g.Intn(10) {
	case 0:
		flags = "L"
	case 1:
		flags = "F"
	}
	stored0 := "none"
	if g.Intn(3) == 0 {
		stored0 = itoa64(base + int64(g.Intn(int(3*k)+2)))
	}
	boot := itoa64(head + int64(g.Intn(7)))
	nl := 1 + g.Intn(3)
	ls := []string{}
	for j := 0; j < nl; j++ {
		var l string
		l, head = genLife(g, kind, k, nh, head, 5, true)
		ls = append(ls, l)
	}
	return strings.Join([]string{itoa64(conf), itoa(nh), itoa64(cfgStart), flags, stored0, boot, strings.Join(ls, "|")}, ",")
}

func genC19(g *G) {
	// EVM executor session ids: several batches per delivery (gas roll-over), executed ones in between
	for _, sp := range []string{"n:p;n:p;n:p", "n:p;n:p;n:p;n:p", "100:p;n:p", "n:e;n:p;41:p;n:p", "40:p;n:p;n:p;0:p;0:p"} {
		g.Emit("evmsession", "100", "60", "1-2-100-104", sp)
	}
	for i := 0; i < g.Count(60, 1500); i++ {
		n := 2 + g.Intn(5)
		xs := []string{}
		for j := 0; j < n; j++ {
			st := "p"
			if g.Intn(4) == 0 {
				st = "e"
			}
			xs = append(xs, []string{"n", "0", "40", "41", "100"}[g.Intn(5)]+":"+st)
		}
		g.Emit("evmsession", "100", "60", []string{"1-2-100-104", "3-1-5-9", "retry-7"}[g.Intn(3)], joinOr(xs, ";"))
	}
	// message ids of the Substrate handlers (regular + retry) and of the EVM retry handlers, each on three
	// differently-historied handler objects
	for i := 0; i < g.Count(150, 3000); i++ {
		n := g.Intn(6)
		ds, dsGood := []string{}, []string{}
		for j := 0; j < n; j++ {
			d := itoa(2 + g.Intn(3))
			dsGood = append(dsGood, d)
			if g.Intn(6) == 0 {
				d = "x" + d
			}
			ds = append(ds, d)
		}
		s := int64(g.Intn(1000))
		e := s + int64(g.Intn(6))
		dom := itoa(1 + g.Intn(3))
		g.Emit("subids", dom, itoa64(s), itoa64(e), joinOr(ds, ","))
		g.Emit("subretryids", dom, itoa64(s), itoa64(e), itoa64(int64(g.Intn(900))), joinOr(ds, ","))
		g.Emit("evmretry1ids", dom, itoa64(s), itoa64(e), joinOr(dsGood, ","))
		evs := []string{}
		for j := 0; j < 1+g.Intn(4); j++ {
			evs = append(evs, itoa(1+g.Intn(4))+"."+itoa(1+g.Intn(4))+"."+itoa(g.Intn(1000)))
		}
		g.Emit("evmretry2ids", dom, itoa64(s), itoa64(e), strings.Join(evs, ","))
	}
	// signing session ids of the Substrate and the Bitcoin executor: two relayers, one of them used repeatedly
	for _, st := range []string{"p", "e", "p,p", "e,p", "p,e", "e,e", "e,p,p"} {
		for _, m := range []string{"1-3-10-14", "retry-1-3-10-14", "2-3-0-0"} {
			g.Emit("subsession", m, st)
		}
	}
	for n := 1; n <= 2; n++ {
		for np := 1; np <= 2; np++ {
			for unk := 1; unk <= 3; unk++ {
				g.Emit("btcsessionu", g.Pick([]string{"1-4-100", "2-4-7"}), itoa(n), itoa(np), itoa(unk))
			}
		}
	}
	for n := 1; n <= 3; n++ {
		for np := 1; np <= 4; np++ {
			g.Emit("btcsession", g.Pick([]string{"1-4-100", "2-4-7", "retry-1-4"}), itoa(n), itoa(np))
		}
	}
	// the real app.Run booted against a fake node: configured starts, stored cursors and `latest`, intervals that do and do
	// not divide the confirmations; the head leaves room for two ranges per domain
	for i := 0; i < g.Count(5, 40); i++ {
		k := int64(2 + g.Intn(6))
		conf := int64(1 + g.Intn(14))
		if i%2 == 0 {
			conf = k*int64(1+g.Intn(3)) + 1 + int64(g.Intn(int(k)-1)) // not a multiple of the interval
		}
		doms := []string{}
		maxStart := int64(0)
		for j := 0; j < 3; j++ {
			v := int64(g.Intn(60))
			if v > maxStart {
				maxStart = v
			}
			switch (i + j) % 3 {
			case 0:
				doms = append(doms, "c"+itoa64(v))
			case 1:
				doms = append(doms, "s"+itoa64(v))
			default:
				doms = append(doms, "L")
			}
		}
		head := maxStart + 2*k + conf + int64(g.Intn(int(k)+3))
		g.Emit("appboot", itoa64(k), itoa64(conf), itoa64(head), strings.Join(doms, ","))
	}
	// transient outages of the on-chain handler lookup while one relayer handles a sequence of ranges
	for i := 0; i < g.Count(120, 2500); i++ {
		rs := []string{}
		for j := 0; j < 2+g.Intn(4); j++ {
			ds := []string{}
			for k := 0; k < 1+g.Intn(3); k++ {
				ds = append(ds, itoa(2+g.Intn(2))+g.Pick([]string{"", "", "b"}))
			}
			rs = append(rs, g.Pick([]string{"n", "n", "o"})+":"+strings.Join(ds, ","))
		}
		g.Emit("evmoutage", itoa(1+g.Intn(3)), strings.Join(rs, "/"))
	}
	for _, sq := range []string{"o:2/n:2", "o:2,3b/n:2/n:3b", "n:2/o:2/n:2", "o:2b/o:2/n:2,2b"} {
		g.Emit("evmoutage", "1", sq)
	}
	// batching that depends on accumulated gas: small per-proposal allowances against the cap, many proposals
	for i := 0; i < g.Count(40, 800); i++ {
		n := 3 + g.Intn(6)
		xs := []string{}
		for j := 0; j < n; j++ {
			xs = append(xs, []string{"n", "0", "10", "20", "35"}[g.Intn(5)]+":"+g.Pick([]string{"p", "p", "p", "p", "e"}))
		}
		m := []string{"1-2-100-104", "3-1-5-9"}[g.Intn(2)]
		g.Emit("evmsession", "100", "10", m, joinOr(xs, ";"))
		g.Emit("evmsession2", "100", "10", m, joinOr(xs, ";"))
		if i%3 == 0 {
			g.Emit("evmsigsession", "100", "10", m, joinOr(xs, ";"))
		}
	}
	// the session ids the EVM signing processes run under (several batches per delivery)
	for _, sp := range []string{"n:p", "n:p;n:p", "n:p;n:p;n:p", "100:p;n:p", "n:e;n:p;41:p;n:p", "40:p;n:p;n:p;0:p;0:p", "n:e",
		"n:x;n:p;n:p", "n:p;n:x;n:p", "n:p;n:p;n:x", "n:e;n:x", "n:x"} { // x: this relayer cannot read the proposal's status
		g.Emit("evmsigsession", "100", "60", "1-2-100-104", sp)
		g.Emit("evmsession", "100", "60", "1-2-100-104", sp)
		g.Emit("evmsession2", "100", "60", "1-2-100-104", sp)
	}
	for i := 0; i < g.Count(25, 600); i++ {
		n := 1 + g.Intn(5)
		xs := []string{}
		for j := 0; j < n; j++ {
			xs = append(xs, []string{"n", "0", "40", "41", "100"}[g.Intn(5)]+":"+g.Pick([]string{"p", "p", "p", "p", "p", "e", "e", "x"}))
		}
		g.Emit("evmsigsession", "100", "60", []string{"1-2-100-104", "3-1-5-9", "retry-7"}[g.Intn(3)], joinOr(xs, ";"))
	}
	// the same delivery twice on one Executor object
	for _, sp := range []string{"n:p", "n:p;n:p;n:p", "100:p;n:p", "n:e;n:p;41:p;n:p", "40:p;n:p;n:p;0:p;0:p"} {
		g.Emit("evmsession2", "100", "60", "1-2-102-102", sp)
	}
	for i := 0; i < g.Count(40, 800); i++ {
		n := 1 + g.Intn(5)
		xs := []string{}
		for j := 0; j < n; j++ {
			xs = append(xs, []string{"n", "0", "40", "41", "100"}[g.Intn(5)]+":"+g.Pick([]string{"p", "p", "p", "e"}))
		}
		g.Emit("evmsession2", "100", "60", []string{"1-2-100-104", "3-1-5-9", "retry-7"}[g.Intn(3)], joinOr(xs, ";"))
	}
	// one DepositEventHandler object serving the scan of a range and a retry of a block inside/outside it at the same time
	for _, order := range []string{"AB", "BA"} {
		for _, r := range [][4]string{{"100", "104", "102", "102"}, {"100", "104", "100", "100"}, {"100", "104", "104", "104"},
			{"100", "104", "95", "95"}, {"0", "4", "3", "3"}, {"7", "7", "7", "7"}} {
			g.Emit("evminterleave", "1", r[0], r[1], r[2], r[3], order, "2,3,2")
			g.Emit("evminterleave", "1", r[2], r[3], r[0], r[1], order, "2")
		}
	}
	for i := 0; i < g.Count(60, 1000); i++ {
		s := int64(g.Intn(200))
		k := int64(1 + g.Intn(6))
		b := s + int64(g.Intn(int(k)+4)) - 2
		if b < 0 {
			b = 0
		}
		n := 1 + g.Intn(4)
		ds := []string{}
		for j := 0; j < n; j++ {
			ds = append(ds, itoa(2+g.Intn(3)))
		}
		g.Emit("evminterleave", itoa(1+g.Intn(3)), itoa64(s), itoa64(s+k-1), itoa64(b), itoa64(b), g.Pick([]string{"AB", "BA"}), strings.Join(ds, ","))
	}
	// BTC credit with realistic 32-byte resource ids: zero-padded ids differing only in late bytes (0x…0300 / 0x…0400),
	// only in the last byte, only in early bytes, sharing their first 8 / 16 / 31 bytes; every order of the config list
	mkID := func(pos int, v byte, fill byte) string {
		b := make([]byte, 32)
		for i := range b {
			b[i] = fill
		}
		b[pos] = v
		return hex.EncodeToString(b)
	}
	for _, pos := range []int{0, 3, 7, 8, 15, 16, 30, 31} {
		for _, fill := range []byte{0x00, 0xab} {
			ida, idb, idc := mkID(pos, 3, fill), mkID(pos, 4, fill), mkID(pos, 0x80, fill)
			for _, rs := range []string{ida + ":0:100000000;" + idb + ":1:100000000", idb + ":1:100000000;" + ida + ":0:100000000",
				idc + ":2:100000000;" + idb + ":1:100000000;" + ida + ":0:100000000", idb + ":0:100000000;" + idc + ":1:100000000"} {
				g.Emit("btccredit", "100", rs, "5", "3~0:2:t,1:3:t,2:4:t,5:1:t")
				g.Emit("btccredit", "101", rs, "5", "3~1:3:t,2:4:t,5:1:t/2~0:1:t,1:1:t,5:1:t")
			}
		}
	}
	for i := 0; i < g.Count(150, 3000); i++ {
		base := g.Bytes(32)
		if g.Intn(2) == 0 {
			base = make([]byte, 32)
		}
		nr := 2 + g.Intn(2)
		pos := g.Intn(32)
		rs := []string{}
		used := map[byte]bool{}
		for j := 0; j < nr; j++ {
			id := append([]byte{}, base...)
			v := byte(g.Intn(256))
			for used[v] {
				v++
			}
			used[v] = true
			id[pos] = v
			if g.Intn(3) == 0 && pos < 31 {
				id[31] = byte(g.Intn(256)) // a second difference further right must not matter
			}
			rs = append(rs, hex.EncodeToString(id)+":"+itoa(j)+":100000000")
		}
		g.Emit("btccredit", itoa(100+g.Intn(5)), strings.Join(rs, ";"), "5", "3~0:2:t,1:3:t,2:4:t,5:1:t")
	}
	// BTC credit: small exhaustive scope over which resources a transaction pays and whether the fee suffices
	orders := []string{"01:0:100000000;02:1:100000000", "02:1:100000000;01:0:100000000", "01:0:100000000;02:1:200000000",
		"03:2:100000000;01:0:200000000;02:1:100000000", "02:0:100000000;01:0:100000000", "01:0:100000000"}
	for _, rs := range orders {
		for pay := 0; pay < 8; pay++ {
			for fee := 0; fee <= 2; fee++ {
				vs := []string{}
				for r := 0; r < 3; r++ {
					if pay&(1<<r) != 0 {
						vs = append(vs, itoa(r)+":"+itoa(r+2)+":t")
					}
				}
				if fee > 0 {
					vs = append(vs, "5:"+itoa(fee)+":t")
				}
				if len(vs) == 0 {
					vs = append(vs, "7:1:o")
				}
				g.Emit("btccredit", "100", rs, "5", "3~"+strings.Join(vs, ","))
			}
		}
	}
	for i := 0; i < g.Count(300, 6000); i++ {
		nr := 1 + g.Intn(3)
		perm := []int{1, 2, 3}
		for j := 2; j > 0; j-- {
			k := g.Intn(j + 1)
			perm[j], perm[k] = perm[k], perm[j]
		}
		rs := []string{}
		for j := 0; j < nr; j++ {
			rs = append(rs, fmt.Sprintf("%02x:%d:%d00000000", perm[j], g.Intn(3), 1+g.Intn(2)))
		}
		txs := []string{}
		for t := 0; t < 1+g.Intn(3); t++ {
			vs := []string{}
			for v := 0; v < 1+g.Intn(4); v++ {
				vs = append(vs, itoa(g.Intn(4))+":"+itoa(g.Intn(4))+":"+g.Pick([]string{"t", "t", "o"}))
			}
			if g.Intn(4) != 0 {
				vs = append(vs, "5:"+itoa(g.Intn(3))+":t")
			}
			txs = append(txs, g.Pick([]string{"2", "3", "3", "255", "256", "bad", "none"})+"~"+strings.Join(vs, ","))
		}
		g.Emit("btccredit", itoa(100+g.Intn(5)), strings.Join(rs, ";"), g.Pick([]string{"5", "5", "0"}), strings.Join(txs, "/"))
	}
	for i := 0; i < g.Count(40, 500); i++ {
		g.Emit("btcnonce", itoa64(int64(g.U64()>>(1+uint(g.Intn(60))))), hex.EncodeToString(g.Bytes(32)))
	}
	// deposits of one range grouped by destination
	for i := 0; i < g.Count(300, 5000); i++ {
		n := g.Intn(7)
		ds := []string{}
		for j := 0; j < n; j++ {
			d := itoa(2 + g.Intn(3))
			if g.Intn(6) == 0 {
				d = "x" + d
			}
			ds = append(ds, d)
		}
		s := int64(g.Intn(1000))
		g.Emit("evmids", itoa(1+g.Intn(3)), itoa64(s), itoa64(s+int64(g.Intn(6))), joinOr(ds, ","))
	}
	// two independently configured relayers over one chain
	for i := 0; i < g.Count(500, 12000); i++ {
		kind := []string{"evm", "sub", "evm", "btc"}[g.Intn(4)]
		k := int64(1 + g.Intn(6))
		base := int64(g.Intn(20))
		head := base + int64(g.Intn(20))
		g.Emit("tworel", kind, itoa64(k), genRel(g, kind, k, head, base), genRel(g, kind, k, head+int64(g.Intn(10)), base))
	}
}
