package main

// C19 — identical identifiers on independent relayers: aligned ranges (real listeners + wiring, see fakes_scan.go,
// c05.go), message ids from the real deposit event handlers, BTC credit under randomised map iteration.

import (
	"context"
	"crypto/sha256"
	"encoding/binary"
	"encoding/hex"
	"fmt"
	"math/big"
	"sort"
	"strings"
	"sync"
	"time"

	btcConfig "github.com/ChainSafe/sygma-relayer/chains/btc/config"
	btcListener "github.com/ChainSafe/sygma-relayer/chains/btc/listener"
	"github.com/ChainSafe/sygma-relayer/chains/evm/calls/events"
	"github.com/ChainSafe/sygma-relayer/chains/evm/listener/eventHandlers"
	"github.com/ChainSafe/sygma-relayer/relayer/transfer"
	"github.com/btcsuite/btcd/btcjson"
	"github.com/btcsuite/btcd/btcutil"
	"github.com/btcsuite/btcd/chaincfg"
	"github.com/btcsuite/btcd/chaincfg/chainhash"
	"github.com/ethereum/go-ethereum/common"
	"github.com/rs/zerolog"
	"github.com/sygmaprotocol/sygma-core/relayer/message"
)

func c19Addr(i int) btcutil.Address {
	key := make([]byte, 32)
	for j := range key {
		key[j] = byte(i + 1)
	}
	a, err := btcutil.NewAddressTaproot(key, &chaincfg.RegressionNetParams)
	if err != nil {
		panic(err)
	}
	return a
}

// c19BtcConn serves one block.
type c19BtcConn struct {
	txs []btcjson.TxRawResult
}

func (c c19BtcConn) GetRawTransactionVerbose(*chainhash.Hash) (*btcjson.TxRawResult, error) {
	return nil, errRPC
}
func (c c19BtcConn) GetBlockHash(int64) (*chainhash.Hash, error) { return &chainhash.Hash{}, nil }
func (c c19BtcConn) GetBlockVerboseTx(*chainhash.Hash) (*btcjson.GetBlockVerboseTxResult, error) {
	return &btcjson.GetBlockVerboseTxResult{Tx: c.txs}, nil
}
func (c c19BtcConn) GetBestBlockHash() (*chainhash.Hash, error) { return &chainhash.Hash{}, nil }

// mkBtcTxs: txs separated by '/', each `<data>~<vouts>`; vouts ','-separated `addrIdx:wholeBTC:t|o`;
// data = <dest> | bad | none
func mkBtcTxs(spec string) []btcjson.TxRawResult {
	out := []btcjson.TxRawResult{}
	for i, t := range items(spec, "/") {
		f := strings.SplitN(t, "~", 2)
		tx := btcjson.TxRawResult{Hash: fmt.Sprintf("%064x", i+1), Txid: fmt.Sprintf("%064x", i+1), Blocktime: 1000}
		if f[0] != "none" {
			payload := "0x1c5541A79AcC662ab2D2647F3B141a3B7Cdb2Ae4_" + f[0]
			if f[0] == "bad" {
				payload = "0x1c5541A79AcC662ab2D2647F3B141a3B7Cdb2Ae4_x"
			}
			tx.Vout = append(tx.Vout, btcjson.Vout{ScriptPubKey: btcjson.ScriptPubKeyResult{Type: btcListener.OP_RETURN,
				Hex: hex.EncodeToString(append([]byte{0x6a, byte(len(payload))}, []byte(payload)...))}})
		}
		for _, v := range items(f[1], ",") {
			p := strings.Split(v, ":")
			typ := btcListener.WitnessV1Taproot
			if p[2] != "t" {
				typ = "witness_v0_keyhash"
			}
			tx.Vout = append(tx.Vout, btcjson.Vout{Value: float64(u64(p[1])),
				ScriptPubKey: btcjson.ScriptPubKeyResult{Type: typ, Address: c19Addr(int(u64(p[0]))).String()}})
		}
		out = append(out, tx)
	}
	return out
}

// mkBtcResources: ';'-separated `idByteHex:addrIdx:feeSat`
func mkBtcResources(spec string) map[[32]byte]btcConfig.Resource {
	rs := map[[32]byte]btcConfig.Resource{}
	for _, r := range items(spec, ";") {
		p := strings.Split(r, ":")
		id := [32]byte{}
		copy(id[:], unhx(p[0]))
		rs[id] = btcConfig.Resource{Address: c19Addr(int(u64(p[1]))), ResourceID: id, FeeAmount: bigArg(p[2])}
	}
	return rs
}

func renderBtcDeposits(dd map[uint8][]*message.Message) string {
	dests := []int{}
	for d := range dd {
		dests = append(dests, int(d))
	}
	sort.Ints(dests)
	out := []string{}
	for _, d := range dests {
		ms := []string{}
		for _, m := range dd[uint8(d)] {
			td := m.Data.(transfer.TransferMessageData)
			amt := new(big.Int).SetBytes(td.Payload[0].([]byte))
			ms = append(ms, hex.EncodeToString(td.ResourceId[:1])+"."+amt.String()+"."+m.ID)
		}
		out = append(out, itoa(d)+"="+strings.Join(ms, ","))
	}
	return joinOr(out, ";")
}

func refNonce(block *big.Int, txHash string) uint64 {
	h := sha256.Sum256([]byte(block.String() + "-" + txHash))
	var r uint64
	for i := 0; i < 4; i++ {
		r ^= binary.BigEndian.Uint64(h[i*8 : (i+1)*8])
	}
	return r
}

// ---- EVM deposit handler fakes
type c19EvmListener struct {
	c05EvmListener
	deposits func(s, e *big.Int) []*events.Deposit
}

func (l c19EvmListener) FetchDeposits(ctx context.Context, a common.Address, s, e *big.Int) ([]*events.Deposit, error) {
	return l.deposits(s, e), nil
}

type c19DepositHandler struct{}

func (c19DepositHandler) HandleDeposit(sourceID, destID uint8, nonce uint64, resourceID [32]byte, calldata, handlerResponse []byte, messageID string, timestamp time.Time) (*message.Message, error) {
	if len(calldata) > 0 && calldata[0] == 0xff {
		return nil, errRPC
	}
	return message.NewMessage(sourceID, destID, transfer.TransferMessageData{DepositNonce: nonce, ResourceId: resourceID},
		messageID, transfer.TransferMessageType, timestamp), nil
}

func renderEvmDeposits(dd map[uint8][]*message.Message) string {
	dests := []int{}
	for d := range dd {
		dests = append(dests, int(d))
	}
	sort.Ints(dests)
	out := []string{}
	for _, d := range dests {
		ms := []string{}
		for _, m := range dd[uint8(d)] {
			ms = append(ms, utoa(m.Data.(transfer.TransferMessageData).DepositNonce)+"."+m.ID)
		}
		out = append(out, itoa(d)+"="+strings.Join(ms, ","))
	}
	return joinOr(out, ";")
}

// chainDeposits: the fixed fake chain of the two-relayer op: block b carries one deposit with nonce b to domain 2 + b%2
func chainDeposits(s, e *big.Int) []*events.Deposit {
	out := []*events.Deposit{}
	for b := new(big.Int).Set(s); b.Cmp(e) <= 0; b.Add(b, big.NewInt(1)) {
		if b.Sign() < 0 || !b.IsInt64() {
			continue
		}
		n := b.Uint64()
		out = append(out, &events.Deposit{DestinationDomainID: uint8(2 + n%2), DepositNonce: n})
		if e.Int64()-s.Int64() > 64 {
			break
		}
	}
	return out
}

func init() {
	// btccredit <block> <resources> <feeAddrIdx> <txs>  =>  distinct results over repeated runs, '|'-separated
	ops["C19.btccredit"] = func(a []string) string {
		seen := map[string]bool{}
		for run := 0; run < 24; run++ {
			rs := mkBtcResources(a[1]) // fresh map each run; Go randomises iteration per range statement anyway
			eh := btcListener.NewFungibleTransferEventHandler(zerolog.Context{}, 1, &btcListener.BtcDepositHandler{},
				make(chan []*message.Message, 1), c19BtcConn{mkBtcTxs(a[3])}, rs, c19Addr(int(u64(a[2]))))
			dd, err := eh.ProcessDeposits(bigArg(a[0]))
			if err != nil {
				seen["err"] = true
				continue
			}
			seen[renderBtcDeposits(dd)] = true
		}
		out := []string{}
		for k := range seen {
			out = append(out, k)
		}
		sort.Strings(out)
		return strings.Join(out, "|")
	}
	// btcnonce <block> <txhash>  =>  same | differ   (two differently configured handlers and a reference computation)
	ops["C19.btcnonce"] = func(a []string) string {
		h1 := btcListener.NewFungibleTransferEventHandler(zerolog.Context{}, 1, nil, nil, nil, nil, nil)
		h2 := btcListener.NewFungibleTransferEventHandler(zerolog.Context{}, 7, nil, nil, nil, mkBtcResources("01:0:5;02:1:6"), c19Addr(3))
		n1, e1 := h1.CalculateNonce(bigArg(a[0]), a[1])
		n2, e2 := h2.CalculateNonce(bigArg(a[0]), a[1])
		if e1 != nil || e2 != nil {
			return "err"
		}
		if n1 == n2 && n1 == refNonce(bigArg(a[0]), a[1]) {
			return "same"
		}
		return "differ"
	}
	// evmids <domain> <start> <end> <deposits>  =>  dest=nonce.msgid,…;…   deposits: ','-separated `dest` or `x<dest>` (handler error)
	ops["C19.evmids"] = func(a []string) string {
		ds := []*events.Deposit{}
		for i, d := range items(a[3], ",") {
			dep := &events.Deposit{DepositNonce: uint64(i)}
			if strings.HasPrefix(d, "x") {
				dep.Data = []byte{0xff}
				d = d[1:]
			}
			dep.DestinationDomainID = uint8(u64(d))
			ds = append(ds, dep)
		}
		seen := map[string]bool{}
		for run := 0; run < 6; run++ {
			eh := eventHandlers.NewDepositEventHandler(c19EvmListener{deposits: func(s, e *big.Int) []*events.Deposit { return ds }},
				c19DepositHandler{}, common.Address{}, uint8(u64(a[0])), make(chan []*message.Message, 1))
			dd, err := eh.ProcessDeposits(bigArg(a[1]), bigArg(a[2]))
			if err != nil {
				seen["err"] = true
				continue
			}
			seen[renderEvmDeposits(dd)] = true
		}
		out := []string{}
		for k := range seen {
			out = append(out, k)
		}
		sort.Strings(out)
		return strings.Join(out, "|")
	}
	// tworel <kind> <k> <relA> <relB>   rel = conf,nh,cfgStart,flags,stored0,boot,lifetimes
	//   => A:<start>@…|…#B:…#ids:<nonce>=<msgid>/<msgid>,…   (for every deposit both relayers saw: the two message ids)
	ops["C19.tworel"] = func(a []string) string {
		kind, k := a[0], i64(a[1])
		var mu sync.Mutex
		ids := [2]map[uint64]map[string]bool{{}, {}}
		hist := [2]string{}
		for ri := 0; ri < 2; ri++ {
			ri := ri
			f := strings.Split(a[2+ri], ",")
			domain := uint8(1)
			eh := eventHandlers.NewDepositEventHandler(c19EvmListener{deposits: chainDeposits}, c19DepositHandler{}, common.Address{}, domain, make(chan []*message.Message, 1))
			onCall := func(life, idx int, s, e *big.Int) {
				if idx != 0 || kind == "btc" {
					return
				}
				dd, err := eh.ProcessDeposits(s, e)
				if err != nil {
					return
				}
				mu.Lock()
				defer mu.Unlock()
				for _, ms := range dd {
					for _, m := range ms {
						n := m.Data.(transfer.TransferMessageData).DepositNonce
						if ids[ri][n] == nil {
							ids[ri][n] = map[string]bool{}
						}
						ids[ri][n][m.ID] = true
					}
				}
			}
			hist[ri] = runLifetimes(kind, i64(f[0]), k, int(u64(f[1])), f[2], f[3], f[4], f[5], f[6], newMemKV(), onCall)
		}
		common := []uint64{}
		for n := range ids[0] {
			if _, ok := ids[1][n]; ok {
				common = append(common, n)
			}
		}
		sort.Slice(common, func(i, j int) bool { return common[i] < common[j] })
		out := []string{}
		for _, n := range common {
			out = append(out, utoa(n)+"="+setStr(ids[0][n])+"/"+setStr(ids[1][n]))
		}
		return "A:" + hist[0] + "#B:" + hist[1] + "#ids:" + joinOr(out, ",")
	}
	// evmsession <cap> <tg> <msgId> <props> : the session ids under which the EVM executor signs the batches of a delivery
	// (same op as C14.exec; here it backs "signing session ids are identical on all relayers")
	ops["C19.evmsession"] = func(a []string) string { return ops["C14.exec"](a) }
	gens["C19"] = genC19
}

func setStr(m map[string]bool) string {
	xs := []string{}
	for k := range m {
		xs = append(xs, k)
	}
	sort.Strings(xs)
	return strings.Join(xs, "+")
}

func genRel(g *G, kind string, k int64, head int64, base int64) string {
	conf := int64(1 + g.Intn(2))
	nh := 1 + g.Intn(2)
	cfgStart := base + int64(g.Intn(int(2*k)+2))
	flags := "-"
	switch g.Intn(10) {
	case 0:
		flags = "L"
	case 1:
		flags = "F"
	}
	stored0 := "none"
	if g.Intn(3) == 0 {
		stored0 = itoa64(base + int64(g.Intn(int(3*k)+2)))
	}
	boot := itoa64(head + int64(g.Intn(7)))
	nl := 1 + g.Intn(3)
	ls := []string{}
	for j := 0; j < nl; j++ {
		var l string
		l, head = genLife(g, kind, k, nh, head, 5, true)
		ls = append(ls, l)
	}
	return strings.Join([]string{itoa64(conf), itoa(nh), itoa64(cfgStart), flags, stored0, boot, strings.Join(ls, "|")}, ",")
}

func genC19(g *G) {
	// EVM executor session ids: several batches per delivery (gas roll-over), executed ones in between
	for _, sp := range []string{"n:p;n:p;n:p", "n:p;n:p;n:p;n:p", "100:p;n:p", "n:e;n:p;41:p;n:p", "40:p;n:p;n:p;0:p;0:p"} {
		g.Emit("evmsession", "100", "60", "1-2-100-104", sp)
	}
	for i := 0; i < g.Count(60, 1500); i++ {
		n := 2 + g.Intn(5)
		xs := []string{}
		for j := 0; j < n; j++ {
			st := "p"
			if g.Intn(4) == 0 {
				st = "e"
			}
			xs = append(xs, []string{"n", "0", "40", "41", "100"}[g.Intn(5)]+":"+st)
		}
		g.Emit("evmsession", "100", "60", []string{"1-2-100-104", "3-1-5-9", "retry-7"}[g.Intn(3)], joinOr(xs, ";"))
	}
	// BTC credit: small exhaustive scope over which resources a transaction pays and whether the fee suffices
	orders := []string{"01:0:100000000;02:1:100000000", "02:1:100000000;01:0:100000000", "01:0:100000000;02:1:200000000",
		"03:2:100000000;01:0:200000000;02:1:100000000", "02:0:100000000;01:0:100000000", "01:0:100000000"}
	for _, rs := range orders {
		for pay := 0; pay < 8; pay++ {
			for fee := 0; fee <= 2; fee++ {
				vs := []string{}
				for r := 0; r < 3; r++ {
					if pay&(1<<r) != 0 {
						vs = append(vs, itoa(r)+":"+itoa(r+2)+":t")
					}
				}
				if fee > 0 {
					vs = append(vs, "5:"+itoa(fee)+":t")
				}
				if len(vs) == 0 {
					vs = append(vs, "7:1:o")
				}
				g.Emit("btccredit", "100", rs, "5", "3~"+strings.Join(vs, ","))
			}
		}
	}
	for i := 0; i < g.Count(300, 6000); i++ {
		nr := 1 + g.Intn(3)
		perm := []int{1, 2, 3}
		for j := 2; j > 0; j-- {
			k := g.Intn(j + 1)
			perm[j], perm[k] = perm[k], perm[j]
		}
		rs := []string{}
		for j := 0; j < nr; j++ {
			rs = append(rs, fmt.Sprintf("%02x:%d:%d00000000", perm[j], g.Intn(3), 1+g.Intn(2)))
		}
		txs := []string{}
		for t := 0; t < 1+g.Intn(3); t++ {
			vs := []string{}
			for v := 0; v < 1+g.Intn(4); v++ {
				vs = append(vs, itoa(g.Intn(4))+":"+itoa(g.Intn(4))+":"+g.Pick([]string{"t", "t", "o"}))
			}
			if g.Intn(4) != 0 {
				vs = append(vs, "5:"+itoa(g.Intn(3))+":t")
			}
			txs = append(txs, g.Pick([]string{"2", "3", "3", "255", "256", "bad", "none"})+"~"+strings.Join(vs, ","))
		}
		g.Emit("btccredit", itoa(100+g.Intn(5)), strings.Join(rs, ";"), g.Pick([]string{"5", "5", "0"}), strings.Join(txs, "/"))
	}
	for i := 0; i < g.Count(40, 500); i++ {
		g.Emit("btcnonce", itoa64(int64(g.U64()>>(1+uint(g.Intn(60))))), hex.EncodeToString(g.Bytes(32)))
	}
	// deposits of one range grouped by destination
	for i := 0; i < g.Count(300, 5000); i++ {
		n := g.Intn(7)
		ds := []string{}
		for j := 0; j < n; j++ {
			d := itoa(2 + g.Intn(3))
			if g.Intn(6) == 0 {
				d = "x" + d
			}
			ds = append(ds, d)
		}
		s := int64(g.Intn(1000))
		g.Emit("evmids", itoa(1+g.Intn(3)), itoa64(s), itoa64(s+int64(g.Intn(6))), joinOr(ds, ","))
	}
	// two independently configured relayers over one chain
	for i := 0; i < g.Count(500, 12000); i++ {
		kind := []string{"evm", "sub", "evm", "btc"}[g.Intn(4)]
		k := int64(1 + g.Intn(6))
		base := int64(g.Intn(20))
		head := base + int64(g.Intn(20))
		g.Emit("tworel", kind, itoa64(k), genRel(g, kind, k, head, base), genRel(g, kind, k, head+int64(g.Intn(10)), base))
	}
}
