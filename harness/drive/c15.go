package main

// C15 — Bitcoin deposit recognition and satoshi-exact crediting.
// Real code: listener.DecodeDepositEvent, (*BtcDepositHandler).HandleDeposit,
// (*FungibleTransferEventHandler).ProcessDeposits / CalculateNonce.  Values arrive the way bitcoind
// sends them: JSON decimals decoded by encoding/json into btcjson.Vout.Value (float64).

import (
	"crypto/sha256"
	"encoding/hex"
	"encoding/json"
	"errors"
	"fmt"
	"math/big"
	"sort"
	"strconv"
	"strings"
	"sync"
	"time"

	"github.com/ChainSafe/sygma-relayer/chains/btc/config"
	"github.com/ChainSafe/sygma-relayer/chains/btc/listener"
	"github.com/ChainSafe/sygma-relayer/relayer/transfer"
	"github.com/btcsuite/btcd/btcjson"
	"github.com/btcsuite/btcd/btcutil"
	"github.com/btcsuite/btcd/chaincfg"
	"github.com/btcsuite/btcd/chaincfg/chainhash"
	"github.com/rs/zerolog/log"
	"github.com/sygmaprotocol/sygma-core/relayer/message"
)

// address tokens on the wire: 0..3 real testnet addresses, 4 = "" (no address), 5 = a string that is no address
var c15AddrStr = []string{
	"tb1pdf5c3q35ssem2l25n435fa69qr7dzwkc6gsqehuflr3euh905l2slafjvv",
	"tb1qln69zuhdunc9stwfh6t7adexxrcr04ppy6thgm",
	"tb1pffdrehs8455lgnwquggf4dzf6jduz8v7d2usflyujq4ggh4jaapqpfjj83",
	"mkHS9ne12qx9pS9VojpwU5xtRd4T7X7ZUt",
	"",
	"not-an-address",
}

func c15Addr(i int) btcutil.Address {
	a, err := btcutil.DecodeAddress(c15AddrStr[i], &chaincfg.TestNet3Params)
	if err != nil {
		panic(err)
	}
	return a
}

var c15Types = map[string]string{"t": "witness_v1_taproot", "n": "nulldata", "w": "witness_v0_keyhash", "p": "pubkeyhash", "T": "witness_v1_Taproot"}

func c15jstr(s string) string {
	b, _ := json.Marshal(s)
	return string(b)
}

// c15Dec writes d satoshi as the JSON number bitcoind would send (8 decimals), or a variant spelling of the same rational.
func c15Dec(d uint64, variant string) string {
	s := fmt.Sprintf("%d.%08d", d/100000000, d%100000000)
	switch variant {
	case "s": // shortest: trailing zeros removed
		s = strings.TrimRight(s, "0")
		s = strings.TrimSuffix(s, ".")
	case "e": // exponent form
		s = fmt.Sprintf("%de-8", d)
	}
	return s
}

// vout spec `ty,addr,sats,hex[,variant]`
func c15VoutJSON(spec string, n int) string {
	f := strings.Split(spec, ",")
	variant := ""
	if len(f) > 4 {
		variant = f[4]
	}
	hx := f[3]
	if hx == "-" {
		hx = ""
	}
	return fmt.Sprintf(`{"value":%s,"n":%d,"scriptPubKey":{"asm":"","hex":%s,"type":%s,"address":%s}}`,
		c15Dec(u64(f[2]), variant), n, c15jstr(hx), c15jstr(c15Types[f[0]]), c15jstr(c15AddrStr[int(u64(f[1]))]))
}

func c15TxJSON(hash string, vouts string, blocktime int64) string {
	vs := []string{}
	for i, v := range items(vouts, ";") {
		vs = append(vs, c15VoutJSON(v, i))
	}
	return fmt.Sprintf(`{"hex":"","txid":%s,"hash":%s,"vin":[],"vout":[%s],"blocktime":%d}`, c15jstr(hash), c15jstr(hash), strings.Join(vs, ","), blocktime)
}

func c15Tx(hash, vouts string) btcjson.TxRawResult {
	var tx btcjson.TxRawResult
	if err := json.Unmarshal([]byte(c15TxJSON(hash, vouts, 1700000000)), &tx); err != nil {
		panic("harness: " + err.Error())
	}
	return tx
}

func c15Resource(bridge int, fee string, rid byte) config.Resource {
	fa, ok := new(big.Int).SetString(fee, 10)
	if !ok {
		panic("bad fee")
	}
	return config.Resource{Address: c15Addr(bridge), FeeAmount: fa, ResourceID: [32]byte{rid, 0xaa}}
}

type c15Conn struct {
	blockJSON string
	fail      int
}

func (c *c15Conn) GetRawTransactionVerbose(*chainhash.Hash) (*btcjson.TxRawResult, error) {
	return nil, errors.New("unused")
}
func (c *c15Conn) GetBlockHash(int64) (*chainhash.Hash, error) {
	if c.fail == 1 {
		return nil, errors.New("rpc")
	}
	return &chainhash.Hash{1}, nil
}
func (c *c15Conn) GetBlockVerboseTx(*chainhash.Hash) (*btcjson.GetBlockVerboseTxResult, error) {
	if c.fail == 2 {
		return nil, errors.New("rpc")
	}
	var b btcjson.GetBlockVerboseTxResult
	if err := json.Unmarshal([]byte(c.blockJSON), &b); err != nil {
		panic("harness: " + err.Error())
	}
	return &b, nil
}
func (c *c15Conn) GetBestBlockHash() (*chainhash.Hash, error) { return &chainhash.Hash{2}, nil }

func c15Msg(m *message.Message) string {
	d := m.Data.(transfer.TransferMessageData)
	amt, _ := d.Payload[0].([]byte)
	rcp, _ := d.Payload[1].([]byte)
	extra := ""
	if len(d.Payload) != 2 || d.Type != transfer.FungibleTransfer || m.Type != transfer.TransferMessageType || d.Metadata != nil {
		extra = "/shape"
	}
	return fmt.Sprintf("%d/%d/%s/%s/%s/%d/%s%s", m.Destination, d.DepositNonce, hx(amt), hx(rcp), m.ID, m.Source, hx(d.ResourceId[:2]), extra)
}

func init() {
	// decode <bridge> <feeAddr> <feeAmount> <vouts>  =>  err | none | dep/<amount>/<datahex>
	ops["C15.decode"] = func(a []string) string {
		res := c15Resource(int(u64(a[0])), a[2], 7)
		tx := c15Tx("00", a[3])
		d, is, err := listener.DecodeDepositEvent(tx, res, c15Addr(int(u64(a[1]))))
		if err != nil {
			return "err"
		}
		if !is {
			return "none"
		}
		extra := ""
		if d.ResourceID != res.ResourceID || d.SenderAddress != "" {
			extra = "/fields"
		}
		return "dep/" + d.Amount.String() + "/" + hx([]byte(d.Data)) + extra
	}
	// convrange <start> <count> <mode>  =>  0 | <mismatches>:<first d>:<credited>
	// every d in [start, start+count): one Taproot output of d satoshi to the bridge address (value = ParseFloat of the
	// 8-decimal spelling, which is what encoding/json does), through the real DecodeDepositEvent; mode f = the same value also
	// pays the fee address with threshold d (must be recognised).
	ops["C15.convrange"] = func(a []string) string {
		start, cnt := u64(a[0]), u64(a[1])
		const W = 4
		type part struct {
			bad   int
			first uint64
			got   string
		}
		parts := make([]part, W)
		var wg sync.WaitGroup
		for w := 0; w < W; w++ {
			lo, hi := start+cnt*uint64(w)/W, start+cnt*uint64(w+1)/W
			wg.Add(1)
			go func(w int, lo, hi uint64) {
				defer wg.Done()
				defer func() {
					if r := recover(); r != nil {
						parts[w] = part{1, lo, "panic"}
					}
				}()
				res := config.Resource{Address: c15Addr(0), FeeAmount: big.NewInt(0), ResourceID: [32]byte{7}}
				feeAddr := c15Addr(1)
				tx := btcjson.TxRawResult{Vout: []btcjson.Vout{
					{ScriptPubKey: btcjson.ScriptPubKeyResult{Type: "witness_v1_taproot", Address: c15AddrStr[0]}},
					{ScriptPubKey: btcjson.ScriptPubKeyResult{Type: "witness_v1_taproot", Address: c15AddrStr[1]}},
				}}
				for d := lo; d < hi; d++ {
					v, err := strconv.ParseFloat(c15Dec(d, ""), 64)
					if err != nil {
						panic(err)
					}
					tx.Vout[0].Value = v
					tx.Vout[1].Value = 0
					if a[2] == "f" {
						tx.Vout[1].Value = v
						res.FeeAmount = new(big.Int).SetUint64(d)
					}
					dep, is, err := listener.DecodeDepositEvent(tx, res, feeAddr)
					g := "none"
					if err != nil {
						g = "err"
					} else if is {
						g = dep.Amount.String()
					}
					if g != utoa(d) {
						if parts[w].bad == 0 {
							parts[w].first, parts[w].got = d, g
						}
						parts[w].bad++
					}
				}
			}(w, lo, hi)
		}
		wg.Wait()
		bad, first, got := 0, uint64(0), ""
		for _, p := range parts {
			if p.bad > 0 && bad == 0 {
				first, got = p.first, p.got
			}
			bad += p.bad
		}
		if bad == 0 {
			return "0"
		}
		return fmt.Sprintf("%d:%d:%s", bad, first, got)
	}
	// handle <src> <nonce> <block> <amount> <datahex>  =>  err | msg/<dest>/<nonce>/<amounthex>/<recipienthex>/<msgid>/<src>/<rid>
	ops["C15.handle"] = func(a []string) string {
		amt, _ := new(big.Int).SetString(a[3], 10)
		blk, _ := new(big.Int).SetString(a[2], 10)
		m, err := listener.NewBtcDepositHandler().HandleDeposit(uint8(u64(a[0])), u64(a[1]), [32]byte{7, 0xaa}, amt, string(unhx(a[4])), blk, time.Unix(1, 0))
		if err != nil {
			return "err"
		}
		return "msg/" + c15Msg(m)
	}
	// nonce <height> <txhash as hex of the string's bytes>  =>  decimal
	ops["C15.nonce"] = func(a []string) string {
		h, _ := new(big.Int).SetString(a[0], 10)
		txh := string(unhx(a[1]))
		// two handlers that share nothing but the code; the second one has already processed other work
		e1 := listener.NewFungibleTransferEventHandler(log.With(), 1, nil, nil, nil, nil, nil)
		e2 := listener.NewFungibleTransferEventHandler(log.With(), 9, listener.NewBtcDepositHandler(), make(chan []*message.Message), &c15Conn{},
			map[[32]byte]config.Resource{{7}: c15Resource(2, "5", 7)}, c15Addr(3))
		_, _ = e2.CalculateNonce(big.NewInt(1), "warm-up")
		n1, err1 := e1.CalculateNonce(h, txh)
		n2, err2 := e2.CalculateNonce(new(big.Int).Set(h), strings.Clone(txh))
		n3, _ := e1.CalculateNonce(h, txh)
		if err1 != nil || err2 != nil {
			return "err"
		}
		if n1 != n2 || n1 != n3 {
			return "nondeterministic"
		}
		return utoa(n1)
	}
	// sha <hex>  =>  hex   (validates the Lean SHA-256 used by the nonce model against crypto/sha256)
	ops["C15.sha"] = func(a []string) string {
		s := sha256.Sum256(unhx(a[0]))
		return hex.EncodeToString(s[:])
	}
	// process <domain> <height> <bridge> <feeAddr> <feeAmount> <txs>   txs = hashhex~vouts|hashhex~vouts…
	//   =>  err | messages sorted by destination (stable), each dest/nonce/amounthex/recipienthex/msgid/src/rid
	ops["C15.process"] = func(a []string) string {
		res := c15Resource(int(u64(a[2])), a[4], 7)
		txs := []string{}
		for i, t := range items(a[5], "|") {
			f := strings.SplitN(t, "~", 2)
			txs = append(txs, c15TxJSON(string(unhx(f[0])), f[1], 1700000000+int64(i)))
		}
		conn := &c15Conn{blockJSON: `{"hash":"00","height":` + a[1] + `,"tx":[` + strings.Join(txs, ",") + `]}`}
		if a[1] == "0" {
			conn.fail = 2
		}
		h, _ := new(big.Int).SetString(a[1], 10)
		eh := listener.NewFungibleTransferEventHandler(log.With(), uint8(u64(a[0])), listener.NewBtcDepositHandler(), make(chan []*message.Message, 1), conn,
			map[[32]byte]config.Resource{res.ResourceID: res}, c15Addr(int(u64(a[3]))))
		dd, err := eh.ProcessDeposits(h)
		if err != nil {
			return "err"
		}
		dests := []int{}
		for d := range dd {
			dests = append(dests, int(d))
		}
		sort.Ints(dests)
		out := []string{}
		for _, d := range dests {
			for _, m := range dd[uint8(d)] {
				if m.Destination != uint8(d) {
					out = append(out, "misfiled")
				}
				out = append(out, c15Msg(m))
			}
		}
		return joinOr(out, ";")
	}
	gens["C15"] = genC15
}

func c15Pow10(k int) uint64 {
	r := uint64(1)
	for i := 0; i < k; i++ {
		r *= 10
	}
	return r
}

// boundary-biased satoshi amount ≤ 21e14
func c15Sats(g *G) uint64 {
	const max = 2100000000000000
	switch g.Intn(8) {
	case 0:
		return uint64(g.Intn(200))
	case 1:
		return uint64(g.Intn(2000000))
	case 2:
		k := g.Intn(16)
		v := c15Pow10(k) + uint64(g.Intn(7)) - 3
		if v > max {
			v = max
		}
		return v
	case 3:
		return max - uint64(g.Intn(1000))
	case 4: // n * 10^k ± small
		v := uint64(1+g.Intn(99))*c15Pow10(g.Intn(14)) + uint64(g.Intn(5)) - 2
		if v > max {
			v = max
		}
		return v
	default:
		return g.U64() % (max + 1)
	}
}

var c15Hexes = []string{
	"-", "6a", "6a00", "6a03", "6a02415f", "zz", "6a0", "6A2C3078653966323341383238393736343238303639376130336143303637393565413932613137306534325f31",
	"6a2c3078653966323341383238393736343238303639376130336143303637393565413932613137306534325f31", // 0xe9f23A8289764280697a03aC06795eA92a170e42_1
	"6a03315f32", "6a045f5f5f5f", "6a05615f323535", "6a05615f323536",
}

func c15RandVout(g *G, bridge, fee int) string {
	ty := []string{"t", "t", "t", "n", "w", "p", "T"}[g.Intn(7)]
	ad := []int{bridge, bridge, fee, 2, 3, 4, 5}[g.Intn(7)]
	hxs := "-"
	if ty == "n" {
		ad = []int{4, 4, 4, bridge, fee}[g.Intn(5)]
		if g.Intn(3) == 0 {
			hxs = hx(append([]byte{0x6a, byte(g.Intn(80))}, c15Payload(g)...))
		} else {
			hxs = g.Pick(c15Hexes)
		}
	} else if g.Intn(10) == 0 {
		hxs = g.Pick(c15Hexes)
	}
	s := c15Sats(g)
	if g.Intn(3) == 0 {
		s = uint64(g.Intn(4))
	}
	v := ty + "," + itoa(ad) + "," + utoa(s) + "," + hxs
	switch g.Intn(12) {
	case 0:
		v += ",s"
	case 1:
		v += ",e"
	}
	return v
}

// OP_RETURN payloads: mostly `<hex address>_<domain>` with boundary domains, sometimes junk
func c15Payload(g *G) []byte {
	addr := []string{
		"0xe9f23A8289764280697a03aC06795eA92a170e42", "e9f23A8289764280697a03aC06795eA92a170e42", "0Xe9f23a8289764280697a03ac06795ea92a170e42",
		"0x", "", "0x1", "abc", "0xzz", "12zz34", "0x00e9f23A8289764280697a03aC06795eA92a170e42ff", "0xe9f23A8289764280697a03aC06795eA92a170e4", "x", "0x0x11",
	}[g.Intn(13)]
	dom := []string{"1", "2", "0", "255", "256", "007", "", "+1", "-1", "1_9", "1 ", "a", "99999999999999999999999", "1_", "2_3_4"}[g.Intn(15)]
	switch g.Intn(10) {
	case 0:
		return []byte(addr) // no separator
	case 1:
		return g.Bytes(g.Intn(12))
	case 2:
		return []byte("_" + dom)
	}
	return []byte(addr + "_" + dom)
}

func genC15(g *G) {
	// --- SHA-256 vectors (padding boundaries) and nonces
	for _, n := range []int{0, 1, 3, 55, 56, 57, 63, 64, 65, 119, 120, 128, 200} {
		g.Emit("sha", hx(g.Bytes(n)))
	}
	for i := 0; i < g.Count(40, 2000); i++ {
		g.Emit("sha", hx(g.Bytes(g.Intn(150))))
	}
	g.Emit("nonce", "850000", hx([]byte("a3f1e4d8b3c5e2a1f6d3c7e4b8a9f3e2c1d4a6b7c8e3f1d2c4b5a6e7")))
	for i := 0; i < g.Count(150, 5000); i++ {
		h := []string{"0", "1", "99", "100", "850000", utoa(g.U64() % 10000000), utoa(g.U64())}[g.Intn(7)]
		var txh []byte
		switch g.Intn(4) {
		case 0:
			txh = g.Bytes(g.Intn(5))
		default:
			txh = []byte(hex.EncodeToString(g.Bytes(32)))
		}
		g.Emit("nonce", h, hx(txh))
	}
	// --- conversion: every amount up to 10^6 (quick) / 2·10^7 (thorough), then windows up to the supply
	chunk := uint64(50000)
	top := uint64(g.Count(1000000, 20000000))
	for s := uint64(0); s < top; s += chunk {
		g.Emit("convrange", utoa(s), utoa(chunk), "b")
	}
	for s := uint64(0); s < top/10; s += chunk {
		g.Emit("convrange", utoa(s), utoa(chunk), "f")
	}
	for k := 7; k <= 15; k++ {
		g.Emit("convrange", utoa(c15Pow10(k)-1000), "2000", "b")
		g.Emit("convrange", utoa(c15Pow10(k)-1000), "2000", "f")
	}
	g.Emit("convrange", "2099999999990000", "10001", "b")
	g.Emit("convrange", "2099999999990000", "10001", "f")
	for i := 0; i < g.Count(60, 1500); i++ {
		g.Emit("convrange", utoa(g.U64()%2100000000000000), "2000", []string{"b", "f"}[g.Intn(2)])
	}
	// --- decode: exhaustive small scope. bridge=0 fee=1; vout alphabet × length ≤ 3 × fee threshold around the fee sum
	alpha := []string{
		"t,0,3,-", "t,0,29,-", "w,0,5,-", "t,1,57,-", "p,1,1,-", "t,2,9,-", "n,4,0,6a02415f", "n,4,0,6a0442425f32", "n,4,0,6a", "n,4,0,zz", "t,4,1,-",
	}
	L := g.Count(3, 4)
	var rec func(prefix []string, depth int)
	rec = func(prefix []string, depth int) {
		for _, fee := range []string{"0", "57", "58", "59"} {
			g.Emit("decode", "0", "1", fee, joinOr(prefix, ";"))
		}
		if depth == L {
			return
		}
		for _, a := range alpha {
			rec(append(append([]string{}, prefix...), a), depth+1)
		}
	}
	rec(nil, 0)
	// bridge address = fee address; negative fee threshold
	for _, v := range []string{"t,0,3,-", "w,0,3,-", "t,0,3,-;t,0,4,-", "t,1,3,-"} {
		for _, fee := range []string{"-1", "0", "2", "3", "4", "7", "8"} {
			g.Emit("decode", "0", "0", fee, v)
		}
	}
	// --- decode: random structured
	for i := 0; i < g.Count(2500, 80000); i++ {
		bridge, fee := g.Intn(4), g.Intn(4)
		n := g.Intn(6)
		vs := []string{}
		feeSum := uint64(0)
		for j := 0; j < n; j++ {
			v := c15RandVout(g, bridge, fee)
			f := strings.Split(v, ",")
			if int(u64(f[1])) == fee {
				feeSum += u64(f[2])
			}
			vs = append(vs, v)
		}
		thr := int64(feeSum) + int64(g.Intn(5)) - 2
		if g.Intn(5) == 0 {
			thr = int64(c15Sats(g))
		}
		g.Emit("decode", itoa(bridge), itoa(fee), strconv.FormatInt(thr, 10), joinOr(vs, ";"))
	}
	// --- handle: OP_RETURN payloads
	for i := 0; i < g.Count(1500, 40000); i++ {
		amt := c15Sats(g)
		if g.Intn(4) == 0 {
			amt = uint64(g.Intn(3))
		}
		blk := []string{"0", "1", "850000", utoa(g.U64())}[g.Intn(4)]
		g.Emit("handle", itoa(g.Intn(256)), utoa(g.U64()>>uint(g.Intn(64))), blk, utoa(amt), hx(c15Payload(g)))
	}
	// --- whole pipeline: blocks of transactions through ProcessDeposits
	g.Emit("process", "1", "0", "0", "1", "0", "-") // block fetch fails
	for i := 0; i < g.Count(700, 20000); i++ {
		bridge, fee := g.Intn(3), g.Intn(3)
		nt := g.Intn(5)
		txs := []string{}
		thr := uint64(g.Intn(4))
		for t := 0; t < nt; t++ {
			vs := []string{}
			if g.Intn(4) != 0 { // a plausible deposit: bridge output(s), fee output, OP_RETURN
				for k := 0; k <= g.Intn(3); k++ {
					vs = append(vs, "t,"+itoa(bridge)+","+utoa(c15Sats(g))+",-")
				}
				vs = append(vs, "t,"+itoa(fee)+","+utoa(thr+uint64(g.Intn(3))-1+1)+",-")
				vs = append(vs, "n,4,0,"+hx(append([]byte{0x6a, 0x2c}, c15Payload(g)...)))
				c15Shuffle(g, vs)
			}
			for k := 0; k < g.Intn(3); k++ {
				vs = append(vs, c15RandVout(g, bridge, fee))
			}
			txh := hex.EncodeToString(g.Bytes(32))
			if g.Intn(15) == 0 && t > 0 {
				txh = "dup"
			}
			txs = append(txs, hx([]byte(txh))+"~"+joinOr(vs, ";"))
		}
		g.Emit("process", itoa(1+g.Intn(3)), utoa(1+g.U64()%900000), itoa(bridge), itoa(fee), utoa(thr), joinOr(txs, "|"))
	}
}

func c15Shuffle(g *G, xs []string) {
	for i := len(xs) - 1; i > 0; i-- {
		j := g.Intn(i + 1)
		xs[i], xs[j] = xs[j], xs[i]
	}
}
