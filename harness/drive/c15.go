package main

// C15 — Bitcoin deposit recognition and satoshi-exact crediting.
// Real code: listener.DecodeDepositEvent, (*BtcDepositHandler).HandleDeposit,
// (*FungibleTransferEventHandler).ProcessDeposits / CalculateNonce.  Values arrive the way bitcoind
// sends them: JSON decimals decoded by encoding/json into btcjson.Vout.Value (float64).

import (
	"context"
	"crypto/sha256"
	"encoding/hex"
	"encoding/json"
	"errors"
	"fmt"
	"math/big"
	"runtime"
	"sort"
	"strconv"
	"strings"
	"sync"
	"time"

	"github.com/ChainSafe/sygma-relayer/chains/btc/config"
	"github.com/ChainSafe/sygma-relayer/chains/btc/listener"
	"github.com/ChainSafe/sygma-relayer/relayer/transfer"
	"github.com/btcsuite/btcd/btcjson"
	"github.com/btcsuite/btcd/btcutil"
	"github.com/btcsuite/btcd/chaincfg"
	"github.com/btcsuite/btcd/chaincfg/chainhash"
	"github.com/rs/zerolog/log"
	"github.com/sygmaprotocol/sygma-core/relayer/message"
)

// address tokens on the wire: 0..3 real testnet addresses, 4 = "" (no address), 5 = a string that is no address
var c15AddrStr = []string{
	"tb1pdf5c3q35ssem2l25n435fa69qr7dzwkc6gsqehuflr3euh905l2slafjvv",
	"tb1qln69zuhdunc9stwfh6t7adexxrcr04ppy6thgm",
	"tb1pffdrehs8455lgnwquggf4dzf6jduz8v7d2usflyujq4ggh4jaapqpfjj83",
	"mkHS9ne12qx9pS9VojpwU5xtRd4T7X7ZUt",
	"",
	"not-an-address",
}

func c15Addr(i int) btcutil.Address {
	a, err := btcutil.DecodeAddress(c15AddrStr[i], &chaincfg.TestNet3Params)
	if err != nil {
		panic(err)
	}
	return a
}

var c15Types = map[string]string{"t": "witness_v1_taproot", "n": "nulldata", "w": "witness_v0_keyhash", "p": "pubkeyhash", "T": "witness_v1_Taproot"}

func c15jstr(s string) string {
	b, _ := json.Marshal(s)
	return string(b)
}

// c15Dec writes d satoshi as the JSON number bitcoind would send (8 decimals), or a variant spelling of the same rational.
func c15Dec(d uint64, variant string) string {
	s := fmt.Sprintf("%d.%08d", d/100000000, d%100000000)
	switch variant {
	case "s": // shortest: trailing zeros removed
		s = strings.TrimRight(s, "0")
		s = strings.TrimSuffix(s, ".")
	case "e": // exponent form
		s = fmt.Sprintf("%de-8", d)
	}
	return s
}

// vout spec `ty,addr,sats,hex[,variant]`
func c15VoutJSON(spec string, n int) string {
	f := strings.Split(spec, ",")
	variant := ""
	if len(f) > 4 {
		variant = f[4]
	}
	hx := f[3]
	if hx == "-" {
		hx = ""
	}
	return fmt.Sprintf(`{"value":%s,"n":%d,"scriptPubKey":{"asm":"","hex":%s,"type":%s,"address":%s}}`,
		c15Dec(u64(f[2]), variant), n, c15jstr(hx), c15jstr(c15Types[f[0]]), c15jstr(c15AddrStr[int(u64(f[1]))]))
}

func c15TxJSON(hash string, vouts string, blocktime int64) string {
	vs := []string{}
	for i, v := range items(vouts, ";") {
		vs = append(vs, c15VoutJSON(v, i))
	}
	return fmt.Sprintf(`{"hex":"","txid":%s,"hash":%s,"vin":[],"vout":[%s],"blocktime":%d}`, c15jstr(hash), c15jstr(hash), strings.Join(vs, ","), blocktime)
}

func c15Tx(hash, vouts string) btcjson.TxRawResult {
	var tx btcjson.TxRawResult
	if err := json.Unmarshal([]byte(c15TxJSON(hash, vouts, 1700000000)), &tx); err != nil {
		panic("harness: " + err.Error())
	}
	return tx
}

func c15Resource(bridge int, fee string, rid byte) config.Resource {
	fa, ok := new(big.Int).SetString(fee, 10)
	if !ok {
		panic("bad fee")
	}
	return config.Resource{Address: c15Addr(bridge), FeeAmount: fa, ResourceID: [32]byte{rid, 0xaa}}
}

type c15Conn struct {
	blockJSON string
	fail      int
}

func (c *c15Conn) GetRawTransactionVerbose(*chainhash.Hash) (*btcjson.TxRawResult, error) {
	return nil, errors.New("unused")
}
func (c *c15Conn) GetBlockHash(int64) (*chainhash.Hash, error) {
	if c.fail == 1 {
		return nil, errors.New("rpc")
	}
	if c.fail == 3 {
		return nil, fmt.Errorf("get block hash: %w", context.DeadlineExceeded)
	}
	return &chainhash.Hash{1}, nil
}
func (c *c15Conn) GetBlockVerboseTx(*chainhash.Hash) (*btcjson.GetBlockVerboseTxResult, error) {
	if c.fail == 2 {
		return nil, errors.New("rpc")
	}
	if c.fail == 4 {
		return nil, fmt.Errorf("get block: %w", context.DeadlineExceeded)
	}
	var b btcjson.GetBlockVerboseTxResult
	if err := json.Unmarshal([]byte(c.blockJSON), &b); err != nil {
		panic("harness: " + err.Error())
	}
	return &b, nil
}
func (c *c15Conn) GetBestBlockHash() (*chainhash.Hash, error) { return &chainhash.Hash{2}, nil }

func c15Msg(m *message.Message) string {
	d := m.Data.(transfer.TransferMessageData)
	amt, _ := d.Payload[0].([]byte)
	rcp, _ := d.Payload[1].([]byte)
	extra := ""
	if len(d.Payload) != 2 || d.Type != transfer.FungibleTransfer || m.Type != transfer.TransferMessageType || d.Metadata != nil {
		extra = "/shape"
	}
	return fmt.Sprintf("%d/%d/%s/%s/%s/%d/%s%s", m.Destination, d.DepositNonce, hx(amt), hx(rcp), m.ID, m.Source, hx(d.ResourceId[:2]), extra)
}

func init() {
	// decode <bridge> <feeAddr> <feeAmount> <vouts>  =>  err | none | dep/<amount>/<datahex>
	ops["C15.decode"] = func(a []string) string {
		res := c15Resource(int(u64(a[0])), a[2], 7)
		tx := c15Tx("00", a[3])
		d, is, err := listener.DecodeDepositEvent(tx, res, c15Addr(int(u64(a[1]))))
		if err != nil {
			return "err"
		}
		if !is {
			return "none"
		}
		extra := ""
		if d.ResourceID != res.ResourceID || d.SenderAddress != "" {
			extra = "/fields"
		}
		return "dep/" + d.Amount.String() + "/" + hx([]byte(d.Data)) + extra
	}
	// convrange <start> <count> <mode>  =>  the credited amounts for d = start … start+count-1, run-length encoded
	// every d in that range: one Taproot output of d satoshi to the bridge address (value = ParseFloat of the 8-decimal
	// spelling, which is what encoding/json does), through the real DecodeDepositEvent; mode f = the same value also pays
	// the fee address with threshold d (must be recognised).  Output: maximal runs `a+n` (credited a, a+1, …, a+n-1 for n
	// consecutive d), `none*n` / `err*n` for n consecutive refusals — a lossless encoding of what the code returned; the
	// comparison with d is done by the Lean driver.
	ops["C15.convrange"] = func(a []string) string {
		start, cnt := u64(a[0]), u64(a[1])
		const W = 4
		res := make([]int64, cnt) // credited amount, -1 not a deposit, -2 error, -3 panic
		var wg sync.WaitGroup
		for w := 0; w < W; w++ {
			lo, hi := cnt*uint64(w)/W, cnt*uint64(w+1)/W
			wg.Add(1)
			go func(lo, hi uint64) {
				defer wg.Done()
				cur := lo
				defer func() {
					if r := recover(); r != nil {
						for k := cur; k < hi; k++ {
							res[k] = -3
						}
					}
				}()
				rsrc := config.Resource{Address: c15Addr(0), FeeAmount: big.NewInt(0), ResourceID: [32]byte{7}}
				feeAddr := c15Addr(1)
				tx := btcjson.TxRawResult{Vout: []btcjson.Vout{
					{ScriptPubKey: btcjson.ScriptPubKeyResult{Type: "witness_v1_taproot", Address: c15AddrStr[0]}},
					{ScriptPubKey: btcjson.ScriptPubKeyResult{Type: "witness_v1_taproot", Address: c15AddrStr[1]}},
				}}
				for ; cur < hi; cur++ {
					d := start + cur
					v, err := strconv.ParseFloat(c15Dec(d, ""), 64)
					if err != nil {
						panic(err)
					}
					tx.Vout[0].Value = v
					tx.Vout[1].Value = 0
					if a[2] == "f" {
						tx.Vout[1].Value = v
						rsrc.FeeAmount = new(big.Int).SetUint64(d)
					}
					dep, is, err := listener.DecodeDepositEvent(tx, rsrc, feeAddr)
					switch {
					case err != nil:
						res[cur] = -2
					case !is:
						res[cur] = -1
					case !dep.Amount.IsInt64() || dep.Amount.Sign() < 0:
						res[cur] = -2
					default:
						res[cur] = dep.Amount.Int64()
					}
				}
			}(lo, hi)
		}
		wg.Wait()
		runs := []string{}
		for i := 0; i < len(res); {
			j := i + 1
			if res[i] >= 0 {
				for j < len(res) && res[j] == res[j-1]+1 {
					j++
				}
				runs = append(runs, fmt.Sprintf("%d+%d", res[i], j-i))
			} else {
				for j < len(res) && res[j] == res[i] {
					j++
				}
				runs = append(runs, fmt.Sprintf("%s*%d", map[int64]string{-1: "none", -2: "err", -3: "panic"}[res[i]], j-i))
			}
			i = j
		}
		return joinOr(runs, ",")
	}
	// handle <src> <nonce> <block> <amount> <datahex>  =>  err | msg/<dest>/<nonce>/<amounthex>/<recipienthex>/<msgid>/<src>/<rid>
	ops["C15.handle"] = func(a []string) string {
		amt, _ := new(big.Int).SetString(a[3], 10)
		blk, _ := new(big.Int).SetString(a[2], 10)
		m, err := listener.NewBtcDepositHandler().HandleDeposit(uint8(u64(a[0])), u64(a[1]), [32]byte{7, 0xaa}, amt, string(unhx(a[4])), blk, time.Unix(1, 0))
		if err != nil {
			return "err"
		}
		return "msg/" + c15Msg(m)
	}
	// nonce <height> <txhash as hex of the string's bytes>  =>  decimal
	ops["C15.nonce"] = func(a []string) string {
		h, _ := new(big.Int).SetString(a[0], 10)
		txh := string(unhx(a[1]))
		// two handlers that share nothing but the code; the second one has already processed other work
		e1 := listener.NewFungibleTransferEventHandler(log.With(), 1, nil, nil, nil, nil, nil)
		e2 := listener.NewFungibleTransferEventHandler(log.With(), 9, listener.NewBtcDepositHandler(), make(chan []*message.Message), &c15Conn{},
			map[[32]byte]config.Resource{{7}: c15Resource(2, "5", 7)}, c15Addr(3))
		_, _ = e2.CalculateNonce(big.NewInt(1), "warm-up")
		n1, err1 := e1.CalculateNonce(h, txh)
		n2, err2 := e2.CalculateNonce(new(big.Int).Set(h), strings.Clone(txh))
		n3, _ := e1.CalculateNonce(h, txh)
		if err1 != nil || err2 != nil {
			return "err"
		}
		if n1 != n2 || n1 != n3 {
			return "nondeterministic"
		}
		return utoa(n1)
	}
	// sha <hex>  =>  hex   (validates the Lean SHA-256 used by the nonce model against crypto/sha256)
	ops["C15.sha"] = func(a []string) string {
		s := sha256.Sum256(unhx(a[0]))
		return hex.EncodeToString(s[:])
	}
	// process <domain> <height> <bridge> <feeAddr> <feeAmount> <txs>   txs = hashhex~vouts|hashhex~vouts…
	//   =>  err | messages sorted by destination (stable), each dest/nonce/amounthex/recipienthex/msgid/src/rid
	ops["C15.process"] = func(a []string) string {
		res := c15Resource(int(u64(a[2])), a[4], 7)
		txs := []string{}
		for i, t := range items(a[5], "|") {
			f := strings.SplitN(t, "~", 2)
			txs = append(txs, c15TxJSON(string(unhx(f[0])), f[1], 1700000000+int64(i)))
		}
		conn := &c15Conn{blockJSON: `{"hash":"00","height":` + a[1] + `,"tx":[` + strings.Join(txs, ",") + `]}`}
		if a[1] == "0" {
			conn.fail = 2
		}
		h, _ := new(big.Int).SetString(a[1], 10)
		eh := listener.NewFungibleTransferEventHandler(log.With(), uint8(u64(a[0])), listener.NewBtcDepositHandler(), make(chan []*message.Message, 1), conn,
			map[[32]byte]config.Resource{res.ResourceID: res}, c15Addr(int(u64(a[3]))))
		dd, err := eh.ProcessDeposits(h)
		if err != nil {
			return "err"
		}
		dests := []int{}
		for d := range dd {
			dests = append(dests, int(d))
		}
		sort.Ints(dests)
		out := []string{}
		for _, d := range dests {
			for _, m := range dd[uint8(d)] {
				if m.Destination != uint8(d) {
					out = append(out, "misfiled")
				}
				out = append(out, c15Msg(m))
			}
		}
		return joinOr(out, ";")
	}
	// events <domain> <feeAddr> <resources> <calls>
	//   resources = rid,addr,fee;…  (built by the REAL config.NewBtcConfig from a raw chain config, as app.Run does)
	//   calls     = height^fault^txs ! height^fault^txs …   fault: 0 none, 1 GetBlockHash fails, 2 GetBlockVerboseTx fails,
	//               3/4 the same failures as timeouts (wrapped context.DeadlineExceeded)
	// ONE FungibleTransferEventHandler lives across the whole sequence; each HandleEvents call is followed by draining the
	// message channel.  =>  per call (joined by !): err | batches joined by + (ordered by destination), each the messages joined by ;
	ops["C15.events"] = func(a []string) string {
		raws := []interface{}{}
		for _, r := range items(a[2], ";") {
			f := strings.Split(r, ",")
			raws = append(raws, map[string]interface{}{
				"address":    c15AddrStr[int(u64(f[1]))],
				"resourceID": fmt.Sprintf("0x%02xaa%060x", u64(f[0]), 0),
				"feeAmount":  f[2],
				"tweak":      "t",
				"script":     "51",
			})
		}
		cfg, err := config.NewBtcConfig(map[string]interface{}{
			"id": int(u64(a[0])), "endpoint": "ws://localhost", "name": "btc", "username": "u", "password": "p",
			"network": "testnet", "feeAddress": c15AddrStr[int(u64(a[1]))], "resources": raws,
		})
		if err != nil {
			return "cfgerr"
		}
		resources := make(map[[32]byte]config.Resource)
		for _, r := range cfg.Resources {
			resources[r.ResourceID] = r
		}
		conn := &c15Conn{}
		ch := make(chan []*message.Message)
		eh := listener.NewFungibleTransferEventHandler(log.With(), *cfg.GeneralChainConfig.Id, listener.NewBtcDepositHandler(), ch, conn, resources, cfg.FeeAddress)
		out := []string{}
		for _, c := range strings.Split(a[3], "!") {
			f := strings.SplitN(c, "^", 3)
			txs := []string{}
			for i, t := range items(f[2], "|") {
				g := strings.SplitN(t, "~", 2)
				txs = append(txs, c15TxJSON(string(unhx(g[0])), g[1], 1700000000+int64(i)))
			}
			conn.blockJSON = `{"hash":"00","height":` + f[0] + `,"tx":[` + strings.Join(txs, ",") + `]}`
			conn.fail = int(u64(f[1]))
			h, _ := new(big.Int).SetString(f[0], 10)
			// How many batches does a history-free handler forward for this block?  Ask a FRESH handler's ProcessDeposits (real code).
			want := 0
			if conn.fail == 0 {
				fresh := listener.NewFungibleTransferEventHandler(log.With(), *cfg.GeneralChainConfig.Id, listener.NewBtcDepositHandler(), nil, conn, resources, cfg.FeeAddress)
				if dd, err := fresh.ProcessDeposits(new(big.Int).Set(h)); err == nil {
					want = len(dd)
				}
			}
			// The channel is unbuffered, so every sender goroutine HandleEvents started is still alive when it returns: their
			// number says how many batches are on their way (a hint only: a goroutine of an earlier case may still be exiting).
			base := runtime.NumGoroutine()
			hcopy := new(big.Int).Set(h)
			err := eh.HandleEvents(hcopy)
			senders := runtime.NumGoroutine() - base
			if hcopy.Cmp(h) != 0 {
				out = append(out, "height-mutated")
				continue
			}
			batches := [][]*message.Message{}
			// the batches a history-free handler sends: blocking receive.  On the unchanged tree they always arrive, so the
			// time-outs below only ever run out on a tree that forwards fewer batches than it resolves.
			wait := 15 * time.Second
			if senders < want {
				wait = time.Second
			}
			if c15Broken {
				wait = 50 * time.Millisecond
			}
			for len(batches) < want {
				select {
				case b := <-ch:
					batches = append(batches, b)
					continue
				case <-time.After(wait):
					c15Broken = true
				}
				break
			}
			missing := want - len(batches)
			// anything beyond that (only a broken tree sends more): give counted senders a moment, then take what is there
			for {
				select {
				case b := <-ch:
					batches = append(batches, b)
					continue
				default:
				}
				if len(batches) < senders {
					select {
					case b := <-ch:
						batches = append(batches, b)
						continue
					case <-time.After(20 * time.Millisecond):
					}
				}
				break
			}
			for k := 0; k < missing; k++ {
				batches = append(batches, nil)
			}
			if err != nil {
				if len(batches) > 0 {
					out = append(out, "err-but-sent")
				} else {
					out = append(out, "err")
				}
				continue
			}
			bs := []string{}
			sort.SliceStable(batches, func(i, j int) bool { return c15BatchKey(batches[i]) < c15BatchKey(batches[j]) })
			for _, b := range batches {
				if b == nil {
					bs = append(bs, "missing")
					continue
				}
				ms := []string{}
				for _, m := range b {
					ms = append(ms, c15Msg(m))
				}
				bs = append(bs, joinOr(ms, ";"))
			}
			out = append(out, joinOr(bs, "+"))
		}
		return strings.Join(out, "!")
	}
	gens["C15"] = genC15
}

// set once a batch that a history-free handler sends stayed away: later cases do not wait long for theirs
var c15Broken bool

func c15BatchKey(b []*message.Message) int {
	if len(b) == 0 {
		return 1000
	}
	return int(b[0].Destination)
}

func c15Pow10(k int) uint64 {
	r := uint64(1)
	for i := 0; i < k; i++ {
		r *= 10
	}
	return r
}

// boundary-biased satoshi amount ≤ 21e14
func c15Sats(g *G) uint64 {
	const max = 2100000000000000
	switch g.Intn(8) {
	case 0:
		return uint64(g.Intn(200))
	case 1:
		return uint64(g.Intn(2000000))
	case 2:
		k := g.Intn(16)
		v := c15Pow10(k) + uint64(g.Intn(7)) - 3
		if v > max {
			v = max
		}
		return v
	case 3:
		return max - uint64(g.Intn(1000))
	case 4: // n * 10^k ± small
		v := uint64(1+g.Intn(99))*c15Pow10(g.Intn(14)) + uint64(g.Intn(5)) - 2
		if v > max {
			v = max
		}
		return v
	default:
		return g.U64() % (max + 1)
	}
}

var c15Hexes = []string{
	"-", "6a", "6a00", "6a03", "6a02415f", "zz", "6a0", "6A2C3078653966323341383238393736343238303639376130336143303637393565413932613137306534325f31",
	"6a2c3078653966323341383238393736343238303639376130336143303637393565413932613137306534325f31", // 0xe9f23A8289764280697a03aC06795eA92a170e42_1
	"6a03315f32", "6a045f5f5f5f", "6a05615f323535", "6a05615f323536",
}

func c15RandVout(g *G, bridge, fee int) string {
	ty := []string{"t", "t", "t", "n", "w", "p", "T"}[g.Intn(7)]
	ad := []int{bridge, bridge, fee, 2, 3, 4, 5}[g.Intn(7)]
	hxs := "-"
	if ty == "n" {
		ad = []int{4, 4, 4, bridge, fee}[g.Intn(5)]
		if g.Intn(3) == 0 {
			hxs = hx(append([]byte{0x6a, byte(g.Intn(80))}, c15Payload(g)...))
		} else {
			hxs = g.Pick(c15Hexes)
		}
	} else if g.Intn(10) == 0 {
		hxs = g.Pick(c15Hexes)
	}
	s := c15Sats(g)
	if g.Intn(3) == 0 {
		s = uint64(g.Intn(4))
	}
	v := ty + "," + itoa(ad) + "," + utoa(s) + "," + hxs
	switch g.Intn(12) {
	case 0:
		v += ",s"
	case 1:
		v += ",e"
	}
	return v
}

// OP_RETURN payloads: mostly `<hex address>_<domain>` with boundary domains, sometimes junk
func c15Payload(g *G) []byte {
	addr := []string{
		"0xe9f23A8289764280697a03aC06795eA92a170e42", "e9f23A8289764280697a03aC06795eA92a170e42", "0Xe9f23a8289764280697a03ac06795ea92a170e42",
		"0x", "", "0x1", "abc", "0xzz", "12zz34", "0x00e9f23A8289764280697a03aC06795eA92a170e42ff", "0xe9f23A8289764280697a03aC06795eA92a170e4", "x", "0x0x11",
	}[g.Intn(13)]
	dom := []string{"1", "2", "0", "255", "256", "007", "", "+1", "-1", "1_9", "1 ", "a", "99999999999999999999999", "1_", "2_3_4"}[g.Intn(15)]
	switch g.Intn(10) {
	case 0:
		return []byte(addr) // no separator
	case 1:
		return g.Bytes(g.Intn(12))
	case 2:
		return []byte("_" + dom)
	}
	return []byte(addr + "_" + dom)
}

func genC15(g *G) {
	defer genC15Events(g)
	// --- SHA-256 vectors (padding boundaries) and nonces
	for _, n := range []int{0, 1, 3, 55, 56, 57, 63, 64, 65, 119, 120, 128, 200} {
		g.Emit("sha", hx(g.Bytes(n)))
	}
	for i := 0; i < g.Count(40, 2000); i++ {
		g.Emit("sha", hx(g.Bytes(g.Intn(150))))
	}
	g.Emit("nonce", "850000", hx([]byte("a3f1e4d8b3c5e2a1f6d3c7e4b8a9f3e2c1d4a6b7c8e3f1d2c4b5a6e7")))
	for i := 0; i < g.Count(150, 5000); i++ {
		h := []string{"0", "1", "99", "100", "850000", utoa(g.U64() % 10000000), utoa(g.U64())}[g.Intn(7)]
		var txh []byte
		switch g.Intn(4) {
		case 0:
			txh = g.Bytes(g.Intn(5))
		default:
			txh = []byte(hex.EncodeToString(g.Bytes(32)))
		}
		g.Emit("nonce", h, hx(txh))
	}
	// --- conversion: every amount up to 10^6 (quick) / 2·10^7 (thorough), then windows up to the supply
	chunk := uint64(50000)
	top := uint64(g.Count(1000000, 20000000))
	for s := uint64(0); s < top; s += chunk {
		g.Emit("convrange", utoa(s), utoa(chunk), "b")
	}
	for s := uint64(0); s < top/10; s += chunk {
		g.Emit("convrange", utoa(s), utoa(chunk), "f")
	}
	for k := 7; k <= 15; k++ {
		g.Emit("convrange", utoa(c15Pow10(k)-1000), "2000", "b")
		g.Emit("convrange", utoa(c15Pow10(k)-1000), "2000", "f")
	}
	g.Emit("convrange", "2099999999990000", "10001", "b")
	g.Emit("convrange", "2099999999990000", "10001", "f")
	for i := 0; i < g.Count(60, 1500); i++ {
		g.Emit("convrange", utoa(g.U64()%2100000000000000), "2000", []string{"b", "f"}[g.Intn(2)])
	}
	// --- decode: exhaustive small scope. bridge=0 fee=1; vout alphabet × length ≤ 3 × fee threshold around the fee sum
	alpha := []string{
		"t,0,3,-", "t,0,29,-", "w,0,5,-", "t,1,57,-", "p,1,1,-", "t,2,9,-", "n,4,0,6a02415f", "n,4,0,6a0442425f32", "n,4,0,6a", "n,4,0,zz", "t,4,1,-",
	}
	L := g.Count(3, 4)
	var rec func(prefix []string, depth int)
	rec = func(prefix []string, depth int) {
		for _, fee := range []string{"0", "57", "58", "59"} {
			g.Emit("decode", "0", "1", fee, joinOr(prefix, ";"))
		}
		if depth == L {
			return
		}
		for _, a := range alpha {
			rec(append(append([]string{}, prefix...), a), depth+1)
		}
	}
	rec(nil, 0)
	// bridge address = fee address; negative fee threshold
	for _, v := range []string{"t,0,3,-", "w,0,3,-", "t,0,3,-;t,0,4,-", "t,1,3,-"} {
		for _, fee := range []string{"-1", "0", "2", "3", "4", "7", "8"} {
			g.Emit("decode", "0", "0", fee, v)
		}
	}
	// --- decode: random structured
	for i := 0; i < g.Count(2500, 80000); i++ {
		bridge, fee := g.Intn(4), g.Intn(4)
		n := g.Intn(6)
		vs := []string{}
		feeSum := uint64(0)
		for j := 0; j < n; j++ {
			v := c15RandVout(g, bridge, fee)
			f := strings.Split(v, ",")
			if int(u64(f[1])) == fee {
				feeSum += u64(f[2])
			}
			vs = append(vs, v)
		}
		thr := int64(feeSum) + int64(g.Intn(5)) - 2
		if g.Intn(5) == 0 {
			thr = int64(c15Sats(g))
		}
		g.Emit("decode", itoa(bridge), itoa(fee), strconv.FormatInt(thr, 10), joinOr(vs, ";"))
	}
	// --- handle: OP_RETURN payloads
	for i := 0; i < g.Count(1500, 40000); i++ {
		amt := c15Sats(g)
		if g.Intn(4) == 0 {
			amt = uint64(g.Intn(3))
		}
		blk := []string{"0", "1", "850000", utoa(g.U64())}[g.Intn(4)]
		g.Emit("handle", itoa(g.Intn(256)), utoa(g.U64()>>uint(g.Intn(64))), blk, utoa(amt), hx(c15Payload(g)))
	}
	// --- whole pipeline: blocks of transactions through ProcessDeposits
	g.Emit("process", "1", "0", "0", "1", "0", "-") // block fetch fails
	for i := 0; i < g.Count(700, 20000); i++ {
		bridge, fee := g.Intn(3), g.Intn(3)
		nt := g.Intn(5)
		txs := []string{}
		thr := uint64(g.Intn(4))
		for t := 0; t < nt; t++ {
			vs := []string{}
			if g.Intn(4) != 0 { // a plausible deposit: bridge output(s), fee output, OP_RETURN
				for k := 0; k <= g.Intn(3); k++ {
					vs = append(vs, "t,"+itoa(bridge)+","+utoa(c15Sats(g))+",-")
				}
				vs = append(vs, "t,"+itoa(fee)+","+utoa(thr+uint64(g.Intn(3))-1+1)+",-")
				vs = append(vs, "n,4,0,"+hx(append([]byte{0x6a, 0x2c}, c15Payload(g)...)))
				c15Shuffle(g, vs)
			}
			for k := 0; k < g.Intn(3); k++ {
				vs = append(vs, c15RandVout(g, bridge, fee))
			}
			txh := hex.EncodeToString(g.Bytes(32))
			if g.Intn(15) == 0 && t > 0 {
				txh = "dup"
			}
			txs = append(txs, hx([]byte(txh))+"~"+joinOr(vs, ";"))
		}
		g.Emit("process", itoa(1+g.Intn(3)), utoa(1+g.U64()%900000), itoa(bridge), itoa(fee), utoa(thr), joinOr(txs, "|"))
	}
}

// a block for the events op: mostly plausible deposits paying one of the resources' addresses, fee output placed around the
// resources' thresholds, destination taken from a small set so that one block carries several destinations
func c15EventBlock(g *G, res [][3]string, feeAddr int) string {
	nt := g.Intn(6)
	txs := []string{}
	fees := []uint64{}
	for _, r := range res {
		fees = append(fees, u64(r[2]))
	}
	for t := 0; t < nt; t++ {
		vs := []string{}
		if g.Intn(6) != 0 {
			r := res[g.Intn(len(res))]
			for k := 0; k <= g.Intn(2); k++ {
				vs = append(vs, "t,"+r[1]+","+utoa(1+uint64(g.Intn(5000)))+",-")
			}
			f := fees[g.Intn(len(fees))]
			switch g.Intn(4) {
			case 0:
				if f > 0 {
					f--
				}
			case 1:
				f++
			}
			vs = append(vs, "t,"+itoa(feeAddr)+","+utoa(f)+",-")
			pl := []byte("0xe9f23A8289764280697a03aC06795eA92a170e42_" + []string{"1", "2", "3", "2", "3", "7"}[g.Intn(6)])
			if g.Intn(12) == 0 {
				pl = c15Payload(g)
			}
			vs = append(vs, "n,4,0,"+hx(append([]byte{0x6a, byte(len(pl))}, pl...)))
			if g.Intn(3) == 0 {
				c15Shuffle(g, vs)
			}
		} else {
			for k := 0; k < g.Intn(3); k++ {
				vs = append(vs, c15RandVout(g, int(u64(res[0][1])), feeAddr))
			}
		}
		txs = append(txs, hx([]byte(hex.EncodeToString(g.Bytes(32))))+"~"+joinOr(vs, ";"))
	}
	return joinOr(txs, "|")
}

func genC15Events(g *G) {
	P := func(d string) string {
		pl := []byte("0xe9f23A8289764280697a03aC06795eA92a170e42_" + d)
		return "n,4,0," + hx(append([]byte{0x6a, byte(len(pl))}, pl...))
	}
	dep := func(h string, addr int, amt, fee uint64, dest string) string {
		return hx([]byte(h)) + "~t," + itoa(addr) + "," + utoa(amt) + ",-;t,1," + utoa(fee) + ",-;" + P(dest)
	}
	// several destinations in one block (1, 2, 3 destinations; several deposits per destination)
	b2 := dep("aa", 0, 3, 5, "2") + "|" + dep("bb", 0, 4, 5, "3") + "|" + dep("cc", 0, 9, 5, "2")
	b3 := b2 + "|" + dep("dd", 0, 11, 5, "1") + "|" + dep("ee", 0, 12, 5, "3")
	g.Emit("events", "1", "1", "7,0,5", "100^0^"+dep("aa", 0, 3, 5, "2"))
	g.Emit("events", "1", "1", "7,0,5", "100^0^"+b2)
	g.Emit("events", "1", "1", "7,0,5", "100^0^"+b3)
	g.Emit("events", "1", "1", "7,0,5", "100^0^"+b3+"!101^0^"+b2+"!102^0^-")
	// the listener's retry: the block fetch fails (each way, plain and timeout), then the same height again
	for _, f := range []string{"1", "2", "3", "4"} {
		g.Emit("events", "1", "1", "7,0,5", "100^"+f+"^"+b2+"!100^0^"+b2)
		g.Emit("events", "1", "1", "7,0,5", "99^0^"+b2+"!100^"+f+"^"+b3+"!100^"+f+"^"+b3+"!100^0^"+b3+"!101^0^"+b2)
	}
	// the same height twice without a fault, and going back to an earlier height (history-free: handled like any call)
	g.Emit("events", "1", "1", "7,0,5", "100^0^"+b2+"!100^0^"+b2)
	g.Emit("events", "1", "1", "7,0,5", "100^0^"+b2+"!101^0^"+b3+"!100^0^"+b2)
	// several resources with different fee thresholds (both config orders), deposits paying below / between / above them
	for _, rs := range []string{"7,0,5;8,2,9", "8,2,9;7,0,5", "7,0,9;8,2,5", "8,2,5;7,0,9", "7,0,5;8,0,9", "9,3,2;7,0,5;8,2,9"} {
		blk := ""
		for i, fee := range []uint64{4, 5, 7, 9, 10} {
			for j, addr := range []int{0, 2} {
				if blk != "" {
					blk += "|"
				}
				blk += dep(fmt.Sprintf("t%d%d", i, j), addr, uint64(10+i), fee, []string{"2", "3"}[j])
			}
		}
		g.Emit("events", "2", "1", rs, "500^0^"+blk)
	}
	// random sequences
	for i := 0; i < g.Count(500, 12000); i++ {
		nr := 1 + g.Intn(3)
		res := [][3]string{}
		rsStr := []string{}
		rids := []int{7, 8, 9, 3}
		c15ShuffleInts(g, rids)
		baseFee := uint64(1 + g.Intn(20))
		for k := 0; k < nr; k++ {
			addr := []int{0, 2, 3, 0}[g.Intn(4)]
			fee := baseFee + uint64(k*(1+g.Intn(4)))
			if g.Bool() {
				fee = baseFee + uint64((nr-k)*(1+g.Intn(4)))
			}
			r := [3]string{itoa(rids[k]), itoa(addr), utoa(fee)}
			res = append(res, r)
			rsStr = append(rsStr, strings.Join(r[:], ","))
		}
		nc := 1 + g.Intn(4)
		calls := []string{}
		h := 100 + uint64(g.Intn(1000))
		blk := c15EventBlock(g, res, 1)
		for c := 0; c < nc; c++ {
			fault := 0
			if g.Intn(4) == 0 {
				fault = 1 + g.Intn(4)
			}
			calls = append(calls, utoa(h)+"^"+itoa(fault)+"^"+blk)
			if fault == 0 || g.Intn(3) == 0 { // after a failed fetch the listener asks for the same height again
				if g.Intn(5) != 0 {
					h++
				}
				blk = c15EventBlock(g, res, 1)
			}
		}
		g.Emit("events", itoa(1+g.Intn(3)), "1", joinOr(rsStr, ";"), strings.Join(calls, "!"))
	}
}

func c15ShuffleInts(g *G, xs []int) {
	for i := len(xs) - 1; i > 0; i-- {
		j := g.Intn(i + 1)
		xs[i], xs[j] = xs[j], xs[i]
	}
}

func c15Shuffle(g *G, xs []string) {
	for i := len(xs) - 1; i > 0; i-- {
		j := g.Intn(i + 1)
		xs[i], xs[j] = xs[j], xs[i]
	}
}
