package main

// C02 — end to end: what the bridge receives is a batch together with a signature of the group key over THAT batch's digest.
//   execsign : three relayers (the repository's three key share fixtures, threshold 1) run the REAL EVM Executor.Execute on
//              the same delivery, each with its own REAL tss.Coordinator, over an in-memory network that is reliable and
//              order preserving (a message for a session nobody listens to yet is kept until somebody does). The sessions
//              really sign (threshlib, two parties per session). The fake destination behaves like the bridge contract:
//              on executeProposals it recomputes the EIP-712 digest of the batch it was handed (real chains.ProposalsHash,
//              itself tied to the Lean specification by op `hash`) and recovers the signer from the 65 bytes; it accepts
//              and marks the proposals executed only if the signer is the group key.
//              Sessions are held back (ready messages are not delivered) until every relayer has hashed all its batches,
//              so that whatever the executor shares between its batch goroutines has been written by all of them before
//              any session reads it. On the unchanged code the outcome does not depend on timing: every batch is accepted
//              exactly once.

import (
	"bytes"
	"fmt"
	"math/big"
	"os"
	"sort"
	"strings"
	"sync"
	"time"

	"github.com/ChainSafe/sygma-relayer/chains"
	evmexec "github.com/ChainSafe/sygma-relayer/chains/evm/executor"
	subexec "github.com/ChainSafe/sygma-relayer/chains/substrate/executor"
	"github.com/ChainSafe/sygma-relayer/comm"
	"github.com/ChainSafe/sygma-relayer/comm/elector"
	"github.com/ChainSafe/sygma-relayer/keyshare"
	"github.com/ChainSafe/sygma-relayer/relayer/transfer"
	"github.com/ChainSafe/sygma-relayer/tss"
	"github.com/centrifuge/go-substrate-rpc-client/v4/rpc/author"
	"github.com/centrifuge/go-substrate-rpc-client/v4/types"
	ethCommon "github.com/ethereum/go-ethereum/common"
	"github.com/ethereum/go-ethereum/crypto"
	"github.com/libp2p/go-libp2p/core/peer"
	"github.com/libp2p/go-libp2p/core/peerstore"
	ma "github.com/multiformats/go-multiaddr"
	"github.com/sygmaprotocol/sygma-core/chains/evm/transactor"
	"github.com/sygmaprotocol/sygma-core/relayer/proposal"
)

// ------------------------------------------------------------------------------------------------ reliable in-memory network

type c02Sub struct {
	ch   chan *comm.WrappedMessage
	gone chan struct{}
}

type c02Line struct { // everything addressed to one (peer, session, type)
	queue []*comm.WrappedMessage
	subs  map[string]*c02Sub
	busy  bool
}

type c02Bus struct {
	mu       sync.Mutex
	cond     *sync.Cond
	lines    map[string]*c02Line
	subKey   map[string]string // subscription id -> line key
	done     chan struct{}
	released bool // ready messages are delivered only after release()
	n        int
}

func newC02Bus() *c02Bus {
	b := &c02Bus{lines: map[string]*c02Line{}, subKey: map[string]string{}, done: make(chan struct{})}
	b.cond = sync.NewCond(&b.mu)
	go func() { <-b.done; b.mu.Lock(); b.cond.Broadcast(); b.mu.Unlock() }()
	return b
}

func (b *c02Bus) line(k string) *c02Line {
	l := b.lines[k]
	if l == nil {
		l = &c02Line{subs: map[string]*c02Sub{}}
		b.lines[k] = l
	}
	return l
}

func (b *c02Bus) closed() bool {
	select {
	case <-b.done:
		return true
	default:
		return false
	}
}

func (b *c02Bus) release() {
	b.mu.Lock()
	b.released = true
	b.cond.Broadcast()
	b.mu.Unlock()
}

// pump delivers the queue of one line in order; it waits while nobody is subscribed (and, for ready messages, until release).
func (b *c02Bus) pump(k string, held bool) {
	for {
		b.mu.Lock()
		l := b.lines[k]
		for !b.closed() && (len(l.queue) == 0 || len(l.subs) == 0 || (held && !b.released)) {
			if len(l.queue) == 0 {
				l.busy = false
				b.mu.Unlock()
				return
			}
			b.cond.Wait()
		}
		if b.closed() {
			b.mu.Unlock()
			return
		}
		m := l.queue[0]
		subs := []*c02Sub{}
		for _, s := range l.subs {
			subs = append(subs, s)
		}
		b.mu.Unlock()
		delivered := false
		for _, s := range subs {
			select {
			case s.ch <- m:
				delivered = true
			case <-s.gone:
			case <-b.done:
				return
			}
		}
		b.mu.Lock()
		if delivered {
			l.queue = l.queue[1:]
		}
		b.mu.Unlock()
	}
}

type c02BusComm struct {
	bus  *c02Bus
	self peer.ID
}

func (c *c02BusComm) CloseSession(string) {}
func (c *c02BusComm) Subscribe(sessionID string, t comm.MessageType, ch chan *comm.WrappedMessage) comm.SubscriptionID {
	k := fmt.Sprintf("%s|%s|%d", c.self, sessionID, t)
	b := c.bus
	b.mu.Lock()
	defer b.mu.Unlock()
	b.n++
	id := fmt.Sprintf("%s-%d-%d", sessionID, t, b.n)
	b.line(k).subs[id] = &c02Sub{ch: ch, gone: make(chan struct{})}
	b.subKey[id] = k
	b.cond.Broadcast()
	return comm.SubscriptionID(id)
}
func (c *c02BusComm) UnSubscribe(id comm.SubscriptionID) {
	b := c.bus
	b.mu.Lock()
	defer b.mu.Unlock()
	if k, ok := b.subKey[string(id)]; ok {
		if s := b.lines[k].subs[string(id)]; s != nil {
			close(s.gone)
			delete(b.lines[k].subs, string(id))
		}
		delete(b.subKey, string(id))
	}
}
func (c *c02BusComm) Broadcast(peers peer.IDSlice, msg []byte, t comm.MessageType, sessionID string) error {
	b := c.bus
	for _, p := range peers {
		if p == c.self {
			continue
		}
		w := &comm.WrappedMessage{MessageType: t, SessionID: sessionID, Payload: append([]byte{}, msg...), From: c.self}
		k := fmt.Sprintf("%s|%s|%d", p, sessionID, t)
		b.mu.Lock()
		l := b.line(k)
		l.queue = append(l.queue, w)
		start := !l.busy
		l.busy = true
		b.cond.Broadcast()
		b.mu.Unlock()
		if start {
			go b.pump(k, t == comm.TssReadyMsg)
		}
	}
	return nil
}

// ------------------------------------------------------------------------------------------------ the destination

const c02SignChain = int64(11155111)

var c02SignBridge = "0x6CdE2Cd82a4F8B74693Ff5e194c19CA08c2d1c68"

type c02SignChainState struct {
	mu       sync.Mutex
	executed map[uint64]bool
	groupPub []byte
	subs     []string
	hashes   []int // ProposalsHash calls per relayer
}

type c02SignBridgeOf struct {
	c   *c02SignChainState
	who int
}

func (b c02SignBridgeOf) IsProposalExecuted(p *transfer.TransferProposal) (bool, error) {
	b.c.mu.Lock()
	defer b.c.mu.Unlock()
	return b.c.executed[p.Data.DepositNonce], nil
}
func (b c02SignBridgeOf) ProposalsHash(ps []*transfer.TransferProposal) ([]byte, error) {
	h, err := chains.ProposalsHash(ps, c02SignChain, c02SignBridge, "3.1.0")
	b.c.mu.Lock()
	b.c.hashes[b.who]++
	b.c.mu.Unlock()
	return h, err
}
func (b c02SignBridgeOf) ExecuteProposals(ps []*transfer.TransferProposal, sig []byte, opts transactor.TransactOptions) (*ethCommon.Hash, error) {
	if err := b.c.accept(ps, sig); err != nil {
		return nil, err
	}
	return &ethCommon.Hash{}, nil
}

type c02SignPalletOf struct{ c02SignBridgeOf }

func (b c02SignPalletOf) ExecuteProposals(ps []*transfer.TransferProposal, sig []byte) (types.Hash, *author.ExtrinsicStatusSubscription, error) {
	return types.Hash{}, nil, b.c.accept(ps, sig)
}
func (b c02SignPalletOf) TrackExtrinsic(h types.Hash, sub *author.ExtrinsicStatusSubscription) error {
	return nil
}

// accept: what the bridge contract / pallet does with (batch, signature)
func (c *c02SignChainState) accept(ps []*transfer.TransferProposal, sig []byte) error {
	b := struct{ c *c02SignChainState }{c}
	digest, err := chains.ProposalsHash(ps, c02SignChain, c02SignBridge, "3.1.0")
	verdict := "badsig"
	if err == nil && len(sig) == 65 && (sig[64] == 27 || sig[64] == 28) {
		rsv := append([]byte{}, sig...)
		rsv[64] -= 27
		if pub, err := crypto.Ecrecover(digest, rsv); err == nil && bytes.Equal(pub, b.c.groupPub) {
			verdict = "ok"
		}
	}
	b.c.mu.Lock()
	defer b.c.mu.Unlock()
	b.c.subs = append(b.c.subs, verdict+":"+c02Nonces(ps))
	if verdict != "ok" {
		return fmt.Errorf("execution reverted: invalid message signer")
	}
	for _, p := range ps {
		b.c.executed[p.Data.DepositNonce] = true
	}
	return nil
}

func init() {
	for i, a := range os.Args { // real threshold signing: leave head-room on a loaded machine (only this property's driver)
		if a == "C02" && i > 0 && os.Args[i-1] == "-prop" {
			opTimeout = 150 * time.Second
		}
	}
	if os.Getenv("VERIF_LONG_OPS") != "" {
		opTimeout = 150 * time.Second
	}

	// execsign <evm|sub> <cap> <transfer gas> <per-proposal gas metadata, suffix e = already executed>
	//   => subs=<ok|badsig>:<nonces>;…(sorted)|left=<pending proposals never executed>
	ops["C02.execsign"] = func(a []string) string {
		stores := []*keyshare.ECDSAKeyshareStore{}
		peers := make([]peer.ID, 3) // peers[i] = the holder of fixture i (its tss party key is the share id)
		var groupPub []byte
		for i := 0; i < 3; i++ {
			st := keyshare.NewECDSAKeyshareStore(fmt.Sprintf("%s/tss/test/keyshares/%d.keyshare", repoRoot(), i))
			k, err := st.GetKeyshare()
			if err != nil {
				return "no-keyshare-fixture"
			}
			stores = append(stores, st)
			for _, p := range k.Peers {
				if new(big.Int).SetBytes([]byte(p.String())).Cmp(k.Key.ShareID) == 0 {
					peers[i] = p
				}
			}
			if peers[i] == "" {
				return "fixture-holder-unknown"
			}
			pub := crypto.FromECDSAPub(k.Key.ECDSAPub.ToBtcecPubKey().ToECDSA())
			if groupPub != nil && !bytes.Equal(groupPub, pub) {
				return "fixtures-disagree-on-key"
			}
			groupPub = pub
		}
		chain := &c02SignChainState{executed: map[uint64]bool{}, groupPub: groupPub, hashes: make([]int, 3)}
		pending := []uint64{}
		mk := func() []*proposal.Proposal {
			props := []*proposal.Proposal{}
			for i, gs := range items(a[3], ",") {
				ex := strings.HasSuffix(gs, "e")
				gs = strings.TrimSuffix(gs, "e")
				md := map[string]interface{}{}
				if gs != "n" {
					md["gasLimit"] = u64(gs)
				}
				var rid [32]byte
				rid[31] = byte(i)
				props = append(props, proposal.NewProposal(1, 2, transfer.TransferProposalData{
					DepositNonce: uint64(i), ResourceId: rid, Metadata: md, Data: []byte{byte(i), 0xaa},
				}, "m", transfer.TransferProposalType))
				_ = ex
			}
			return props
		}
		for i, gs := range items(a[3], ",") {
			chain.executed[uint64(i)] = strings.HasSuffix(gs, "e")
			if !strings.HasSuffix(gs, "e") {
				pending = append(pending, uint64(i))
			}
		}
		bus := newC02Bus()
		defer close(bus.done)
		old := evmexec.VerifC02SetCheckPeriod(time.Millisecond)
		defer evmexec.VerifC02SetCheckPeriod(old)
		oldS := subexec.VerifC02SetCheckPeriod(time.Millisecond)
		defer subexec.VerifC02SetCheckPeriod(oldS)
		addr, _ := ma.NewMultiaddr("/ip4/127.0.0.1/tcp/1")
		done := make(chan error, 3)
		for i := 0; i < 3; i++ {
			h := c02NewHost(peers[i])
			for _, p := range peers {
				h.ps.AddAddr(p, addr, peerstore.PermanentAddrTTL)
			}
			cm := &c02BusComm{bus: bus, self: peers[i]}
			co := tss.NewCoordinator(h, cm, &elector.CoordinatorElectorFactory{})
			co.TssTimeout, co.CoordinatorTimeout, co.InitiatePeriod = time.Hour, time.Hour, time.Hour
			props := mk()
			if a[0] == "evm" {
				e := evmexec.NewExecutor(h, cm, co, c02SignBridgeOf{chain, i}, stores[i], &sync.RWMutex{}, u64(a[1]), u64(a[2]))
				go func() { done <- e.Execute(props) }()
			} else {
				e := subexec.NewExecutor(h, cm, co, c02SignPalletOf{c02SignBridgeOf{chain, i}}, stores[i], nil, &sync.RWMutex{})
				go func() { done <- e.Execute(props) }()
			}
		}
		// let the sessions start once every relayer has hashed the same, stable number of batches (or none will be hashed)
		go func() {
			last, since := -1, time.Now()
			for start := time.Now(); time.Since(start) < 5*time.Second; time.Sleep(2 * time.Millisecond) {
				chain.mu.Lock()
				x, same := chain.hashes[0], chain.hashes[0] == chain.hashes[1] && chain.hashes[1] == chain.hashes[2]
				chain.mu.Unlock()
				if !same || x != last {
					last, since = x, time.Now()
					if !same {
						last = -1
					}
					continue
				}
				if x > 0 && time.Since(since) > 40*time.Millisecond {
					break
				}
			}
			bus.release()
		}()
		// The run is over when every pending proposal is executed at the destination (event driven), or — never on the
		// unchanged code — shortly after a REJECTED submission, or at the deadline. Whether each relayer's Execute has
		// returned by then is deliberately not part of the observation: a non-submitting party hands `nil` to a watcher
		// that may already have seen the batch executed and left (Signing.processEndMessage sends without a way out),
		// which is a matter of session clean-up (C09), not of what is signed and submitted.
		deadline := time.After(100 * time.Second)
		tick := time.NewTicker(5 * time.Millisecond)
		defer tick.Stop()
		stuck := false
		var rejectedAt time.Time
		returned := 0
		for over := false; !over; {
			select {
			case <-done:
				returned++
			case <-deadline:
				stuck, over = true, true
			case <-tick.C:
				chain.mu.Lock()
				all := true
				for _, n := range pending {
					all = all && chain.executed[n]
				}
				for _, r := range chain.subs {
					if strings.HasPrefix(r, "badsig") && rejectedAt.IsZero() {
						rejectedAt = time.Now()
					}
				}
				chain.mu.Unlock()
				if all && rejectedAt.IsZero() {
					over = true
				}
				if !rejectedAt.IsZero() && time.Since(rejectedAt) > 1500*time.Millisecond {
					stuck, over = true, true
				}
			}
		}
		chain.mu.Lock()
		defer chain.mu.Unlock()
		subs := append([]string{}, chain.subs...)
		sort.Strings(subs)
		left := []string{}
		for _, n := range pending {
			if !chain.executed[n] {
				left = append(left, utoa(n))
			}
		}
		out := "subs=" + joinOr(subs, ";") + "|left=" + joinOr(left, ",")
		if stuck {
			out += "|stuck"
		}
		return out
	}
}

func genC02Sign(g *G) {
	// one batch, two batches, three batches, a partially executed delivery; more shapes in the thorough tier
	for _, spec := range []string{"n", "n,n", "39,n,n", "n,41e,n"} {
		g.Emit("execsign", "evm", "100", "60", spec)
	}
	g.Emit("execsign", "sub", "100", "60", "n,41e,n")
	alpha := []string{"n", "0", "39", "40", "41", "100"}
	for i := 0; i < g.Count(2, 60); i++ {
		n := 2 + g.Intn(4)
		xs := []string{}
		for j := 0; j < n; j++ {
			x := g.Pick(alpha)
			if g.Intn(5) == 0 {
				x += "e"
			}
			xs = append(xs, x)
		}
		g.Emit("execsign", []string{"evm", "evm", "sub"}[g.Intn(3)], []string{"100", "130", "1000"}[g.Intn(3)], "60", strings.Join(xs, ","))
	}
}

