package main

// C11 — classification of a failed signing attempt and the retry without the culprits.
// Real code under test: tss.Coordinator.Execute / handleError / retry / start, common.ExcludePeers, PeersFromParties,
// the bully elector (through the overlay constructor elector.VerifC11NewFactory over the scripted Communication),
// conc's error pools (errors.Join aggregation), and — for the second attempt — initiate / waitForStart / Signing.

import (
	"context"
	"errors"
	"strings"
	"sync"
	"time"

	"github.com/ChainSafe/sygma-relayer/comm"
	"github.com/ChainSafe/sygma-relayer/comm/elector"
	"github.com/ChainSafe/sygma-relayer/config/relayer"
	"github.com/ChainSafe/sygma-relayer/tss"
	"github.com/ChainSafe/sygma-relayer/tss/ecdsa/common"
	ecdsaKeygen "github.com/ChainSafe/sygma-relayer/tss/ecdsa/keygen"
	ecdsaResharing "github.com/ChainSafe/sygma-relayer/tss/ecdsa/resharing"
	frostKeygen "github.com/ChainSafe/sygma-relayer/tss/frost/keygen"
	frostResharing "github.com/ChainSafe/sygma-relayer/tss/frost/resharing"
	"github.com/ChainSafe/sygma-relayer/tss/message"
	tsslib "github.com/binance-chain/tss-lib/tss"
	"github.com/libp2p/go-libp2p/core/peer"
	"github.com/sourcegraph/conc/pool"
)

// ---------------------------------------------------------------- error values

// c11Leaf: P<fault><peer> the error of the real Libp2pCommunication.Broadcast, c<peer>|cnone CoordinatorError, m[<peer>] CommunicationError, t[<peer>+…] tss.Error with culprits,
// u tss.Error with a culprit id that is no peer id, s SubsetError, o an untyped error, n nil.
func c11Leaf(code string, self peer.ID) error {
	switch code[0] {
	case 'c':
		if code == "cnone" {
			return &tss.CoordinatorError{Peer: peer.ID("")}
		}
		return &tss.CoordinatorError{Peer: c07Peer(code[1:])}
	case 'm':
		e := &comm.CommunicationError{Err: errors.New("waiting for peers")}
		if len(code) > 1 {
			e.Peer = c07Peer(code[1:])
		}
		return e
	case 't':
		cs := []*tsslib.PartyID{}
		if len(code) > 1 {
			for _, t := range strings.Split(code[1:], "+") {
				cs = append(cs, common.CreatePartyID(c07Peer(t).String()))
			}
		}
		return tsslib.NewError(errors.New("bad share"), "signing", 3, nil, cs...)
	case 'u':
		return tsslib.NewError(errors.New("bad share"), "signing", 3, nil, tsslib.NewPartyID("not-a-peer-id", "x", common.CreatePartyID("x").KeyInt()))
	case 's':
		return &tss.SubsetError{Peer: self}
	case 'P':
		// what the repository's own transport adapter returns when sending to <peer> breaks at point <fault>
		// (a no address, d dial, n NewStream, w write on a fresh stream, c write on the session's cached stream)
		return c07SendFault(self, c07Peer(code[2:]), code[1], "s")
	case 'o':
		return errors.New("watchdog")
	case 'n':
		return nil
	}
	panic("bad error code " + code)
}

// c11Split splits the inside of a bracket at top-level commas.
func c11Split(s string) []string {
	out := []string{}
	depth, start := 0, 0
	for i, ch := range s {
		switch ch {
		case '[':
			depth++
		case ']':
			depth--
		case ',':
			if depth == 0 {
				out = append(out, s[start:i])
				start = i + 1
			}
		}
	}
	return append(out, s[start:])
}

// c11Build evaluates an error spec with REAL conc pools: `[a,b,…]` is a pool (configured like the coordinator's:
// WithContext().WithCancelOnError()) whose tasks return a, b, … and finish in that order (the pool is limited to one
// goroutine so that the completion order is the submission order; aggregation is conc's own ErrorPool.addErr).
func c11Build(spec string, self peer.ID) error {
	if !strings.HasPrefix(spec, "[") {
		return c11Leaf(spec, self)
	}
	p := pool.New().WithContext(context.Background()).WithCancelOnError().WithMaxGoroutines(1)
	for _, it := range c11Split(spec[1 : len(spec)-1]) {
		e := c11Build(it, self)
		p.Go(func(context.Context) error { return e })
	}
	return p.Wait()
}

// c11Shape prints the Join structure of an error: w(x) = Join of one, p(x,y) = Join of two, leaves by class.
func c11Shape(err error) string {
	if err == nil {
		return "nil"
	}
	if j, ok := err.(interface{ Unwrap() []error }); ok {
		es := j.Unwrap()
		xs := []string{}
		for _, e := range es {
			xs = append(xs, c11Shape(e))
		}
		switch len(es) {
		case 1:
			return "w(" + xs[0] + ")"
		case 2:
			return "p(" + xs[0] + "," + xs[1] + ")"
		}
		return "j" + itoa(len(es)) + "(" + strings.Join(xs, ",") + ")"
	}
	switch e := err.(type) {
	case *tss.CoordinatorError:
		return "c" + c07Tok(e.Peer)
	case *comm.CommunicationError:
		return "m"
	case *tsslib.Error:
		ps, perr := common.PeersFromParties(e.Culprits())
		if perr != nil {
			return "u"
		}
		xs := []string{}
		for _, p := range ps {
			xs = append(xs, c07Tok(p))
		}
		return "t" + strings.Join(xs, "+")
	case *tss.SubsetError:
		return "s"
	}
	return "o"
}

// ---------------------------------------------------------------- scenario engine

type c11Env struct {
	cm      *c07Comm
	co      *tss.Coordinator
	proc    *c07Proc
	sid     string
	self    peer.ID
	holders []peer.ID

	startParams []byte        // params of the replacement start a claimant sends (default: the opaque "p1")
	realRuns    int           // >0: the process is real; number of protocol broadcasts of the first attempt + 1
	bullyWait   time.Duration // BullyWaitTime of this run
	silent      bool          // the first attempt ends by CoordinatorTimeout (set short); everything later runs with one hour
	short       bool          // `~`: CoordinatorTimeout is short until an election starts
	mu          sync.Mutex
	lb          time.Time     // a moment known to precede the creation of the election's timer
	elect       chan struct{} // closed when an election subscribes to the Select messages (election started)
	electOnce   sync.Once
	over        chan struct{} // closed when the election's Select subscription is released (election over)
	overOnce    sync.Once
	firstSeen   bool
}

// setSilent: the first attempt ends by CoordinatorTimeout; when its waitForStart subscribes to the start messages the
// mark is set (only later subscriptions are delivered to) and the time-out of everything after it becomes one hour.
func (e *c11Env) setSilent() {
	e.silent = true
	t := comm.TssStartMsg
	e.cm.markFirst = &t
}

func (e *c11Env) setLB() {
	e.mu.Lock()
	e.lb = time.Now()
	e.mu.Unlock()
}

// onEvent runs synchronously inside the goroutine of the code under test that subscribes / unsubscribes / broadcasts.
func (e *c11Env) onEvent(ev c07Event) {
	if ev.session != e.sid {
		return
	}
	switch {
	case ev.kind == "sub" && ev.typ == comm.TssStartMsg && e.silent:
		e.mu.Lock()
		first := !e.firstSeen
		e.firstSeen = true
		e.mu.Unlock()
		if first {
			// waitForStart of the FIRST attempt has already been handed its (short) time-out; everything after it gets one
			// hour (the mark was set by the communication itself, see markFirst)
			e.co.CoordinatorTimeout = time.Hour
			e.setLB()
		}
	case ev.kind == "sub" && ev.typ == comm.CoordinatorSelectMsg:
		if e.short {
			e.co.CoordinatorTimeout = time.Hour
		}
		e.electOnce.Do(func() { close(e.elect) })
	case ev.kind == "unsub" && ev.typ == comm.CoordinatorSelectMsg:
		e.overOnce.Do(func() { close(e.over) })
	}
}

// c11NewEnv: with a claimant the election must still be running when its Select message has gone through
// listen → receiveChan → setCoordinator (which starts after ElectionWaitTime), hence the long BullyWaitTime; without one
// the outcome (self) does not depend on timing and the election is kept short.
func c11NewEnv(self peer.ID, t int, sid string, holders []peer.ID, retryable bool, claimant bool) *c11Env {
	cm := c07NewComm()
	h := c07NewHost(self, c07Peers)
	cfg := relayer.BullyConfig{ElectionWaitTime: 2 * time.Millisecond, BullyWaitTime: 25 * time.Millisecond}
	if claimant { // stretched 5× / 25× when a run had to be discarded (c07Escalating)
		cfg = relayer.BullyConfig{ElectionWaitTime: 5 * time.Millisecond, BullyWaitTime: 250 * time.Millisecond * c07Scale()}
	}
	co := tss.NewCoordinator(h, cm, elector.VerifC11NewFactory(h, cm, cfg))
	co.CoordinatorTimeout, co.TssTimeout, co.InitiatePeriod = time.Hour, time.Hour, time.Hour
	e := &c11Env{cm: cm, co: co, sid: sid, self: self, holders: holders, bullyWait: cfg.BullyWaitTime, over: make(chan struct{}), elect: make(chan struct{})}
	cm.hook = e.onEvent
	e.setLB()
	e.proc = &c07Proc{real: c07Signing("ecdsa", sid, h, cm, holders, t), retryable: retryable, started: make(chan struct{}, 16)}
	return e
}

// firstOf polls until one of the named conditions holds, the main call returned, or the patience is exhausted.
func (e *c11Env) firstOf(done <-chan struct{}, conds map[string]func() bool, order []string) string {
	res := ""
	r := e.cm.waitUntil(c07Patience(), done, func() bool {
		for _, k := range order {
			if conds[k]() {
				res = k
				return true
			}
		}
		return false
	})
	if r != "ok" {
		if r == "timeout" {
			c07Anomaly()
		}
		return r
	}
	return res
}

// claim makes `claimant` announce itself coordinator (Select) to the running election in such a way that the
// announcement has certainly been processed before the election ends — or records an anomaly (the run is discarded and
// repeated with a longer election):
//  1. wait for the relayer's own Select broadcast: elect() is over, the elector sits in its receive loop;
//  2. hand the claimant's Select over three times (listen forwards one message at a time to that loop over an
//     unbuffered channel, so the third hand-over completing means the loop has finished processing the first);
//  3. check from time stamps that this moment lies before (a moment preceding the creation of the election's timer)
//     + BullyWaitTime, i.e. before the timer can have fired and the elected coordinator been read.
func (e *c11Env) claim(done <-chan struct{}, claimant peer.ID, castMark int) string {
	cm := e.cm
	if r := cm.waitUntil(c07Patience(), done, func() bool {
		for _, b := range cm.casts[castMark:] {
			if b.typ == comm.CoordinatorSelectMsg {
				return true
			}
		}
		return false
	}); r != "ok" {
		return "claim-" + r
	}
	stop := make(chan struct{})
	go func() {
		select {
		case <-e.over:
		case <-done:
		}
		close(stop)
	}()
	for i := 0; i < 3; i++ {
		if r := cm.deliver(e.sid, comm.CoordinatorSelectMsg, claimant, []byte{}, stop); r != "ok" {
			c07Anomaly()
			return "claim-" + r
		}
	}
	e.mu.Lock()
	lb := e.lb
	e.mu.Unlock()
	if !time.Now().Before(lb.Add(e.bullyWait)) {
		c07Anomaly()
		return "claim-late"
	}
	return "ok"
}

// stopOn returns a channel closed when the process enters a Run or the main call returns.
func (e *c11Env) stopOn(done <-chan struct{}) chan struct{} {
	stop := make(chan struct{})
	go func() {
		select {
		case <-e.proc.started:
		case <-done:
		}
		close(stop)
	}()
	return stop
}

// second drives whatever the coordinator does after the first failure (new subscriptions only: cm.mark), ends the
// session by cancelling it, and renders what was observed from cast index `castMark` / run index `runMark` on.
func (e *c11Env) second(done <-chan struct{}, cancel func(), responder string, arrivals []peer.ID, castMark, runMark int, rerr *error) string {
	cm := e.cm
	note := ""
	quiet := strings.HasPrefix(responder, "~") // nothing is heard for 3×CoordinatorTimeout before the claimant speaks
	hat := strings.HasPrefix(responder, "^")   // the claimant only keeps initiating, never starts: until TssTimeout has passed
	responder = strings.TrimLeft(responder, "~^")
	nReady := 0
	nInit := func() int {
		n := 0
		for _, b := range cm.casts[castMark:] {
			if b.typ == comm.TssInitiateMsg {
				n++
			}
		}
		return n
	}
	// all three conditions are about what has EVER happened since the marks (monotone): an election that came and went
	// while this goroutine was not scheduled is still seen, and in the right order
	conds := map[string]func() bool{
		"bully": func() bool { return cm.everSub(e.sid, comm.CoordinatorSelectMsg) },
		"wait":  func() bool { return cm.everSub(e.sid, comm.TssStartMsg) },
		"coord": func() bool { return nInit() > 0 },
	}
	bully := false
	st := e.firstOf(done, conds, []string{"bully", "wait"})
	if st == "bully" {
		bully = true
		if responder != "-" {
			if r := e.claim(done, c07Peer(responder), castMark); r != "ok" {
				note += ";" + r
			}
		}
		st = e.firstOf(done, conds, []string{"coord", "wait"})
	}
	switch st {
	case "coord":
		stop := e.stopOn(done)
		entered := false
		for _, from := range arrivals {
			// every reporter first sends a FAIL message for the session: the retry-phase watcher was given no coordinator
			// and must ignore it, whoever sends it
			if r := cm.deliver(e.sid, comm.TssFailMsg, from, []byte{}, stop); r == "done" {
				entered = true
				break
			}
			r := cm.deliver(e.sid, comm.TssReadyMsg, from, []byte{}, stop)
			if r == "done" {
				entered = true
				break
			}
			if r != "ok" {
				note += ";ready-" + r
				break
			}
			nReady++
		}
		if e.realRuns > 0 && !entered {
			// a REAL Run must not be entered while the session is being cancelled (its first round would block for ever on
			// the outbound channel nobody drains any more). Whether the last ready message started one is decided by an
			// event: one more ready message, from a peer without a key share — either the collecting loop takes it (no
			// Run is coming) or the Run is entered first.
			cm.deliver(e.sid, comm.TssReadyMsg, c07Peers[9], []byte{}, stop)
		}
	case "wait":
		if quiet && !bully {
			select {
			case <-time.After(3 * c11ShortTimeout):
			case <-done:
			}
		}
		if hat && !bully && responder != "-" {
			// the claimant initiates again and again (each initiate re-arms waitForStart's ticker) and never starts; the
			// session must end on its own when TssTimeout (shrunk, see c11HatTimeout) has passed since handleError began
			from := c07Peer(responder)
			for {
				if r := cm.deliver(e.sid, comm.TssInitiateMsg, from, []byte{}, done); r != "ok" {
					break
				}
				select {
				case <-done:
				case <-time.After(c11HatTimeout() / 5):
				}
			}
			if !c07WaitDone(done) {
				return "hang"
			}
			if len(cm.castsOf(comm.TssReadyMsg)) == 0 { // TssTimeout passed before the first initiate could be handed over
				c07Anomaly()
			}
		} else if responder != "-" {
			stop := e.stopOn(done)
			from := c07Peer(responder)
			// fail messages while the second attempt is being set up — also one from the peer that is about to start it —
			// are ignored (the watcher handleError starts knows no coordinator)
			cm.deliver(e.sid, comm.TssFailMsg, from, []byte{}, stop)
			if bully {
				// this relayer follows the re-elected coordinator: BEFORE that one speaks, the other peers of the scenario —
				// the excluded culprit among them — send their own fail, initiate and start messages; all must be ignored
				early, _ := message.MarshalStartMessage([]byte("px"))
				for _, p := range arrivals {
					if p == from || p == e.self {
						continue
					}
					if r := cm.deliver(e.sid, comm.TssFailMsg, p, []byte{}, stop); r != "ok" {
						break
					}
					if r := cm.deliver(e.sid, comm.TssInitiateMsg, p, []byte{}, stop); r != "ok" {
						break
					}
					if r := cm.deliver(e.sid, comm.TssStartMsg, p, early, stop); r != "ok" {
						break
					}
				}
			}
			params := []byte("p1")
			if e.startParams != nil {
				params = e.startParams
			}
			payload, _ := message.MarshalStartMessage(params)
			if r := cm.deliver(e.sid, comm.TssInitiateMsg, from, []byte{}, stop); r != "ok" {
				note += ";init-" + r
			} else if r := cm.deliver(e.sid, comm.TssStartMsg, from, payload, stop); r != "ok" {
				note += ";start-" + r
			} else {
				c11Await(stop) // the Run of the second attempt has been entered (or the call returned)
			}
		}
	case "timeout":
		note += ";idle"
	}
	if bully { // the self-selection broadcast always follows ElectionWaitTime; do not end the session before it
		if cm.waitUntil(c07Patience(), nil, func() bool {
			for _, b := range cm.casts[castMark:] {
				if b.typ == comm.CoordinatorSelectMsg {
					return true
				}
			}
			return false
		}) != "ok" {
			c07Anomaly()
			note += ";noselect"
		}
	}
	if e.realRuns > 0 && len(e.proc.runList()) > runMark {
		// the real Run of the second attempt: let its first protocol message go out before the session is ended
		want := e.realRuns
		if r := cm.waitUntil(c07Patience(), done, func() bool {
			n := 0
			for _, b := range cm.casts {
				if b.typ == comm.TssKeySignMsg {
					n++
				}
			}
			return n >= want
		}); r == "timeout" {
			note += ";noprotocol"
		}
	}
	cancel()
	if !c07WaitDone(done) {
		return "hang"
	}
	cm.mu.Lock()
	casts := append([]c07Cast{}, cm.casts[castMark:]...)
	cm.mu.Unlock()
	sel, start := "none", "none"
	rs := []string{}
	for _, b := range casts {
		switch b.typ {
		case comm.CoordinatorSelectMsg:
			if sel == "none" {
				sel = c07Toks(b.peers)
			}
		case comm.TssReadyMsg:
			rs = append(rs, c07Toks(b.peers))
		case comm.TssStartMsg:
			m, err := message.UnmarshalStartMessage(b.payload)
			s := "badstart"
			if err == nil {
				s = c07ParamPeers(m.Params)
			}
			if start == "none" {
				start = s
			} else {
				start += "+" + s
			}
		}
	}
	runs := []string{}
	for _, r := range e.proc.runList()[runMark:] {
		if r.coordinator {
			runs = append(runs, "c:"+c07ParamPeers(r.params))
		} else {
			if e.startParams != nil {
				runs = append(runs, "w:"+c07ParamPeers(r.params))
			} else {
				runs = append(runs, "w:"+string(r.params))
			}
		}
	}
	if hat { // how often the claimant was answered depends on the pacing: the set of targets does not
		uniq := []string{}
		for _, r := range rs {
			if !c07Contains(uniq, r) {
				uniq = append(uniq, r)
			}
		}
		rs = uniq
	}
	return "sel=" + sel + ";r=" + joinOr(rs, ",") + ";n=" + itoa(nReady) + ";start=" + start + ";run=" + joinOr(runs, "/") + ";res=" + c11ErrClass(*rerr) + note
}

// c11ErrClass: the typed cause found in a returned error (errors.As), `other` for any untyped error, `ok` for nil.
func c11ErrClass(err error) string {
	switch c := c07ErrClass(err); c {
	case "err":
		return "other"
	default:
		return c
	}
}

// c11SilentTimeout: the CoordinatorTimeout of the first attempt when the static coordinator stays silent
const c11SilentTimeout = 30 * time.Millisecond

// c11HatTimeout: the TssTimeout of the `^` scenarios (stretched 5× / 25× on the re-runs of a discarded case)
func c11HatTimeout() time.Duration { return 150 * time.Millisecond * c07Scale() }

// c11ShortTimeout: the CoordinatorTimeout of the `~` scenarios (TssTimeout stays at one hour)
const c11ShortTimeout = 40 * time.Millisecond

// c11First drives the FIRST attempt of a real Execute up to its failure.
//
//	first = `silent` (the static coordinator never speaks and CoordinatorTimeout passes), an error code the first Run
//	returns, or `f:<code>`: while the first Run is in progress the coordinator's fail message arrives (watchExecution
//	fails first, with an untyped error); the Run, cancelled by that, then fails with <code> — both errors reach
//	handleError joined by Execute's own pool.
type c11First struct {
	e        *c11Env
	c        peer.ID // static coordinator
	silent   bool
	foreign  string // `silent:<peer>`: while the coordinator is silent, <peer> keeps sending initiate messages
	withFail bool
	castMark int
	failed   chan struct{}
}

// prepareFirst must be called before Execute is started; `later` is what the Runs after the first one do (nil: block
// until cancelled).
func (e *c11Env) prepareFirst(first, claimantArg string, c peer.ID, later func(context.Context) error) *c11First {
	cm := e.cm
	f := &c11First{e: e, c: c, silent: strings.HasPrefix(first, "silent"), foreign: strings.TrimPrefix(strings.TrimPrefix(first, "silent"), ":"), withFail: strings.HasPrefix(first, "f:"), failed: make(chan struct{})}
	code := strings.TrimPrefix(first, "f:")
	setMarks := func() { // everything subscribed / broadcast so far belongs to attempt 1
		cm.mu.Lock()
		cm.mark = cm.next
		f.castMark = len(cm.casts)
		cm.mu.Unlock()
	}
	firstRun := func(ctx context.Context) error {
		if f.withFail {
			<-ctx.Done()
			setMarks()
			e.setLB()
			close(f.failed)
		}
		return c11Leaf(code, e.self)
	}
	e.proc.onEnter = func(i int) {
		if i == 0 && strings.HasPrefix(claimantArg, "~") { // the first attempt's own wait keeps its one-hour ticker
			e.short = true
			e.co.CoordinatorTimeout = c11ShortTimeout
		}
		if i == 0 && strings.HasPrefix(claimantArg, "^") { // (the first attempt's watcher keeps its one-hour ticker)
			e.co.TssTimeout = c11HatTimeout()
		}
		if i == 0 && !f.silent && !f.withFail {
			setMarks()
			e.setLB()
		}
	}
	if f.silent {
		e.proc.outcomes = []func(context.Context) error{later, later}
		e.setSilent()
		e.co.CoordinatorTimeout = c11SilentTimeout
	} else {
		e.proc.outcomes = []func(context.Context) error{firstRun, later, later}
	}
	return f
}

// drive brings the first attempt to its Run (as coordinator: ready messages from the first t other holders; otherwise
// initiate and start from the static coordinator) and lets it fail. => how the first Run was called, the number of Runs
// that belong to the first attempt, anomalies.
func (f *c11First) drive(done <-chan struct{}, t int) (run1 string, runMark int, note string) {
	e, cm, sid := f.e, f.e.cm, f.e.sid
	switch {
	case f.silent && f.foreign == "":
		// nothing to deliver: the static coordinator never speaks
	case f.silent:
		// the static coordinator never speaks, but another peer keeps sending initiate messages (they are ignored and must
		// not postpone the time-out): paced well below CoordinatorTimeout, until the re-election is OBSERVED to start. The
		// pacing has no influence on what the unchanged code does; the bound (many time-outs long, stretched 5× / 25× on
		// the re-runs) only ends the scenario on a tree where the time-out never fires while such messages arrive.
		from := c07Peer(f.foreign)
		stop := make(chan struct{})
		go func() {
			select {
			case <-e.elect:
			case <-done:
			}
			close(stop)
		}()
		deadline := time.Now().Add(8 * c11SilentTimeout * c07Scale())
	foreign:
		for {
			select {
			case <-stop:
				break foreign
			default:
			}
			if time.Now().After(deadline) {
				c07Anomaly()
				note += ";timeout-postponed-by-foreign-initiates"
				break
			}
			msg := &comm.WrappedMessage{MessageType: comm.TssInitiateMsg, SessionID: sid, Payload: []byte{}, From: from}
			if r := cm.deliverMsg(msg, stop, true); r != "ok" {
				break
			}
			// … and its start message (it already runs a replacement attempt of its own): ignored as well
			foreignStart, _ := message.MarshalStartMessage([]byte("px"))
			msg = &comm.WrappedMessage{MessageType: comm.TssStartMsg, SessionID: sid, Payload: foreignStart, From: from}
			if r := cm.deliverMsg(msg, stop, true); r != "ok" {
				break
			}
			select {
			case <-stop:
			case <-time.After(c11SilentTimeout / 6):
			}
		}
	case f.c == e.self:
		if r := cm.waitUntil(c07Patience(), done, func() bool { return cm.subscriber(sid, comm.TssReadyMsg) != nil }); r != "ok" {
			note = ";first-" + r
		}
		stop := e.stopOn(done)
		n := 0
		for _, h := range e.holders {
			if h == e.self || n == t {
				continue
			}
			if r := cm.deliver(sid, comm.TssReadyMsg, h, []byte{}, stop); r != "ok" {
				break
			}
			n++
		}
		c11Await(stop)
		runMark = 1
	default:
		stop := e.stopOn(done)
		payload, _ := message.MarshalStartMessage([]byte("p0"))
		if r := cm.deliver(sid, comm.TssInitiateMsg, f.c, []byte{}, stop); r == "ok" {
			cm.deliver(sid, comm.TssStartMsg, f.c, payload, stop)
		}
		c11Await(stop)
		runMark = 1
	}
	if f.withFail && len(e.proc.runList()) > 0 {
		if r := cm.deliver(sid, comm.TssFailMsg, f.c, []byte{}, done); r != "ok" {
			note += ";fail-" + r
		}
		c11Await(f.failed)
	}
	run1 = "none"
	if rs := e.proc.runList(); len(rs) > 0 && runMark == 1 {
		if rs[0].coordinator {
			run1 = "c:" + c07ParamPeers(rs[0].params)
		} else {
			run1 = "w:" + string(rs[0].params)
		}
	}
	if runMark == 1 && len(e.proc.runList()) == 0 {
		runMark = 0
	}
	return run1, runMark, note
}

// c11RealProcess builds one of the six tss processes with the repository's own constructor.
func c11RealProcess(kind string, self peer.ID, t int, sid string, holders []peer.ID) tss.TssProcess {
	h := c07NewHost(self, holders)
	cm := c07NewComm()
	switch kind {
	case "ecdsa-keygen":
		return ecdsaKeygen.NewKeygen(sid, t, h, cm, &c07ECDSAFetcher{holders, t})
	case "ecdsa-resharing":
		return ecdsaResharing.NewResharing(sid, t, h, cm, &c07ECDSAFetcher{holders, t})
	case "frost-keygen":
		return frostKeygen.NewKeygen(sid, t, h, cm, &c07FrostFetcher{holders, t})
	case "frost-resharing":
		return frostResharing.NewResharing(sid, 1, h, cm, &c07FrostFetcher{holders, 1})
	case "ecdsa-signing":
		return c07Signing("ecdsa", sid, h, cm, holders, t).(tss.TssProcess)
	case "frost-signing":
		return c07Signing("frost", sid, h, cm, holders, t).(tss.TssProcess)
	}
	panic("bad process kind " + kind)
}

func c11Nil(context.Context) error { return nil }

func c11Await(ch <-chan struct{}) {
	select {
	case <-ch:
	case <-time.After(c07Patience()):
		c07Anomaly()
	}
}

func init() {
	// defaults => the time-outs NewCoordinator sets (nanoseconds): init=<InitiatePeriod>;coord=<CoordinatorTimeout>;tss=<TssTimeout>
	ops["C11.defaults"] = func(a []string) string {
		h := c07NewHost(c07Peers[0], c07Peers[:3])
		cm := c07NewComm()
		co := tss.NewCoordinator(h, cm, elector.VerifC11NewFactory(h, cm, relayer.BullyConfig{}))
		return "init=" + itoa(int(co.InitiatePeriod)) + ";coord=" + itoa(int(co.CoordinatorTimeout)) + ";tss=" + itoa(int(co.TssTimeout))
	}
	// retryable <kind> => 1|0: what the repository's own process object (built by its own constructor) answers
	ops["C11.retryable"] = func(a []string) string {
		if c11RealProcess(a[0], c07Peers[0], 1, "s", c07Peers[:3]).Retryable() {
			return "1"
		}
		return "0"
	}
	// pool <spec> => Join structure of what real (nested) conc pools return
	ops["C11.pool"] = func(a []string) string { return c11Shape(c11Build(a[0], c07Peers[0])) }
	// handle <self> <t> <sid> <holders> <errspec> <claimant|-> <arrivals>
	//   real handleError on the error real pools return for errspec; then the second attempt is driven:
	//   claimant = a peer that announces itself coordinator (Select) during the bully election / that sends the
	//   replacement start to a left-out relayer; arrivals = senders of ready messages if this relayer coordinates.
	//   => sel=<peers of the self-selection broadcast = the election candidates|none>;r=<ready targets>;
	//      start=<announced subset|none>;run=<c:subset|w:params>;res=<class of the returned error>
	ops["C11.handle"] = func(a []string) string {
		self := c07Peer(a[0])
		t := int(u64(a[1]))
		sid := c07Sid(a[2])
		holders := c07PeerList(a[3])
		e := c11NewEnv(self, t, sid, holders, true, a[5] != "-" && !strings.HasPrefix(a[5], "~") && !strings.HasPrefix(a[5], "^"))
		if strings.HasPrefix(a[5], "~") {
			e.short = true
			e.co.CoordinatorTimeout = c11ShortTimeout
		}
		if strings.HasPrefix(a[5], "^") {
			e.co.TssTimeout = c11HatTimeout()
		}
		e.proc.outcomes = []func(context.Context) error{c11Nil, c11Nil}
		err := c11Build(a[4], self)
		e.setLB()
		ctx, cancel := context.WithCancel(context.Background())
		defer cancel()
		done := make(chan struct{})
		var rerr error
		go func() {
			defer close(done)
			rerr = c07Guard(func() error {
				return e.co.VerifC11HandleError(ctx, err, []tss.TssProcess{e.proc}, make(chan interface{}, 4))
			})
		}()
		return e.second(done, cancel, strings.TrimPrefix(a[5], "!"), c07PeerList(a[6]), 0, 0, &rerr)
	}
	// exec <self> <t> <sid> <holders> <retryable 0|1> <first: error code | f:error code | silent> <claimant|-> <arrivals>
	//   real Execute: the first attempt is brought to a Run that returns the given error (or, `silent`, the static
	//   coordinator never speaks and CoordinatorTimeout passes); then as for `handle`.
	//   => run1=<c:subset|w:p0|none>;<second attempt as above>
	ops["C11.exec"] = func(a []string) string {
		self := c07Peer(a[0])
		t := int(u64(a[1]))
		sid := c07Sid(a[2])
		holders := c07PeerList(a[3])
		retryable := a[4] == "1"
		if len(a[4]) > 1 { // a process kind: ask the REAL process object
			retryable = c11RealProcess(a[4], self, t, sid, holders).Retryable()
		}
		e := c11NewEnv(self, t, sid, holders, retryable, a[6] != "-" && !strings.HasPrefix(a[6], "~") && !strings.HasPrefix(a[6], "^"))
		ord := c07Order(holders, sid)
		if len(ord) == 0 {
			return "noholders"
		}
		c := ord[0]
		silent := strings.HasPrefix(a[5], "silent")
		if silent && c == self {
			return "selfcoord"
		}
		f := e.prepareFirst(a[5], a[6], c, c11Nil)
		ctx, cancel := context.WithCancel(context.Background())
		defer cancel()
		done := make(chan struct{})
		var rerr error
		go func() {
			defer close(done)
			rerr = c07Guard(func() error { return e.co.Execute(ctx, []tss.TssProcess{e.proc}, make(chan interface{}, 4)) })
		}()
		run1, runMark, note := f.drive(done, t)
		castMark := f.castMark
		return "run1=" + run1 + ";" + e.second(done, cancel, a[6], c07PeerList(a[7]), castMark, runMark, &rerr) + note
	}
	for _, k := range []string{"C11.handle", "C11.exec"} {
		ops[k] = c07Escalating(ops[k])
	}
	gens["C11"] = genC11
}

// c11Shapes: how the typed error k reaches handleError through nested pools, alone and with an untyped error
// (watchdog time-out / fail message) finishing before or after it, at the same or another pool level.
func c11Shapes(k string) []string {
	return []string{"[[[" + k + "]]]", "[[[" + k + "]],o]", "[o,[[" + k + "]]]", "[[o,[" + k + "]]]", "[[[" + k + "],o]]", "[[" + k + "]]", "[" + k + "]", k, "[o,[o,[" + k + "]],o]"}
}

func genC11(g *G) {
	defer genC11Real(g)
	// what the six real process objects answer to Retryable(), and a failing first attempt of each through the real Execute
	g.Emit("defaults")
	kinds := []string{"ecdsa-keygen", "ecdsa-signing", "ecdsa-resharing", "frost-keygen", "frost-signing", "frost-resharing"}
	for i, k := range kinds {
		g.Emit("retryable", k)
		for j, f := range []string{"t3", "c2", "m", "s", "o", "silent"} {
			if !g.Thorough() && (i+j)%3 != 0 {
				continue
			}
			g.Emit("exec", []string{"0", "1"}[j%2], "1", hx([]byte("m1")), "0,1,2,3", k, f, "-", "3,1,0,2")
		}
	}
	// left out, and the replacement coordinator only keeps initiating: the wait ends when TssTimeout has passed in total
	for i := 0; i < g.Count(2, 12); i++ {
		g.Emit("handle", "0", "1", hx([]byte("m1")), "0,1,2,3", c11Shapes("s")[i%5], "^"+itoa(1+i%3), "1,2,3")
		if i%2 == 0 {
			g.Emit("exec", []string{"0", "1"}[(i/2)%2], "1", hx([]byte("m1")), "0,1,2,3", "1", "s", "^3", "1,2,3")
		}
	}
	// ---- conc aggregation: every pool of ≤ 3 tasks over the leaf classes, and two-level nestings
	leaves := []string{"o", "n", "t3", "c2", "s", "m"}
	// what the repository's transport adapter itself returns for every point at which sending to a peer can break
	for _, f := range []string{"a", "d", "n", "w", "c"} {
		g.Emit("pool", "[P"+f+"3]")
		g.Emit("pool", "[[o,[P"+f+"5]],n]")
	}
	c07Seqs(leaves, 3, func(seq []string) {
		if len(seq) > 0 {
			g.Emit("pool", "["+strings.Join(seq, ",")+"]")
		}
	})
	for _, x := range leaves {
		for _, y := range leaves {
			for _, z := range []string{"o", "n", "t1+3"} {
				g.Emit("pool", "[["+x+","+y+"],"+z+"]")
				g.Emit("pool", "["+z+",["+x+",["+y+"]]]")
			}
		}
	}
	// ---- handleError on every cause × shape, on a relayer that is first / not first in the new election order
	type cfg struct {
		holders string
		t       int
		sid     string
	}
	cfgs := []cfg{{"0,1,2,3", 1, "m1"}, {"0,1,2,3,4", 2, "1-2-100-104"}}
	if g.Thorough() {
		cfgs = append(cfgs, cfg{"5,6,7,8,9,0", 3, "x"}, cfg{"1,2,3", 1, ""})
	}
	for ci, c := range cfgs {
		hs := c07PeerList(c.holders)
		ord := c07Order(hs, c.sid)
		for si, self := range []peer.ID{ord[0], ord[len(ord)-1], ord[1]} {
			if si == 2 && !g.Thorough() {
				continue
			}
			others := []string{}
			for _, h := range ord {
				if h != self {
					others = append(others, c07Tok(h))
				}
			}
			causes := []string{"c" + others[0], "cnone", "m", "m" + others[1], "t", "t" + others[0], "t" + others[1] + "+" + others[0], "u", "s", "o", "t" + c07Tok(self)}
			if len(others) > 2 {
				causes = append(causes, "t"+others[2], "c"+others[2])
			}
			for fi, f := range []string{"a", "d", "n", "w", "c"} {
				causes = append(causes, "P"+f+others[(fi+si)%len(others)])
			}
			for ki, k := range causes {
				shapes := c11Shapes(k)
				if !g.Thorough() && ((ci+si+ki)%2 == 1 || k[0] == 'P') {
					shapes = shapes[:3]
				}
				if !g.Thorough() && k[0] == 'P' {
					shapes = shapes[(ci+si)%3 : (ci+si)%3+1]
				}
				for _, sh := range shapes {
					arr := append([]string{}, others...)
					if g.Bool() { // reverse arrival order; a culprit always reports ready too
						for i, j := 0, len(arr)-1; i < j; i, j = i+1, j-1 {
							arr[i], arr[j] = arr[j], arr[i]
						}
					}
					claimant := "-"
					if k == "s" {
						claimant = others[g.Intn(len(others))]
					}
					g.Emit("handle", c07Tok(self), itoa(c.t), hx([]byte(c.sid)), c.holders, sh, claimant, joinOr(arr, ","))
				}
			}
			// ambiguous trees and the nil error
			for _, sh := range []string{"[[t" + others[0] + "],[c" + others[1] + "]]", "[[s],[m]]", "[[[s]],o,[[s]]]", "[n]", "[[o],[o]]"} {
				g.Emit("handle", c07Tok(self), itoa(c.t), hx([]byte(c.sid)), c.holders, sh, "-", joinOr(others, ","))
			}
		}
	}
	// the left-out relayer hears nothing for 3×CoordinatorTimeout (40 ms; TssTimeout 1 h), then the replacement start arrives
	for i := 0; i < g.Count(3, 24); i++ {
		sh := c11Shapes("s")[i%5]
		g.Emit("handle", "0", "1", hx([]byte("m1")), "0,1,2,3", sh, "~"+itoa(1+i%3), "1,2,3")
		if i%3 == 0 {
			g.Emit("exec", []string{"0", "2", "1"}[(i/3)%3], "1", hx([]byte("m1")), "0,1,2,3", "1", "s", "~3", "1,2,3")
		}
	}
	// a claimant announces itself during the re-election: higher / lower than this relayer among the candidates
	for i := 0; i < g.Count(16, 300); i++ {
		n := 3 + g.Intn(4)
		hs := c07RandPeers(g, n)
		sid := c07RandSid(g)
		ord := c07Order(c07PeerList(joinOr(hs, ",")), c07Sid(sid))
		self := ord[g.Intn(n)]
		var cul peer.ID
		for {
			cul = ord[g.Intn(n)]
			if cul != self {
				break
			}
		}
		var claimant peer.ID
		for {
			claimant = ord[g.Intn(n)]
			if claimant != cul && claimant != self {
				break
			}
		}
		k := []string{"t" + c07Tok(cul), "c" + c07Tok(cul), "m"}[g.Intn(3)]
		g.Emit("handle", c07Tok(self), itoa(1+g.Intn(n-1)), sid, joinOr(hs, ","), c11Shapes(k)[g.Intn(5)], c07Tok(claimant), joinOr(hs, ","))
	}
	// the excluded culprit itself announces coordination (`!` marks it; known finding C11-bully-unlisted-claimant)
	for i := 0; i < g.Count(6, 60); i++ {
		n := 3 + g.Intn(3)
		hs := c07RandPeers(g, n)
		sid := c07RandSid(g)
		ord := c07Order(c07PeerList(joinOr(hs, ",")), c07Sid(sid))
		cul := ord[g.Intn(n)]
		var self peer.ID
		for {
			self = ord[g.Intn(n)]
			if self != cul {
				break
			}
		}
		k := []string{"t" + c07Tok(cul), "c" + c07Tok(cul)}[g.Intn(2)]
		g.Emit("handle", c07Tok(self), "1", sid, joinOr(hs, ","), c11Shapes(k)[g.Intn(3)], "!"+c07Tok(cul), joinOr(hs, ","))
	}
	// random causes / culprit subsets / committees / arrival sequences
	for i := 0; i < g.Count(120, 4000); i++ {
		n := 2 + g.Intn(6)
		hs := c07RandPeers(g, n)
		sid := c07RandSid(g)
		self := hs[g.Intn(n)]
		t := 1 + g.Intn(n-1)
		k := ""
		switch g.Intn(8) {
		case 0:
			k = "c" + hs[g.Intn(n)]
		case 1:
			k = "m"
		case 2, 3, 4:
			cs := []string{}
			for _, h := range hs {
				if g.Intn(3) == 0 {
					cs = append(cs, h)
				}
			}
			if g.Intn(10) == 0 {
				cs = append(cs, itoa(g.Intn(10))) // a culprit that holds no share
			}
			k = "t" + strings.Join(cs, "+")
		case 5:
			k = "s"
		case 6:
			k = "o"
		case 7:
			k = "u"
		}
		arr := []string{}
		for j, m := 0, g.Intn(9); j < m; j++ {
			if g.Intn(8) == 0 {
				arr = append(arr, itoa(g.Intn(10)))
			} else {
				arr = append(arr, hs[g.Intn(n)])
			}
		}
		claimant := "-"
		if k == "s" && g.Bool() {
			claimant = itoa(g.Intn(10))
		}
		sh := c11Shapes(k)
		g.Emit("handle", self, itoa(t), sid, joinOr(hs, ","), sh[g.Intn(len(sh))], claimant, joinOr(arr, ","))
	}
	// ---- Execute end to end: first attempt fails in Run (or the coordinator stays silent), retryable or not
	for ci, c := range cfgs {
		hs := c07PeerList(c.holders)
		ord := c07Order(hs, c.sid)
		for _, self := range []peer.ID{ord[0], ord[1], ord[len(ord)-1]} {
			o1, o2 := c07Tok(ord[len(ord)-2]), c07Tok(ord[1])
			if ord[1] == self {
				o2 = c07Tok(ord[2%len(ord)])
			}
			firsts := []string{"t" + o1, "t" + o1 + "+" + o2, "m", "c" + o1, "s", "o", "u", "silent", "silent:" + o1,
				"f:t" + o1, "f:m", "f:c" + o2, "f:s", "f:o"}
			for fi, f := range firsts {
				for _, retryable := range []string{"1", "0"} {
					if retryable == "0" && !g.Thorough() && (fi+ci)%3 != 0 {
						continue
					}
					if strings.HasPrefix(f, "silent") && self == ord[0] {
						continue
					}
					claimant := "-"
					if f == "s" || f == "f:s" {
						claimant = o1
					}
					arr := []string{}
					for _, h := range ord {
						if h != self {
							arr = append(arr, c07Tok(h))
						}
					}
					g.Emit("exec", c07Tok(self), itoa(c.t), hx([]byte(c.sid)), c.holders, retryable, f, claimant, joinOr(arr, ","))
				}
			}
		}
	}
	for i := 0; i < g.Count(40, 1500); i++ {
		n := 3 + g.Intn(5)
		hs := c07RandPeers(g, n)
		sid := c07RandSid(g)
		self := hs[g.Intn(n)]
		t := 1 + g.Intn(n-2)
		var f string
		switch g.Intn(6) {
		case 0:
			f = "silent"
			if c07Tok(c07Order(c07PeerList(joinOr(hs, ",")), c07Sid(sid))[0]) == self {
				f = "m"
			}
		case 1:
			f = "c" + hs[g.Intn(n)]
		case 2, 3:
			f = "t" + hs[g.Intn(n)]
			if g.Bool() {
				f += "+" + hs[g.Intn(n)]
			}
		case 4:
			f = "s"
		case 5:
			f = []string{"o", "u", "m"}[g.Intn(3)]
		}
		if f != "silent" && g.Intn(3) == 0 {
			f = "f:" + f
		}
		retryable := "1"
		if g.Intn(4) == 0 {
			retryable = "0"
		}
		claimant := "-"
		if strings.HasSuffix(f, "s") && len(f) <= 3 && f != "silent" && g.Bool() {
			claimant = hs[g.Intn(n)]
		}
		arr := []string{}
		for j, m := 0, 2+g.Intn(7); j < m; j++ {
			arr = append(arr, hs[g.Intn(n)])
		}
		g.Emit("exec", self, itoa(t), sid, joinOr(hs, ","), retryable, f, claimant, joinOr(arr, ","))
	}
}
