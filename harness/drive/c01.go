package main

// C01 — deposit handlers -> message -> destination message handlers, byte level.
// Every op runs the repository's registered handler tables (ETHDepositHandler address table, Substrate transfer-type
// table, BtcDepositHandler) and the destination chains' TransferMessage handlers; nothing is re-implemented here.

import (
	"errors"
	"fmt"
	"math/big"
	"strings"
	"time"

	btcExecutor "github.com/ChainSafe/sygma-relayer/chains/btc/executor"
	btcListener "github.com/ChainSafe/sygma-relayer/chains/btc/listener"
	"github.com/ChainSafe/sygma-relayer/chains/evm/calls/events"
	"github.com/ChainSafe/sygma-relayer/chains/evm/executor"
	"github.com/ChainSafe/sygma-relayer/chains/evm/listener/eventHandlers"
	"github.com/ChainSafe/sygma-relayer/chains/evm/listener/depositHandlers"
	subExecutor "github.com/ChainSafe/sygma-relayer/chains/substrate/executor"
	subListener "github.com/ChainSafe/sygma-relayer/chains/substrate/listener"
	"github.com/ChainSafe/sygma-relayer/relayer/transfer"
	"github.com/centrifuge/go-substrate-rpc-client/v4/types"
	"github.com/ethereum/go-ethereum/common"
	ethTypes "github.com/ethereum/go-ethereum/core/types"
	"github.com/sygmaprotocol/sygma-core/relayer/message"
	"github.com/sygmaprotocol/sygma-core/relayer/proposal"
)

// exact returns a copy whose cap equals its len (Go slice expressions are checked against cap).
func exact(b []byte) []byte {
	c := make([]byte, len(b))
	copy(c, b)
	return c
}

type kindMatcher struct{ addr common.Address }

func (m kindMatcher) GetHandlerAddressForResourceID(resourceID [32]byte) (common.Address, error) {
	if m.addr == (common.Address{}) {
		return m.addr, errors.New("no handler")
	}
	return m.addr, nil
}

var c01Addr = map[string]string{
	"erc20":   "0x0000000000000000000000000000000000000a01",
	"erc721":  "0x0000000000000000000000000000000000000a02",
	"erc1155": "0x0000000000000000000000000000000000000a03",
	"generic": "0x0000000000000000000000000000000000000a04",
}

// ethHandler builds the same table app.Run builds, resolving every resource id to the handler of `kind`.
func ethHandler(kind string) *depositHandlers.ETHDepositHandler {
	dh := depositHandlers.NewETHDepositHandler(kindMatcher{common.HexToAddress(c01Addr[kind])})
	dh.RegisterDepositHandler(c01Addr["erc20"], &depositHandlers.Erc20DepositHandler{})
	dh.RegisterDepositHandler(c01Addr["generic"], &depositHandlers.PermissionlessGenericDepositHandler{})
	dh.RegisterDepositHandler(c01Addr["erc721"], &depositHandlers.Erc721DepositHandler{})
	dh.RegisterDepositHandler(c01Addr["erc1155"], &depositHandlers.Erc1155DepositHandler{})
	return dh
}

func rid32(s string) [32]byte {
	var r [32]byte
	copy(r[:], unhx(s))
	return r
}

// guarded runs f and classifies the outcome.
func guarded(f func() error) (cls string) {
	defer func() {
		if r := recover(); r != nil {
			cls = "panic"
		}
	}()
	if err := f(); err != nil {
		return "err"
	}
	return "ok"
}

// c01Source runs the source chain's deposit handler.
func c01Source(srcKind string, s, d uint8, nonce uint64, rid [32]byte, a1, a2 string) (msg *message.Message, cls string) {
	ts := time.Unix(1700000000, 0)
	cls = guarded(func() error {
		var err error
		switch srcKind {
		case "erc20", "erc721", "erc1155", "generic":
			msg, err = ethHandler(srcKind).HandleDeposit(s, d, nonce, rid, exact(unhx(a1)), exact(unhx(a2)), "mid", ts)
		case "sub":
			sh := subListener.NewSubstrateDepositHandler()
			sh.RegisterDepositHandler(transfer.FungibleTransfer, subListener.FungibleTransferHandler)
			msg, err = sh.HandleDeposit(s, types.U8(d), types.U64(nonce), types.Bytes32(rid), exact(unhx(a1)), types.U8(u64(a2)), "mid", ts)
		case "btc":
			amt, ok := new(big.Int).SetString(a1, 10)
			if !ok {
				panic("bad amount arg")
			}
			msg, err = btcListener.NewBtcDepositHandler().HandleDeposit(s, nonce, rid, amt, string(unhx(a2)), big.NewInt(100), ts)
		default:
			panic("bad source kind")
		}
		return err
	})
	return
}

func c01Dest(dstKind string, msg *message.Message) (p *proposal.Proposal, cls string) {
	cls = guarded(func() error {
		var err error
		switch dstKind {
		case "evm":
			p, err = (&executor.TransferMessageHandler{}).HandleMessage(msg)
		case "sub":
			p, err = (&subExecutor.SubstrateMessageHandler{}).HandleMessage(msg)
		case "btc":
			p, err = (&btcExecutor.FungibleMessageHandler{}).HandleMessage(msg)
		default:
			panic("bad destination kind")
		}
		return err
	})
	return
}

func gasOf(md map[string]interface{}) string {
	if md == nil {
		return "n"
	}
	if g, ok := md["gasLimit"]; ok {
		if u, ok := g.(uint64); ok {
			return utoa(u)
		}
		return "badtype"
	}
	return "n"
}

func showProposal(p *proposal.Proposal) string {
	switch d := p.Data.(type) {
	case transfer.TransferProposalData:
		return fmt.Sprintf("ok:%d:%d:%d:%s:%s:%s", p.Source, p.Destination, d.DepositNonce, hx(d.ResourceId[:]), hx(d.Data), gasOf(d.Metadata))
	case btcExecutor.BtcTransferProposalData:
		return fmt.Sprintf("ok:%d:%d:%d:%s:%d/%s:n", p.Source, p.Destination, d.DepositNonce, hx(d.ResourceId[:]), d.Amount, hx([]byte(d.Recipient)))
	}
	return "badproposal"
}

func init() {
	// relay <srcKind> <dstKind> <src> <dst> <nonce> <rid> <a1> <a2>
	//   EVM kinds: a1 = calldata, a2 = handlerResponse; sub: a1 = calldata, a2 = transfer type; btc: a1 = satoshi, a2 = hex(OP_RETURN text)
	//   => ok:<src>:<dst>:<nonce>:<rid>:<data>:<gas|n> | err:src | panic:src | err:dst | panic:dst
	ops["C01.relay"] = func(a []string) string {
		s, d := uint8(u64(a[2])), uint8(u64(a[3]))
		msg, cls := c01Source(a[0], s, d, u64(a[4]), rid32(a[5]), a[6], a[7])
		if cls != "ok" {
			return cls + ":src"
		}
		p, cls := c01Dest(a[1], msg)
		if cls != "ok" {
			return cls + ":dst"
		}
		return showProposal(p)
	}
	// relay2 <8 relay args> <8 relay args>  =>  <out1>|<out2> : both proposals are rendered only after the second one exists
	ops["C01.relay2"] = func(a []string) string {
		type res struct {
			p   *proposal.Proposal
			cls string
		}
		var rs [2]res
		for i := 0; i < 2; i++ {
			b := a[8*i : 8*i+8]
			msg, cls := c01Source(b[0], uint8(u64(b[2])), uint8(u64(b[3])), u64(b[4]), rid32(b[5]), b[6], b[7])
			if cls != "ok" {
				rs[i] = res{nil, cls + ":src"}
				continue
			}
			p, cls := c01Dest(b[1], msg)
			if cls != "ok" {
				rs[i] = res{nil, cls + ":dst"}
				continue
			}
			rs[i] = res{p, ""}
		}
		out := []string{}
		for _, r := range rs {
			if r.p == nil {
				out = append(out, r.cls)
			} else {
				out = append(out, showProposal(r.p))
			}
		}
		return out[0] + "|" + out[1]
	}
	// e2e <kind> <dstKind> <src> <dst> <nonce> <rid> <calldata> <resp>   (EVM sources; last byte of rid selects the handler)
	//   the deposit travels as a packed Deposit log through the real events.Listener.FetchDeposits, the real
	//   DepositEventHandler.ProcessDeposits (handler table resolved from the resource id) and the destination handler
	//   => ok:… | none (no message produced) | err:dst | panic:dst
	ops["C01.e2e"] = func(a []string) string {
		s, d := uint8(u64(a[2])), uint8(u64(a[3]))
		data, err := c06ABI.Events["Deposit"].Inputs.NonIndexed().Pack(d, rid32(a[5]), u64(a[4]), unhx(a[6]), unhx(a[7]))
		if err != nil {
			panic(err)
		}
		user := common.HexToHash("0xaa")
		cl := &c06Client{deposits: []ethTypes.Log{{Address: c06Bridge, Topics: []common.Hash{events.DepositSig.GetTopic(), user}, Data: data}}}
		eh := eventHandlers.NewDepositEventHandler(events.NewListener(cl), c06EthHandler(), c06Bridge, s, make(chan []*message.Message, 4))
		out, err := eh.ProcessDeposits(big.NewInt(1), big.NewInt(2))
		if err != nil {
			return "err"
		}
		var msg *message.Message
		for _, ms := range out {
			for _, m := range ms {
				if msg != nil {
					return "two-messages"
				}
				msg = m
			}
		}
		if msg == nil {
			return "none"
		}
		p, cls := c01Dest(a[1], msg)
		if cls != "ok" {
			return cls + ":dst"
		}
		return showProposal(p)
	}
	gens["C01"] = genC01
}

// ---------------------------------------------------------------------------------------------- generators

func w32(n *big.Int) []byte { return common.LeftPadBytes(new(big.Int).Mod(n, new(big.Int).Lsh(big.NewInt(1), 256)).Bytes(), 32) }
func w32u(n uint64) []byte  { return w32(new(big.Int).SetUint64(n)) }

func pow2(k uint) *big.Int { return new(big.Int).Lsh(big.NewInt(1), k) }

// interesting 256-bit values
func (g *G) big256() *big.Int {
	switch g.Intn(12) {
	case 0:
		return big.NewInt(0)
	case 1:
		return big.NewInt(1)
	case 2:
		return new(big.Int).Sub(pow2(256), big.NewInt(1))
	case 3:
		return pow2(255)
	case 4:
		return new(big.Int).Add(pow2(64), big.NewInt(int64(g.Intn(3))-1))
	case 5:
		return new(big.Int).Sub(pow2(256), big.NewInt(int64(100000+g.Intn(3)-1)))
	case 6:
		return new(big.Int).Sub(pow2(64), big.NewInt(int64(100000+g.Intn(3)-1)))
	case 7:
		return new(big.Int).SetUint64(g.U64() % 1000000)
	case 8:
		// multiple of 10^10 and neighbours
		v := new(big.Int).Mul(new(big.Int).SetUint64(g.U64()%(1<<40)), big.NewInt(10000000000))
		return v.Add(v, big.NewInt(int64(g.Intn(3))-1)).Abs(v)
	case 9:
		// around 2^64 * 10^10
		v := new(big.Int).Mul(pow2(64), big.NewInt(10000000000))
		return v.Add(v, big.NewInt(int64(g.Intn(5))-2))
	default:
		w := 1 + g.Intn(32)
		return new(big.Int).SetBytes(g.Bytes(w))
	}
}

func (g *G) recipLen() int {
	switch g.Intn(6) {
	case 0, 1:
		return 20
	case 2:
		return 32
	case 3:
		return g.Intn(20)
	default:
		return g.Intn(201)
	}
}

func (g *G) ids() (string, string, string, string) {
	s, d := g.Intn(256), g.Intn(256)
	if g.Intn(4) == 0 {
		s = []int{0, 1, 255}[g.Intn(3)]
	}
	if g.Intn(4) == 0 {
		d = []int{0, 1, 255}[g.Intn(3)]
	}
	nonce := []uint64{0, 1, 1<<64 - 1, 1 << 63, g.U64()}[g.Intn(5)]
	rid := g.Bytes(32)
	if g.Intn(5) == 0 {
		rid = make([]byte, 32)
		rid[31] = byte(g.Intn(4))
	}
	return itoa(s), itoa(d), utoa(nonce), hx(rid)
}

func cat(bs ...[]byte) []byte {
	out := []byte{}
	for _, b := range bs {
		out = append(out, b...)
	}
	return out
}

// fungible calldata: amount ‖ len ‖ recipient ‖ tail
func (g *G) fungibleCD(withTail bool) []byte {
	r := g.Bytes(g.recipLen())
	cd := cat(w32(g.big256()), w32u(uint64(len(r))), r)
	if withTail {
		switch g.Intn(6) {
		case 0: // short junk tail (ignored by the handler, not a well-formed deposit)
			cd = append(cd, g.Bytes(1+g.Intn(32))...)
		default:
			cd = cat(cd, w32(g.big256()), g.Bytes(1+g.Intn(80)))
		}
	}
	return cd
}

func (g *G) resp() []byte {
	switch g.Intn(8) {
	case 0, 1:
		return w32(g.big256())
	case 2:
		return g.Bytes(1 + g.Intn(31))
	case 3:
		return g.Bytes(33 + g.Intn(40))
	default:
		return nil
	}
}

func (g *G) erc721CD() []byte {
	r := g.Bytes(g.recipLen())
	md := g.Bytes([]int{0, 0, 1, 31, 32, 33, g.Intn(120)}[g.Intn(7)])
	cd := cat(w32(g.big256()), w32u(uint64(len(r))), r, w32u(uint64(len(md))), md)
	if g.Intn(10) == 0 {
		cd = append(cd, g.Bytes(1+g.Intn(40))...)
	}
	return cd
}

func (g *G) genericCD() []byte {
	fs := g.Bytes([]int{4, 4, 0, 1, g.Intn(300)}[g.Intn(5)])
	ca := g.Bytes([]int{20, 20, 0, g.Intn(256)}[g.Intn(4)])
	dp := g.Bytes([]int{20, 20, 0, g.Intn(256)}[g.Intn(4)])
	ex := g.Bytes([]int{0, 1, 32, g.Intn(200)}[g.Intn(4)])
	return cat(w32(g.big256()), []byte{byte(len(fs) >> 8), byte(len(fs))}, fs, []byte{byte(len(ca))}, ca, []byte{byte(len(dp))}, dp, ex)
}

func padTo32(b []byte) []byte { return common.RightPadBytes(b, (len(b)+31)/32*32) }

// erc1155 calldata: canonical or with permuted tail order / gaps (non-canonical but decodable)
func (g *G) erc1155CD() []byte {
	n1, n2 := g.Intn(5), g.Intn(5)
	if g.Intn(3) == 0 {
		n2 = n1
	}
	enc := func(n int) []byte {
		out := w32u(uint64(n))
		for i := 0; i < n; i++ {
			out = append(out, w32(g.big256())...)
		}
		return out
	}
	rl := 20
	if g.Intn(6) == 0 {
		rl = []int{0, 19, 21, 32, g.Intn(70)}[g.Intn(5)]
	}
	r := g.Bytes(rl)
	td := g.Bytes([]int{0, 0, 1, 32, 33, g.Intn(100)}[g.Intn(6)])
	parts := [][]byte{enc(n1), enc(n2), cat(w32u(uint64(len(r))), padTo32(r)), cat(w32u(uint64(len(td))), padTo32(td))}
	order := []int{0, 1, 2, 3}
	gap := 0
	if g.Intn(5) == 0 { // non-canonical layout
		for i := 3; i > 0; i-- {
			j := g.Intn(i + 1)
			order[i], order[j] = order[j], order[i]
		}
		gap = 32 * g.Intn(3)
	}
	offs := make([]int, 4)
	tail := make([]byte, gap)
	for _, k := range order {
		offs[k] = 128 + len(tail)
		tail = append(tail, parts[k]...)
	}
	head := []byte{}
	for _, o := range offs {
		head = append(head, w32u(uint64(o))...)
	}
	cd := cat(head, tail)
	if g.Intn(12) == 0 && len(cd) > 0 {
		cd = cd[:g.Intn(len(cd))]
	}
	return cd
}

func (g *G) btcData() []byte {
	hexd := "0123456789abcdef"
	if g.Intn(4) == 0 {
		hexd = "0123456789abcdefABCDEF"
	}
	n := 40
	if g.Intn(5) == 0 {
		n = []int{0, 1, 39, 41, 42, 64, g.Intn(80)}[g.Intn(7)]
	}
	var sb strings.Builder
	if g.Intn(3) > 0 {
		sb.WriteString([]string{"0x", "0x", "0X"}[g.Intn(3)])
	}
	for i := 0; i < n; i++ {
		c := hexd[g.Intn(len(hexd))]
		if g.Intn(150) == 0 {
			c = "gz _-x"[g.Intn(6)]
		}
		sb.WriteByte(c)
	}
	switch g.Intn(12) {
	case 0: // no separator
	case 1:
		sb.WriteString("_")
	case 2:
		sb.WriteString("_" + itoa(g.Intn(256)) + "_" + itoa(g.Intn(9)))
	case 3:
		sb.WriteString("_" + []string{"256", "+1", "-1", "0x1", "1e1", " 1", "00", "007", "999", "1_", "0b1", "0o7", "1_0"}[g.Intn(13)])
	case 4, 5:
		// decimal with leading zeros (a well-formed text): must not be read in another base
		sb.WriteString("_" + strings.Repeat("0", 1+g.Intn(3)) + itoa(g.Intn(256)))
	default:
		sb.WriteString("_" + itoa(g.Intn(256)))
	}
	return []byte(sb.String())
}

// length words that are interesting for a calldata of length n
// lenWord never returns a word whose low 64 bits, read as int64, lie in [2^31, 2^49): such a value used as an allocation
// size is a fatal out-of-memory that would take the in-process driver down; that band is explored by C06's `iso` op in a
// memory-bounded child process (dangerWords).
func (g *G) lenWord(n int) *big.Int {
	v := g.lenWord0(n)
	low := new(big.Int).And(v, new(big.Int).SetUint64(1<<64-1))
	if low.Cmp(pow2(31)) >= 0 && low.Cmp(pow2(49)) < 0 {
		v.Add(v, pow2(50))
	}
	return v
}

// length words that, used as an allocation size, cannot be satisfied (or only just): run in a child process only
func dangerWords() []*big.Int {
	return []*big.Int{pow2(31), new(big.Int).Add(pow2(32), big.NewInt(5)), pow2(36), pow2(40), pow2(44), pow2(47),
		new(big.Int).Sub(pow2(48), big.NewInt(1)), new(big.Int).Add(pow2(64), pow2(40)), new(big.Int).Add(pow2(255), pow2(47))}
}

func (g *G) lenWord0(n int) *big.Int {
	switch g.Intn(10) {
	case 0:
		k := uint(g.Intn(257))
		if k == 256 {
			return new(big.Int).Sub(pow2(256), big.NewInt(1))
		}
		return new(big.Int).Add(pow2(k), big.NewInt(int64(g.Intn(3))-1))
	case 1:
		return new(big.Int).Add(pow2(64), big.NewInt(int64(g.Intn(n+2))))
	case 2:
		return new(big.Int).Sub(pow2(64), big.NewInt(int64(1+g.Intn(100))))
	case 3:
		return new(big.Int).Sub(pow2(256), big.NewInt(int64(1+g.Intn(100))))
	case 4:
		return new(big.Int).Add(pow2(63), big.NewInt(int64(g.Intn(3))-1))
	default:
		return big.NewInt(int64(g.Intn(n + 40)))
	}
}

func (g *G) malformed(kind string) []byte {
	switch g.Intn(6) {
	case 0:
		return g.Bytes(g.Intn(100))
	case 1:
		return nil
	case 2: // right shape, hostile length word(s)
		n := 64 + g.Intn(120)
		cd := g.Bytes(n)
		copy(cd[32:64], w32(g.lenWord(n)))
		return cd
	case 3: // valid then truncated / extended
		var cd []byte
		switch kind {
		case "erc721":
			cd = g.erc721CD()
		case "erc1155":
			cd = g.erc1155CD()
		case "generic":
			cd = g.genericCD()
		default:
			cd = g.fungibleCD(g.Bool())
		}
		if len(cd) > 0 && g.Bool() {
			return cd[:g.Intn(len(cd))]
		}
		return append(cd, g.Bytes(g.Intn(40))...)
	case 4: // valid with one word overwritten by a hostile length
		var cd []byte
		switch kind {
		case "erc721":
			cd = g.erc721CD()
		case "erc1155":
			cd = g.erc1155CD()
		case "generic":
			cd = g.genericCD()
		default:
			cd = g.fungibleCD(g.Bool())
		}
		if len(cd) >= 32 {
			o := 32 * g.Intn(len(cd)/32)
			if g.Intn(3) == 0 && len(cd) > 33 {
				o = g.Intn(len(cd) - 32)
			}
			copy(cd[o:o+32], w32(g.lenWord(len(cd))))
		}
		return cd
	default:
		n := []int{1, 31, 32, 63, 64, 75, 76, 83, 84, 85, 95, 96, 97, 127, 128}[g.Intn(15)]
		b := make([]byte, n)
		if g.Bool() {
			b = g.Bytes(n)
		}
		return b
	}
}

func genC01(g *G) {
	dsts := []string{"evm", "sub", "btc"}
	genC01Long(g)
	genC01Seq(g)
	genC01HSeq(g)
	genC01Range(g)
	var prev []string
	emit := func(srcKind, dstKind string, a1, a2 string) {
		s, d, n, r := g.ids()
		g.Emit("relay", srcKind, dstKind, s, d, n, r, a1, a2)
		// every few cases: the previous and the current deposit relayed back to back, both proposals read afterwards
		cur := []string{srcKind, dstKind, s, d, n, r, a1, a2}
		if prev != nil && g.Intn(5) == 0 {
			g.Emit("relay2", append(append([]string{}, prev...), cur...)...)
		}
		prev = cur
	}
	// exhaustive small scope: recipient lengths 0..40 × tail {none, 1, 32, 33, 64} × response {none, 32} × destination
	for rl := 0; rl <= 40; rl++ {
		for _, tl := range []int{0, 1, 32, 33, 64} {
			for _, resp := range []string{"-", hx(w32u(777))} {
				for _, dk := range dsts {
					cd := cat(w32u(1000000000000*uint64(rl+1)), w32u(uint64(rl)), g.Bytes(rl))
					if tl > 0 {
						t := g.Bytes(tl)
						if tl >= 32 {
							copy(t, w32u(uint64(50000+tl)))
						}
						cd = append(cd, t...)
					}
					emit("erc20", dk, hx(cd), resp)
				}
			}
		}
	}
	// all (source, destination) domain pairs on a fixed deposit
	if g.Thorough() {
		cd := hx(cat(w32u(5), w32u(20), make([]byte, 20)))
		for s := 0; s < 256; s++ {
			for d := 0; d < 256; d++ {
				g.Emit("relay", "erc20", "evm", itoa(s), itoa(d), "7", hx(w32u(3)), cd, "-")
			}
		}
	} else {
		cd := hx(cat(w32u(5), w32u(20), make([]byte, 20)))
		for s := 0; s < 256; s += 17 {
			for d := 0; d < 256; d += 15 {
				g.Emit("relay", "erc20", "evm", itoa(s), itoa(d), "7", hx(w32u(3)), cd, "-")
			}
		}
	}
	n := g.Count(500, 40000)
	for i := 0; i < n; i++ {
		emit("erc20", g.Pick(dsts), hx(g.fungibleCD(g.Intn(3) == 0)), hx(g.resp()))
		tt := "0"
		if g.Intn(10) == 0 {
			tt = itoa(1 + g.Intn(3))
		}
		emit("sub", g.Pick(dsts), hx(g.fungibleCD(g.Intn(8) == 0)), tt)
		emit("btc", g.Pick(dsts), []string{"0", "1", "2", "100000000", "2100000000000000", "1844674407", "1844674408", "9223372036854775807", utoa(g.U64() % 100000000000)}[g.Intn(9)], hx(g.btcData()))
		dk := "evm"
		if g.Intn(8) == 0 {
			dk = g.Pick(dsts)
		}
		emit("erc721", dk, hx(g.erc721CD()), hx(g.resp()))
		emit("erc1155", dk, hx(g.erc1155CD()), hx(g.resp()))
		emit("generic", dk, hx(g.genericCD()), hx(g.resp()))
	}
	// same-kind pairs to one destination kind, handled back to back: a proposal must not change when a later message of the
	// same handler is processed (shared scratch buffers, cached slices)
	for i := 0; i < g.Count(120, 6000); i++ {
		k := []string{"erc20", "erc721", "erc1155", "generic", "generic"}[g.Intn(5)]
		mk := func() (string, string) {
			switch k {
			case "erc20":
				return hx(g.fungibleCD(g.Intn(3) == 0)), hx(g.resp())
			case "erc721":
				return hx(g.erc721CD()), hx(g.resp())
			case "erc1155":
				return hx(g.erc1155CD()), hx(g.resp())
			}
			return hx(g.genericCD()), hx(g.resp())
		}
		a1, a2 := mk()
		b1, b2 := mk()
		s1, d1, n1, r1 := g.ids()
		s2, d2, n2, r2 := g.ids()
		dk := "evm"
		if k == "erc20" {
			dk = g.Pick(dsts)
		}
		g.Emit("relay2", k, dk, s1, d1, n1, r1, a1, a2, k, dk, s2, d2, n2, r2, b1, b2)
	}
	// the same deposits as event logs through the real listener and ProcessDeposits (in-range calldata only: inside a log the
	// calldata slice has spare capacity, so out-of-range slice expressions behave differently from the cap = len model)
	code := map[string]byte{"erc20": 1, "erc721": 2, "erc1155": 3, "generic": 4}
	for i := 0; i < g.Count(150, 10000); i++ {
		for _, k := range []string{"erc20", "erc721", "erc1155", "generic"} {
			var cd []byte
			switch k {
			case "erc20":
				cd = g.fungibleCD(g.Intn(3) == 0)
			case "erc721":
				cd = g.erc721CD()
			case "erc1155":
				cd = g.erc1155CD()
			default:
				cd = g.genericCD()
			}
			resp := [][]byte{nil, nil, w32(g.big256()), g.Bytes(33 + g.Intn(40))}[g.Intn(4)]
			s, d, n, _ := g.ids()
			rid := g.Bytes(32)
			rid[31] = code[k]
			dk := "evm"
			if k == "erc20" || g.Intn(8) == 0 {
				dk = g.Pick(dsts)
			}
			g.Emit("e2e", k, dk, s, d, n, hx(rid), hx(cd), hx(resp))
		}
	}
	// malformed stream (shared shape with C06)
	m := g.Count(250, 20000)
	for i := 0; i < m; i++ {
		for _, k := range []string{"erc20", "erc721", "erc1155", "generic"} {
			emit(k, g.Pick(dsts), hx(g.malformed(k)), hx(g.resp()))
		}
		emit("sub", g.Pick(dsts), hx(g.malformed("sub")), "0")
	}
}
