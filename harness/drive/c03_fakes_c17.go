package main

// Fakes shared by C03 and C17: an in-memory key/value database with scripted faults underneath the REAL
// store.PropStore, a scripted "destination chain" answering IsProposalExecuted, recorders for what reaches
// hashing / uploading (= what would be signed).

import (
	"errors"
	"fmt"
	"sort"
	"strings"
	"sync"

	"github.com/ChainSafe/sygma-relayer/relayer/transfer"
	"github.com/ChainSafe/sygma-relayer/store"
	"github.com/syndtr/goleveldb/leveldb"
	lerrors "github.com/syndtr/goleveldb/leveldb/errors"
	lstorage "github.com/syndtr/goleveldb/leveldb/storage"
)

// c3DB: in-memory KeyValueReaderWriter. The i-th call (reads and writes share one counter) fails iff
// faults[i] != '0'; the letter selects the KIND of error the database returns (c3ErrOf): a generic error, or one of
// goleveldb's sentinels / a corruption error, plain (lower case) or wrapped with %w (upper case). A leading 'W' makes
// the database report absent keys with a WRAPPED leveldb.ErrNotFound. Every successful write is logged.
type c3DB struct {
	mu     sync.Mutex
	m      map[string]string
	faults string
	wrapNF bool
	calls  int
	writes []string
	gate   *c3Gate // if armed: the FIRST call to reach the database is suspended before it looks at its arguments
	gateR  *c3Gate // if armed: the FIRST read is suspended AFTER its answer has been determined, before it returns
}

// c3Gate suspends one database call: `entered` is closed when the call has arrived (holding its key slice, not
// yet having read it), the call goes on when `resume` is closed. Used to overlap two store calls deterministically.
type c3Gate struct {
	entered chan struct{}
	resume  chan struct{}
}

func (d *c3DB) arm() *c3Gate {
	g := &c3Gate{entered: make(chan struct{}), resume: make(chan struct{})}
	d.mu.Lock()
	d.gate = g
	d.mu.Unlock()
	return g
}

// armAfterRead: the first GetByKey parks with its answer already taken (check-then-act windows of the callers)
func (d *c3DB) armAfterRead() *c3Gate {
	g := &c3Gate{entered: make(chan struct{}), resume: make(chan struct{})}
	d.mu.Lock()
	d.gateR = g
	d.mu.Unlock()
	return g
}

func (d *c3DB) passAfterRead() {
	d.mu.Lock()
	g := d.gateR
	d.gateR = nil
	d.mu.Unlock()
	if g != nil {
		close(g.entered)
		<-g.resume
	}
}

func (d *c3DB) pass() {
	d.mu.Lock()
	g := d.gate
	d.gate = nil
	d.mu.Unlock()
	if g != nil {
		close(g.entered)
		<-g.resume
	}
}

func c3SplitFaults(faults string) (string, bool) {
	if faults == "-" {
		faults = ""
	}
	if strings.HasPrefix(faults, "W") {
		return faults[1:], true
	}
	return faults, false
}

func newC3DB(faults string) *c3DB {
	f, w := c3SplitFaults(faults)
	return &c3DB{m: map[string]string{}, faults: f, wrapNF: w}
}

// c3FaultKinds: every letter that means "this call fails" in a fault script (ErrNotFound is not among them: on a
// read it means "absent", see op propstatus)
const c3FaultKinds = "1cCrRsSiIkK"

// c3ErrOf maps a fault letter to the error value the fake database returns.
func c3ErrOf(c byte) error {
	var base error
	switch c {
	case '0':
		return nil
	case '1':
		return errors.New("db call failed")
	case 'n', 'N':
		base = leveldb.ErrNotFound
	case 'c', 'C':
		base = leveldb.ErrClosed
	case 'r', 'R':
		base = leveldb.ErrReadOnly
	case 's', 'S':
		base = leveldb.ErrSnapshotReleased
	case 'i', 'I':
		base = leveldb.ErrIterReleased
	case 'k', 'K':
		base = lerrors.NewErrCorrupted(lstorage.FileDesc{Type: lstorage.TypeTable, Num: 7}, errors.New("bad block"))
	default:
		panic("bad fault letter " + string(c))
	}
	if c >= 'A' && c <= 'Z' {
		return fmt.Errorf("status store: %w", base)
	}
	return base
}

func (d *c3DB) fault() error {
	i := d.calls
	d.calls++
	if i >= len(d.faults) {
		return nil
	}
	return c3ErrOf(d.faults[i])
}

func (d *c3DB) GetByKey(key []byte) ([]byte, error) {
	d.pass()
	v, err := d.get(key)
	d.passAfterRead()
	return v, err
}

func (d *c3DB) get(key []byte) ([]byte, error) {
	d.mu.Lock()
	defer d.mu.Unlock()
	if err := d.fault(); err != nil {
		return nil, err
	}
	v, ok := d.m[string(key)]
	if !ok {
		if d.wrapNF {
			return nil, fmt.Errorf("get %s: %w", key, leveldb.ErrNotFound)
		}
		return nil, leveldb.ErrNotFound
	}
	return []byte(v), nil
}

func (d *c3DB) SetByKey(key []byte, value []byte) error {
	d.pass()
	d.mu.Lock()
	defer d.mu.Unlock()
	if err := d.fault(); err != nil {
		return err
	}
	d.m[string(key)] = string(value)
	// key = source:%d:destination:%d:depositNonce:%d
	f := strings.Split(string(key), ":")
	d.writes = append(d.writes, f[len(f)-1]+":"+c3Letter(store.PropStatus(value)))
	return nil
}

// set a status directly (test set-up; not counted, never fails)
func (d *c3DB) preset(src, dst uint8, nonce uint64, letter string) {
	st := c3Status(letter)
	if st == store.MissingProp {
		delete(d.m, fmt.Sprintf(store.KEY, src, dst, nonce))
		return
	}
	d.m[fmt.Sprintf(store.KEY, src, dst, nonce)] = string(st)
}

func (d *c3DB) letter(src, dst uint8, nonce uint64) string {
	d.mu.Lock()
	defer d.mu.Unlock()
	v, ok := d.m[fmt.Sprintf(store.KEY, src, dst, nonce)]
	if !ok {
		return "m"
	}
	return c3Letter(store.PropStatus(v))
}

func (d *c3DB) setFaults(f string) {
	d.mu.Lock()
	defer d.mu.Unlock()
	d.faults, d.wrapNF = c3SplitFaults(f)
	d.calls = 0
}

func (d *c3DB) takeWrites() string {
	d.mu.Lock()
	defer d.mu.Unlock()
	w := d.writes
	d.writes = nil
	return joinOr(w, ",")
}

func c3Status(letter string) store.PropStatus {
	switch letter {
	case "p":
		return store.PendingProp
	case "f":
		return store.FailedProp
	case "e":
		return store.ExecutedProp
	case "m":
		return store.MissingProp
	}
	panic("bad status letter " + letter)
}

func c3Letter(s store.PropStatus) string {
	switch s {
	case store.PendingProp:
		return "p"
	case store.FailedProp:
		return "f"
	case store.ExecutedProp:
		return "e"
	case store.MissingProp:
		return "m"
	}
	return "?"
}

// c3Chain: the destination chain as the EVM bridge contract / Substrate pallet fakes see it.
// Scripted mode: the k-th IsProposalExecuted call answers script[k] (p = not executed, e = executed, x = error).
// Set mode (script == ""): a proposal is executed iff its nonce is in `executed`; lookups number failAt.. fail.
type c3Chain struct {
	mu       sync.Mutex
	script   string
	k        int
	executed map[uint64]bool
	failAt   int // -1: never
	sessions []string
	asked    []string
}

func (c *c3Chain) isExecuted(p *transfer.TransferProposal) (bool, error) {
	c.mu.Lock()
	defer c.mu.Unlock()
	k := c.k
	c.k++
	c.asked = append(c.asked, utoa(p.Data.DepositNonce))
	if c.script != "" {
		if k >= len(c.script) {
			return false, nil
		}
		switch c.script[k] {
		case 'e':
			return true, nil
		case 'x':
			return false, errors.New("lookup failed")
		}
		return false, nil
	}
	if c.failAt >= 0 && k == c.failAt {
		return false, errors.New("lookup failed")
	}
	return c.executed[p.Data.DepositNonce], nil
}

// hash records the proposals handed to hashing (= the set a signing session would be started for) and fails,
// so that no signing starts in the harness.
func (c *c3Chain) hash(ps []*transfer.TransferProposal) ([]byte, error) {
	c.mu.Lock()
	defer c.mu.Unlock()
	xs := []string{}
	for _, p := range ps {
		xs = append(xs, utoa(p.Data.DepositNonce))
	}
	c.sessions = append(c.sessions, joinOr(xs, ","))
	return nil, errors.New("hashing refused by harness")
}

func (c *c3Chain) takeSessions() string {
	c.mu.Lock()
	defer c.mu.Unlock()
	s := c.sessions
	c.sessions = nil
	return c3Sessions(s)
}

// sessions in lexicographic order of their nonce lists (total, so goroutine scheduling cannot show); "-" if none
func c3Sessions(s []string) string {
	s = append([]string{}, s...)
	key := func(x string) []uint64 {
		ks := []uint64{}
		for _, it := range items(x, ",") {
			ks = append(ks, u64(it))
		}
		return ks
	}
	sort.SliceStable(s, func(i, j int) bool {
		a, b := key(s[i]), key(s[j])
		for k := 0; k < len(a) && k < len(b); k++ {
			if a[k] != b[k] {
				return a[k] < b[k]
			}
		}
		return len(a) < len(b)
	})
	return joinOr(s, ";")
}

func c3Ret(err error) string {
	if err != nil {
		return "err"
	}
	return "nil"
}

// c3FaultLetter: a random failing kind (generic half of the time), c3Wrap: a random 'W' prefix
func c3FaultLetter(g *G) byte {
	if g.Intn(2) == 0 {
		return '1'
	}
	return c3FaultKinds[g.Intn(len(c3FaultKinds))]
}

// c3SingleFault: no failure in the first k calls, then one failure of a kind chosen by the seeded generator
func c3SingleFault(g *G, k int) string {
	p := ""
	if g.Intn(3) == 0 {
		p = "W"
	}
	return p + strings.Repeat("0", k) + string(c3FaultLetter(g))
}
