package main

// C06 — per-deposit isolation. Every op runs the repository's real ProcessDeposits / HandleEvents (EVM through the real
// events.Listener over a scripted chain client) on a range that mixes well-formed and hostile deposits, and separately
// observes, on the same bytes, what each single deposit does on its own (ok dst nonce | err | panic | skip). Output:
//   <classes>|<dst=nonce,nonce;…>      classes per item (`,`), per retried transaction / block (`/`)
// The Lean side feeds the observed classes to the skeleton model and evaluates P06 on the emitted groups.

import (
	"context"
	"encoding/hex"
	"errors"
	"fmt"
	"math/big"
	"sort"
	"strings"
	"time"

	btcConfig "github.com/ChainSafe/sygma-relayer/chains/btc/config"
	btcListener "github.com/ChainSafe/sygma-relayer/chains/btc/listener"
	"github.com/ChainSafe/sygma-relayer/chains/evm/calls/consts"
	"github.com/ChainSafe/sygma-relayer/chains/evm/calls/events"
	"github.com/ChainSafe/sygma-relayer/chains/evm/listener/depositHandlers"
	"github.com/ChainSafe/sygma-relayer/chains/evm/listener/eventHandlers"
	subEvents "github.com/ChainSafe/sygma-relayer/chains/substrate/events"
	subListener "github.com/ChainSafe/sygma-relayer/chains/substrate/listener"
	"github.com/ChainSafe/sygma-relayer/relayer/transfer"
	"github.com/ChainSafe/sygma-relayer/store"
	"github.com/btcsuite/btcd/btcjson"
	"github.com/btcsuite/btcd/btcutil"
	"github.com/btcsuite/btcd/chaincfg"
	"github.com/btcsuite/btcd/chaincfg/chainhash"
	"github.com/centrifuge/go-substrate-rpc-client/v4/registry"
	"github.com/centrifuge/go-substrate-rpc-client/v4/registry/parser"
	"github.com/centrifuge/go-substrate-rpc-client/v4/types"
	"github.com/ethereum/go-ethereum/accounts/abi"
	"github.com/ethereum/go-ethereum/common"
	ethTypes "github.com/ethereum/go-ethereum/core/types"
	"github.com/rs/zerolog"
	"github.com/sygmaprotocol/sygma-core/relayer/message"
)

var c06Bridge = common.HexToAddress("0x00000000000000000000000000000000000b41d6")
var c06ABI = func() abi.ABI { a, _ := abi.JSON(strings.NewReader(consts.BridgeABI)); return a }()

// ---------------------------------------------------------------------------------------------- EVM fakes

type c06Client struct {
	deposits []ethTypes.Log           // answer for the Deposit signature
	retries  []ethTypes.Log           // answer for Retry(string)
	receipts map[common.Hash]*ethTypes.Receipt
}

func (c *c06Client) FetchEventLogs(ctx context.Context, a common.Address, event string, s, e *big.Int) ([]ethTypes.Log, error) {
	if event == string(events.RetryV1Sig) {
		return c.retries, nil
	}
	return c.deposits, nil
}
func (c *c06Client) WaitAndReturnTxReceipt(h common.Hash) (*ethTypes.Receipt, error) {
	r, ok := c.receipts[h]
	if !ok {
		return nil, errors.New("no receipt")
	}
	return r, nil
}
func (c *c06Client) LatestBlock() (*big.Int, error) { return big.NewInt(1000), nil }
func (c *c06Client) BlockByNumber(ctx context.Context, n *big.Int) (*ethTypes.Block, error) {
	return nil, errors.New("no block in harness")
}

// ridMatcher: the last byte of the resource id selects the handler (1 erc20, 2 erc721, 3 erc1155, 4 generic).
type ridMatcher struct{}

func (ridMatcher) GetHandlerAddressForResourceID(rid [32]byte) (common.Address, error) {
	k := map[byte]string{1: "erc20", 2: "erc721", 3: "erc1155", 4: "generic"}[rid[31]]
	if k == "" {
		return common.Address{}, errors.New("no handler for resource")
	}
	return common.HexToAddress(c01Addr[k]), nil
}

func c06EthHandler() *depositHandlers.ETHDepositHandler {
	dh := depositHandlers.NewETHDepositHandler(ridMatcher{})
	dh.RegisterDepositHandler(c01Addr["erc20"], &depositHandlers.Erc20DepositHandler{})
	dh.RegisterDepositHandler(c01Addr["generic"], &depositHandlers.PermissionlessGenericDepositHandler{})
	dh.RegisterDepositHandler(c01Addr["erc721"], &depositHandlers.Erc721DepositHandler{})
	dh.RegisterDepositHandler(c01Addr["erc1155"], &depositHandlers.Erc1155DepositHandler{})
	return dh
}

type c06Store struct{ st map[uint64]string }

func (s *c06Store) StorePropStatus(source, destination uint8, nonce uint64, status store.PropStatus) error {
	return nil
}
func (s *c06Store) PropStatus(source, destination uint8, nonce uint64) (store.PropStatus, error) {
	switch s.st[nonce] {
	case "e":
		return store.ExecutedProp, nil
	case "x":
		return store.MissingProp, errors.New("store failed")
	case "q":
		return store.PendingProp, nil
	}
	return store.MissingProp, nil
}

// evmLog builds the log of one item:  d:<kind digit>:<dst>:<nonce>:<calldata>:<resp>[:<status>]  |  r:<ntopics>:<data>  |  o
func evmLog(item string, st map[uint64]string) ethTypes.Log {
	f := strings.Split(item, ":")
	sig := events.DepositSig.GetTopic()
	user := common.HexToHash("0x00000000000000000000000000000000000000000000000000000000000000aa")
	switch f[0] {
	case "d":
		var rid [32]byte
		rid[31] = byte(u64(f[1]))
		data, err := c06ABI.Events["Deposit"].Inputs.NonIndexed().Pack(uint8(u64(f[2])), rid, u64(f[3]), unhx(f[4]), unhx(f[5]))
		if err != nil {
			panic(err)
		}
		if len(f) > 6 && st != nil {
			st[u64(f[3])] = f[6]
		}
		return ethTypes.Log{Address: c06Bridge, Topics: []common.Hash{sig, user}, Data: data}
	case "r":
		tp := []common.Hash{sig, user, user}[:u64(f[1])]
		return ethTypes.Log{Address: c06Bridge, Topics: tp, Data: unhx(f[2])}
	case "o":
		return ethTypes.Log{Address: common.HexToAddress("0x01"), Topics: []common.Hash{sig}, Data: nil}
	}
	panic("bad evm item " + item)
}

func nonceOf(m *message.Message) uint64 { return m.Data.(transfer.TransferMessageData).DepositNonce }

// evmClass: what this single log does on its own — through the real listener and the real handler table.
func evmClass(lg ethTypes.Log, st map[uint64]string) string {
	if lg.Address != c06Bridge {
		return "skip"
	}
	var ds []*events.Deposit
	cls := guarded(func() error {
		var err error
		ds, err = events.NewListener(&c06Client{deposits: []ethTypes.Log{lg}}).FetchDeposits(context.Background(), c06Bridge, big.NewInt(1), big.NewInt(2))
		return err
	})
	if cls == "panic" {
		return "ppanic"
	}
	if cls == "err" || len(ds) == 0 {
		return "perr"
	}
	d := ds[0]
	var m *message.Message
	cls = guarded(func() error {
		var err error
		m, err = c06EthHandler().HandleDeposit(1, d.DestinationDomainID, d.DepositNonce, d.ResourceID, d.Data, d.HandlerResponse, "x", d.Timestamp)
		return err
	})
	if cls != "ok" {
		return cls
	}
	s := fmt.Sprintf("ok.%d.%d", m.Destination, nonceOf(m))
	if st != nil {
		switch st[nonceOf(m)] {
		case "e", "x":
			s += "." + st[nonceOf(m)]
		}
	}
	return s
}

func groups(m map[uint8][]*message.Message) string {
	ks := []int{}
	for k := range m {
		ks = append(ks, int(k))
	}
	sort.Ints(ks)
	out := []string{}
	for _, k := range ks {
		ns := []string{}
		for _, x := range m[uint8(k)] {
			ns = append(ns, utoa(nonceOf(x)))
		}
		out = append(out, itoa(k)+"="+strings.Join(ns, ","))
	}
	return joinOr(out, ";")
}

func drain(ch chan []*message.Message) map[uint8][]*message.Message {
	m := map[uint8][]*message.Message{}
	for {
		select {
		case ms := <-ch:
			if len(ms) > 0 {
				m[ms[0].Destination] = append(m[ms[0].Destination], ms...)
			}
		default:
			return m
		}
	}
}

// ---------------------------------------------------------------------------------------------- Substrate fakes

type c06SubConn struct {
	evts   []*parser.Event
	blocks map[uint64][]*parser.Event
}

func (c *c06SubConn) GetFinalizedHead() (types.Hash, error) { return types.Hash{}, nil }
func (c *c06SubConn) GetBlock(h types.Hash) (*types.SignedBlock, error) {
	return &types.SignedBlock{Block: types.Block{Header: types.Header{Number: types.BlockNumber(100)}}}, nil
}
func (c *c06SubConn) GetBlockHash(n uint64) (types.Hash, error) {
	var h types.Hash
	h[0] = byte(n)
	return h, nil
}
func (c *c06SubConn) GetBlockEvents(h types.Hash) ([]*parser.Event, error) {
	b, ok := c.blocks[uint64(h[0])]
	if !ok {
		return nil, errors.New("no such block")
	}
	return b, nil
}
func (c *c06SubConn) UpdateMetatdata() error { return nil }
func (c *c06SubConn) FetchEvents(s, e *big.Int) ([]*parser.Event, error) { return c.evts, nil }

// subEvent:  d:<dst>:<nonce>:<calldata>:<transferType>  |  b (deposit event with an undecodable field)  |  o (other event)
func subEvent(item string) *parser.Event {
	f := strings.Split(item, ":")
	switch f[0] {
	case "d":
		var rid types.Bytes32
		rid[31] = 1
		return &parser.Event{Name: subEvents.DepositEvent, Fields: registry.DecodedFields{
			&registry.DecodedField{Name: "dest_domain_id", Value: types.NewU8(uint8(u64(f[1])))},
			&registry.DecodedField{Name: "resource_id", Value: rid},
			&registry.DecodedField{Name: "deposit_nonce", Value: types.NewU64(u64(f[2]))},
			&registry.DecodedField{Name: "sygma_traits_TransferType", Value: types.NewU8(uint8(u64(f[4])))},
			&registry.DecodedField{Name: "deposit_data", Value: exact(unhx(f[3]))},
			&registry.DecodedField{Name: "handler_response", Value: [1]byte{0}},
		}}
	case "b":
		return &parser.Event{Name: subEvents.DepositEvent, Fields: registry.DecodedFields{
			&registry.DecodedField{Name: "dest_domain_id", Value: "not-a-number"},
			&registry.DecodedField{Name: "deposit_data", Value: 7},
		}}
	case "o":
		return &parser.Event{Name: "Balances.Transfer", Fields: registry.DecodedFields{}}
	}
	panic("bad substrate item " + item)
}

func subHandler() *subListener.SubstrateDepositHandler {
	sh := subListener.NewSubstrateDepositHandler()
	sh.RegisterDepositHandler(transfer.FungibleTransfer, subListener.FungibleTransferHandler)
	return sh
}

func subClass(item string) string {
	e := subEvent(item)
	if e.Name != subEvents.DepositEvent {
		return "skip"
	}
	var m *message.Message
	cls := guarded(func() error {
		d, err := subListener.DecodeDepositEvent(e.Fields)
		if err != nil {
			return err
		}
		m, err = subHandler().HandleDeposit(1, d.DestDomainID, d.DepositNonce, d.ResourceID, d.CallData, d.TransferType, "x", d.Timestamp)
		return err
	})
	if cls != "ok" {
		return cls
	}
	return fmt.Sprintf("ok.%d.%d", m.Destination, nonceOf(m))
}

// ---------------------------------------------------------------------------------------------- Bitcoin fakes

type c06BtcConn struct{ txs []btcjson.TxRawResult }

func (c *c06BtcConn) GetRawTransactionVerbose(*chainhash.Hash) (*btcjson.TxRawResult, error) {
	return nil, errors.New("unused")
}
func (c *c06BtcConn) GetBlockHash(int64) (*chainhash.Hash, error) { return &chainhash.Hash{}, nil }
func (c *c06BtcConn) GetBlockVerboseTx(*chainhash.Hash) (*btcjson.GetBlockVerboseTxResult, error) {
	return &btcjson.GetBlockVerboseTxResult{Tx: c.txs}, nil
}
func (c *c06BtcConn) GetBestBlockHash() (*chainhash.Hash, error) { return &chainhash.Hash{}, nil }

var c06BtcRes, c06BtcFee = func() (btcConfig.Resource, btcutil.Address) {
	a, _ := btcutil.DecodeAddress("tb1pdf5c3q35ssem2l25n435fa69qr7dzwkc6gsqehuflr3euh905l2slafjvv", &chaincfg.TestNet3Params)
	f, _ := btcutil.DecodeAddress("mkHS9ne12qx9pS9VojpwU5xtRd4T7X7ZUt", &chaincfg.TestNet3Params)
	var rid [32]byte
	rid[31] = 9
	return btcConfig.Resource{Address: a, FeeAmount: big.NewInt(1000), ResourceID: rid}, f
}()

// btcTx:  t:<hex of the ScriptPubKey.Hex text of the OP_RETURN output>:<satoshi>  |  m:<…>:<sat> (two OP_RETURN outputs)  |  n (no bridge output)  |  f:<…>:<sat> (fee too low)
func btcTx(i int, item string) btcjson.TxRawResult {
	f := strings.Split(item, ":")
	tx := btcjson.TxRawResult{Hash: fmt.Sprintf("%064x", i+1), Blocktime: 1700000000}
	pay := func(addr string, typ string, sat uint64) btcjson.Vout {
		return btcjson.Vout{Value: float64(sat) / 1e8, ScriptPubKey: btcjson.ScriptPubKeyResult{Type: typ, Address: addr}}
	}
	switch f[0] {
	case "n":
		tx.Vout = []btcjson.Vout{pay("tb1qln69zuhdunc9stwfh6t7adexxrcr04ppy6thgm", "witness_v0_keyhash", 5000)}
	case "u":
		tx.Vout = []btcjson.Vout{
			{ScriptPubKey: btcjson.ScriptPubKeyResult{Type: btcListener.OP_RETURN, Hex: string(unhx(f[1]))}},
			pay("tb1qln69zuhdunc9stwfh6t7adexxrcr04ppy6thgm", "witness_v0_keyhash", u64(f[2])),
		}
	case "t", "f", "m":
		fee := uint64(1000)
		if f[0] == "f" {
			fee = 999
		}
		tx.Vout = []btcjson.Vout{
			{ScriptPubKey: btcjson.ScriptPubKeyResult{Type: btcListener.OP_RETURN, Hex: string(unhx(f[1]))}},
			pay(c06BtcRes.Address.String(), btcListener.WitnessV1Taproot, u64(f[2])),
			pay(c06BtcFee.String(), "pubkeyhash", fee),
		}
		if f[0] == "m" {
			tx.Vout = append(tx.Vout, btcjson.Vout{ScriptPubKey: btcjson.ScriptPubKeyResult{Type: btcListener.OP_RETURN, Hex: "zz"}})
		}
	default:
		panic("bad btc item " + item)
	}
	return tx
}

func btcHandler(conn *c06BtcConn, ch chan []*message.Message) *btcListener.FungibleTransferEventHandler {
	return btcListener.NewFungibleTransferEventHandler(zerolog.Nop().With(), 3, btcListener.NewBtcDepositHandler(), ch, conn,
		map[[32]byte]btcConfig.Resource{c06BtcRes.ResourceID: c06BtcRes}, c06BtcFee)
}

func btcClass(tx btcjson.TxRawResult) string {
	var m *message.Message
	skip := false
	cls := guarded(func() error {
		d, isDep, err := btcListener.DecodeDepositEvent(tx, c06BtcRes, c06BtcFee)
		if err != nil {
			return err
		}
		if !isDep {
			skip = true
			return nil
		}
		eh := btcHandler(&c06BtcConn{}, nil)
		nonce, err := eh.CalculateNonce(big.NewInt(100), tx.Hash)
		if err != nil {
			return err
		}
		m, err = btcListener.NewBtcDepositHandler().HandleDeposit(3, nonce, d.ResourceID, d.Amount, d.Data, big.NewInt(100), time.Unix(tx.Blocktime, 0))
		return err
	})
	if skip {
		return "skip"
	}
	if cls != "ok" {
		return cls
	}
	return fmt.Sprintf("ok.%d.%d", m.Destination, nonceOf(m))
}

// ---------------------------------------------------------------------------------------------- ops

func init() {
	// evm <items ;>  — DepositEventHandler.ProcessDeposits over events.Listener.FetchDeposits
	ops["C06.evm"] = func(a []string) string {
		its := items(a[0], ";")
		cl := &c06Client{}
		classes := []string{}
		for _, it := range its {
			classes = append(classes, evmClass(evmLog(it, nil), nil))
			cl.deposits = append(cl.deposits, evmLog(it, nil))
		}
		ch := make(chan []*message.Message, 300)
		eh := eventHandlers.NewDepositEventHandler(events.NewListener(cl), c06EthHandler(), c06Bridge, 1, ch)
		var out map[uint8][]*message.Message
		cls := guarded(func() error {
			var err error
			out, err = eh.ProcessDeposits(big.NewInt(1), big.NewInt(2))
			return err
		})
		if cls != "ok" {
			return joinOr(classes, ",") + "|" + cls
		}
		return joinOr(classes, ",") + "|" + groups(out)
	}
	// retry1 <tx / tx / …>  each tx = items ;  or E (receipt cannot be fetched) — RetryV1EventHandler.HandleEvents
	ops["C06.retry1"] = func(a []string) string {
		cl := &c06Client{receipts: map[common.Hash]*ethTypes.Receipt{}}
		st := map[uint64]string{}
		classes := []string{}
		for i, tx := range items(a[0], "/") {
			h := common.BigToHash(big.NewInt(int64(i + 1)))
			data, err := c06ABI.Events["Retry"].Inputs.Pack(h.Hex())
			if err != nil {
				panic(err)
			}
			cl.retries = append(cl.retries, ethTypes.Log{Address: c06Bridge, Data: data})
			if tx == "E" {
				classes = append(classes, "E")
				continue
			}
			r := &ethTypes.Receipt{BlockNumber: big.NewInt(10)}
			cs := []string{}
			for _, it := range items(tx, ";") {
				lg := evmLog(it, st)
				r.Logs = append(r.Logs, &lg)
			}
			for _, it := range items(tx, ";") {
				cs = append(cs, evmClass(evmLog(it, nil), st))
			}
			cl.receipts[h] = r
			classes = append(classes, joinOr(cs, ","))
		}
		return joinOr(classes, "/") + "|" + collect(func(ch chan []*message.Message) error {
			return eventHandlers.NewRetryV1EventHandler(zerolog.Nop().With(), events.NewListener(cl), c06EthHandler(), &c06Store{st}, c06Bridge, 1, big.NewInt(5), ch).HandleEvents(big.NewInt(1), big.NewInt(2))
		})
	}
	// sub <items ;> — Substrate FungibleTransferEventHandler.ProcessDeposits
	ops["C06.sub"] = func(a []string) string {
		conn := &c06SubConn{}
		classes := []string{}
		for _, it := range items(a[0], ";") {
			classes = append(classes, subClass(it))
			conn.evts = append(conn.evts, subEvent(it))
		}
		eh := subListener.NewFungibleTransferEventHandler(zerolog.Nop().With(), 1, subHandler(), make(chan []*message.Message, 300), conn)
		var out map[uint8][]*message.Message
		cls := guarded(func() error {
			var err error
			out, err = eh.ProcessDeposits(big.NewInt(1), big.NewInt(2))
			return err
		})
		if cls != "ok" {
			return joinOr(classes, ",") + "|" + cls
		}
		return joinOr(classes, ",") + "|" + groups(out)
	}
	// subretry <block / block / …>  each block = items ;  or T (retry for a block that is not final yet) or B (undecodable retry event)
	ops["C06.subretry"] = func(a []string) string {
		conn := &c06SubConn{blocks: map[uint64][]*parser.Event{}}
		classes := []string{}
		for i, blk := range items(a[0], "/") {
			height := uint64(10 + i)
			switch blk {
			case "T":
				height = 200
				classes = append(classes, "T")
			case "B":
				classes = append(classes, "B")
				conn.evts = append(conn.evts, &parser.Event{Name: subEvents.RetryEvent, Fields: registry.DecodedFields{
					&registry.DecodedField{Name: "deposit_on_block_height", Value: "garbage"}}})
				continue
			default:
				cs := []string{}
				for _, it := range items(blk, ";") {
					cs = append(cs, subClass(it))
					conn.blocks[height] = append(conn.blocks[height], subEvent(it))
				}
				if len(cs) == 0 {
					conn.blocks[height] = []*parser.Event{}
				}
				classes = append(classes, joinOr(cs, ","))
			}
			conn.evts = append(conn.evts, &parser.Event{Name: subEvents.RetryEvent, Fields: registry.DecodedFields{
				&registry.DecodedField{Name: "deposit_on_block_height", Value: types.NewU128(*new(big.Int).SetUint64(height))}}})
		}
		return joinOr(classes, "/") + "|" + collect(func(ch chan []*message.Message) error {
			return subListener.NewRetryEventHandler(zerolog.Nop().With(), conn, subHandler(), 1, ch).HandleEvents(big.NewInt(1), big.NewInt(2))
		})
	}
	// btc <tx ;> — Bitcoin FungibleTransferEventHandler.ProcessDeposits (one configured resource)
	ops["C06.btc"] = func(a []string) string {
		conn := &c06BtcConn{}
		classes := []string{}
		for i, it := range items(a[0], ";") {
			conn.txs = append(conn.txs, btcTx(i, it))
			classes = append(classes, btcClass(btcTx(i, it)))
		}
		eh := btcHandler(conn, make(chan []*message.Message, 300))
		var out map[uint8][]*message.Message
		cls := guarded(func() error {
			var err error
			out, err = eh.ProcessDeposits(big.NewInt(100))
			return err
		})
		if cls != "ok" {
			return joinOr(classes, ",") + "|" + cls
		}
		return joinOr(classes, ",") + "|" + groups(out)
	}
	gens["C06"] = genC06
}

// ---------------------------------------------------------------------------------------------- generators

func opReturnHex(text string) string {
	return hx([]byte("6a" + fmt.Sprintf("%02x", len(text)) + hex.EncodeToString([]byte(text))))
}

func genC06(g *G) {
	// every case runs in a memory-bounded child process, in batches (see isoBatch): nothing a deposit does — fatal runtime
	// errors included — can take the driver down, and the case that kills or blocks a child is pinpointed
	B := &isoBatch{g: g}
	defer B.flush()
	nonce := uint64(0)
	next := func() string { nonce++; return utoa(nonce) }
	goodCD := func() string { return hx(cat(w32(g.big256()), w32u(20), g.Bytes(20))) }
	// one EVM item: mostly good, otherwise hostile
	evmItem := func(retry bool) string {
		dst := itoa(1 + g.Intn(4))
		st := ""
		if retry {
			st = ":" + []string{"p", "p", "p", "q", "e", "x"}[g.Intn(6)]
		}
		switch g.Intn(14) {
		case 0: // malformed calldata for a random handler
			k := []string{"erc20", "erc721", "erc1155", "generic"}[g.Intn(4)]
			kd := map[string]string{"erc20": "1", "erc721": "2", "erc1155": "3", "generic": "4"}[k]
			return "d:" + kd + ":" + dst + ":" + next() + ":" + hx(g.malformed(k)) + ":" + hx(g.resp()) + st
		case 1: // hostile length word
			cd := g.Bytes(96)
			copy(cd[32:64], w32(g.lenWord(96)))
			return "d:" + itoa(1+g.Intn(2)) + ":" + dst + ":" + next() + ":" + hx(cd) + ":-" + st
		case 2: // short handler response
			return "d:1:" + dst + ":" + next() + ":" + goodCD() + ":" + hx(g.Bytes(1+g.Intn(31))) + st
		case 3: // unknown resource
			return "d:" + []string{"0", "5", "255"}[g.Intn(3)] + ":" + dst + ":" + next() + ":" + goodCD() + ":-" + st
		case 4: // raw log: garbage data, 0..3 topics
			return "r:" + itoa(g.Intn(4)) + ":" + hx(g.Bytes([]int{0, 1, 31, 32, 160, 200}[g.Intn(6)]))
		case 5: // raw log: decodable data but a single topic
			data, _ := c06ABI.Events["Deposit"].Inputs.NonIndexed().Pack(uint8(2), [32]byte{31: 1}, uint64(900+g.Intn(50)), unhx(goodCD()), []byte{})
			return "r:" + itoa(g.Intn(3)) + ":" + hx(data)
		case 6:
			if retry {
				return "o"
			}
			fallthrough
		case 7: // other well-formed kinds
			switch g.Intn(3) {
			case 0:
				return "d:2:" + dst + ":" + next() + ":" + hx(g.erc721CD()) + ":-" + st
			case 1:
				return "d:4:" + dst + ":" + next() + ":" + hx(g.genericCD()) + ":-" + st
			default:
				return "d:3:" + dst + ":" + next() + ":" + hx(g.erc1155CD()) + ":-" + st
			}
		default:
			return "d:1:" + dst + ":" + next() + ":" + goodCD() + ":-" + st
		}
	}
	subItem := func() string {
		dst := itoa(1 + g.Intn(4))
		switch g.Intn(10) {
		case 0:
			return "d:" + dst + ":" + next() + ":" + hx(g.malformed("sub")) + ":0"
		case 1:
			cd := g.Bytes(96)
			copy(cd[32:64], w32(g.lenWord(96)))
			return "d:" + dst + ":" + next() + ":" + hx(cd) + ":0"
		case 2:
			return "d:" + dst + ":" + next() + ":" + goodCD() + ":" + itoa(1+g.Intn(3))
		case 3:
			return "b"
		case 4:
			return "o"
		default:
			return "d:" + dst + ":" + next() + ":" + goodCD() + ":0"
		}
	}
	btcItem := func() string {
		sat := utoa(uint64(1 + g.Intn(1000000)))
		good := func() string {
			return "0x" + hex.EncodeToString(g.Bytes(20)) + "_" + itoa(1+g.Intn(4))
		}
		switch g.Intn(12) {
		case 0:
			return "t:" + hx([]byte("zz-not-hex")) + ":" + sat
		case 1:
			return "t:" + hx([]byte([]string{"", "6a", "6", "6a0"}[g.Intn(4)])) + ":" + sat
		case 2:
			return "t:" + opReturnHex("0x"+hex.EncodeToString(g.Bytes(20))) + ":" + sat // no separator
		case 3:
			return "t:" + opReturnHex(good()[:42]+"_"+[]string{"256", "-1", "x", ""}[g.Intn(4)]) + ":" + sat
		case 4:
			return "n"
		case 5:
			return "f:" + opReturnHex(good()) + ":" + sat
		case 6:
			return "m:" + opReturnHex(good()) + ":" + sat
		case 7:
			return "t:" + opReturnHex(string(g.btcData())) + ":" + sat
		default:
			return "t:" + opReturnHex(good()) + ":" + sat
		}
	}
	list := func(n int, f func() string) string {
		xs := []string{}
		for i := 0; i < n; i++ {
			xs = append(xs, f())
		}
		return joinOr(xs, ";")
	}
	// exhaustive: one hostile item at every position among good ones, each skeleton
	bad := []string{
		"d:1:2:%s:" + hx(make([]byte, 10)) + ":-",                                  // short calldata (error)
		"d:1:2:%s:" + hx(cat(w32u(1), w32(new(big.Int).Sub(pow2(256), big.NewInt(1))), make([]byte, 32))) + ":-", // length word 2^256-1 (panic)
		"d:1:2:%s:" + hx(cat(w32u(1), w32u(20), make([]byte, 20))) + ":01",         // handler response of one byte (panic)
		"d:0:2:%s:" + hx(cat(w32u(1), w32u(20), make([]byte, 20))) + ":-",          // no handler (error)
		"r:1:" + hx(make([]byte, 7)),                                               // undecodable log
	}
	for _, b := range bad {
		for n := 1; n <= 4; n++ {
			for pos := 0; pos < n; pos++ {
				xs := []string{}
				for i := 0; i < n; i++ {
					if i == pos {
						if strings.Contains(b, "%s") {
							xs = append(xs, fmt.Sprintf(b, next()))
						} else {
							xs = append(xs, b)
						}
					} else {
						xs = append(xs, "d:1:"+itoa(2+i%2)+":"+next()+":"+hx(cat(w32u(uint64(i+1)), w32u(20), make([]byte, 20)))+":-")
					}
				}
				B.add("evm", joinOr(xs, ";"))
				B.add("hevm", joinOr(xs, ";"))
				B.add("route", joinOr(xs, ";"))
				// the same range with the hostile deposit alone on its own destination (an entry must not exist for it)
				alone := append([]string{}, xs...)
				alone[pos] = strings.Replace(alone[pos], "d:1:2:", "d:1:5:", 1)
				alone[pos] = strings.Replace(alone[pos], "d:0:2:", "d:0:5:", 1)
				B.add("hevm", joinOr(alone, ";"))
				B.add("route", joinOr(alone, ";"))
				B.add("retry1", joinOr(alone, ";"))
				B.add("retry1", joinOr(xs, ";"))
				B.add("retry1", "d:1:2:"+next()+":"+hx(cat(w32u(5), w32u(20), make([]byte, 20)))+":-/"+joinOr(xs, ";"))
			}
		}
	}
	// Substrate and Bitcoin HandleEvents: one hostile deposit at every position, also alone on its own destination
	goodCDx := hx(cat(w32u(7), w32u(20), make([]byte, 20)))
	subBad := []string{"d:%d:%s:00:0", "d:%d:%s:" + hx(cat(w32u(1), w32(new(big.Int).Sub(pow2(256), big.NewInt(1))), make([]byte, 32))) + ":0", "d:%d:%s:" + goodCDx + ":1", "b"}
	btcBad := []string{"t:" + hx([]byte("zz-not-hex")) + ":1000", "t:" + opReturnHex("0x"+strings.Repeat("ab", 20)) + ":1000",
		"t:" + opReturnHex("0x"+strings.Repeat("ab", 20)+"_256") + ":1000", "t:" + hx([]byte("6a")) + ":1000"}
	for n := 1; n <= 4; n++ {
		for pos := 0; pos < n; pos++ {
			for _, bdst := range []int{2, 5} {
				for _, b := range subBad {
					xs := []string{}
					for i := 0; i < n; i++ {
						if i == pos {
							if strings.Contains(b, "%") {
								xs = append(xs, fmt.Sprintf(b, bdst, next()))
							} else {
								xs = append(xs, b)
							}
						} else {
							xs = append(xs, "d:"+itoa(2+i%2)+":"+next()+":"+goodCDx+":0")
						}
					}
					B.add("hsub", joinOr(xs, ";"))
					B.add("subretry", joinOr(xs, ";"))
				}
			}
			for _, b := range btcBad {
				xs := []string{}
				for i := 0; i < n; i++ {
					if i == pos {
						xs = append(xs, b)
					} else {
						xs = append(xs, "t:"+opReturnHex("0x"+strings.Repeat("cd", 20)+"_"+itoa(2+i%2))+":"+itoa(1000+i))
					}
				}
				B.add("hbtc", joinOr(xs, ";"))
			}
		}
	}
	// hostile length words that would be giant allocation sizes, at every length-word position of every handler, between good
	// deposits for other destinations — in a memory-bounded child process (iso): the range must survive and deliver the rest
	goodE := func(d int) string { return "d:1:" + itoa(d) + ":" + next() + ":" + goodCDx + ":-" }
	goodS := func(d int) string { return "d:" + itoa(d) + ":" + next() + ":" + goodCDx + ":0" }
	dws := dangerWords()
	if !g.Thorough() {
		dws = []*big.Int{dws[g.Intn(2)], dws[2+g.Intn(3)], dws[5], dws[6+g.Intn(3)]}
	}
	for _, w := range dws {
		ww := w32(w)
		hostile := []string{
			"d:1:5:" + next() + ":" + hx(cat(w32u(1), ww, make([]byte, 64))) + ":-",                      // erc20 recipient length
			"d:1:5:" + next() + ":" + hx(cat(w32u(1), w32u(20), make([]byte, 20), ww, make([]byte, 40))) + ":-", // erc20 fee word (harmless)
			"d:2:5:" + next() + ":" + hx(cat(w32u(1), ww, make([]byte, 64))) + ":-",                      // erc721 recipient length
			"d:2:5:" + next() + ":" + hx(cat(w32u(1), w32u(20), make([]byte, 20), ww, make([]byte, 40))) + ":-", // erc721 metadata length
			"d:3:5:" + next() + ":" + hx(cat(ww, w32u(160), w32u(192), w32u(224), make([]byte, 128))) + ":-",     // erc1155 offset
			"d:3:5:" + next() + ":" + hx(cat(w32u(128), w32u(160), w32u(192), w32u(224), ww, make([]byte, 128))) + ":-", // erc1155 vector length
			"d:4:5:" + next() + ":" + hx(cat(ww, []byte{0xff, 0xff}, make([]byte, 80))) + ":-",             // generic (2-byte length field)
		}
		for _, hItem := range hostile {
			xs := joinOr([]string{goodE(2), hItem, goodE(3), goodE(2)}, ";")
			B.add("hevm", xs)
			if g.Thorough() || g.Intn(3) == 0 {
				B.add("retry1", xs)
			}
		}
		subH := "d:5:" + next() + ":" + hx(cat(w32u(1), ww, make([]byte, 64))) + ":0"
		B.add("hsub", joinOr([]string{goodS(2), subH, goodS(3)}, ";"))
		B.add("subretry", joinOr([]string{goodS(2), subH, goodS(3)}, ";"))
	}
	// Bitcoin: arbitrary nulldata scripts (any opcode after OP_RETURN, several pushes, OP_PUSHDATA1/2/4, truncated pushes) in a
	// transaction of the block — whether or not it pays the bridge — between good deposits; child process with a deadline
	goodB := func(d int) string {
		return "t:" + opReturnHex("0x"+hex.EncodeToString(g.Bytes(20))+"_"+itoa(d)) + ":" + itoa(1000+g.Intn(1000))
	}
	scripts := []string{"6a5d0800c0a23303e80701", "6a51", "6a4c00", "6a4d0400deadbeef", "6a4e04000000deadbeef", "6a0401020304610162", "6a4f", "6a6a6a", "6aff", "6a4c05", "6a00"}
	nb := g.Count(40, 800)
	for i := 0; i < nb; i++ {
		var sc string
		if i < len(scripts) {
			sc = scripts[i]
		} else {
			b := []byte{0x6a}
			for k := 0; k < 1+g.Intn(4); k++ {
				switch g.Intn(5) {
				case 0:
					b = append(b, byte(0x4c+g.Intn(0xb4))) // any opcode ≥ OP_PUSHDATA1
				case 1:
					n := g.Intn(20)
					b = append(append(b, byte(n)), g.Bytes(n)...)
				case 2:
					n := g.Intn(20)
					b = append(append(b, 0x4c, byte(n)), g.Bytes(g.Intn(n+1))...)
				case 3:
					txt := []byte("0x" + hex.EncodeToString(g.Bytes(20)) + "_" + itoa(1+g.Intn(4)))
					b = append(append(b, byte(len(txt))), txt...)
				default:
					b = append(b, g.Bytes(1+g.Intn(6))...)
				}
			}
			sc = hex.EncodeToString(b)
		}
		kind := []string{"t", "t", "u"}[g.Intn(3)] // u: the script sits in a transaction that does not pay the bridge
		item := kind + ":" + hx([]byte(sc)) + ":" + itoa(1000+g.Intn(1000))
		B.add("hbtc", joinOr([]string{goodB(2), item, goodB(3)}, ";"))
	}
	retry2Item := func() string {
		switch g.Intn(8) {
		case 0:
			return "r:" + hx(g.Bytes([]int{0, 1, 31, 32, 100, 127, 129}[g.Intn(7)]))
		case 1: // right length, source domain word out of uint8 range
			d := g.Bytes(128)
			return "r:" + hx(d)
		default:
			return "v:" + itoa(1+g.Intn(4)) + ":" + itoa(1+g.Intn(4)) + ":" + next()
		}
	}
	n := g.Count(300, 9000)
	for i := 0; i < n; i++ {
		ev := list(g.Intn(7), func() string { return evmItem(false) })
		B.add("hevm", ev)
		if i%3 == 0 && i < 3*g.Count(100, 1500) {
			B.add("route", ev)
		}
		B.add("hsub", list(g.Intn(7), subItem))
		B.add("hbtc", list(g.Intn(7), btcItem))
		B.add("retry2", list(g.Intn(6), retry2Item))
		B.add("evm", list(g.Intn(7), func() string { return evmItem(false) }))
		txs := []string{}
		for t := 0; t < 1+g.Intn(3); t++ {
			if g.Intn(10) == 0 {
				txs = append(txs, "E")
			} else {
				txs = append(txs, list(g.Intn(6), func() string { return evmItem(true) }))
			}
		}
		B.add("retry1", strings.Join(txs, "/"))
		B.add("sub", list(g.Intn(7), subItem))
		blks := []string{}
		for t := 0; t < 1+g.Intn(3); t++ {
			switch g.Intn(12) {
			case 0:
				blks = append(blks, "T")
			case 1:
				blks = append(blks, "B")
			default:
				blks = append(blks, list(g.Intn(5), subItem))
			}
		}
		B.add("subretry", strings.Join(blks, "/"))
		B.add("btc", list(g.Intn(7), btcItem))
	}
}
