package main

func genC08Runs(g *G) {}
