package main

// C08 — runs of the REAL protocols (threshlib GG20 signing, multi-party-sig FROST signing / keygen / refresh) through the
// repository's process types over the fixture shares of tss/test/keyshares, with a scripted in-process transport
// (random per-message delays => varying delivery orders). LABELLED TESTS, not proofs: they check that the outputs
// satisfy the relations the property names (signature verifies under the group key over exactly the digest; who
// releases it; one public key after keygen; unchanged key after refresh).

import (
	"context"
	"crypto/ecdsa"
	"encoding/hex"
	"encoding/json"
	"fmt"
	"math/big"
	"os"
	"strings"
	"sync"
	"time"

	"github.com/ChainSafe/sygma-relayer/comm"
	"github.com/ChainSafe/sygma-relayer/keyshare"
	ecdsaSigning "github.com/ChainSafe/sygma-relayer/tss/ecdsa/signing"
	frostKeygen "github.com/ChainSafe/sygma-relayer/tss/frost/keygen"
	frostResharing "github.com/ChainSafe/sygma-relayer/tss/frost/resharing"
	frostSigning "github.com/ChainSafe/sygma-relayer/tss/frost/signing"
	tssCommon "github.com/binance-chain/tss-lib/common"
	"github.com/btcsuite/btcd/btcec/v2"
	"github.com/btcsuite/btcd/btcec/v2/schnorr"
	"github.com/libp2p/go-libp2p/core/peer"
	"github.com/taurusgroup/multi-party-sig/pkg/math/curve"
	"github.com/taurusgroup/multi-party-sig/pkg/math/polynomial"
	"github.com/taurusgroup/multi-party-sig/pkg/party"
	"github.com/taurusgroup/multi-party-sig/pkg/protocol"
)

// ---------------------------------------------------------------------------------------------- scripted transport

type c08Net struct {
	mu    sync.Mutex
	subs  map[string]chan *comm.WrappedMessage // "<peer>|<session>|<type>"
	rng   *c18rng
	done  chan struct{}
	maxMs int
	// stray: every party additionally receives, once, a copy of the first FROST protocol message sent to it whose session
	// binding (SSID) was altered - what a late message of an earlier attempt of the session looks like. The handler cannot
	// accept it; the session must go on regardless.
	stray   bool
	strayed map[string]bool
}

func newC08Net(seed uint64, maxMs int) *c08Net {
	return &c08Net{subs: map[string]chan *comm.WrappedMessage{}, rng: &c18rng{s: seed}, done: make(chan struct{}), maxMs: maxMs}
}

func (n *c08Net) delay() time.Duration {
	n.mu.Lock()
	defer n.mu.Unlock()
	return time.Duration(n.rng.u64()%uint64(n.maxMs*1000+1)) * time.Microsecond
}

type c08Comm struct {
	net  *c08Net
	self peer.ID
}

func (c *c08Comm) CloseSession(string) {}
func (c *c08Comm) Subscribe(sessionID string, t comm.MessageType, ch chan *comm.WrappedMessage) comm.SubscriptionID {
	k := fmt.Sprintf("%s|%s|%s", c.self, sessionID, t)
	c.net.mu.Lock()
	c.net.subs[k] = ch
	c.net.mu.Unlock()
	return comm.SubscriptionID(k)
}
func (c *c08Comm) UnSubscribe(id comm.SubscriptionID) {
	c.net.mu.Lock()
	delete(c.net.subs, string(id))
	c.net.mu.Unlock()
}
func (c *c08Comm) Broadcast(peers peer.IDSlice, msg []byte, t comm.MessageType, sessionID string) error {
	for _, p := range peers {
		if p == c.self {
			continue
		}
		w := &comm.WrappedMessage{MessageType: t, SessionID: sessionID, Payload: msg, From: c.self}
		k := fmt.Sprintf("%s|%s|%s", p, sessionID, t)
		d := c.net.delay()
		if c.net.stray {
			c.net.mu.Lock()
			first := !c.net.strayed[k]
			if c.net.strayed == nil {
				c.net.strayed = map[string]bool{}
			}
			c.net.strayed[k] = true
			c.net.mu.Unlock()
			if first {
				pm := &protocol.Message{}
				if pm.UnmarshalBinary(msg) == nil && len(pm.SSID) > 0 {
					pm.SSID = append([]byte{}, pm.SSID...)
					pm.SSID[0] ^= 0xff
					if alt, err := pm.MarshalBinary(); err == nil {
						sw := &comm.WrappedMessage{MessageType: t, SessionID: sessionID, Payload: alt, From: c.self}
						go c.deliver(k, sw, d/2)
					}
				}
			}
		}
		go c.deliver(k, w, d)
	}
	return nil
}

// deliver hands w to the subscriber k after delay d (a party that has not subscribed yet gets it once it has)
func (c *c08Comm) deliver(k string, w *comm.WrappedMessage, d time.Duration) {
	select {
	case <-time.After(d):
	case <-c.net.done:
		return
	}
	for i := 0; i < 4000; i++ { // a party that has not subscribed yet gets the message once it has
		c.net.mu.Lock()
		ch := c.net.subs[k]
		c.net.mu.Unlock()
		if ch != nil {
			select {
			case ch <- w:
			case <-c.net.done:
			}
			return
		}
		select {
		case <-time.After(5 * time.Millisecond):
		case <-c.net.done:
			return
		}
	}
}

// ---------------------------------------------------------------------------------------------- fixtures

func c08FixturePeers() ([]peer.ID, error) { // index i = holder of tss/test/keyshares/i*.keyshare
	out := make([]peer.ID, 3)
	for i := 0; i < 3; i++ {
		k, err := c08FrostFixture(i)
		if err != nil {
			return nil, err
		}
		p, err := peer.Decode(string(k.Key.ID))
		if err != nil {
			return nil, err
		}
		out[i] = p
	}
	return out, nil
}

func c08Subset(s string) []int {
	out := []int{}
	for _, it := range items(s, ",") {
		out = append(out, int(u64(it)))
	}
	return out
}

// signrun ecdsa <subset e.g. 0,2> <digest hex 32B> <coordinator: position in subset> <seed>  =>  ok | reason
func c08SignRunECDSA(a []string) string {
	sub, digest, coord, seed := c08Subset(a[1]), unhx(a[2]), int(u64(a[3])), u64(a[4])
	all, err := c08FixturePeers()
	if err != nil {
		return "nofixture"
	}
	fetchers := []ecdsaSigning.SaveDataFetcher{}
	for _, i := range sub {
		fetchers = append(fetchers, keyshare.NewECDSAKeyshareStore(fmt.Sprintf("%s/tss/test/keyshares/%d.keyshare", repoRoot(), i)))
	}
	return c08SignECDSAWith(sub, fetchers, all, digest, coord, seed, "c08-"+a[2][:8]+"-"+a[4])
}

// one real ECDSA signing session of the members `sub` (indexes into all) holding the shares behind `fetchers`
func c08SignECDSAWith(sub []int, fetchers []ecdsaSigning.SaveDataFetcher, all []peer.ID, digest []byte, coord int, seed uint64, sid string) string {
	subset := []peer.ID{}
	for _, i := range sub {
		subset = append(subset, all[i])
	}
	params, _ := json.Marshal(subset)
	net := newC08Net(seed, 3)
	defer close(net.done)
	ctx, cancel := context.WithCancel(context.Background())
	defer cancel()
	type res struct {
		pos int
		v   interface{}
		err error
	}
	resC := make(chan res, 2*len(sub))
	var pub *ecdsa.PublicKey
	procs := []*ecdsaSigning.Signing{}
	for pos, i := range sub {
		fetcher := fetchers[pos]
		k, err := fetcher.GetKeyshare()
		if err != nil {
			return "nofixture"
		}
		if pub == nil {
			pub = k.Key.ECDSAPub.ToBtcecPubKey().ToECDSA()
		} else if pub.X.Cmp(k.Key.ECDSAPub.X()) != 0 {
			return "fixtures-disagree-on-key"
		}
		s, err := ecdsaSigning.NewSigning(new(big.Int).SetBytes(digest), "m", sid, &c08Host{id: all[i], peers: all}, &c08Comm{net: net, self: all[i]}, fetcher)
		if err != nil {
			return "newsigning"
		}
		procs = append(procs, s)
		pos, s := pos, s
		ch := make(chan interface{}, 4)
		go func() {
			err := s.Run(ctx, pos == coord, ch, params)
			resC <- res{pos: pos, err: err, v: "run-returned"}
		}()
		go func() {
			select {
			case v := <-ch:
				resC <- res{pos: pos, v: v}
			case <-ctx.Done():
			}
		}()
	}
	defer func() {
		for _, p := range procs {
			p.Stop()
		}
	}()
	got := map[int]interface{}{}
	have := map[int]bool{}
	deadline := time.After(60 * time.Second)
	for len(have) < len(sub) {
		select {
		case r := <-resC:
			if r.v == "run-returned" {
				if r.err != nil {
					return "runerr"
				}
				continue
			}
			got[r.pos], have[r.pos] = r.v, true
		case <-deadline:
			return "timeout"
		}
	}
	for pos := range sub {
		if pos == coord {
			sd, ok := got[pos].(*tssCommon.SignatureData)
			if !ok || sd == nil {
				return "coordinator-released-nothing"
			}
			if !ecdsa.Verify(pub, digest, new(big.Int).SetBytes(sd.R), new(big.Int).SetBytes(sd.S)) {
				return "signature-invalid"
			}
			other := append([]byte{}, digest...)
			other[0] ^= 1
			if ecdsa.Verify(pub, other, new(big.Int).SetBytes(sd.R), new(big.Int).SetBytes(sd.S)) {
				return "signature-valid-for-other-digest"
			}
		} else if got[pos] != nil {
			return "non-coordinator-released"
		}
	}
	return "ok"
}

// tweaked x-only key with btcec: x(lift_x(P) + t·G)
func c08TweakedKey(pub []byte, tweak []byte) (*btcec.PublicKey, error) {
	P, err := btcec.ParsePubKey(append([]byte{2}, pub...))
	if err != nil {
		return nil, err
	}
	var t btcec.ModNScalar
	t.SetByteSlice(tweak)
	var pj, tg, qj btcec.JacobianPoint
	P.AsJacobian(&pj)
	btcec.ScalarBaseMultNonConst(&t, &tg)
	btcec.AddNonConst(&pj, &tg, &qj)
	qj.ToAffine()
	return schnorr.ParsePubKey(btcec.NewPublicKey(&qj.X, &qj.Y).SerializeCompressed()[1:])
}

// signrun frost <subset> <digest hex 32B> <tweak hex 32B> <seed>  =>  ok | reason
func c08SignRunFrost(a []string) string {
	sub, digest, tweak, seed := c08Subset(a[1]), unhx(a[2]), a[3], u64(a[4])
	all, err := c08FixturePeers()
	if err != nil {
		return "nofixture"
	}
	subset := []peer.ID{}
	for _, i := range sub {
		subset = append(subset, all[i])
	}
	params, _ := json.Marshal(subset)
	net := newC08Net(seed, 3)
	net.stray = true
	defer close(net.done)
	ctx, cancel := context.WithCancel(context.Background())
	defer cancel()
	sid := "c08f-" + a[2][:8] + "-" + a[4]
	type res struct {
		pos int
		v   interface{}
		err error
	}
	resC := make(chan res, 2*len(sub))
	var groupKey []byte
	procs := []*frostSigning.Signing{}
	for pos, i := range sub {
		fetcher := keyshare.NewFrostKeyshareStore(fmt.Sprintf("%s/tss/test/keyshares/%d-frost.keyshare", repoRoot(), i))
		k, err := fetcher.GetKeyshare()
		if err != nil {
			return "nofixture"
		}
		if groupKey == nil {
			groupKey = k.Key.PublicKey
		} else if hex.EncodeToString(groupKey) != hex.EncodeToString(k.Key.PublicKey) {
			return "fixtures-disagree-on-key"
		}
		s, err := frostSigning.NewSigning(7+pos, digest, tweak, "m", sid, &c08Host{id: all[i], peers: all}, &c08Comm{net: net, self: all[i]}, fetcher)
		if err != nil {
			return "newsigning"
		}
		procs = append(procs, s)
		pos, s := pos, s
		ch := make(chan interface{}, 4)
		go func() { err := s.Run(ctx, pos == 0, ch, params); resC <- res{pos: pos, err: err, v: "run-returned"} }()
		go func() {
			select {
			case v := <-ch:
				resC <- res{pos: pos, v: v}
			case <-ctx.Done():
			}
		}()
	}
	defer func() {
		for _, p := range procs {
			p.Stop()
		}
	}()
	got := map[int]interface{}{}
	deadline := time.After(45 * time.Second)
	for len(got) < len(sub) {
		select {
		case r := <-resC:
			if r.v == "run-returned" {
				if r.err != nil {
					return "runerr"
				}
				continue
			}
			got[r.pos] = r.v
		case <-deadline:
			return "timeout"
		}
	}
	tk, err := c08TweakedKey(groupKey, unhx(tweak))
	if err != nil {
		return "tweaked-key"
	}
	for pos := range sub {
		sg, ok := got[pos].(frostSigning.Signature)
		if !ok {
			return "participant-released-nothing"
		}
		if sg.Id != 7+pos {
			return "wrong-input-index"
		}
		ps, err := schnorr.ParseSignature(sg.Signature)
		if err != nil {
			return "signature-unparsable"
		}
		if !ps.Verify(digest, tk) {
			return "signature-invalid-under-tweaked-key"
		}
		other := append([]byte{}, digest...)
		other[0] ^= 1
		if ps.Verify(other, tk) {
			return "signature-valid-for-other-digest"
		}
	}
	return "ok"
}

type c08Proc interface {
	Run(ctx context.Context, coordinator bool, resultChn chan interface{}, params []byte) error
	Stop()
}

// run one session of n processes to completion over a fresh scripted network
func c08RunAll(n int, seed uint64, self func(i int) peer.ID, mk func(i int, c *c08Comm) c08Proc, params func() []byte) string {
	net := newC08Net(seed, 3)
	defer close(net.done)
	ctx, cancel := context.WithCancel(context.Background())
	defer cancel()
	errC := make(chan error, n)
	ps := []c08Proc{}
	for i := 0; i < n; i++ {
		ps = append(ps, mk(i, &c08Comm{net: net, self: self(i)}))
	}
	pr := params()
	for i, p := range ps {
		i, p := i, p
		go func() { errC <- p.Run(ctx, i == 0, make(chan interface{}, 4), pr) }()
	}
	deadline := time.After(100 * time.Second)
	for i := 0; i < n; i++ {
		select {
		case err := <-errC:
			if err != nil {
				return "runerr"
			}
		case <-deadline:
			return "timeout"
		}
	}
	for _, p := range ps {
		p.Stop()
	}
	return ""
}

func c08HasParty(ps []peer.ID, id string) bool {
	for _, p := range ps {
		if p.String() == id {
			return true
		}
	}
	return false
}

func c08Others(peers []peer.ID, i int) peer.IDSlice { // a host's peer store as the FROST processes expect it: everyone else
	o := peer.IDSlice{}
	for j, p := range peers {
		if j != i {
			o = append(o, p)
		}
	}
	return o
}

// the shares of `ks` are shares of ONE key `pk` with threshold thr: every share matches its verification share, all
// parties hold the same verification shares, every (thr+1)-subset interpolates (in the exponent) to ±lift_x(pk),
// and no thr-subset does
func c08SharesOfOneKey(ks []keyshare.FrostKeyshare, pk []byte, thr int) string {
	group := curve.Secp256k1{}
	P, err := group.LiftX(pk)
	if err != nil {
		return "liftx"
	}
	ids := []party.ID{}
	for _, k := range ks {
		if hex.EncodeToString(k.Key.PublicKey) != hex.EncodeToString(pk) {
			return "different-public-keys"
		}
		if k.Key.Threshold != thr || k.Threshold != thr {
			return "threshold"
		}
		if len(k.Peers) != len(ks)-1 && len(k.Peers) != len(ks) { // the stored committee: the members (FROST hosts list the others)
			return "stored-committee"
		}
		for _, o := range ks {
			if o.Key.ID != k.Key.ID && !c08HasParty(k.Peers, string(o.Key.ID)) {
				return "stored-committee"
			}
		}
		v, ok := k.Key.VerificationShares[k.Key.ID]
		if !ok || !k.Key.PrivateShare.ActOnBase().Equal(v) {
			return "share-vs-verification-share"
		}
		ids = append(ids, k.Key.ID)
	}
	// the private shares themselves: every (thr+1)-subset interpolates to the secret of ±P
	for m := 0; m < 1<<len(ids); m++ {
		sub := []party.ID{}
		for b := range ids {
			if m>>b&1 == 1 {
				sub = append(sub, ids[b])
			}
		}
		if len(sub) != thr+1 {
			continue
		}
		l := polynomial.Lagrange(group, sub)
		var acc curve.Scalar = group.NewScalar()
		for b, k := range ks {
			if m>>b&1 == 1 {
				acc = acc.Add(group.NewScalar().Set(l[k.Key.ID]).Mul(k.Key.PrivateShare))
			}
		}
		if q := acc.ActOnBase(); !q.Equal(P) && !q.Equal(P.Negate()) {
			return "private-shares-of-a-subset-do-not-interpolate-to-the-key"
		}
	}
	for _, k := range ks {
		for id, w := range ks[0].Key.VerificationShares {
			if x, ok := k.Key.VerificationShares[id]; !ok || !x.Equal(w) {
				return "verification-shares-differ"
			}
		}
	}
	interp := func(sub []party.ID) curve.Point {
		l := polynomial.Lagrange(group, sub)
		var acc curve.Point = group.NewPoint()
		for _, id := range sub {
			acc = acc.Add(l[id].Act(ks[0].Key.VerificationShares[id]))
		}
		return acc
	}
	n := len(ids)
	for m := 0; m < 1<<n; m++ {
		sub := []party.ID{}
		for b := 0; b < n; b++ {
			if m>>b&1 == 1 {
				sub = append(sub, ids[b])
			}
		}
		if len(sub) == thr+1 {
			q := interp(sub)
			if !q.Equal(P) && !q.Equal(P.Negate()) {
				return "subset-does-not-interpolate-to-key"
			}
		}
		if len(sub) == thr && thr >= 1 {
			q := interp(sub)
			if q.Equal(P) || q.Equal(P.Negate()) {
				return "threshold-too-low"
			}
		}
	}
	return ""
}

// keygenrun frost <n parties 2..4> <threshold> <seed>  =>  ok | reason     (real FROST keygen through tss/frost/keygen)
func c08KeygenRunFrost(a []string) string {
	n, thr, seed := int(u64(a[1])), int(u64(a[2])), u64(a[3])
	peers := []peer.ID{}
	for i := 0; i < n; i++ {
		peers = append(peers, c08PoolPeer(3*i))
	}
	stores := make([]*c08FrostStore, n)
	for i := range stores {
		stores[i] = &c08FrostStore{}
	}
	sid := "c08kg-" + a[3]
	if r := c08RunAll(n, seed, func(i int) peer.ID { return peers[i] }, func(i int, c *c08Comm) c08Proc {
		return frostKeygen.NewKeygen(sid, thr, &c08Host{id: peers[i], peers: c08Others(peers, i)}, c, stores[i])
	}, func() []byte { return []byte{} }); r != "" {
		return r
	}
	ks := []keyshare.FrostKeyshare{}
	for _, s := range stores {
		if len(s.stored) != 1 {
			return "stored-nothing"
		}
		ks = append(ks, s.stored[0])
	}
	if r := c08SharesOfOneKey(ks, ks[0].Key.PublicKey, thr); r != "" {
		return r
	}
	return "ok"
}

// real FROST refresh (tss/frost/resharing) starting from the fixture shares (3 parties, threshold 1) over the committee
// `spec` (fixture indexes and/or `n` for a newcomer without a share, e.g. 0,1,2 | 0,1 | 0,1,2,n)
func c08Refresh(spec string, nthr int, seed uint64, tag string, start ...keyshare.FrostKeyshare) (ks []keyshare.FrostKeyshare, peers []peer.ID, pk []byte, fail string) {
	all, err := c08FixturePeers()
	if err != nil {
		return nil, nil, nil, "nofixture"
	}
	stores := []*c08FrostStore{}
	for _, it := range items(spec, ",") {
		if it == "n" {
			peers = append(peers, c08PoolPeer(0))
			stores = append(stores, &c08FrostStore{})
			continue
		}
		k, err := c08FrostFixture(int(u64(it)))
		if err != nil {
			return nil, nil, nil, "nofixture"
		}
		if len(start) > len(stores) { // a later refresh of a chain: the share stored by the previous one
			k = start[len(stores)]
		}
		pk = k.Key.PublicKey
		peers = append(peers, all[int(u64(it))])
		stores = append(stores, &c08FrostStore{has: true, key: k})
	}
	n := len(peers)
	sid := "c08rs-" + tag
	procs := make([]*frostResharing.Resharing, n)
	for i := 0; i < n; i++ {
		procs[i] = frostResharing.NewResharing(sid, nthr, &c08Host{id: peers[i], peers: c08Others(peers, i)}, &c08Comm{self: peers[i]}, stores[i])
	}
	if r := c08RunAll(n, seed, func(i int) peer.ID { return peers[i] }, func(i int, c *c08Comm) c08Proc {
		procs[i].Communication = c
		return procs[i]
	}, func() []byte { return procs[0].StartParams(nil) }); r != "" {
		return nil, nil, nil, r
	}
	for _, s := range stores {
		if len(s.stored) != 1 {
			return nil, nil, nil, "stored-nothing"
		}
		ks = append(ks, s.stored[0])
	}
	return ks, peers, pk, ""
}

// refreshrun frost <committee> <new threshold, or several in turn joined by `-`, e.g. 2-1> <seed>  =>  ok | reason
// (relations on the refreshed shares after the LAST refresh; a chain of two refreshes takes ~22 s: VERIF_LONG_OPS=1 to replay)
func c08RefreshRunFrost(a []string) string {
	var ks []keyshare.FrostKeyshare
	var pk []byte
	nthr := 1
	for round, it := range strings.Split(a[2], "-") {
		nthr = int(u64(it))
		var fail string
		var k2 []keyshare.FrostKeyshare
		k2, _, pk, fail = c08Refresh(a[1], nthr, u64(a[3])+uint64(round), a[3]+"-"+itoa(round), ks...)
		if fail != "" {
			return fail
		}
		ks = k2
	}
	if r := c08SharesOfOneKey(ks, pk, nthr); r != "" {
		return r
	}
	return "ok"
}

// refreshsign frost <committee> <new threshold> <signers: positions in the committee> <seed>  =>  ok | reason
// refresh, then a REAL signing session of the named members with their refreshed shares; the signature must verify
// under the unchanged (tweaked) group key
func c08RefreshSignFrost(a []string) string {
	seed := u64(a[4])
	var ks []keyshare.FrostKeyshare
	var peers []peer.ID
	var pk []byte
	for round, it := range strings.Split(a[2], "-") { // one threshold, or several refreshes in turn (2-1)
		k2, p2, pk2, fail := c08Refresh(a[1], int(u64(it)), seed+uint64(round), a[4]+"-"+itoa(round), ks...)
		if fail != "" {
			return "refresh-" + fail
		}
		ks, peers, pk = k2, p2, pk2
	}
	digest := make([]byte, 32)
	copy(digest, []byte("c08 refreshsign "+a[4]))
	subset := []peer.ID{}
	for _, i := range c08Subset(a[3]) {
		subset = append(subset, peers[i])
	}
	params, _ := json.Marshal(subset)
	sid := "c08rsig-" + a[4]
	signers := c08Subset(a[3])
	results := make([]chan interface{}, len(signers))
	if r := c08RunAll(len(signers), seed+1, func(j int) peer.ID { return peers[signers[j]] }, func(j int, c *c08Comm) c08Proc {
		i := signers[j]
		k := ks[i]
		k.Peers = peers
		s, err := frostSigning.NewSigning(j, digest, c08One, "m", sid, &c08Host{id: peers[i], peers: peers}, c, &c08FrostStore{has: true, key: k})
		if err != nil {
			return c08Failed{}
		}
		results[j] = make(chan interface{}, 4)
		return &c08WithResult{s: s, ch: results[j], params: params}
	}, func() []byte { return params }); r != "" {
		return "sign-" + r
	}
	tk, err := c08TweakedKey(pk, unhx(c08One))
	if err != nil {
		return "tweaked-key"
	}
	for j := range signers {
		select {
		case v := <-results[j]:
			sg, ok := v.(frostSigning.Signature)
			if !ok {
				return "participant-released-nothing"
			}
			ps, err := schnorr.ParseSignature(sg.Signature)
			if err != nil || !ps.Verify(digest, tk) {
				return "signature-invalid-under-group-key"
			}
		default:
			return "participant-released-nothing"
		}
	}
	return "ok"
}

type c08Failed struct{}

func (c08Failed) Run(context.Context, bool, chan interface{}, []byte) error {
	return fmt.Errorf("not constructed")
}
func (c08Failed) Stop() {}

// routes the process's result channel to one we keep
type c08WithResult struct {
	s      *frostSigning.Signing
	ch     chan interface{}
	params []byte
}

func (w *c08WithResult) Run(ctx context.Context, coordinator bool, _ chan interface{}, params []byte) error {
	return w.s.Run(ctx, coordinator, w.ch, params)
}
func (w *c08WithResult) Stop() { w.s.Stop() }

func init() {
	ops["C08.signrun"] = func(a []string) string {
		if a[0] == "ecdsa" {
			return c08SignRunECDSA(a)
		}
		return c08SignRunFrost(a)
	}
	ops["C08.keygenrun"] = c08KeygenRunFrost
	ops["C08.refreshrun"] = c08RefreshRunFrost
	ops["C08.refreshsign"] = c08RefreshSignFrost
}

func init() {
	// the FROST processes sleep 10 s (STARTUP_PAUSE) before their first message: one session is ~11 s, below the 20 s op
	// time-out; the generator (only this property's runs in the process) still leaves head-room for a loaded machine
	for i, a := range os.Args {
		if a == "C08" && i > 0 && os.Args[i-1] == "-prop" {
			opTimeout = 150 * time.Second
		}
	}
	if os.Getenv("VERIF_LONG_OPS") != "" { // for `drive -exec` of a refreshsign line (two sessions, ~22 s)
		opTimeout = 150 * time.Second
	}
}

func genC08Runs(g *G) {
	digest := func() string { return hex.EncodeToString(g.Bytes(32)) }
	subsets := []string{"0,1", "0,2", "1,2", "1,0", "2,0", "2,1"}
	// quick: one ECDSA and one FROST signing session; thorough: every 2-subset (both orders), several digests and seeds
	g.Emit("signrun", "ecdsa", subsets[g.Intn(6)], digest(), itoa(g.Intn(2)), itoa(1+g.Intn(1000)))
	tw := make([]byte, 32)
	copy(tw, g.Bytes(32))
	tw[0] &= 0x7f
	// a FROST signing session and a FROST refresh that RAISES the threshold (same committee), side by side: ~11 s for both
	g.Emit("frostpair", subsets[g.Intn(6)], digest(), hex.EncodeToString(tw), []string{"0,1,2", "2,0,1", "1,2,0"}[g.Intn(3)], "2", itoa(1+g.Intn(1000)))
	// real ECDSA refreshes that RAISE and then LOWER the threshold, then threshold+1 holders sign with the refreshed shares
	g.Emit("resharerun", "ecdsa", "2,1", itoa(1+g.Intn(1000)))
	g.Emit("resharerun", "ecdsa", "1", itoa(1+g.Intn(1000)), []string{"0,1", "1,2", "2,0"}[g.Intn(3)]) // one holder leaves
	if !g.Thorough() {
		return
	}
	g.Emit("resharerun", "ecdsa", "2", itoa(1+g.Intn(1000)))
	g.Emit("resharerun", "ecdsa", "1,2,1", itoa(1+g.Intn(1000)))
	g.Emit("resharerun", "ecdsa", "2,1,1", itoa(1+g.Intn(1000)))
	for _, s := range subsets {
		for c := 0; c < 2; c++ {
			g.Emit("signrun", "ecdsa", s, digest(), itoa(c), itoa(1+g.Intn(1000)))
		}
	}
	g.Emit("signrun", "ecdsa", "0,1", "00"+digest()[2:], "0", "5") // digest with a leading zero byte
	for _, s := range subsets[:3] {
		t := g.Bytes(32)
		t[0] &= 0x7f
		g.Emit("signrun", "frost", s, digest(), hex.EncodeToString(t), itoa(1+g.Intn(1000)))
	}
	g.Emit("keygenrun", "frost", "3", "1", itoa(1+g.Intn(1000)))
	g.Emit("keygenrun", "frost", "4", "2", itoa(1+g.Intn(1000)))
	g.Emit("refreshrun", "frost", "0,1,2", "1", itoa(1+g.Intn(1000)))
	g.Emit("refreshrun", "frost", "2,0,1", "2", itoa(1+g.Intn(1000)))   // threshold change
	g.Emit("refreshrun", "frost", "0,1", "1", itoa(1+g.Intn(1000)))     // a member leaves
	g.Emit("refreshrun", "frost", "0,1,2,n", "1", itoa(1+g.Intn(1000))) // a member joins (known finding)
	g.Emit("refreshsign", "frost", "1,2,0", "1", "0,2", itoa(1+g.Intn(1000)))
	g.Emit("refreshsign", "frost", "0,1,2", "2", "0,1,2", itoa(1+g.Intn(1000)))
	g.Emit("refreshsign", "frost", "0,2", "1", "0,1", itoa(1+g.Intn(1000)))
	g.Emit("refreshsign", "frost", "0,1,2,n", "1", "0,3", itoa(1+g.Intn(1000))) // known finding: the newcomer cannot sign
	g.Emit("refreshrun", "frost", "0,1,2", "2-1", itoa(1+g.Intn(1000)))         // known finding: a refresh cannot LOWER the threshold
	g.Emit("refreshsign", "frost", "0,1,2", "2-1", "0,1", itoa(1+g.Intn(1000)))
	g.Emit("refreshsign", "frost", "0,1,2", "2-1", "0,1,2", itoa(1+g.Intn(1000))) // (all three still can)
}
