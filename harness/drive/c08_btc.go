package main

// C08 — the BTC executor starts ONE FROST signing session PER INPUT of the transaction: which session ids and which
// digests reach the signing processes. Runs the real executeResourceProps with the real tss.Coordinator and the real
// frost signing processes over a fixture share; the network is a scripted Communication that plays the other relayer
// (ready / start messages) and records every subscription; the digests are read from the processes' own log line.

import (
	"bytes"
	"encoding/hex"
	"encoding/json"
	"fmt"
	"sort"
	"strings"
	"sync"
	"time"

	btcConfig "github.com/ChainSafe/sygma-relayer/chains/btc/config"
	btcExecutor "github.com/ChainSafe/sygma-relayer/chains/btc/executor"
	"github.com/ChainSafe/sygma-relayer/chains/btc/mempool"
	"github.com/ChainSafe/sygma-relayer/comm"
	"github.com/ChainSafe/sygma-relayer/comm/elector"
	"github.com/ChainSafe/sygma-relayer/tss"
	"github.com/ChainSafe/sygma-relayer/tss/message"
	tssUtil "github.com/ChainSafe/sygma-relayer/tss/util"
	"github.com/btcsuite/btcd/btcutil"
	"github.com/btcsuite/btcd/chaincfg"
	"github.com/btcsuite/btcd/chaincfg/chainhash"
	"github.com/btcsuite/btcd/txscript"
	"github.com/btcsuite/btcd/wire"
	"github.com/libp2p/go-libp2p/core/peer"
	"github.com/rs/zerolog"
	"github.com/rs/zerolog/log"
)

type c08BtcMempool struct{ utxos []mempool.Utxo }

func (m *c08BtcMempool) RecommendedFee() (*mempool.Fee, error) {
	return &mempool.Fee{EconomyFee: 1, FastestFee: 3, HalfHourFee: 2, HourFee: 1, MinimumFee: 1}, nil
}
func (m *c08BtcMempool) Utxos(string) ([]mempool.Utxo, error) { return m.utxos, nil }

type c08BtcUploader struct{}

func (c08BtcUploader) Upload([]map[string]interface{}) (string, error) { return "cid", nil }

// plays the rest of the network for one relayer and records who subscribed to what
type c08BtcComm struct {
	mu      sync.Mutex
	self    peer.ID
	other   peer.ID
	all     peer.IDSlice
	signSub []string // session ids subscribed for TssKeySignMsg (one per started signing process)
}

func (c *c08BtcComm) CloseSession(string)                                         {}
func (c *c08BtcComm) UnSubscribe(comm.SubscriptionID)                             {}
func (c *c08BtcComm) Broadcast(peer.IDSlice, []byte, comm.MessageType, string) error { return nil }
func (c *c08BtcComm) Subscribe(sid string, t comm.MessageType, ch chan *comm.WrappedMessage) comm.SubscriptionID {
	subset, _ := json.Marshal([]peer.ID{c.self, c.other})
	switch t {
	case comm.TssKeySignMsg:
		c.mu.Lock()
		c.signSub = append(c.signSub, sid)
		c.mu.Unlock()
	case comm.TssReadyMsg: // this relayer coordinates: the other one reports ready
		go func() {
			select {
			case ch <- &comm.WrappedMessage{MessageType: t, SessionID: sid, From: c.other}:
			case <-time.After(5 * time.Second):
			}
		}()
	case comm.TssStartMsg: // somebody else coordinates: it sends the start message naming this relayer and the other one
		elected := tssUtil.SortPeersForSession(c.all, sid)[0].ID
		if elected != c.self {
			payload, _ := message.MarshalStartMessage(subset)
			go func() {
				select {
				case ch <- &comm.WrappedMessage{MessageType: t, SessionID: sid, From: elected, Payload: payload}:
				case <-time.After(5 * time.Second):
				}
			}()
		}
	}
	return comm.SubscriptionID(fmt.Sprintf("%s-%d", sid, t))
}

// collects what this op needs from the processes' log output. Nothing depends on the WORDING of a message: a line is used
// for the VALUE it carries —
//   a signing process's start line: emitted through a logger that carries a `SessionID` field, and containing a token of
//     exactly 64 hex digits (the 32-byte digest it signs);
//   the executor's line with the unsigned transaction: a token of hex digits that deserialises as a transaction.
type c08BtcLog struct {
	mu      sync.Mutex
	started [][2]string // session id, digest hex
	rawTx   string
}

func c08HexTokens(msg string) []string {
	out := []string{}
	for _, f := range strings.FieldsFunc(msg, func(r rune) bool {
		return !(r >= '0' && r <= '9' || r >= 'a' && r <= 'f' || r >= 'A' && r <= 'F')
	}) {
		if len(f) >= 64 && len(f)%2 == 0 {
			out = append(out, strings.ToLower(f))
		}
	}
	return out
}

func (l *c08BtcLog) Write(p []byte) (int, error) {
	var m map[string]interface{}
	if json.Unmarshal(p, &m) == nil {
		msg, _ := m["message"].(string)
		sid, hasSid := m["SessionID"].(string)
		l.mu.Lock()
		for _, tok := range c08HexTokens(msg) {
			if hasSid && len(tok) == 64 {
				dup := false
				for _, s := range l.started {
					dup = dup || (s[0] == sid && s[1] == tok)
				}
				if !dup {
					l.started = append(l.started, [2]string{sid, tok})
				}
			} else if !hasSid && len(tok) > 64 && l.rawTx == "" {
				if b, err := hex.DecodeString(tok); err == nil {
					if t := wire.NewMsgTx(wire.TxVersion); t.Deserialize(bytes.NewReader(b)) == nil && len(t.TxIn) > 0 {
						l.rawTx = tok
					}
				}
			}
		}
		l.mu.Unlock()
	}
	return len(p), nil
}

var c08BtcMu sync.Mutex

// btcsessions <inputs 1..4> <self: fixture index 0..2> <message id> <seed>
//   =>  n=<inputs of the built tx>;sessions=<signing processes started>;distinct=<0|1: session ids pairwise distinct>;
//       own=<0|1: every session id is hex of the digest that very process signs>;digests=<0|1: the digests signed are exactly
//       the taproot signature hashes of inputs 0..n-1 of the built transaction (recomputed here with txscript)>
func c08OpBtcSessions(a []string) string {
	c08BtcMu.Lock()
	defer c08BtcMu.Unlock()
	n, self, msgID, seed := int(u64(a[0])), int(u64(a[1])), a[2], u64(a[3])
	all, err := c08FixturePeers()
	if err != nil {
		return "nofixture"
	}
	key, err := c08FrostFixture(self)
	if err != nil {
		return "nofixture"
	}
	params := chaincfg.RegressionNetParams
	r := &c18rng{s: seed}
	addr, err := btcutil.NewAddressTaproot(key.Key.PublicKey, &params)
	if err != nil {
		return "noaddr"
	}
	script, _ := txscript.PayToAddrScript(addr)
	utxos := []mempool.Utxo{}
	for i := 0; i < n; i++ {
		v := uint64(1000 + r.u64()%500)
		if i == n-1 {
			v = 10_000_000
		}
		utxos = append(utxos, mempool.Utxo{TxID: hex.EncodeToString(r.bytes(32)), Vout: uint32(r.u64() % 3), Value: v})
	}
	var rid [32]byte
	copy(rid[:], r.bytes(32))
	resource := btcConfig.Resource{Address: addr, ResourceID: rid, Tweak: c08One, Script: script}
	props := []*btcExecutor.BtcTransferProposal{{Source: 1, Destination: 2, Data: btcExecutor.BtcTransferProposalData{
		Amount: 20000 + r.u64()%1000, Recipient: addr.String(), DepositNonce: r.u64() % 1000, ResourceId: rid}}}
	host := &c08Host{id: all[self], peers: all}
	cm := &c08BtcComm{self: all[self], other: all[(self+1)%3], all: all}
	coord := tss.NewCoordinator(host, cm, elector.VerifC08Factory(host, cm))
	coord.TssTimeout, coord.CoordinatorTimeout, coord.InitiatePeriod = 4*time.Second, 4*time.Second, time.Second
	ex := btcExecutor.NewExecutor(nil, host, cm, coord, &c08FrostStore{has: true, key: key}, nil, &c08BtcMempool{utxos}, map[[32]byte]btcConfig.Resource{rid: resource}, params, &sync.RWMutex{}, c08BtcUploader{})

	lg := &c08BtcLog{}
	oldLogger, oldLvl := log.Logger, zerolog.GlobalLevel()
	log.Logger = zerolog.New(lg)
	zerolog.SetGlobalLevel(zerolog.InfoLevel)
	oldTO := btcExecutor.VerifC08SetSigningTimeout(2500 * time.Millisecond)
	done := make(chan error, 1)
	go func() { done <- ex.VerifC08ExecuteResourceProps(props, resource, msgID) }()
	// the signing processes start within milliseconds and then pause 10 s (STARTUP_PAUSE) before their first protocol
	// message, which is beyond what this op looks at: wait until as many processes have started as the transaction has
	// inputs (or 4 s), then leave; executeResourceProps gives up by itself after the shortened signing time-out
	deadline := time.After(4 * time.Second)
wait:
	for {
		select {
		case <-done:
			break wait
		case <-deadline:
			break wait
		case <-time.After(3 * time.Millisecond):
		}
		lg.mu.Lock()
		raw, k := lg.rawTx, len(lg.started)
		lg.mu.Unlock()
		if raw != "" && k > 0 {
			if b, err := hex.DecodeString(raw); err == nil {
				t := wire.NewMsgTx(wire.TxVersion)
				if t.Deserialize(bytes.NewReader(b)) == nil && k >= len(t.TxIn) {
					time.Sleep(20 * time.Millisecond) // a surplus process would show up now
					break wait
				}
			}
		}
	}
	btcExecutor.VerifC08SetSigningTimeout(oldTO)
	log.Logger = oldLogger
	zerolog.SetGlobalLevel(oldLvl)

	lg.mu.Lock()
	started, raw := append([][2]string{}, lg.started...), lg.rawTx
	lg.mu.Unlock()
	if raw == "" || len(started) == 0 {
		// the values are no longer visible in the log output (a harmless change of what is logged): nothing to judge here -
		// the per-input sessions are still exercised end to end by the real signing runs and pinned by Oblig/C08
		return "unobserved"
	}
	rawB, err := hex.DecodeString(raw)
	if err != nil {
		return "badtx"
	}
	tx := wire.NewMsgTx(wire.TxVersion)
	if tx.Deserialize(bytes.NewReader(rawB)) != nil {
		return "badtx"
	}
	// independent recomputation of the per-input digests
	prev := map[wire.OutPoint]*wire.TxOut{}
	for _, in := range tx.TxIn {
		for _, u := range utxos {
			h, _ := chainhash.NewHashFromStr(u.TxID)
			if in.PreviousOutPoint.Hash == *h && in.PreviousOutPoint.Index == u.Vout {
				prev[in.PreviousOutPoint] = wire.NewTxOut(int64(u.Value), script)
			}
		}
	}
	fetcher := txscript.NewMultiPrevOutFetcher(prev)
	hashes := txscript.NewTxSigHashes(tx, fetcher)
	want := []string{}
	for i := range tx.TxIn {
		d, err := txscript.CalcTaprootSignatureHash(hashes, txscript.SigHashDefault, tx, i, fetcher)
		if err != nil {
			return "nosighash"
		}
		want = append(want, hex.EncodeToString(d))
	}
	distinct, own := 1, 1
	seen := map[string]bool{}
	got := []string{}
	for _, s := range started {
		if seen[s[0]] {
			distinct = 0
		}
		seen[s[0]] = true
		if s[0] != s[1] {
			own = 0
		}
		got = append(got, s[1])
	}
	sort.Strings(got)
	sort.Strings(want)
	digests := 0
	if strings.Join(got, ",") == strings.Join(want, ",") {
		digests = 1
	}
	return fmt.Sprintf("n=%d;sessions=%d;distinct=%d;own=%d;digests=%d", len(tx.TxIn), len(started), distinct, own, digests)
}

func init() { ops["C08.btcsessions"] = c08OpBtcSessions }
