package main

// C01 — long-lived objects and outermost entry points.
//   seq <dep|retry1> <k> <8 e2e args>       ONE events.Listener + ONE handler object; the same deposit is fetched and handled k times
//                                           (the chain client answers every call with fresh log objects, like an RPC node); all
//                                           k proposals are rendered only after the last call => out1|out2|…|outk
//   retrymsg <evm|sub|btc> <R> <8 relay args>  a V2 retry message emitted on domain R is handled by the source chain's real
//                                           RetryMessageHandler over the real deposit processor; whatever it forwards is handed to
//                                           the destination handler => ok:… | none | err | many
// The history-free model (`relay`) must describe every one of the k answers, and the identity must be the deposit's.

import (
	"context"
	"errors"
	"math/big"
	"time"

	btcExecutor "github.com/ChainSafe/sygma-relayer/chains/btc/executor"
	"github.com/ChainSafe/sygma-relayer/chains/evm/calls/events"
	"github.com/ChainSafe/sygma-relayer/chains/evm/executor"
	"github.com/ChainSafe/sygma-relayer/chains/evm/listener/eventHandlers"
	subEvents "github.com/ChainSafe/sygma-relayer/chains/substrate/events"
	subExecutor "github.com/ChainSafe/sygma-relayer/chains/substrate/executor"
	subListener "github.com/ChainSafe/sygma-relayer/chains/substrate/listener"
	"github.com/ChainSafe/sygma-relayer/relayer/retry"
	"github.com/btcsuite/btcd/btcjson"
	"github.com/btcsuite/btcd/chaincfg/chainhash"
	"github.com/centrifuge/go-substrate-rpc-client/v4/registry"
	"github.com/centrifuge/go-substrate-rpc-client/v4/registry/parser"
	"github.com/centrifuge/go-substrate-rpc-client/v4/types"
	"github.com/ethereum/go-ethereum/common"
	ethTypes "github.com/ethereum/go-ethereum/core/types"
	"github.com/rs/zerolog"
	"github.com/sygmaprotocol/sygma-core/relayer/message"
	"github.com/sygmaprotocol/sygma-core/relayer/proposal"
)

// freshClient answers every request with newly allocated logs / receipts holding the same bytes.
type freshClient struct {
	data []byte // packed Deposit event data
	tx   common.Hash
}

func (c *freshClient) log() ethTypes.Log {
	return ethTypes.Log{Address: c06Bridge, Topics: []common.Hash{events.DepositSig.GetTopic(), common.HexToHash("0xaa")}, Data: exact(c.data)}
}
func (c *freshClient) FetchEventLogs(ctx context.Context, a common.Address, event string, s, e *big.Int) ([]ethTypes.Log, error) {
	switch event {
	case string(events.DepositSig):
		return []ethTypes.Log{c.log()}, nil
	case string(events.RetryV1Sig):
		data, err := c06ABI.Events["Retry"].Inputs.Pack(c.tx.Hex())
		if err != nil {
			panic(err)
		}
		return []ethTypes.Log{{Address: c06Bridge, Data: data}}, nil
	}
	return nil, nil
}
func (c *freshClient) WaitAndReturnTxReceipt(h common.Hash) (*ethTypes.Receipt, error) {
	if h != c.tx {
		return nil, errors.New("no receipt")
	}
	lg := c.log()
	return &ethTypes.Receipt{BlockNumber: big.NewInt(10), Logs: []*ethTypes.Log{&lg}}, nil
}
func (c *freshClient) LatestBlock() (*big.Int, error) { return big.NewInt(1000), nil }
func (c *freshClient) BlockByNumber(ctx context.Context, n *big.Int) (*ethTypes.Block, error) {
	return nil, errors.New("no block in harness")
}

func newFreshClient(a []string) *freshClient {
	data, err := c06ABI.Events["Deposit"].Inputs.NonIndexed().Pack(uint8(u64(a[3])), rid32(a[5]), u64(a[4]), unhx(a[6]), unhx(a[7]))
	if err != nil {
		panic(err)
	}
	return &freshClient{data: data, tx: common.BigToHash(big.NewInt(77))}
}

type seqRes struct {
	p   *proposal.Proposal
	cls string
}

// toProposal: exactly one forwarded message is expected; it is handed to the destination handler.
func toProposal(dk string, msgs []*message.Message) seqRes {
	switch len(msgs) {
	case 0:
		return seqRes{nil, "none"}
	case 1:
		p, cls := c01Dest(dk, msgs[0])
		if cls != "ok" {
			return seqRes{nil, cls + ":dst"}
		}
		return seqRes{p, ""}
	}
	return seqRes{nil, "many"}
}

func (r seqRes) String() string {
	if r.p == nil {
		return r.cls
	}
	return showProposal(r.p)
}

func flat(m map[uint8][]*message.Message) []*message.Message {
	out := []*message.Message{}
	for _, ms := range m {
		out = append(out, ms...)
	}
	return out
}

type c01BtcFetcher struct{}

func (c01BtcFetcher) GetBlockVerboseTx(*chainhash.Hash) (*btcjson.GetBlockVerboseTxResult, error) {
	return &btcjson.GetBlockVerboseTxResult{Height: 1000}, nil
}
func (c01BtcFetcher) GetBestBlockHash() (*chainhash.Hash, error) { return &chainhash.Hash{}, nil }

func init() {
	ops["C01.seq"] = func(a []string) string {
		mode, k, b := a[0], int(u64(a[1])), a[2:]
		cl := newFreshClient(b)
		l := events.NewListener(cl)
		rs := []seqRes{}
		switch mode {
		case "dep":
			eh := eventHandlers.NewDepositEventHandler(l, c06EthHandler(), c06Bridge, uint8(u64(b[2])), make(chan []*message.Message, 4))
			for i := 0; i < k; i++ {
				out, err := eh.ProcessDeposits(big.NewInt(1), big.NewInt(2))
				if err != nil {
					return "err"
				}
				rs = append(rs, toProposal(b[1], flat(out)))
			}
		case "retry1":
			ch := make(chan []*message.Message, 16)
			eh := eventHandlers.NewRetryV1EventHandler(zerolog.Nop().With(), l, c06EthHandler(), &c06Store{map[uint64]string{}}, c06Bridge, uint8(u64(b[2])), big.NewInt(5), ch)
			for i := 0; i < k; i++ {
				if err := eh.HandleEvents(big.NewInt(1), big.NewInt(2)); err != nil {
					return "err"
				}
				msgs := []*message.Message{}
			drain:
				for {
					select {
					case ms := <-ch:
						msgs = append(msgs, ms...)
					default:
						break drain
					}
				}
				rs = append(rs, toProposal(b[1], msgs))
			}
		default:
			panic("bad seq mode")
		}
		out := ""
		for i, r := range rs {
			if i > 0 {
				out += "|"
			}
			out += r.String()
		}
		return out
	}
	ops["C01.retrymsg"] = func(a []string) string {
		chain, R, b := a[0], uint8(u64(a[1])), a[2:]
		s, d := uint8(u64(b[2])), uint8(u64(b[3]))
		rid := rid32(b[5])
		ts := time.Unix(1700000000, 0)
		ch := make(chan []*message.Message, 4)
		store := &c06Store{map[uint64]string{}}
		mk := func(height int64) *message.Message {
			return message.NewMessage(R, s, retry.RetryMessageData{SourceDomainID: s, DestinationDomainID: d, BlockHeight: big.NewInt(height), ResourceID: rid},
				"retry-msg", retry.RetryMessageType, ts)
		}
		var err error
		cls := guarded(func() error {
			switch chain {
			case "evm":
				cl := newFreshClient(b)
				dp := eventHandlers.NewDepositEventHandler(events.NewListener(cl), c06EthHandler(), c06Bridge, s, make(chan []*message.Message, 4))
				_, err = executor.NewRetryMessageHandler(dp, cl, store, big.NewInt(5), ch).HandleMessage(mk(10))
			case "sub":
				conn := &c06SubConn{evts: []*parser.Event{{Name: subEvents.DepositEvent, Fields: registry.DecodedFields{
					&registry.DecodedField{Name: "dest_domain_id", Value: types.NewU8(d)},
					&registry.DecodedField{Name: "resource_id", Value: types.Bytes32(rid)},
					&registry.DecodedField{Name: "deposit_nonce", Value: types.NewU64(u64(b[4]))},
					&registry.DecodedField{Name: "sygma_traits_TransferType", Value: types.NewU8(uint8(u64(b[7])))},
					&registry.DecodedField{Name: "deposit_data", Value: exact(unhx(b[6]))},
					&registry.DecodedField{Name: "handler_response", Value: [1]byte{0}},
				}}}}
				dp := subListener.NewFungibleTransferEventHandler(zerolog.Nop().With(), s, subHandler(), make(chan []*message.Message, 4), conn)
				_, err = subExecutor.NewRetryMessageHandler(dp, conn, store, ch).HandleMessage(mk(10))
			case "btc":
				conn := &c06BtcConn{txs: []btcjson.TxRawResult{btcTx(0, "t:"+hx([]byte(opReturnScript(unhx(b[7]))))+":"+b[6])}}
				dp := btcHandler(conn, make(chan []*message.Message, 4))
				_, err = btcExecutor.NewRetryMessageHandler(dp, c01BtcFetcher{}, big.NewInt(5), store, ch).HandleMessage(mk(100))
			default:
				panic("bad chain")
			}
			return err
		})
		if cls != "ok" {
			return cls
		}
		msgs := []*message.Message{}
		for {
			select {
			case ms := <-ch:
				msgs = append(msgs, ms...)
				continue
			default:
			}
			break
		}
		return toProposal(b[1], msgs).String()
	}
}

// opReturnScript: hex text of `OP_RETURN <push len> <text>` as bitcoind reports it
func opReturnScript(text []byte) string {
	return "6a" + hxRaw([]byte{byte(len(text))}) + hxRaw(text)
}

func hxRaw(b []byte) string {
	const d = "0123456789abcdef"
	out := make([]byte, 0, 2*len(b))
	for _, x := range b {
		out = append(out, d[x>>4], d[x&15])
	}
	return string(out)
}

func genC01Seq(g *G) {
	dsts := []string{"evm", "sub", "btc"}
	code := map[string]byte{"erc20": 1, "erc721": 2, "erc1155": 3, "generic": 4}
	n := g.Count(60, 4000)
	for i := 0; i < n; i++ {
		k := []string{"erc20", "erc20", "erc20", "erc721", "erc1155", "generic"}[g.Intn(6)]
		var cd []byte
		switch k {
		case "erc20":
			cd = g.fungibleCD(g.Intn(3) > 0) // mostly with an optional message: the handler rewrites its fee word in place
		case "erc721":
			cd = g.erc721CD()
		case "erc1155":
			cd = g.erc1155CD()
		default:
			cd = g.genericCD()
		}
		resp := [][]byte{nil, nil, w32(g.big256())}[g.Intn(3)]
		s, d, nn, _ := g.ids()
		rid := g.Bytes(32)
		rid[31] = code[k]
		dk := "evm"
		if k == "erc20" && g.Intn(3) == 0 {
			dk = g.Pick(dsts)
		}
		args := []string{k, dk, s, d, nn, hx(rid), hx(cd), hx(resp)}
		g.Emit("seq", append([]string{[]string{"dep", "retry1", "retry1"}[g.Intn(3)], itoa(2 + g.Intn(3))}, args...)...)
		// V2 retry emitted on another domain than the deposit's
		R := itoa(g.Intn(256))
		g.Emit("retrymsg", append([]string{"evm", R}, args...)...)
		// Substrate and Bitcoin sources through their retry message handlers
		scd := g.fungibleCD(false)
		g.Emit("retrymsg", "sub", R, "sub", g.Pick(dsts), s, d, nn, hx(g.Bytes(32)), hx(scd), "0")
		text := []byte("0x" + hxRaw(g.Bytes(20)) + "_" + itoa(g.Intn(256)))
		if g.Intn(6) == 0 {
			text = g.btcData()
		}
		if len(text) < 76 {
			sat := []string{"1", "1000", "123456789", "2100000000000000", "90071992547"}[g.Intn(5)]
			nonce, _ := btcHandler(&c06BtcConn{}, nil).CalculateNonce(big.NewInt(100), btcTx(0, "n").Hash)
			dd := "0"
			if f := splitLast(string(text)); f != "" {
				dd = f
			}
			g.Emit("retrymsg", "btc", R, "btc", g.Pick(dsts), "3", dd, utoa(nonce), hx(c06BtcRes.ResourceID[:]), sat, hx(text))
		}
	}
}

// splitLast: the decimal destination after the first '_' when it is a plain uint8, else ""
func splitLast(t string) string {
	for i := 0; i < len(t); i++ {
		if t[i] == '_' {
			r := t[i+1:]
			for j := 0; j < len(r); j++ {
				if r[j] == '_' {
					r = r[:j]
					break
				}
			}
			if len(r) == 0 || len(r) > 3 {
				return ""
			}
			v := 0
			for _, c := range r {
				if c < '0' || c > '9' {
					return ""
				}
				v = v*10 + int(c-'0')
			}
			if v > 255 {
				return ""
			}
			return itoa(v)
		}
	}
	return ""
}
