package main

// C07 — coordinator election, signing subset, only-the-coordinator-is-obeyed.
// Real code under test: tss/util (SortPeersForSession, Less), comm/elector static elector, the ECDSA and FROST
// Signing.Ready/StartParams/readyParticipants, tss.Coordinator.initiate / Execute (waitForStart, watchExecution).

import (
	"context"
	"encoding/binary"
	"encoding/hex"
	"encoding/json"
	"errors"
	"sort"
	"strconv"
	"strings"
	"time"

	"github.com/ChainSafe/sygma-relayer/comm"
	"github.com/ChainSafe/sygma-relayer/comm/elector"
	"github.com/ChainSafe/sygma-relayer/config/relayer"
	"github.com/ChainSafe/sygma-relayer/tss"
	ecdsaSigning "github.com/ChainSafe/sygma-relayer/tss/ecdsa/signing"
	frostSigning "github.com/ChainSafe/sygma-relayer/tss/frost/signing"
	"github.com/ChainSafe/sygma-relayer/tss/message"
	"github.com/ChainSafe/sygma-relayer/tss/util"
	tsslib "github.com/binance-chain/tss-lib/tss"
	"github.com/ethereum/go-ethereum/crypto"
	"github.com/libp2p/go-libp2p/core/peer"
)

func c07Sid(h string) string { return string(unhx(h)) }

// c07Key / c07Order: the harness' own (independent) computation of the election order, used only to SHAPE scenarios
// (e.g. to pick a relayer that is not the coordinator); what is compared with the model is always the real code's output.
func c07Key(p peer.ID, sid string) uint64 {
	return binary.BigEndian.Uint64(crypto.Keccak256(append([]byte(p.Pretty()), []byte(sid)...)))
}
func c07Order(ps []peer.ID, sid string) []peer.ID {
	out := append([]peer.ID{}, ps...)
	sort.SliceStable(out, func(i, j int) bool { return c07Key(out[i], sid) > c07Key(out[j], sid) })
	return out
}

func c07ParamPeers(params []byte) string {
	var ps []peer.ID
	if err := json.Unmarshal(params, &ps); err != nil {
		return "badparams"
	}
	return c07Toks(ps)
}

// c07ErrClass canonicalises an error returned by the coordinator.
func c07ErrClass(err error) string {
	if err == nil {
		return "ok"
	}
	var ce *tss.CoordinatorError
	var se *tss.SubsetError
	var me *comm.CommunicationError
	var te *tsslib.Error
	switch {
	case errors.As(err, &ce):
		return "coord:" + c07Tok(ce.Peer)
	case errors.As(err, &se):
		return "subset"
	case errors.As(err, &me):
		return "comm"
	case errors.As(err, &te):
		return "tss"
	case strings.Contains(err.Error(), "tss fail message"):
		return "fail"
	case strings.Contains(err.Error(), "timed out"):
		return "timeout"
	case strings.Contains(err.Error(), "already pending"):
		return "pending"
	}
	return "other"
}

func c07Signing(kind, sid string, h *c07Host, c comm.Communication, holders []peer.ID, t int) c07Decider {
	if kind == "frost" {
		return frostSigning.VerifC07NewSigning(sid, h, c, holders, t)
	}
	return ecdsaSigning.VerifC07NewSigning(sid, h, c, holders, t)
}

var c07Bully = relayer.BullyConfig{
	PingWaitTime: time.Second, PingBackOff: time.Second, PingInterval: time.Second,
	ElectionWaitTime: 5 * time.Millisecond, BullyWaitTime: 120 * time.Millisecond,
}

func c07Coordinator(h *c07Host, c *c07Comm) *tss.Coordinator {
	co := tss.NewCoordinator(h, c, elector.VerifC11NewFactory(h, c, c07Bully))
	co.CoordinatorTimeout = time.Hour
	co.TssTimeout = time.Hour
	co.InitiatePeriod = time.Hour
	return co
}

func c07WaitDone(done <-chan struct{}) bool {
	select {
	case <-done:
		return true
	case <-time.After(c07Patience()):
		c07Anomaly()
		return false
	}
}

func init() {
	// keccak <hex> => hex digest (ties the Lean Keccak-256 to go-ethereum's)
	ops["C07.keccak"] = func(a []string) string { return hex.EncodeToString(crypto.Keccak256(unhx(a[0]))) }
	// peertab => the base58 ids of the peer table
	ops["C07.peertab"] = func(a []string) string {
		xs := []string{}
		for _, p := range c07Peers {
			xs = append(xs, p.Pretty())
		}
		return strings.Join(xs, ",")
	}
	// sort <sid> <peers> => peers in election order (real SortPeersForSession)
	ops["C07.sort"] = func(a []string) string {
		return c07Toks(util.SortPeersForSession(c07PeerList(a[1]), c07Sid(a[0])).GetPeerIDs())
	}
	// coord <sid> <peers> => the static elector's coordinator
	ops["C07.coord"] = func(a []string) string {
		p, err := elector.NewCoordinatorElector(c07Sid(a[0])).Coordinator(context.Background(), c07PeerList(a[1]))
		if err != nil {
			return "err"
		}
		return c07Tok(p)
	}
	// subset <kind> <t> <sid> <holders> <readyPeers> => <ready 0|1>:<announced subset>
	ops["C07.subset"] = func(a []string) string {
		t, _ := strconv.Atoi(a[1])
		holders := c07PeerList(a[3])
		s := c07Signing(a[0], c07Sid(a[2]), c07NewHost(c07Peers[0], c07Peers), c07NewComm(), holders, t)
		rdy, err := s.Ready(c07PeerList(a[4]), nil)
		if err != nil {
			return "err"
		}
		r := "0"
		if rdy {
			r = "1"
		}
		return r + ":" + c07ParamPeers(s.StartParams(c07PeerList(a[4])))
	}
	// initiate <kind> <self> <t> <sid> <holders> <excluded> <arrivals>
	//   => n=<ready messages taken>;start=<subset in the start broadcast|none>;run=<subset handed to Run|none>;init=<initiate broadcasts>
	ops["C07.initiate"] = func(a []string) string {
		self := c07Peer(a[1])
		t, _ := strconv.Atoi(a[2])
		sid := c07Sid(a[3])
		holders, excluded, arrivals := c07PeerList(a[4]), c07PeerList(a[5]), c07PeerList(a[6])
		cm := c07NewComm()
		h := c07NewHost(self, c07Peers)
		co := c07Coordinator(h, cm)
		proc := &c07Proc{real: c07Signing(a[0], sid, h, cm, holders, t), retryable: true,
			outcomes: []func(context.Context) error{func(context.Context) error { return nil }}}
		ctx, cancel := context.WithCancel(context.Background())
		defer cancel()
		done := make(chan struct{})
		var rerr error
		go func() {
			defer close(done)
			rerr = co.VerifC07Initiate(ctx, []tss.TssProcess{proc}, make(chan interface{}, 4), excluded)
		}()
		n := 0
		for _, from := range arrivals {
			r := cm.deliver(sid, comm.TssReadyMsg, from, []byte{}, done)
			if r == "done" {
				break
			}
			if r != "ok" {
				cancel()
				return r
			}
			n++
		}
		cancel()
		if !c07WaitDone(done) {
			return "hang"
		}
		if rerr != nil {
			return "err"
		}
		start := "none"
		if cs := cm.castsOf(comm.TssStartMsg); len(cs) > 0 {
			start = ""
			for i, c := range cs {
				if i > 0 {
					start += "+"
				}
				m, err := message.UnmarshalStartMessage(c.payload)
				if err != nil {
					start += "badstart"
				} else {
					start += c07ParamPeers(m.Params)
				}
			}
		}
		run := "none"
		if rs := proc.runList(); len(rs) > 0 {
			run = ""
			for i, r := range rs {
				if i > 0 {
					run += "+"
				}
				if !r.coordinator {
					run += "notcoord:"
				}
				run += c07ParamPeers(r.params)
			}
		}
		return "n=" + itoa(n) + ";start=" + start + ";run=" + run + ";init=" + itoa(len(cm.castsOf(comm.TssInitiateMsg)))
	}
	// wait <self> <sid> <peers> <events>  — real Execute on a relayer that is NOT the coordinator.
	//   events `;`-separated: i<from> initiate, s<from>:<tag> start carrying params tag, x<from> start with a malformed
	//   payload, f<from> fail.   => r=<ready targets in order>;run=<tags>;res=<ok|fail|other|…>
	ops["C07.wait"] = func(a []string) string {
		self := c07Peer(a[0])
		sid := c07Sid(a[1])
		peers := c07PeerList(a[2])
		ord := c07Order(peers, sid)
		if len(ord) == 0 || ord[0] == self {
			return "selfcoord"
		}
		c := ord[0]
		cm := c07NewComm()
		h := c07NewHost(self, c07Peers)
		co := c07Coordinator(h, cm)
		proc := &c07Proc{sid: sid, valid: peers, retryable: true}
		ctx, cancel := context.WithCancel(context.Background())
		defer cancel()
		done := make(chan struct{})
		var rerr error
		go func() {
			defer close(done)
			rerr = co.Execute(ctx, []tss.TssProcess{proc}, make(chan interface{}, 4))
		}()
		running, aborted := false, false
		note := ""
	loop:
		for _, ev := range items(a[3], ";") {
			kind := ev[0]
			rest := ev[1:]
			tag := ""
			if i := strings.Index(rest, ":"); i >= 0 {
				rest, tag = rest[:i], rest[i+1:]
			}
			from := c07Peer(rest)
			var typ comm.MessageType
			payload := []byte{}
			switch kind {
			case 'i':
				typ = comm.TssInitiateMsg
			case 's':
				typ = comm.TssStartMsg
				payload, _ = message.MarshalStartMessage([]byte("p" + tag))
			case 'x':
				typ = comm.TssStartMsg
				payload = []byte("{")
			case 'f':
				typ = comm.TssFailMsg
			default:
				panic("bad event " + ev)
			}
			if running && kind != 'f' {
				continue // a process is running: waitForStart no longer reads (scenario shaping, see Model/C07.lean)
			}
			switch r := cm.deliver(sid, typ, from, payload, done); r {
			case "ok":
			case "done":
				break loop
			default:
				note = ";" + r
				break loop
			}
			if from == c && kind == 's' {
				running = true
			}
			if from == c && (kind == 'x' || kind == 'f') {
				aborted = true
				break loop // the genuine abort ends the attempt; nothing after it is delivered
			}
		}
		// a genuine abort ends Execute on its own; otherwise the scenario ends the session by cancelling it
		if aborted {
			if !c07WaitDone(done) {
				note += ";noabort"
				aborted = false
			}
		}
		if !aborted {
			cancel()
			if !c07WaitDone(done) {
				return "hang"
			}
		}
		rs := []string{}
		for _, b := range cm.castsOf(comm.TssReadyMsg) {
			rs = append(rs, c07Toks(b.peers))
		}
		runs := []string{}
		for _, r := range proc.runList() {
			s := string(r.params)
			if r.coordinator {
				s = "coord:" + s
			}
			runs = append(runs, s)
		}
		return "r=" + joinOr(rs, ",") + ";run=" + joinOr(runs, ",") + ";res=" + c07ErrClass(rerr) + note
	}
	gens["C07"] = genC07
}

var c07Sids = []string{"m1", "", "1-2-100-104", "retry-1-2-7", "sess ion\twith\nspace", "ünï-çødé", "0"}

func c07Perms(xs []string, f func([]string)) {
	var rec func(k int)
	rec = func(k int) {
		if k == len(xs) {
			f(append([]string{}, xs...))
			return
		}
		for i := k; i < len(xs); i++ {
			xs[k], xs[i] = xs[i], xs[k]
			rec(k + 1)
			xs[k], xs[i] = xs[i], xs[k]
		}
	}
	rec(0)
}

// c07Seqs enumerates all sequences over alpha of length ≤ L.
func c07Seqs(alpha []string, L int, f func([]string)) {
	var rec func(prefix []string)
	rec = func(prefix []string) {
		f(prefix)
		if len(prefix) == L {
			return
		}
		for _, a := range alpha {
			rec(append(append([]string{}, prefix...), a))
		}
	}
	rec(nil)
}

func c07RandPeers(g *G, n int) []string {
	perm := []int{0, 1, 2, 3, 4, 5, 6, 7, 8, 9}
	for i := len(perm) - 1; i > 0; i-- {
		j := g.Intn(i + 1)
		perm[i], perm[j] = perm[j], perm[i]
	}
	out := []string{}
	for _, i := range perm[:n] {
		out = append(out, itoa(i))
	}
	return out
}

func c07RandSid(g *G) string {
	switch g.Intn(4) {
	case 0:
		return hx([]byte(g.Pick(c07Sids)))
	case 1:
		return hx(g.Bytes(g.Intn(12)))
	case 2:
		return hx([]byte(itoa(g.Intn(3)) + "-" + itoa(g.Intn(3)) + "-" + itoa(g.Intn(100000)) + "-" + itoa(g.Intn(7))))
	}
	return hx(g.Bytes(100 + g.Intn(120))) // pushes Pretty++sid across the 136-byte Keccak rate
}

func genC07(g *G) {
	g.Emit("peertab")
	// Keccak vectors: lengths around the 136-byte rate
	for _, n := range []int{0, 1, 8, 55, 56, 64, 135, 136, 137, 200, 271, 272, 273} {
		g.Emit("keccak", hx(g.Bytes(n)))
	}
	g.Emit("keccak", hx([]byte("abc")))
	for i := 0; i < g.Count(20, 400); i++ {
		g.Emit("keccak", hx(g.Bytes(g.Intn(300))))
	}
	// ---- election order: every permutation of peer sets of size 0..5 (thorough: ..7), several session ids
	maxPerm := g.Count(5, 7)
	for si, sid := range c07Sids {
		for n := 0; n <= maxPerm; n++ {
			if n >= 6 && si > 1 {
				continue
			}
			set := c07RandPeers(g, n)
			c07Perms(set, func(p []string) {
				g.Emit("sort", hx([]byte(sid)), joinOr(p, ","))
				g.Emit("coord", hx([]byte(sid)), joinOr(p, ","))
			})
		}
	}
	for i := 0; i < g.Count(300, 20000); i++ {
		n := g.Intn(8)
		set := c07RandPeers(g, n)
		if n > 0 && g.Intn(10) == 0 { // a duplicated entry in the list
			set = append(set, set[g.Intn(n)])
		}
		op := "sort"
		if g.Bool() {
			op = "coord"
		}
		g.Emit(op, c07RandSid(g), joinOr(set, ","))
	}
	// ---- Ready / StartParams of both Signing types on arbitrary ready lists
	for i := 0; i < g.Count(400, 20000); i++ {
		n := 2 + g.Intn(6)
		holders := c07RandPeers(g, n)
		t := 1 + g.Intn(n-1)
		if g.Intn(12) == 0 {
			t = g.Intn(n + 2)
		}
		ready := []string{}
		if g.Intn(3) != 0 { // around the Ready boundary: t, t+1 or t+2 distinct holders, plus the odd outsider
			k := t + g.Intn(3)
			for _, h := range c07RandPeers(g, 10) {
				if c07Contains(holders, h) && k > 0 {
					ready = append(ready, h)
					k--
				} else if g.Intn(6) == 0 {
					ready = append(ready, h)
				}
			}
		} else {
			for j, m := 0, g.Intn(9); j < m; j++ {
				if g.Intn(5) == 0 {
					ready = append(ready, itoa(g.Intn(10)))
				} else {
					ready = append(ready, holders[g.Intn(n)])
				}
			}
		}
		g.Emit("subset", []string{"ecdsa", "frost"}[i%2], itoa(t), c07RandSid(g), joinOr(holders, ","), joinOr(ready, ","))
	}
	// ---- initiate: every arrival sequence over {three other holders, a non-holder, an excluded holder, self}
	//      self = 0, holders 0..4, excluded {4}, non-holder 7
	L := g.Count(4, 6)
	k := 0
	for _, t := range []int{1, 2, 3} {
		LL := L
		if t == 3 {
			LL = L - 1
		}
		c07Seqs([]string{"1", "2", "3", "7", "4", "0"}, LL, func(seq []string) {
			k++
			g.Emit("initiate", []string{"ecdsa", "frost"}[k%2], "0", itoa(t), hx([]byte(c07Sids[k%3])), "0,1,2,3,4", "4", joinOr(seq, ","))
		})
	}
	for i := 0; i < g.Count(600, 30000); i++ {
		n := 2 + g.Intn(6)
		holders := c07RandPeers(g, n)
		self := holders[g.Intn(n)]
		t := 1 + g.Intn(n-1)
		excluded := []string{}
		for _, h := range holders {
			if h != self && g.Intn(4) == 0 {
				excluded = append(excluded, h)
			}
		}
		switch g.Intn(40) { // points outside the theorem's hypotheses (their lemmas are in Props/C07.lean)
		case 0:
			excluded = append(excluded, self)
		case 1:
			self = "9"
			if c07Contains(holders, "9") {
				self = holders[0]
			}
		case 2:
			t = 0
		}
		arr := []string{}
		for j, m := 0, g.Intn(8); j < m; j++ {
			if g.Intn(6) == 0 {
				arr = append(arr, itoa(g.Intn(10)))
			} else {
				arr = append(arr, holders[g.Intn(n)])
			}
		}
		g.Emit("initiate", []string{"ecdsa", "frost"}[i%2], self, itoa(t), c07RandSid(g), joinOr(holders, ","), joinOr(excluded, ","), joinOr(arr, ","))
	}
	// ---- waitForStart / watchExecution through the real Execute: every trace over genuine and forged messages
	//      peers 0,1,2 ; self and the forger are the two peers that are not the coordinator
	for si, LW := range []int{g.Count(3, 4), g.Count(2, 3)} {
		sid := c07Sids[si]
		ord := c07Order(c07PeerList("0,1,2"), sid)
		c, self, o := c07Tok(ord[0]), c07Tok(ord[1]), c07Tok(ord[2])
		alpha := []string{"i" + c, "i" + o, "s" + c + ":1", "s" + o + ":2", "x" + c, "x" + o, "f" + c, "f" + o, "i" + self, "s" + self + ":3", "f" + self}
		if si == 1 {
			alpha = alpha[:8]
		}
		c07Seqs(alpha, LW, func(seq []string) {
			g.Emit("wait", self, hx([]byte(sid)), "0,1,2", joinOr(seq, ";"))
		})
	}
	for i := 0; i < g.Count(400, 20000); i++ {
		n := 2 + g.Intn(6)
		ps := c07RandPeers(g, n)
		sid := c07RandSid(g)
		ord := c07Order(c07PeerList(joinOr(ps, ",")), c07Sid(sid))
		self := c07Tok(ord[1+g.Intn(n-1)])
		if g.Intn(50) == 0 {
			self = c07Tok(ord[0])
		}
		c := c07Tok(ord[0])
		evs := []string{}
		for j, m := 0, g.Intn(10); j < m; j++ {
			from := c
			if g.Intn(3) != 0 {
				from = itoa(g.Intn(10)) // committee members and outsiders alike
			}
			switch g.Intn(7) {
			case 0, 1, 2:
				evs = append(evs, "i"+from)
			case 3, 4:
				evs = append(evs, "s"+from+":"+itoa(g.Intn(5)))
			case 5:
				evs = append(evs, "f"+from)
			case 6:
				if g.Intn(3) == 0 {
					evs = append(evs, "x"+from)
				} else {
					evs = append(evs, "f"+from)
				}
			}
		}
		g.Emit("wait", self, sid, joinOr(ps, ","), joinOr(evs, ";"))
	}
}

func c07Contains(xs []string, x string) bool {
	for _, y := range xs {
		if y == x {
			return true
		}
	}
	return false
}
