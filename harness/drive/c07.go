package main

// C07 — coordinator election, signing subset, only-the-coordinator-is-obeyed.
// Real code under test: tss/util (SortPeersForSession, Less), comm/elector static elector, the ECDSA and FROST
// Signing.Ready/StartParams/readyParticipants, tss.Coordinator.initiate / Execute (waitForStart, watchExecution).

import (
	"context"
	"encoding/binary"
	"encoding/hex"
	"encoding/json"
	"errors"
	"math/big"
	"sort"
	"strconv"
	"strings"
	"time"

	"github.com/ChainSafe/sygma-relayer/comm"
	"github.com/ChainSafe/sygma-relayer/comm/elector"
	"github.com/ChainSafe/sygma-relayer/config/relayer"
	"github.com/ChainSafe/sygma-relayer/tss"
	ecdsaSigning "github.com/ChainSafe/sygma-relayer/tss/ecdsa/signing"
	frostSigning "github.com/ChainSafe/sygma-relayer/tss/frost/signing"
	"github.com/ChainSafe/sygma-relayer/tss/message"
	"github.com/ChainSafe/sygma-relayer/tss/util"
	tsslib "github.com/binance-chain/tss-lib/tss"
	"github.com/ethereum/go-ethereum/crypto"
	"github.com/libp2p/go-libp2p/core/peer"
)

func c07Sid(h string) string { return string(unhx(h)) }

// c07Key / c07Order: the harness' own (independent) computation of the election order, used only to SHAPE scenarios
// (e.g. to pick a relayer that is not the coordinator); what is compared with the model is always the real code's output.
func c07Key(p peer.ID, sid string) uint64 {
	return binary.BigEndian.Uint64(crypto.Keccak256(append([]byte(p.Pretty()), []byte(sid)...)))
}
func c07Order(ps []peer.ID, sid string) []peer.ID {
	out := append([]peer.ID{}, ps...)
	sort.SliceStable(out, func(i, j int) bool { return c07Key(out[i], sid) > c07Key(out[j], sid) })
	return out
}

func c07ParamPeers(params []byte) string {
	var ps []peer.ID
	if err := json.Unmarshal(params, &ps); err != nil {
		return "badparams"
	}
	return c07Toks(ps)
}

// c07ErrClass canonicalises an error returned by the coordinator: the typed errors by errors.As, any other error `err`.
func c07ErrClass(err error) string {
	if err == nil {
		return "ok"
	}
	if err == errC07Panic {
		return "panic"
	}
	var ce *tss.CoordinatorError
	var se *tss.SubsetError
	var me *comm.CommunicationError
	var te *tsslib.Error
	switch {
	case errors.As(err, &ce):
		return "coord:" + c07Tok(ce.Peer)
	case errors.As(err, &se):
		return "subset"
	case errors.As(err, &me):
		return "comm"
	case errors.As(err, &te):
		return "tss"
	}
	// anything else is just "an error": the wording of error texts is not part of the behaviour
	return "err"
}

// c07Signing builds the process through the repository's own constructors (NewSigning), over a key-share store that
// serves the repository's fixture key share with committee and threshold replaced.
func c07Signing(kind, sid string, h *c07Host, c comm.Communication, holders []peer.ID, t int) c07Decider {
	if kind == "frost" {
		s, err := frostSigning.NewSigning(1, []byte("verif"), c07Tweak, "msg-"+sid, sid, h, c, &c07FrostFetcher{holders, t})
		if err != nil {
			panic("frost NewSigning: " + err.Error())
		}
		return s
	}
	s, err := ecdsaSigning.NewSigning(big.NewInt(7), "msg-"+sid, sid, h, c, &c07ECDSAFetcher{holders, t})
	if err != nil {
		panic("ecdsa NewSigning: " + err.Error())
	}
	return s
}

const c07Tweak = "c82aa6ae534bb28aaafeb3660c31d6a52e187d8f05d48bb6bdb9b733a9b42212"

var c07Bully = relayer.BullyConfig{
	PingWaitTime: time.Second, PingBackOff: time.Second, PingInterval: time.Second,
	ElectionWaitTime: 5 * time.Millisecond, BullyWaitTime: 120 * time.Millisecond,
}

func c07Coordinator(h *c07Host, c *c07Comm) *tss.Coordinator {
	co := tss.NewCoordinator(h, c, elector.VerifC11NewFactory(h, c, c07Bully))
	co.CoordinatorTimeout = time.Hour
	co.TssTimeout = time.Hour
	co.InitiatePeriod = time.Hour
	return co
}

func c07WaitDone(done <-chan struct{}) bool {
	select {
	case <-done:
		return true
	case <-time.After(c07Patience()):
		c07Anomaly()
		return false
	}
}

func init() {
	// keccak <hex> => hex digest (ties the Lean Keccak-256 to go-ethereum's)
	ops["C07.keccak"] = func(a []string) string { return hex.EncodeToString(crypto.Keccak256(unhx(a[0]))) }
	// peertab => the base58 ids of the peer table
	ops["C07.peertab"] = func(a []string) string {
		xs := []string{}
		for _, p := range c07Peers {
			xs = append(xs, p.Pretty())
		}
		return strings.Join(xs, ",")
	}
	// sort <sid> <peers> => peers in election order (real SortPeersForSession)
	ops["C07.sort"] = func(a []string) string {
		return c07Toks(util.SortPeersForSession(c07PeerList(a[1]), c07Sid(a[0])).GetPeerIDs())
	}
	// coord <sid> <peers> => the static elector's coordinator
	ops["C07.coord"] = func(a []string) string {
		p, err := elector.NewCoordinatorElector(c07Sid(a[0])).Coordinator(context.Background(), c07PeerList(a[1]))
		if err != nil {
			return "err"
		}
		return c07Tok(p)
	}
	// subset <kind> <t> <sid> <holders> <readyPeers> => <ready 0|1>:<announced subset>
	ops["C07.subset"] = func(a []string) string {
		t, _ := strconv.Atoi(a[1])
		holders := c07PeerList(a[3])
		s := c07Signing(a[0], c07Sid(a[2]), c07NewHost(c07Peers[0], c07Peers), c07NewComm(), holders, t)
		rdy, err := s.Ready(c07PeerList(a[4]), nil)
		if err != nil {
			return "err"
		}
		r := "0"
		if rdy {
			r = "1"
		}
		return r + ":" + c07ParamPeers(s.StartParams(c07PeerList(a[4])))
	}
	// newsigning <kind> <self> <t> <sid> <holders> <peerstore> — the process as the repository's constructor builds it on
	//   a relayer whose libp2p peerstore holds <peerstore>: who it regards as valid coordinators and whom it elects
	//   => valid=<ValidCoordinators()>;coord=<static elector over them>
	ops["C07.newsigning"] = func(a []string) string {
		self := c07Peer(a[1])
		t, _ := strconv.Atoi(a[2])
		sid := c07Sid(a[3])
		s := c07Signing(a[0], sid, c07NewHost(self, c07PeerList(a[5])), c07NewComm(), c07PeerList(a[4]), t)
		valid := s.ValidCoordinators()
		p, err := elector.NewCoordinatorElector(sid).Coordinator(context.Background(), valid)
		if err != nil {
			return "err"
		}
		return "valid=" + c07Toks(valid) + ";coord=" + c07Tok(p)
	}
	// initiate <kind> <self> <t> <sid> <holders> <excluded> <arrivals>
	//   => n=<ready messages taken>;start=<subset in the start broadcast|none>;run=<subset handed to Run|none>;init=<initiate broadcasts>
	ops["C07.initiate"] = func(a []string) string {
		self := c07Peer(a[1])
		t, _ := strconv.Atoi(a[2])
		sid := c07Sid(a[3])
		holders, excluded := c07PeerList(a[4]), c07PeerList(a[5])
		arrivals := items(a[6], ",") // peer tokens, or T = one more tick of the InitiatePeriod ticker has been observed
		ticks := strings.Contains(a[6], "T")
		cm := c07NewComm()
		h := c07NewHost(self, c07Peers)
		co := c07Coordinator(h, cm)
		if ticks {
			co.InitiatePeriod = time.Millisecond
		}
		proc := &c07Proc{real: c07Signing(a[0], sid, h, cm, holders, t), retryable: true,
			outcomes: []func(context.Context) error{func(context.Context) error { return nil }}}
		ctx, cancel := context.WithCancel(context.Background())
		defer cancel()
		done := make(chan struct{})
		var rerr error
		go func() {
			defer close(done)
			rerr = c07Guard(func() error {
				return co.VerifC07Initiate(ctx, []tss.TssProcess{proc}, make(chan interface{}, 4), excluded)
			})
		}()
		n := 0
		for _, tok := range arrivals {
			var r string
			if tok == "T" {
				base := len(cm.castsOf(comm.TssInitiateMsg))
				r = cm.waitUntil(c07Patience(), done, func() bool {
					k := 0
					for _, b := range cm.casts {
						if b.typ == comm.TssInitiateMsg {
							k++
						}
					}
					return k > base
				})
				if r == "timeout" {
					c07Anomaly()
					r = "notick"
				}
			} else {
				r = cm.deliver(sid, comm.TssReadyMsg, c07Peer(tok), []byte{}, done)
			}
			if r == "done" {
				break
			}
			if r != "ok" {
				cancel()
				return r
			}
			n++
		}
		cancel()
		if !c07WaitDone(done) {
			return "hang"
		}
		if rerr == errC07Panic {
			return "panic"
		}
		if rerr != nil {
			return "err"
		}
		start := "none"
		if cs := cm.castsOf(comm.TssStartMsg); len(cs) > 0 {
			start = ""
			for i, c := range cs {
				if i > 0 {
					start += "+"
				}
				m, err := message.UnmarshalStartMessage(c.payload)
				if err != nil {
					start += "badstart"
				} else {
					start += c07ParamPeers(m.Params)
				}
			}
		}
		run := "none"
		if rs := proc.runList(); len(rs) > 0 {
			run = ""
			for i, r := range rs {
				if i > 0 {
					run += "+"
				}
				if !r.coordinator {
					run += "notcoord:"
				}
				run += c07ParamPeers(r.params)
			}
		}
		inits := itoa(len(cm.castsOf(comm.TssInitiateMsg)))
		if ticks { // the ticker keeps running while ready messages are handed over: only "re-broadcast happened" is stable
			inits = "re"
		}
		return "n=" + itoa(n) + ";start=" + start + ";run=" + run + ";init=" + inits
	}
	// retry2 <self> <t> <sid> <peers> <first> <claimant|-> <events> — real Execute, SECOND attempt. first = `silent` (the
	//   static coordinator never speaks, CoordinatorTimeout passes) or the error the first Run returns (codes of C11:
	//   t<culprits> a tss error naming culprits, c<peer>, m); the relayer re-elects without the culprits; with a claimant (a listed peer ranked above
	//   this relayer) it follows the claimant, otherwise it coordinates itself. Then the events are delivered:
	//   i/s/x/f as for `wait` (read while following), r<from> ready (read while coordinating), f<from> fail in both.
	//   => mode=<w|c>;sel=<candidates>;r=<ready targets>;start=<subset|none>;run=<c:subset|w:params>;res=<…>
	ops["C07.retry2"] = func(a []string) string {
		self := c07Peer(a[0])
		t := int(u64(a[1]))
		sid := c07Sid(a[2])
		peers := c07PeerList(a[3])
		first, claimant := a[4], a[5]
		ord := c07Order(peers, sid)
		if len(ord) == 0 || (strings.HasPrefix(first, "silent") && ord[0] == self) {
			return "selfcoord"
		}
		c := ord[0]
		// whom the relayer follows in the second attempt, by the harness' own computation (scenario shaping only)
		excl := []peer.ID{}
		switch {
		case strings.HasPrefix(first, "silent"):
			excl = []peer.ID{c}
		case first[0] == 'c' && first != "cnone":
			excl = []peer.ID{c07Peer(first[1:])}
		case first[0] == 't' && len(first) > 1:
			excl = c07PeerList(strings.ReplaceAll(first[1:], "+", ","))
		}
		isExcl := func(p peer.ID) bool {
			for _, x := range excl {
				if x == p {
					return true
				}
			}
			return false
		}
		elected := self
		if claimant != "-" {
			is, ic := -1, -1
			k := 0
			for _, p := range ord {
				if isExcl(p) {
					continue
				}
				if p == self {
					is = k
				}
				if p == c07Peer(claimant) {
					ic = k
				}
				k++
			}
			if ic >= 0 && is >= 0 && ic < is {
				elected = c07Peer(claimant)
			}
		}
		e := c11NewEnv(self, t, sid, peers, true, claimant != "-")
		f := e.prepareFirst(first, "-", c, nil)
		cm := e.cm
		ctx, cancel := context.WithCancel(context.Background())
		defer cancel()
		done := make(chan struct{})
		var rerr error
		go func() {
			defer close(done)
			rerr = c07Guard(func() error { return e.co.Execute(ctx, []tss.TssProcess{e.proc}, make(chan interface{}, 4)) })
		}()
		_, runMark, note := f.drive(done, t)
		castMark := f.castMark
		nInit := func() int {
			k := 0
			for _, b := range cm.casts[castMark:] {
				if b.typ == comm.TssInitiateMsg {
					k++
				}
			}
			return k
		}
		// conditions about what has EVER happened since the mark (monotone; cannot be missed by a late observer)
		conds := map[string]func() bool{
			"bully": func() bool { return cm.everSub(sid, comm.CoordinatorSelectMsg) },
			"wait":  func() bool { return cm.mark > 0 && cm.everSub(sid, comm.TssStartMsg) },
			"coord": func() bool { return nInit() > 0 },
		}
		if st := e.firstOf(done, conds, []string{"bully"}); st != "bully" {
			note += ";noelection-" + st
		} else if claimant != "-" {
			if r := e.claim(done, c07Peer(claimant), castMark); r != "ok" {
				note += ";" + r
			}
		}
		mode := e.firstOf(done, conds, []string{"coord", "wait"})
		aborted, running := false, false
		nReady := 0
		stop := e.stopOn(done)
	loop:
		for _, ev := range items(a[6], ";") {
			kind := ev[0]
			rest, tag := ev[1:], ""
			if i := strings.Index(rest, ":"); i >= 0 {
				rest, tag = rest[:i], rest[i+1:]
			}
			from := c07Peer(rest)
			var typ comm.MessageType
			payload := []byte{}
			switch kind {
			case 'i':
				typ = comm.TssInitiateMsg
			case 's':
				typ = comm.TssStartMsg
				payload, _ = message.MarshalStartMessage([]byte("p" + tag))
			case 'x':
				typ = comm.TssStartMsg
				payload = []byte("{")
			case 'f':
				typ = comm.TssFailMsg
			case 'r':
				typ = comm.TssReadyMsg
			default:
				panic("bad event " + ev)
			}
			if kind != 'f' {
				if (mode == "wait") == (kind == 'r') || (mode != "wait" && mode != "coord") {
					continue // nobody reads this type in this role
				}
				if running {
					continue // the process of the second attempt runs: the collecting / waiting loop is over
				}
			}
			ch := (<-chan struct{})(done)
			if kind == 'r' {
				ch = stop
			}
			switch r := cm.deliver(sid, typ, from, payload, ch); r {
			case "ok":
				if kind == 'r' {
					nReady++
				}
			case "done":
				if kind == 'r' {
					running = true
					continue
				}
				break loop
			default:
				note += ";" + r
				break loop
			}
			if mode == "wait" && from == elected && kind == 's' {
				running = true
			}
			if mode == "wait" && from == elected && kind == 'x' {
				aborted = true
				break loop
			}
		}
		if cm.waitUntil(c07Patience(), nil, func() bool {
			for _, b := range cm.casts[castMark:] {
				if b.typ == comm.CoordinatorSelectMsg {
					return true
				}
			}
			return false
		}) != "ok" {
			c07Anomaly()
			note += ";noselect"
		}
		if aborted && !c07WaitDone(done) {
			note += ";noabort"
			aborted = false
		}
		if !aborted {
			cancel()
			if !c07WaitDone(done) {
				return "hang"
			}
		}
		sel, start := "none", "none"
		rs := []string{}
		cm.mu.Lock()
		for _, b := range cm.casts[castMark:] {
			switch b.typ {
			case comm.CoordinatorSelectMsg:
				if sel == "none" {
					sel = c07Toks(b.peers)
				}
			case comm.TssReadyMsg:
				rs = append(rs, c07Toks(b.peers))
			case comm.TssStartMsg:
				m, err := message.UnmarshalStartMessage(b.payload)
				x := "badstart"
				if err == nil {
					x = c07ParamPeers(m.Params)
				}
				if start == "none" {
					start = x
				} else {
					start += "+" + x
				}
			}
		}
		cm.mu.Unlock()
		runs := []string{}
		for _, r := range e.proc.runList()[runMark:] {
			if r.coordinator {
				runs = append(runs, "c:"+c07ParamPeers(r.params))
			} else {
				runs = append(runs, "w:"+string(r.params))
			}
		}
		m := map[string]string{"wait": "w", "coord": "c"}[mode]
		if m == "" {
			m = mode
		}
		return "mode=" + m + ";sel=" + sel + ";r=" + joinOr(rs, ",") + ";n=" + itoa(nReady) + ";start=" + start + ";run=" + joinOr(runs, "/") + ";res=" + c07ErrClass(rerr) + note
	}
	// coord1 <kind> <self> <t> <sid> <holders> <events> — real Execute on the STATIC coordinator (first attempt): ready
	//   messages r<from> are read by initiate, fail messages f<from> by the watcher Execute starts next to it (which was
	//   given this relayer itself as coordinator). => n=<ready messages taken>;start=<subset|none>;run=<subset|->;res=<…>
	ops["C07.coord1"] = func(a []string) string {
		self := c07Peer(a[1])
		t, _ := strconv.Atoi(a[2])
		sid := c07Sid(a[3])
		holders := c07PeerList(a[4])
		if ord := c07Order(holders, sid); len(ord) == 0 || ord[0] != self {
			return "notcoord"
		}
		cm := c07NewComm()
		h := c07NewHost(self, c07Peers)
		co := c07Coordinator(h, cm)
		proc := &c07Proc{real: c07Signing(a[0], sid, h, cm, holders, t), retryable: true, started: make(chan struct{}, 4)}
		ctx, cancel := context.WithCancel(context.Background())
		defer cancel()
		done := make(chan struct{})
		var rerr error
		go func() {
			defer close(done)
			rerr = c07Guard(func() error { return co.Execute(ctx, []tss.TssProcess{proc}, make(chan interface{}, 4)) })
		}()
		stop := make(chan struct{})
		go func() {
			select {
			case <-proc.started:
			case <-done:
			}
			close(stop)
		}()
		n, running, aborted, note := 0, false, false, ""
	loop:
		for _, ev := range items(a[5], ";") {
			from := c07Peer(ev[1:])
			switch ev[0] {
			case 'r':
				if running {
					continue
				}
				switch r := cm.deliver(sid, comm.TssReadyMsg, from, []byte{}, stop); r {
				case "ok":
					n++
				case "done":
					running = true
				default:
					note += ";" + r
					break loop
				}
			case 'f':
				switch r := cm.deliver(sid, comm.TssFailMsg, from, []byte{}, done); r {
				case "ok":
					if from == self {
						aborted = true
						break loop
					}
				case "done":
					break loop
				default:
					note += ";" + r
					break loop
				}
			default:
				panic("bad event " + ev)
			}
		}
		if aborted && !c07WaitDone(done) {
			note += ";noabort"
			aborted = false
		}
		if !aborted {
			cancel()
			if !c07WaitDone(done) {
				return "hang"
			}
		}
		start := "none"
		for _, b := range cm.castsOf(comm.TssStartMsg) {
			m, err := message.UnmarshalStartMessage(b.payload)
			x := "badstart"
			if err == nil {
				x = c07ParamPeers(m.Params)
			}
			if start == "none" {
				start = x
			} else {
				start += "+" + x
			}
		}
		runs := []string{}
		for _, r := range proc.runList() {
			x := c07ParamPeers(r.params)
			if !r.coordinator {
				x = "notcoord:" + x
			}
			runs = append(runs, x)
		}
		return "n=" + itoa(n) + ";start=" + start + ";run=" + joinOr(runs, "/") + ";res=" + c07ErrClass(rerr) + note
	}
	// wait <self> <sid> <peers> <events>  — real Execute on a relayer that is NOT the coordinator.
	//   events `;`-separated: i<from> initiate, s<from>:<tag> start carrying params tag, x<from> start with a malformed
	//   payload, f<from> fail.   => r=<ready targets in order>;run=<tags>;res=<ok|fail|other|…>
	// net <self> <sid> <peers> <events> — as `wait`, but every message is an ENVELOPE fed through the repository's real
	//   receive path (Libp2pCommunication.ProcessMessagesFromStream) on a stream whose connection is authenticated as
	//   <conn>; `<kind><conn>@<claimed>[:tag]` additionally writes a `from` field naming <claimed> into the envelope
	//   (a committee member pretending to be the coordinator). What the real receive path dispatches is handed on.
	waitBody := func(a []string) string {
		viaNet := len(a) > 4 && a[4] == "net"
		self := c07Peer(a[0])
		sid := c07Sid(a[1])
		peers := c07PeerList(a[2])
		ord := c07Order(peers, sid)
		if len(ord) == 0 || ord[0] == self {
			return "selfcoord"
		}
		c := ord[0]
		cm := c07NewComm()
		h := c07NewHost(self, c07Peers)
		co := c07Coordinator(h, cm)
		proc := &c07Proc{sid: sid, valid: peers, retryable: true}
		var net *c07Net
		if viaNet {
			net = c07NewNet(self)
		}
		ctx, cancel := context.WithCancel(context.Background())
		defer cancel()
		done := make(chan struct{})
		var rerr error
		go func() {
			defer close(done)
			rerr = c07Guard(func() error { return co.Execute(ctx, []tss.TssProcess{proc}, make(chan interface{}, 4)) })
		}()
		running, aborted := false, false
		note := ""
	loop:
		for _, ev := range items(a[3], ";") {
			kind := ev[0]
			rest := ev[1:]
			tag := ""
			if i := strings.Index(rest, ":"); i >= 0 {
				rest, tag = rest[:i], rest[i+1:]
			}
			claimed := ""
			if i := strings.Index(rest, "@"); i >= 0 {
				rest, claimed = rest[:i], c07Peer(rest[i+1:]).Pretty()
			}
			from := c07Peer(rest) // the authenticated sender
			var typ comm.MessageType
			payload := []byte{}
			switch kind {
			case 'i':
				typ = comm.TssInitiateMsg
			case 's':
				typ = comm.TssStartMsg
				payload, _ = message.MarshalStartMessage([]byte("p" + tag))
			case 'x':
				typ = comm.TssStartMsg
				payload = []byte("{")
			case 'f':
				typ = comm.TssFailMsg
			default:
				panic("bad event " + ev)
			}
			if running && kind != 'f' {
				continue // a process is running: waitForStart no longer reads (scenario shaping, see Model/C07.lean)
			}
			msg := &comm.WrappedMessage{MessageType: typ, SessionID: sid, Payload: payload, From: from}
			if viaNet {
				var r string
				if msg, r = net.receive(from, claimed, typ, sid, payload); r != "ok" {
					note = ";" + r
					break loop
				}
			}
			switch r := cm.deliverMsg(msg, done, false); r {
			case "ok":
			case "done":
				break loop
			default:
				note = ";" + r
				break loop
			}
			if from == c && kind == 's' {
				running = true
			}
			if from == c && (kind == 'x' || kind == 'f') {
				aborted = true
				break loop // the genuine abort ends the attempt; nothing after it is delivered
			}
		}
		// a genuine abort ends Execute on its own; otherwise the scenario ends the session by cancelling it
		if aborted {
			if !c07WaitDone(done) {
				note += ";noabort"
				aborted = false
			}
		}
		if !aborted {
			cancel()
			if !c07WaitDone(done) {
				return "hang"
			}
		}
		rs := []string{}
		for _, b := range cm.castsOf(comm.TssReadyMsg) {
			rs = append(rs, c07Toks(b.peers))
		}
		runs := []string{}
		for _, r := range proc.runList() {
			s := string(r.params)
			if r.coordinator {
				s = "coord:" + s
			}
			runs = append(runs, s)
		}
		return "r=" + joinOr(rs, ",") + ";run=" + joinOr(runs, ",") + ";res=" + c07ErrClass(rerr) + note
	}
	ops["C07.wait"] = waitBody
	ops["C07.net"] = func(a []string) string { return waitBody(append(append([]string{}, a...), "net")) }
	for _, k := range []string{"C07.initiate", "C07.wait", "C07.retry2", "C07.net", "C07.coord1"} {
		ops[k] = c07Escalating(ops[k])
	}
	gens["C07"] = genC07
}

var c07Sids = []string{"m1", "", "1-2-100-104", "retry-1-2-7", "sess ion\twith\nspace", "ünï-çødé", "0"}

func c07Perms(xs []string, f func([]string)) {
	var rec func(k int)
	rec = func(k int) {
		if k == len(xs) {
			f(append([]string{}, xs...))
			return
		}
		for i := k; i < len(xs); i++ {
			xs[k], xs[i] = xs[i], xs[k]
			rec(k + 1)
			xs[k], xs[i] = xs[i], xs[k]
		}
	}
	rec(0)
}

// c07Seqs enumerates all sequences over alpha of length ≤ L.
func c07Seqs(alpha []string, L int, f func([]string)) {
	var rec func(prefix []string)
	rec = func(prefix []string) {
		f(prefix)
		if len(prefix) == L {
			return
		}
		for _, a := range alpha {
			rec(append(append([]string{}, prefix...), a))
		}
	}
	rec(nil)
}

func c07RandPeers(g *G, n int) []string {
	perm := []int{0, 1, 2, 3, 4, 5, 6, 7, 8, 9}
	for i := len(perm) - 1; i > 0; i-- {
		j := g.Intn(i + 1)
		perm[i], perm[j] = perm[j], perm[i]
	}
	out := []string{}
	for _, i := range perm[:n] {
		out = append(out, itoa(i))
	}
	return out
}

func c07RandSid(g *G) string {
	switch g.Intn(4) {
	case 0:
		return hx([]byte(g.Pick(c07Sids)))
	case 1:
		return hx(g.Bytes(g.Intn(12)))
	case 2:
		return hx([]byte(itoa(g.Intn(3)) + "-" + itoa(g.Intn(3)) + "-" + itoa(g.Intn(100000)) + "-" + itoa(g.Intn(7))))
	}
	return hx(g.Bytes(100 + g.Intn(120))) // pushes Pretty++sid across the 136-byte Keccak rate
}

func genC07(g *G) {
	g.Emit("peertab")
	// Keccak vectors: lengths around the 136-byte rate
	for _, n := range []int{0, 1, 8, 55, 56, 64, 135, 136, 137, 200, 271, 272, 273} {
		g.Emit("keccak", hx(g.Bytes(n)))
	}
	g.Emit("keccak", hx([]byte("abc")))
	for i := 0; i < g.Count(20, 400); i++ {
		g.Emit("keccak", hx(g.Bytes(g.Intn(300))))
	}
	// ---- election order: every permutation of peer sets of size 0..5 (thorough: ..7), several session ids
	maxPerm := g.Count(5, 7)
	for si, sid := range c07Sids {
		for n := 0; n <= maxPerm; n++ {
			if n >= 6 && si > 1 {
				continue
			}
			set := c07RandPeers(g, n)
			c07Perms(set, func(p []string) {
				g.Emit("sort", hx([]byte(sid)), joinOr(p, ","))
				g.Emit("coord", hx([]byte(sid)), joinOr(p, ","))
			})
		}
	}
	for i := 0; i < g.Count(300, 20000); i++ {
		n := g.Intn(8)
		set := c07RandPeers(g, n)
		if n > 0 && g.Intn(10) == 0 { // a duplicated entry in the list
			set = append(set, set[g.Intn(n)])
		}
		op := "sort"
		if g.Bool() {
			op = "coord"
		}
		g.Emit(op, c07RandSid(g), joinOr(set, ","))
	}
	// ---- the constructors on relayers with different local views (peerstores): same valid coordinators, same election
	for ki, kind := range []string{"ecdsa", "frost"} {
		hs := []string{"0", "1", "2", "3"}
		for mask := 0; mask < 32; mask++ { // every subset of the holders plus an outsider in the peerstore
			ps := []string{}
			for b, p := range []string{"0", "1", "2", "3", "7"} {
				if mask&(1<<b) != 0 {
					ps = append(ps, p)
				}
			}
			for si, self := range hs {
				if (mask+si+ki)%2 == 1 && !g.Thorough() {
					continue
				}
				own := ps
				if !c07Contains(own, self) {
					own = append(append([]string{}, ps...), self)
				}
				g.Emit("newsigning", kind, self, "1", hx([]byte(c07Sids[(mask+si)%4])), joinOr(hs, ","), joinOr(own, ","))
			}
		}
	}
	for i := 0; i < g.Count(200, 10000); i++ {
		n := 2 + g.Intn(6)
		holders := c07RandPeers(g, n)
		self := holders[g.Intn(n)]
		ps := []string{self}
		for _, p := range c07RandPeers(g, 10) {
			if p != self && g.Intn(4) != 0 {
				ps = append(ps, p)
			}
		}
		g.Emit("newsigning", []string{"ecdsa", "frost"}[i%2], self, itoa(1+g.Intn(n-1)), c07RandSid(g), joinOr(holders, ","), joinOr(ps, ","))
	}
	// ---- Ready / StartParams of both Signing types on arbitrary ready lists
	for i := 0; i < g.Count(400, 20000); i++ {
		n := 2 + g.Intn(6)
		holders := c07RandPeers(g, n)
		t := 1 + g.Intn(n-1)
		if g.Intn(12) == 0 {
			t = g.Intn(n + 2)
		}
		ready := []string{}
		if g.Intn(3) != 0 { // around the Ready boundary: t, t+1 or t+2 distinct holders, plus the odd outsider
			k := t + g.Intn(3)
			for _, h := range c07RandPeers(g, 10) {
				if c07Contains(holders, h) && k > 0 {
					ready = append(ready, h)
					k--
				} else if g.Intn(6) == 0 {
					ready = append(ready, h)
				}
			}
		} else {
			for j, m := 0, g.Intn(9); j < m; j++ {
				if g.Intn(5) == 0 {
					ready = append(ready, itoa(g.Intn(10)))
				} else {
					ready = append(ready, holders[g.Intn(n)])
				}
			}
		}
		g.Emit("subset", []string{"ecdsa", "frost"}[i%2], itoa(t), c07RandSid(g), joinOr(holders, ","), joinOr(ready, ","))
	}
	// ---- initiate: every arrival sequence over {three other holders, a non-holder, an excluded holder, self}
	//      self = 0, holders 0..4, excluded {4}, non-holder 7
	L := g.Count(4, 6)
	k := 0
	for _, t := range []int{1, 2, 3} {
		LL := L
		if t == 3 {
			LL = L - 1
		}
		c07Seqs([]string{"1", "2", "3", "7", "4", "0"}, LL, func(seq []string) {
			k++
			g.Emit("initiate", []string{"ecdsa", "frost"}[k%2], "0", itoa(t), hx([]byte(c07Sids[k%3])), "0,1,2,3,4", "4", joinOr(seq, ","))
		})
	}
	// … and with ticks of the InitiatePeriod ticker (T) anywhere between the ready messages: the quorum is reached only
	// after the initiate message was re-broadcast once or several times
	for _, tc := range []struct {
		t     int
		alpha []string
	}{{1, []string{"1", "2", "7", "4", "T"}}, {2, []string{"1", "2", "3", "T"}}} {
		c07Seqs(tc.alpha, g.Count(4, 5), func(seq []string) {
			if !c07Contains(seq, "T") {
				return
			}
			k++
			g.Emit("initiate", []string{"ecdsa", "frost"}[k%2], "0", itoa(tc.t), hx([]byte(c07Sids[k%3])), "0,1,2,3,4", "4", joinOr(seq, ","))
		})
	}
	for i := 0; i < g.Count(600, 30000); i++ {
		n := 2 + g.Intn(6)
		holders := c07RandPeers(g, n)
		self := holders[g.Intn(n)]
		t := 1 + g.Intn(n-1)
		excluded := []string{}
		for _, h := range holders {
			if h != self && g.Intn(4) == 0 {
				excluded = append(excluded, h)
			}
		}
		switch g.Intn(40) { // points outside the theorem's hypotheses (their lemmas are in Props/C07.lean)
		case 0:
			excluded = append(excluded, self)
		case 1:
			self = "9"
			if c07Contains(holders, "9") {
				self = holders[0]
			}
		case 2:
			t = 0
		}
		arr := []string{}
		tickP := []int{0, 0, 4}[g.Intn(3)]
		for j, m := 0, g.Intn(8); j < m; j++ {
			if tickP > 0 && g.Intn(tickP) == 0 {
				arr = append(arr, "T")
			} else if g.Intn(6) == 0 {
				arr = append(arr, itoa(g.Intn(10)))
			} else {
				arr = append(arr, holders[g.Intn(n)])
			}
		}
		g.Emit("initiate", []string{"ecdsa", "frost"}[i%2], self, itoa(t), c07RandSid(g), joinOr(holders, ","), joinOr(excluded, ","), joinOr(arr, ","))
	}
	// ---- waitForStart / watchExecution through the real Execute: every trace over genuine and forged messages
	//      peers 0,1,2 ; self and the forger are the two peers that are not the coordinator
	for si, LW := range []int{g.Count(3, 4), g.Count(2, 3)} {
		sid := c07Sids[si]
		ord := c07Order(c07PeerList("0,1,2"), sid)
		c, self, o := c07Tok(ord[0]), c07Tok(ord[1]), c07Tok(ord[2])
		alpha := []string{"i" + c, "i" + o, "s" + c + ":1", "s" + o + ":2", "x" + c, "x" + o, "f" + c, "f" + o, "i" + self, "s" + self + ":3", "f" + self}
		if si == 1 {
			alpha = alpha[:8]
		}
		c07Seqs(alpha, LW, func(seq []string) {
			g.Emit("wait", self, hx([]byte(sid)), "0,1,2", joinOr(seq, ";"))
		})
	}
	for i := 0; i < g.Count(400, 20000); i++ {
		n := 2 + g.Intn(6)
		ps := c07RandPeers(g, n)
		sid := c07RandSid(g)
		ord := c07Order(c07PeerList(joinOr(ps, ",")), c07Sid(sid))
		self := c07Tok(ord[1+g.Intn(n-1)])
		if g.Intn(50) == 0 {
			self = c07Tok(ord[0])
		}
		c := c07Tok(ord[0])
		evs := []string{}
		for j, m := 0, g.Intn(10); j < m; j++ {
			from := c
			if g.Intn(3) != 0 {
				from = itoa(g.Intn(10)) // committee members and outsiders alike
			}
			switch g.Intn(7) {
			case 0, 1, 2:
				evs = append(evs, "i"+from)
			case 3, 4:
				evs = append(evs, "s"+from+":"+itoa(g.Intn(5)))
			case 5:
				evs = append(evs, "f"+from)
			case 6:
				if g.Intn(3) == 0 {
					evs = append(evs, "x"+from)
				} else {
					evs = append(evs, "f"+from)
				}
			}
		}
		g.Emit("wait", self, sid, joinOr(ps, ","), joinOr(evs, ";"))
	}
	genC07Retry(g)
	genC07Net(g)
	genC07Coord(g)
	genC07Twins(g)
}

// genC07Coord: the static coordinator's first attempt through the real Execute, ready and fail messages interleaved —
// fail messages from committee members and outsiders (ignored) and one authenticated as the coordinator itself.
func genC07Coord(g *G) {
	sid := c07Sids[0]
	ord := c07Order(c07PeerList("0,1,2,3"), sid)
	self, a, b, c := c07Tok(ord[0]), c07Tok(ord[1]), c07Tok(ord[2]), c07Tok(ord[3])
	alpha := []string{"r" + a, "r" + b, "r7", "f" + a, "f" + c, "f7", "f" + self}
	k := 0
	c07Seqs(alpha, g.Count(3, 4), func(seq []string) {
		k++
		g.Emit("coord1", []string{"ecdsa", "frost"}[k%2], self, itoa(1+k%2), hx([]byte(sid)), "0,1,2,3", joinOr(seq, ";"))
	})
	for i := 0; i < g.Count(100, 5000); i++ {
		n := 2 + g.Intn(6)
		ps := c07RandPeers(g, n)
		rsid := c07RandSid(g)
		me := c07Tok(c07Order(c07PeerList(joinOr(ps, ",")), c07Sid(rsid))[0])
		evs := []string{}
		for j, m := 0, g.Intn(9); j < m; j++ {
			p := ps[g.Intn(n)]
			if g.Intn(5) == 0 {
				p = itoa(g.Intn(10))
			}
			if g.Intn(3) == 0 {
				if p == me && g.Intn(4) != 0 {
					continue
				}
				evs = append(evs, "f"+p)
			} else {
				evs = append(evs, "r"+p)
			}
		}
		g.Emit("coord1", []string{"ecdsa", "frost"}[i%2], me, itoa(1+g.Intn(n-1)), rsid, joinOr(ps, ","), joinOr(evs, ";"))
	}
}

// c07Twin returns a peer id that differs from p but has the same base58 rendering at both ends (first 8 and last 8
// characters — every abbreviation of a peer id, ShortString() among them, shows the same text for both): one character
// in the middle of the rendering is changed until the result is again a well-formed peer id.
func c07Twin(p peer.ID) peer.ID {
	const alphabet = "123456789ABCDEFGHJKLMNPQRSTUVWXYZabcdefghijkmnopqrstuvwxyz"
	s := p.Pretty()
	for pos := len(s) / 2; pos < len(s)-8; pos++ {
		for _, ch := range alphabet {
			if byte(ch) == s[pos] {
				continue
			}
			t := s[:pos] + string(ch) + s[pos+1:]
			if q, err := peer.Decode(t); err == nil && q != p && q.Pretty() == t {
				return q
			}
		}
	}
	panic("no twin for " + s)
}

// genC07Twins: messages from a peer whose id looks like the coordinator's in every abbreviated rendering (and from the
// look-alike of this relayer itself) are messages from ANOTHER peer: ignored.
func genC07Twins(g *G) {
	sid := c07Sids[0]
	ord := c07Order(c07PeerList("0,1,2"), sid)
	c, self, o := c07Tok(ord[0]), c07Tok(ord[1]), c07Tok(ord[2])
	tc := c07Twin(ord[0]).Pretty()
	alpha := []string{"i" + c, "s" + c + ":1", "f" + c, "i" + tc, "s" + tc + ":2", "x" + tc, "f" + tc, "f" + o}
	c07Seqs(alpha, g.Count(2, 3), func(seq []string) {
		g.Emit("wait", self, hx([]byte(sid)), "0,1,2", joinOr(seq, ";"))
	})
	// second attempt (following the re-elected coordinator / coordinating) and the static coordinator's first attempt
	ord4 := c07Order(c07PeerList("0,1,2,3"), sid)
	hi, lo := c07Tok(ord4[1]), c07Tok(ord4[3])
	thi := c07Twin(ord4[1]).Pretty()
	for _, seq := range []string{"f" + thi, "i" + thi + ";s" + thi + ":4;f" + thi + ";i" + hi + ";f" + thi + ";s" + hi + ":5;f" + thi} {
		g.Emit("retry2", lo, "1", hx([]byte(sid)), "0,1,2,3", "silent", hi, seq)
	}
	t0 := c07Twin(ord4[0]).Pretty()
	for _, seq := range []string{"f" + t0, "r" + hi + ";f" + t0, "f" + t0 + ";r" + hi + ";f" + t0 + ";r" + lo} {
		g.Emit("coord1", "ecdsa", c07Tok(ord4[0]), "1", hx([]byte(sid)), "0,1,2,3", seq)
	}
	for i := 0; i < g.Count(60, 3000); i++ {
		n := 2 + g.Intn(5)
		ps := c07RandPeers(g, n)
		rsid := c07RandSid(g)
		ro := c07Order(c07PeerList(joinOr(ps, ",")), c07Sid(rsid))
		me := c07Tok(ro[1+g.Intn(n-1)])
		co := c07Tok(ro[0])
		twin := c07Twin(ro[0]).Pretty()
		evs := []string{}
		for j, m := 0, 1+g.Intn(7); j < m; j++ {
			from := []string{co, twin, twin, itoa(g.Intn(10))}[g.Intn(4)]
			switch g.Intn(5) {
			case 0:
				evs = append(evs, "i"+from)
			case 1:
				evs = append(evs, "s"+from+":"+itoa(g.Intn(5)))
			default:
				evs = append(evs, "f"+from)
			}
		}
		g.Emit("wait", me, rsid, joinOr(ps, ","), joinOr(evs, ";"))
	}
}

// genC07Net: envelopes through the real receive path; a committee member (and an outsider) writes the coordinator's id
// into the origin field of initiate / start / fail envelopes it sends over its own connection.
func genC07Net(g *G) {
	sid := c07Sids[0]
	ord := c07Order(c07PeerList("0,1,2"), sid)
	c, self, o := c07Tok(ord[0]), c07Tok(ord[1]), c07Tok(ord[2])
	alpha := []string{"i" + c, "i" + o, "i" + o + "@" + c, "s" + c + ":1", "s" + o + ":2", "s" + o + "@" + c + ":3", "x" + o + "@" + c,
		"f" + o, "f" + o + "@" + c, "f" + c, "i" + c + "@" + o, "s7@" + c + ":4", "f" + self + "@" + c}
	c07Seqs(alpha, g.Count(2, 3), func(seq []string) {
		g.Emit("net", self, hx([]byte(sid)), "0,1,2", joinOr(seq, ";"))
	})
	for i := 0; i < g.Count(150, 8000); i++ {
		n := 2 + g.Intn(6)
		ps := c07RandPeers(g, n)
		// (session ids travel inside the JSON envelope: text, as the relayer's own ids are)
		rsid := hx([]byte(g.Pick(c07Sids)))
		if g.Bool() {
			rsid = hx([]byte(itoa(g.Intn(3)) + "-" + itoa(g.Intn(3)) + "-" + itoa(g.Intn(100000)) + "-" + itoa(g.Intn(7))))
		}
		ro := c07Order(c07PeerList(joinOr(ps, ",")), c07Sid(rsid))
		me := c07Tok(ro[1+g.Intn(n-1)])
		co := c07Tok(ro[0])
		evs := []string{}
		for j, m := 0, g.Intn(9); j < m; j++ {
			conn := co
			if g.Intn(3) != 0 {
				conn = itoa(g.Intn(10))
			}
			claim := ""
			switch g.Intn(4) {
			case 0:
				claim = "@" + co
			case 1:
				claim = "@" + itoa(g.Intn(10))
			}
			switch g.Intn(6) {
			case 0, 1:
				evs = append(evs, "i"+conn+claim)
			case 2, 3:
				evs = append(evs, "s"+conn+claim+":"+itoa(g.Intn(5)))
			case 4:
				evs = append(evs, "f"+conn+claim)
			case 5:
				evs = append(evs, "x"+conn+claim)
			}
		}
		g.Emit("net", me, rsid, joinOr(ps, ","), joinOr(evs, ";"))
	}
}

// genC07Retry: the SECOND attempt through the real Execute (static coordinator silent, re-election): forged and genuine
// initiate / start / fail / ready messages while this relayer follows the newly elected coordinator or coordinates itself.
func genC07Retry(g *G) {
	sid := "m1"
	ord := c07Order(c07PeerList("0,1,2,3"), sid) // ord[0] is the silent static coordinator
	c, hi, mid, lo := c07Tok(ord[0]), c07Tok(ord[1]), c07Tok(ord[2]), c07Tok(ord[3])
	// follower (self = lowest, claimant = highest remaining): every single message, pairs on the thorough tier
	alphaW := []string{"i" + hi, "i" + mid, "s" + hi + ":1", "s" + mid + ":2", "x" + mid, "f" + hi, "f" + mid, "f" + c, "x" + hi}
	c07Seqs(alphaW, g.Count(1, 2), func(seq []string) {
		g.Emit("retry2", lo, "1", hx([]byte(sid)), "0,1,2,3", "silent", hi, joinOr(seq, ";"))
	})
	for _, seq := range []string{
		"i" + hi + ";f" + mid + ";s" + hi + ":4;f" + mid + ";f" + hi + ";f" + c,
		"f" + hi + ";i" + hi + ";s" + mid + ":9;f" + lo + ";s" + hi + ":3",
		"f" + mid + ";f" + mid + ";x" + mid + ";i" + mid + ";x" + hi,
	} {
		g.Emit("retry2", lo, "1", hx([]byte(sid)), "0,1,2,3", "silent", hi, seq)
	}
	// coordinator of the second attempt (self = highest remaining, nobody claims): ready and fail messages interleaved
	alphaC := []string{"r" + mid, "r" + lo, "f" + mid, "f" + lo, "f" + c, "r" + c}
	c07Seqs(alphaC, g.Count(2, 3), func(seq []string) {
		g.Emit("retry2", hi, []string{"1", "2"}[len(seq)%2], hx([]byte(sid)), "0,1,2,3", "silent", "-", joinOr(seq, ";"))
	})
	// the first attempt fails in Run with an error that names culprits (tss error) / a coordinator error / a communication
	// error, on the static coordinator and on participants; the culprits report ready again in the second attempt
	for _, self := range []string{c, hi, lo} {
		others := []string{}
		for _, p := range []string{c, hi, mid, lo} {
			if p != self {
				others = append(others, p)
			}
		}
		for fi, first := range []string{"t" + others[0], "t" + others[1] + "+" + others[2], "t" + others[2], "c" + others[1], "m", "t"} {
			for k := 0; k < g.Count(2, 6); k++ {
				evs := []string{}
				perm := c07RandPeers(g, 10)
				for _, p := range perm {
					if p != self && c07Contains(others, p) {
						evs = append(evs, "r"+p)
						if g.Intn(3) == 0 {
							evs = append(evs, "f"+p)
						}
					}
				}
				g.Emit("retry2", self, itoa(1+(fi+k)%2), hx([]byte(sid)), "0,1,2,3", first, "-", joinOr(evs, ";"))
			}
		}
	}
	for i := 0; i < g.Count(24, 400); i++ {
		n := 3 + g.Intn(4)
		ps := c07RandPeers(g, n)
		rsid := c07RandSid(g)
		o := c07Order(c07PeerList(joinOr(ps, ",")), c07Sid(rsid))
		self := o[1+g.Intn(n-1)]
		claimant := "-"
		if g.Intn(4) == 0 { // a listed peer; it is followed only if it ranks above this relayer
			for _, p := range o[1:] {
				if p != self {
					claimant = c07Tok(p)
					break
				}
			}
		}
		evs := []string{}
		for j, m := 0, 1+g.Intn(7); j < m; j++ {
			from := c07Tok(o[g.Intn(n)])
			switch g.Intn(8) {
			case 0:
				evs = append(evs, "i"+from)
			case 1:
				evs = append(evs, "s"+from+":"+itoa(g.Intn(5)))
			case 2, 3, 4:
				evs = append(evs, "f"+from)
			default:
				evs = append(evs, "r"+from)
			}
		}
		first := "silent"
		if g.Intn(3) == 0 {
			first = []string{"t" + c07Tok(o[g.Intn(n)]), "t" + c07Tok(o[g.Intn(n)]) + "+" + c07Tok(o[g.Intn(n)]), "m", "c" + c07Tok(o[g.Intn(n)])}[g.Intn(4)]
			self = o[g.Intn(n)]
			claimant = "-"
		}
		g.Emit("retry2", c07Tok(self), itoa(1+g.Intn(n-2)), rsid, joinOr(ps, ","), first, claimant, joinOr(evs, ";"))
	}
}

func c07Contains(xs []string, x string) bool {
	for _, y := range xs {
		if y == x {
			return true
		}
	}
	return false
}
