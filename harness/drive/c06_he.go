package main

// C06 — HandleEvents level: what actually reaches the message channel.
//   hevm / hsub / hbtc <items>   the three deposit HandleEvents; the harness drains the channel
//   retry2 <items>               EVM RetryV2EventHandler.HandleEvents (one single-message batch per decodable retry event)
//   route <items>                EVM HandleEvents feeding the REAL sygma-core relayer.Relayer (Start → route) with recording chains,
//                                run in a child process: an empty batch makes route index msgs[0] and kills that process
// Output: <classes>|<sends>   sends = batches in canonical order, each `dst.nonce,dst.nonce…`, `E` for an empty batch, `-` = nothing sent.
// (retry1 / subretry in c06.go record the same way.)

import (
	"context"
	"fmt"
	"math/big"
	"os"
	"os/exec"
	"runtime"
	"sort"
	"strings"
	"sync"
	"sync/atomic"
	"time"

	"github.com/ChainSafe/sygma-relayer/chains/evm/calls/consts"
	"github.com/ChainSafe/sygma-relayer/chains/evm/calls/events"
	"github.com/ChainSafe/sygma-relayer/chains/evm/listener/eventHandlers"
	subListener "github.com/ChainSafe/sygma-relayer/chains/substrate/listener"
	"github.com/ChainSafe/sygma-relayer/relayer/retry"
	"github.com/ChainSafe/sygma-relayer/relayer/transfer"
	"github.com/ethereum/go-ethereum/accounts/abi"
	"github.com/ethereum/go-ethereum/common"
	ethTypes "github.com/ethereum/go-ethereum/core/types"
	"github.com/rs/zerolog"
	"github.com/sygmaprotocol/sygma-core/relayer"
	"github.com/sygmaprotocol/sygma-core/relayer/message"
	"github.com/sygmaprotocol/sygma-core/relayer/proposal"
)

// msgKey: the number that identifies a message in the output (deposit nonce, or the block height of a retry message)
func msgKey(m *message.Message) string {
	switch d := m.Data.(type) {
	case transfer.TransferMessageData:
		return utoa(d.DepositNonce)
	case retry.RetryMessageData:
		return d.BlockHeight.String()
	}
	return "?"
}

type sendRec struct {
	dst int
	s   string
}

func renderBatch(ms []*message.Message) sendRec {
	if len(ms) == 0 {
		return sendRec{-1, "E"}
	}
	xs := []string{}
	for _, m := range ms {
		xs = append(xs, fmt.Sprintf("%d.%s", m.Destination, msgKey(m)))
	}
	return sendRec{int(ms[0].Destination), strings.Join(xs, ",")}
}

func renderSends(rs []sendRec) string {
	sort.SliceStable(rs, func(i, j int) bool {
		if rs[i].dst != rs[j].dst {
			return rs[i].dst < rs[j].dst
		}
		return rs[i].s < rs[j].s
	})
	out := []string{}
	for _, r := range rs {
		out = append(out, r.s)
	}
	return joinOr(out, ";")
}

// goroutineDump: id -> (creator id, stack text) of every goroutine alive now.
type gInfo struct {
	parent string
	text   string
}

func goroutineDump() (self string, all map[string]gInfo) {
	buf := make([]byte, 1<<20)
	n := runtime.Stack(buf, true)
	all = map[string]gInfo{}
	for k, blk := range strings.Split(string(buf[:n]), "\n\n") {
		if !strings.HasPrefix(blk, "goroutine ") {
			continue
		}
		id := strings.SplitN(blk[len("goroutine "):], " ", 2)[0]
		if k == 0 {
			self = id // runtime.Stack lists the calling goroutine first
		}
		parent := ""
		if i := strings.LastIndex(blk, " in goroutine "); i >= 0 {
			parent = strings.TrimSpace(strings.SplitN(blk[i+len(" in goroutine "):], "\n", 2)[0])
		}
		all[id] = gInfo{parent, blk}
	}
	return
}

// sendersDone waits until every goroutine that did not exist when `before` was taken — other than the op's own — has finished:
// the senders a HandleEvents spawns, whatever function spawns them and however deep. During an op nothing but the code under
// test starts goroutines in the driver process, so nothing depends on function names; a goroutine that has not been scheduled
// yet is seen too. Exact, not timing dependent; gives up after ~10 s.
func sendersDone(before map[string]bool) bool {
	for i := 0; i < 10000; i++ {
		self, all := goroutineDump()
		left := false
		for id := range all {
			if id != self && !before[id] {
				left = true
			}
		}
		if !left {
			return true
		}
		if i < 20 {
			runtime.Gosched()
		} else {
			time.Sleep(time.Millisecond)
		}
	}
	return false
}

func liveGoroutines() map[string]bool {
	_, all := goroutineDump()
	ids := map[string]bool{}
	for id := range all {
		ids[id] = true
	}
	return ids
}

// collectRaw runs f (a HandleEvents call) with a roomy buffered channel and returns everything that was sent
// (cls = err | panic | stuck when the call did not complete normally).
func collectRaw(f func(ch chan []*message.Message) error) (sent [][]*message.Message, cls string) {
	ch := make(chan []*message.Message, 4096)
	before := liveGoroutines()
	cls = guarded(func() error { return f(ch) })
	if cls != "ok" {
		return nil, cls
	}
	if !sendersDone(before) {
		return nil, "stuck"
	}
	for {
		select {
		case ms := <-ch:
			sent = append(sent, ms)
		default:
			return sent, "ok"
		}
	}
}

func collect(f func(ch chan []*message.Message) error) string {
	sent, cls := collectRaw(f)
	if cls != "ok" {
		return cls
	}
	rs := []sendRec{}
	for _, ms := range sent {
		rs = append(rs, renderBatch(ms))
	}
	return renderSends(rs)
}

var c06RetryABI = func() abi.ABI { a, _ := abi.JSON(strings.NewReader(consts.RetryABI)); return a }()

// retry2 item:  v:<source domain>:<destination domain>:<block height>  |  r:<data hex> (raw log)
func retry2Log(item string) ethTypes.Log {
	f := strings.Split(item, ":")
	switch f[0] {
	case "v":
		h, _ := new(big.Int).SetString(f[3], 10)
		var rid [32]byte
		rid[31] = 1
		data, err := c06RetryABI.Events["Retry"].Inputs.NonIndexed().Pack(uint8(u64(f[1])), uint8(u64(f[2])), h, rid)
		if err != nil {
			panic(err)
		}
		return ethTypes.Log{Address: c06Bridge, Data: data}
	case "r":
		return ethTypes.Log{Address: c06Bridge, Data: unhx(f[1])}
	}
	panic("bad retry2 item " + item)
}

type c06Client2 struct {
	c06Client
	retries2 []ethTypes.Log
}

func (c *c06Client2) FetchEventLogs(ctx context.Context, a common.Address, event string, s, e *big.Int) ([]ethTypes.Log, error) {
	if event == string(events.RetryV2Sig) {
		return c.retries2, nil
	}
	return c.c06Client.FetchEventLogs(ctx, a, event, s, e)
}

// runChild runs one driver line in a child process whose address space is limited to 4 GiB and returns its result,
// `crash` when the child died, `hang` when it did not answer in time.
func runChild(line string, timeout time.Duration) string {
	// a dead or silent child is only reported when it reproduces (a paused VM or a killed process must not look like a finding)
	if r := runChildOnce(line, timeout); r != "hang" && r != "crash" {
		return r
	}
	return runChildOnce(line, timeout)
}

func runChildOnce(line string, timeout time.Duration) string {
	cmd := exec.Command("/bin/sh", "-c", "ulimit -v 4194304; exec \"$0\" -exec", os.Args[0])
	cmd.Stdin = strings.NewReader(line + "\n")
	cmd.Env = os.Environ()
	var buf strings.Builder
	cmd.Stdout = &buf
	if err := cmd.Start(); err != nil {
		panic(err)
	}
	var killed atomic.Bool
	t := time.AfterFunc(timeout, func() { killed.Store(true); cmd.Process.Kill() })
	err := cmd.Wait()
	t.Stop()
	if killed.Load() {
		return "hang"
	}
	if err == nil {
		if i := strings.LastIndex(buf.String(), " => "); i >= 0 {
			return strings.TrimSpace(buf.String()[i+4:])
		}
	}
	return "crash"
}

// runChildBatch runs several driver lines in ONE child (4 GiB address space). ok=false when the child died, ran out of
// time or did not answer every line — the caller then runs the lines one by one to find the culprit.
func runChildBatch(lines []string, timeout time.Duration) (res []string, ok bool) {
	cmd := exec.Command("/bin/sh", "-c", "ulimit -v 4194304; exec \"$0\" -exec", os.Args[0])
	cmd.Stdin = strings.NewReader(strings.Join(lines, "\n") + "\n")
	cmd.Env = os.Environ()
	var buf strings.Builder
	cmd.Stdout = &buf
	if err := cmd.Start(); err != nil {
		panic(err)
	}
	var killed atomic.Bool
	t := time.AfterFunc(timeout, func() { killed.Store(true); cmd.Process.Kill() })
	err := cmd.Wait()
	t.Stop()
	if killed.Load() || err != nil {
		return nil, false
	}
	for _, l := range strings.Split(strings.TrimRight(buf.String(), "\n"), "\n") {
		i := strings.LastIndex(l, " => ")
		if i < 0 {
			return nil, false
		}
		res = append(res, strings.TrimSpace(l[i+4:]))
	}
	return res, len(res) == len(lines)
}

// isoBatch collects cases and runs them in child processes, 100 at a time; lines are written as `C06 iso <op> <args> => <res>`
// (replaying such a line runs the op in a child of its own). After 8 cases that kill or block their child the generator stops.
type isoBatch struct {
	g       *G
	pending [][]string
	dead    int
}

func (b *isoBatch) add(op string, args ...string) {
	for i, a := range args {
		if a == "" {
			args[i] = "-"
		}
	}
	b.pending = append(b.pending, append([]string{op}, args...))
	if len(b.pending) >= 100 {
		b.flush()
	}
}

// runAll runs the lines in one child, falling back to one child per line when the batch fails.
func (b *isoBatch) runAll(lines []string) []string {
	res, ok := runChildBatch(lines, 40*time.Second)
	if ok {
		return res
	}
	out := make([]string, len(lines))
	for i, l := range lines {
		if b.dead >= 8 {
			out[i] = ""
			continue
		}
		out[i] = runChild(l, 4*time.Second)
		if out[i] == "crash" || out[i] == "hang" {
			b.dead++
		}
	}
	return out
}

func (b *isoBatch) write(args []string, res string) {
	if res == "" {
		res = "-"
	}
	b.g.out.WriteString("C06 iso " + strings.Join(args, " ") + " => " + res + "\n")
	b.g.N++
}

// flush: phase 1 classifies the single deposits of every pending case (classify <op> <items>), phase 2 runs the loops with
// the classes as a pass-through argument (<op> <items> <classes>). Two separate child processes: the observation of the single
// deposits cannot be influenced by the loop under test.
func (b *isoBatch) flush() {
	cases := b.pending
	b.pending = nil
	if len(cases) == 0 || b.dead >= 8 {
		return
	}
	cl := make([]string, len(cases))
	for i, c := range cases {
		cl[i] = "C06 classify " + strings.Join(c, " ")
	}
	classes := b.runAll(cl)
	run := []string{}
	idx := []int{}
	for i, c := range cases {
		if classes[i] == "" {
			continue
		}
		b.write(append([]string{"classify"}, c...), classes[i])
		if classes[i] == "crash" || classes[i] == "hang" {
			continue
		}
		run = append(run, "C06 "+strings.Join(c, " ")+" "+classes[i])
		idx = append(idx, i)
	}
	if len(run) > 0 && b.dead < 8 {
		res := b.runAll(run)
		for k, i := range idx {
			if res[k] == "" {
				continue
			}
			b.write(append(append([]string{}, cases[i]...), classes[i]), res[k])
		}
	}
	b.g.out.Flush()
}

// ---- recording relayed chain for the route op

type recChain struct {
	id     uint8
	mu     *sync.Mutex
	writes *[]sendRec
}

func (c *recChain) PollEvents(ctx context.Context) {}
func (c *recChain) ReceiveMessage(m *message.Message) (*proposal.Proposal, error) {
	return proposal.NewProposal(m.Source, m.Destination, msgKey(m), m.ID, transfer.TransferProposalType), nil
}
func (c *recChain) Write(ps []*proposal.Proposal) error {
	xs := []string{}
	for _, p := range ps {
		xs = append(xs, fmt.Sprintf("%d.%s", p.Destination, p.Data.(string)))
	}
	c.mu.Lock()
	*c.writes = append(*c.writes, sendRec{int(c.id), strings.Join(xs, ",")})
	c.mu.Unlock()
	return nil
}
func (c *recChain) DomainID() uint8 { return c.id }

type recTracker struct {
	mu       *sync.Mutex
	finished *int
}

func (t *recTracker) TrackMessages(msgs []*message.Message, status message.MessageStatus) {
	if status == message.SuccessfulMessage {
		t.mu.Lock()
		*t.finished++
		t.mu.Unlock()
	}
}

func evmHandlerFor(its []string) (*eventHandlers.DepositEventHandler, func(ch chan []*message.Message) *eventHandlers.DepositEventHandler) {
	mk := func(ch chan []*message.Message) *eventHandlers.DepositEventHandler {
		cl := &c06Client{}
		for _, it := range its {
			cl.deposits = append(cl.deposits, evmLog(it, nil))
		}
		return eventHandlers.NewDepositEventHandler(events.NewListener(cl), c06EthHandler(), c06Bridge, 1, ch)
	}
	return nil, mk
}

func init() {
	ops["C06.hevm"] = func(a []string) string {
		its := items(a[0], ";")
		classes := []string{}
		for _, it := range its {
			it := it
			classes = append(classes, clsOf(func() string { return evmClass(evmLog(it, nil), nil) }))
		}
		_, mk := evmHandlerFor(its)
		return c06Result(joinOr(classes, ","), func() string {
			return collect(func(ch chan []*message.Message) error {
				return mk(ch).HandleEvents(big.NewInt(1), big.NewInt(2))
			})
		})
	}
	ops["C06.hsub"] = func(a []string) string {
		conn := &c06SubConn{}
		classes := []string{}
		for _, it := range items(a[0], ";") {
			it := it
			classes = append(classes, clsOf(func() string { return subClass(it) }))
			conn.evts = append(conn.evts, subEvent(it))
		}
		return c06Result(joinOr(classes, ","), func() string {
			return collect(func(ch chan []*message.Message) error {
				return subListener.NewFungibleTransferEventHandler(zerolog.Nop().With(), 1, subHandler(), ch, conn).HandleEvents(big.NewInt(1), big.NewInt(2))
			})
		})
	}
	ops["C06.hbtc"] = func(a []string) string {
		conn := &c06BtcConn{}
		classes := []string{}
		for i, it := range items(a[0], ";") {
			i, it := i, it
			conn.txs = append(conn.txs, btcTx(i, it))
			classes = append(classes, clsOf(func() string { return btcClass(btcTx(i, it)) }))
		}
		return c06Result(joinOr(classes, ","), func() string {
			return collect(func(ch chan []*message.Message) error {
				return btcHandler(conn, ch).HandleEvents(big.NewInt(100))
			})
		})
	}
	ops["C06.retry2"] = func(a []string) string {
		cl := &c06Client2{}
		classes := []string{}
		for _, it := range items(a[0], ";") {
			lg := retry2Log(it)
			cl.retries2 = append(cl.retries2, lg)
			// the event on its own, through the real listener
			classes = append(classes, clsOf(func() string {
				var evs []events.RetryV2Event
				cls := guarded(func() error {
					var err error
					evs, err = events.NewListener(&c06Client2{retries2: []ethTypes.Log{lg}}).FetchRetryV2Events(context.Background(), c06Bridge, big.NewInt(1), big.NewInt(2))
					return err
				})
				switch {
				case cls == "panic":
					return "ppanic"
				case cls == "err" || len(evs) == 0:
					return "perr"
				}
				return fmt.Sprintf("ok.%d.%s", evs[0].SourceDomainID, evs[0].BlockHeight.String())
			}))
		}
		return c06Result(joinOr(classes, ","), func() string {
			return collect(func(ch chan []*message.Message) error {
				return eventHandlers.NewRetryV2EventHandler(zerolog.Nop().With(), events.NewListener(cl), c06Bridge, 1, ch).HandleEvents(big.NewInt(1), big.NewInt(2))
			})
		})
	}
	// routechild: runs in a child process (see route). Prints the batches the destination chains were asked to write.
	ops["C06.routechild"] = func(a []string) string {
		its := items(a[0], ";")
		_, mk := evmHandlerFor(its)
		// phase 1: the real HandleEvents; everything it puts on the channel
		sent, cls := collectRaw(func(ch chan []*message.Message) error {
			return mk(ch).HandleEvents(big.NewInt(1), big.NewInt(2))
		})
		if cls != "ok" {
			return cls
		}
		// phase 2: exactly these batches into the real Relayer (Start → go route(batch)); every route call that returns
		// reports its batch as successful exactly once (all 256 destinations are registered, ReceiveMessage never fails)
		var mu sync.Mutex
		writes := []sendRec{}
		finished := 0
		chains := map[uint8]relayer.RelayedChain{}
		for id := 0; id < 256; id++ {
			chains[uint8(id)] = &recChain{id: uint8(id), mu: &mu, writes: &writes}
		}
		ch := make(chan []*message.Message)
		r := relayer.NewRelayer(chains, &recTracker{&mu, &finished})
		ctx, cancel := context.WithCancel(context.Background())
		defer cancel()
		go r.Start(ctx, ch)
		for _, b := range sent {
			ch <- b
		}
		for i := 0; ; i++ {
			mu.Lock()
			done := finished == len(sent)
			mu.Unlock()
			if done {
				break
			}
			if i > 10000 {
				return "stuck"
			}
			time.Sleep(time.Millisecond)
		}
		mu.Lock()
		defer mu.Unlock()
		return renderSends(writes)
	}
	ops["C06.route"] = func(a []string) string {
		classes := []string{}
		for _, it := range items(a[0], ";") {
			it := it
			classes = append(classes, clsOf(func() string { return evmClass(evmLog(it, nil), nil) }))
		}
		return c06Result(joinOr(classes, ","), func() string { return runChild("C06 routechild "+a[0], 15*time.Second) })
	}
	// classify <op> <items>: only the single-deposit observation of <op>, the loop under test is not run
	ops["C06.classify"] = func(a []string) string {
		f, ok := ops["C06."+a[0]]
		if !ok || a[0] == "iso" || a[0] == "classify" || a[0] == "routechild" {
			panic("bad inner op")
		}
		c06Phase = "classes"
		defer func() { c06Phase = "" }()
		return f([]string{a[1]})
	}
	// iso <op> <items>: the whole op (observation of the single deposits included) in a memory-bounded child process with a
	// short deadline. Whatever a deposit does that no recover() can catch — a fatal out-of-memory, a stack overflow, an
	// endless loop — shows as `crash` / `hang` here instead of taking the driver down.
	ops["C06.iso"] = func(a []string) string {
		if _, ok := ops["C06."+a[0]]; !ok || a[0] == "iso" {
			panic("bad inner op")
		}
		return runChild("C06 "+strings.Join(a, " "), 4*time.Second)
	}
	for _, k := range []string{"hevm", "hsub", "hbtc", "retry2", "route"} {
		ops["C06."+k] = c06Wrap(ops["C06."+k])
	}
}
