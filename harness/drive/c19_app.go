package main

// C19 / C05 — the start-block wiring of app.Run as BEHAVIOUR: the real app.Run() is booted with a generated config
// (several EVM domains of one process = differently started scanners of one chain) against a fake JSON-RPC node, and
// the first block ranges each domain asks the node for are observed.
// app.Run can be booted only once per process (it registers /health on the default mux, listens on ports, never
// returns), so `appboot` re-executes this driver binary with the one-line op `appbootchild` and reads its answer.

import (
	"bytes"
	"encoding/json"
	"fmt"
	"io"
	"math/big"
	"net"
	"net/http"
	"net/http/httptest"
	"os"
	"os/exec"
	"path/filepath"
	"strconv"
	"strings"
	"sync"
	"time"

	"github.com/ChainSafe/sygma-relayer/app"
	"github.com/ChainSafe/sygma-relayer/topology"
	"github.com/spf13/viper"
	"github.com/sygmaprotocol/sygma-core/store"
	"github.com/sygmaprotocol/sygma-core/store/lvldb"
)

// a libp2p private key (protobuf, base64) for the relayer's host — the fixture the repository's own example configs use
const c19AppKey = "CAASpwkwggSjAgEAAoIBAQDVGgUufcOR+u/KjuifMbWbEy4F18250ua3/+PO2eSn/mNRhPp2KCWZJcbVvcvfmsrUG9rJC9DMeUZqttTGSF4/ZaNzzvW0b3Ij2NsI9F+R9HKfsbak8NT8z4nLlWF6V2JuZAD8papG+S60k97278kTPIDZZ+S1ZzH/ViFG/5eu26bNylU27AjL4tTRivXSW6hqlem/RnuPdHNtHqBmw2pAAsV/CZJjmibsk6wQJAMH5/o453rW5v2Ntc0rkGH0leszk9DUJoALr/623MP4re4ZsNPIoZE+ieU4sbM0d8vkbxs4BRcnAa075X8dX8KTl88MiA+AxW9nkW+X2Sn0XI1/AgMBAAECggEBAMNghduoJoRSo0L9Xz2FX9F79jgZMV7rg+iyzXQ6xa9YRkrZNqDaEg6lWfVhe+fYjZmGqEKneJnfnrX8Rnw8oVxSnVdyKkdx3h4LllZRZsX0bpsHXkM/IqdeyCFFJgf60h4Pxe/dG47SqwWYhVW1Zo8ia6fn3wKKSIanuv7TG4iN4Zd1T+joPF9ACq5zYqVBN0nwHTTrMdBjwWOo8jguLXwRgNw1j2qTcTfDvhfkHKXNVm2QMul8DOWZOpHPnFdp1pPu6lAuHyDUvfbA3RLIh2T//iuSWNiHw1bYXhQMcOeB0rqhISEE/qFNHC/9lzCqVoDTP4YfU0SV0ezx4Vgu9zECgYEA8K++vpfezsBEEvtl5iG2NfvqypC6rQrrt4WWEgvskRrNRY4NUeXC3CJpH6ItOwruIv0NTQz10RoH+d6m7isOoUHCSHKFVcePdDcFJXlQf8WN99vFATB39ItfL+fepLqKSZ8+dh59pq+76ewdvStZXhV3Idjcx3L/D2RIVj0nzUUCgYEA4qj6cCOUfEyeE2YIOJ0+iP3GUPu90pNWTpS5R8UE7GBgHCSqBlNpIcoaOzDVJWN30OYVoyBBxfYaTGx5L5adMCtQCUaSuYlCb0Sd8L6v5cnKNXm9Mdd7L19y9RamGdzGS4pkkatG8Gzod3DESXbcEYg5djn/8meeirFoDV6IsfMCgYAH7sLqpTbCubOErKR/IT1QKi1i38JHUcTTF6QKlDoHzkpVsIjf2iLB/qBYWpADEiknHhACKhsv+RuqMJxv3RtuVSyCFsQuP5WKzwVsZsMwcuJq+ONVVrOda7qHaaz84OkN5CG64uZhSAl5fD6+rV8UqsBybSNZr4CYkUWREhLtwQKBgHEGIhvZIin5arnxnxfcEVrucP3hCn7+yYLV1q5bKGFWjZZ7Ee2lmj8nMH1jlGXYe97HXPLDGwlD90k0rhl02V0zu+1kK7YpI9+oL7nk3IGRZivUUOuRr/OnfQOKD7nFxXvVvuCEsBMju6gTq02W35Y+f6jcsyyFTyGJ5YEFKtTRAoGAG/7OBEetoNyWTvMQ6w5HjQkz66n05DoUKFJ44T6ia1vlZCacZ5F7T1S0eMo3zlUp8F/Kz1VxmG3UlsiX3RMf9qiOh+HFIGI6lAtNojHn4jdXpCxTRHecu9GDmds8/7MLemJvoJ4oo3I1n/PyEA9fUMJn07MTGMAABw2IkcOS0dw="

type c19AppNode struct {
	mu     sync.Mutex
	head   int64               // head while the relayer boots and until the domains with a start block have scanned
	head1  int64               // head afterwards (so that a domain started at the head gets something to scan)
	nBoot  int                 // head reads app.Run itself makes (one per `latest` domain), all before any listener runs
	nHead  int                 // head reads so far
	eager  []string            // bridges of the domains that have a start block
	ranges map[string][]string // bridge address -> distinct consecutive "from-to"
}

// headNow: count-based, not time-based — the boot reads see `head`, the listeners see `head` until every domain that
// has a start block has asked for two ranges, and `head1` from then on.
func (n *c19AppNode) headNow() int64 {
	n.mu.Lock()
	defer n.mu.Unlock()
	n.nHead++
	if n.nHead <= n.nBoot {
		return n.head
	}
	for _, b := range n.eager {
		if len(n.ranges[b]) < 2 {
			return n.head
		}
	}
	return n.head1
}

func (n *c19AppNode) ServeHTTP(w http.ResponseWriter, r *http.Request) {
	body, _ := io.ReadAll(r.Body)
	var req struct {
		ID     json.RawMessage   `json:"id"`
		Method string            `json:"method"`
		Params []json.RawMessage `json:"params"`
	}
	_ = json.Unmarshal(body, &req)
	var result interface{}
	switch req.Method {
	case "eth_chainId":
		result = "0x1"
	case "eth_blockNumber":
		result = "0x" + strconv.FormatInt(n.head, 16)
	case "eth_getBlockByNumber":
		result = map[string]interface{}{"number": "0x" + strconv.FormatInt(n.headNow(), 16)}
	case "eth_getLogs":
		var q struct {
			FromBlock string      `json:"fromBlock"`
			ToBlock   string      `json:"toBlock"`
			Address   interface{} `json:"address"`
		}
		_ = json.Unmarshal(req.Params[0], &q)
		dec := func(s string) string {
			v, err := strconv.ParseInt(strings.TrimPrefix(s, "0x"), 16, 64)
			if err != nil {
				return "?" + s
			}
			return strconv.FormatInt(v, 10)
		}
		rg := dec(q.FromBlock) + "-" + dec(q.ToBlock)
		addr := strings.ToLower(fmt.Sprint(q.Address))
		n.mu.Lock()
		for k := range n.ranges {
			if strings.Contains(addr, k) {
				if l := n.ranges[k]; len(l) == 0 || l[len(l)-1] != rg {
					n.ranges[k] = append(n.ranges[k], rg)
				}
			}
		}
		n.mu.Unlock()
		result = []interface{}{}
	case "eth_gasPrice", "eth_maxPriorityFeePerGas":
		result = "0x1"
	}
	w.Header().Set("Content-Type", "application/json")
	_ = json.NewEncoder(w).Encode(map[string]interface{}{"jsonrpc": "2.0", "id": req.ID, "result": result})
}

func c19FreePort() int {
	l, err := net.Listen("tcp", "127.0.0.1:0")
	if err != nil {
		panic(err)
	}
	defer l.Close()
	return l.Addr().(*net.TCPAddr).Port
}

func init() {
	// appboot <interval> <conf> <head> <domains>   domains ','-separated: c<start> (configured start) | s<stored>
	//   (cursor found in the block store, configured start 0) | L (`latest`: start at the head)
	//   =>  per domain the first two ranges asked of the node, `from-to+from-to`, ';'-separated
	ops["C19.appboot"] = func(a []string) string {
		exe, err := os.Executable()
		if err != nil {
			panic(err)
		}
		// the child's scratch directory is created and removed HERE: the booted application keeps writing to its block
		// store until the child process is gone
		dir, err := os.MkdirTemp("", "verif-c19-app-")
		if err != nil {
			panic(err)
		}
		defer os.RemoveAll(dir)
		cmd := exec.Command(exe, "-exec")
		cmd.Stdin = strings.NewReader("C19 appbootchild " + strings.Join(a, " ") + "\n")
		var out bytes.Buffer
		cmd.Stdout = &out
		cmd.Env = append(os.Environ(), "VERIF_C19_APPDIR="+dir)
		done := make(chan error, 1)
		if err := cmd.Start(); err != nil {
			return "spawn-failed"
		}
		go func() { done <- cmd.Wait() }()
		select {
		case <-done:
		case <-time.After(100 * time.Second):
			_ = cmd.Process.Kill()
			return "boot-timeout"
		}
		for _, l := range strings.Split(out.String(), "\n") {
			if i := strings.Index(l, " => "); i >= 0 && strings.HasPrefix(l, "C19 appbootchild") {
				return l[i+4:]
			}
		}
		return "no-answer"
	}
	ops["C19.appbootchild"] = func(a []string) string {
		interval, conf, head := i64(a[0]), i64(a[1]), i64(a[2])
		doms := items(a[3], ",")
		node := &c19AppNode{head: head, head1: head + 4*interval + conf + 3, ranges: map[string][]string{}}
		srv := httptest.NewServer(node)
		dir := os.Getenv("VERIF_C19_APPDIR")
		if dir == "" {
			return "no-scratch-dir" // only meant to be run by `appboot`
		}
		topologyPath := filepath.Join(dir, "topology.json")
		var err error
		if err = topology.NewTopologyStore(topologyPath).StoreTopology(&topology.NetworkTopology{Threshold: 1}); err != nil {
			panic(err)
		}
		dbPath := filepath.Join(dir, "lvldb")
		domains := []interface{}{}
		bridges := []string{}
		var db *lvldb.LVLDB
		for i, d := range doms {
			bridge := fmt.Sprintf("0x00000000000000000000000000000000000000%02x", 0xa0+i)
			bridges = append(bridges, bridge)
			node.ranges[bridge] = nil
			dom := map[string]interface{}{
				"id": i + 1, "name": fmt.Sprintf("evm%d", i+1), "type": "evm", "endpoint": srv.URL, "bridge": bridge,
				"key":        "a5fca6b6b7ac1be2e8f8f39e7c38722216c655a1c4504c29e43ebb7e21f14937",
				"startBlock": 0, "blockInterval": interval, "blockConfirmations": conf, "blockRetryInterval": 1,
			}
			switch d[0] {
			case 'c':
				dom["startBlock"] = i64(d[1:])
			case 's':
				if db == nil {
					if db, err = lvldb.NewLvlDB(dbPath); err != nil {
						panic(err)
					}
				}
				if err := store.NewBlockStore(db).StoreBlock(big.NewInt(i64(d[1:])), uint8(i+1)); err != nil {
					panic(err)
				}
			case 'L':
				dom["latest"] = true
				node.nBoot++
			}
			if d[0] != 'L' {
				node.eager = append(node.eager, bridge)
			}
			domains = append(domains, dom)
		}
		if db != nil {
			db.Close()
		}
		cfg := map[string]interface{}{
			"relayer": map[string]interface{}{
				"logLevel":   "disabled",
				"healthPort": strconv.Itoa(c19FreePort()),
				"mpcConfig": map[string]interface{}{
					"port": strconv.Itoa(c19FreePort()), "key": c19AppKey,
					"keysharePath": filepath.Join(dir, "k.keyshare"), "frostKeysharePath": filepath.Join(dir, "f.keyshare"),
					"topologyConfiguration":   map[string]interface{}{"path": topologyPath, "url": "http://127.0.0.1:1/t", "encryptionKey": "0123456789abcdef"},
					"commHealthCheckInterval": "24h",
				},
				"opentelemetryCollectorURL": "http://127.0.0.1:1",
			},
			"domains": domains,
		}
		raw, _ := json.Marshal(cfg)
		cfgPath := filepath.Join(dir, "config.json")
		if err := os.WriteFile(cfgPath, raw, 0600); err != nil {
			panic(err)
		}
		viper.Set("config", cfgPath)
		viper.Set("blockstore", dbPath)
		viper.Set("name", "verif-c19")
		// whatever the application prints must not end up in this driver's answer
		realStdout := os.Stdout
		if devnull, err := os.OpenFile(os.DevNull, os.O_WRONLY, 0); err == nil {
			os.Stdout = devnull
		}
		failed := make(chan string, 1)
		go func() {
			defer func() {
				if r := recover(); r != nil {
					failed <- fmt.Sprint("boot-panic:", strings.ReplaceAll(fmt.Sprint(r), " ", "_"))
				}
			}()
			_ = app.Run()
		}()
		deadline := time.After(80 * time.Second)
		res := ""
	wait:
		for {
			node.mu.Lock()
			ok := true
			for _, b := range bridges {
				if len(node.ranges[b]) < 2 {
					ok = false
				}
			}
			node.mu.Unlock()
			if ok {
				break
			}
			select {
			case f := <-failed:
				res = f
				break wait
			case <-deadline:
				res = "no-scan"
				break wait
			case <-time.After(20 * time.Millisecond):
			}
		}
		os.Stdout = realStdout
		quietLogs()
		if res != "" {
			return res
		}
		out := []string{}
		node.mu.Lock()
		for _, b := range bridges {
			out = append(out, strings.Join(node.ranges[b][:2], "+"))
		}
		node.mu.Unlock()
		return strings.Join(out, ";")
	}
}
