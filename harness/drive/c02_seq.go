package main

// C02 — the outermost entry points and long-lived objects around the digest:
//   watchsig  : the REAL watchExecution loop (EVM / Substrate, accessor hook, poll period shortened through an accessor) sees
//               scripted "already executed?" sweeps BEFORE the signature arrives; what reaches ExecuteProposals is compared
//               with the batch that was handed in (= the batch that was hashed), and the caller's slice must be untouched.
//   execwatch : the REAL Execute of both executors with a REAL tss.Coordinator whose communication is mute (nobody answers,
//               all time-outs are hours). Every batch is hashed, a signing session is created from the repository's key share
//               fixture, and its watcher polls the destination; the fake destination reports "executed" for whatever it is
//               asked, which ends each watcher after exactly one sweep over ITS batch. Which proposals were hashed and which
//               were polled is the observation (event driven; nothing depends on timing).
//   bseq      : ONE BridgeContract / Pallet object lives through a sequence of calls (handler lookup, executed lookup,
//               submissions, retries, hashing of several batches); every digest is compared with the history-free model and
//               the contract address is read back at the end.

import (
	"bytes"
	"context"
	"errors"
	"math/big"
	"sort"
	"strings"
	"sync"
	"time"

	"github.com/ChainSafe/sygma-relayer/chains/evm/calls/consts"
	evmbridge "github.com/ChainSafe/sygma-relayer/chains/evm/calls/contracts/bridge"
	evmexec "github.com/ChainSafe/sygma-relayer/chains/evm/executor"
	subexec "github.com/ChainSafe/sygma-relayer/chains/substrate/executor"
	"github.com/ChainSafe/sygma-relayer/chains/substrate/pallet"
	"github.com/ChainSafe/sygma-relayer/comm"
	"github.com/ChainSafe/sygma-relayer/comm/elector"
	"github.com/ChainSafe/sygma-relayer/keyshare"
	"github.com/ChainSafe/sygma-relayer/relayer/transfer"
	"github.com/ChainSafe/sygma-relayer/tss"
	tsscommon "github.com/binance-chain/tss-lib/common"
	"github.com/centrifuge/go-substrate-rpc-client/v4/rpc/author"
	"github.com/centrifuge/go-substrate-rpc-client/v4/types"
	"github.com/ethereum/go-ethereum/accounts/abi"
	ethCommon "github.com/ethereum/go-ethereum/common"
	"github.com/ethereum/go-ethereum/common/hexutil"
	"github.com/libp2p/go-libp2p/core/host"
	"github.com/libp2p/go-libp2p/core/peer"
	"github.com/libp2p/go-libp2p/core/peerstore"
	"github.com/libp2p/go-libp2p/p2p/host/peerstore/pstoremem"
	"github.com/sygmaprotocol/sygma-core/chains/evm/transactor"
	subclient "github.com/sygmaprotocol/sygma-core/chains/substrate/client"
	"github.com/sygmaprotocol/sygma-core/relayer/proposal"
)

// ------------------------------------------------------------------------------------------------ shared fakes

type c02Host struct {
	host.Host
	id peer.ID
	ps peerstore.Peerstore
}

func (h *c02Host) ID() peer.ID                    { return h.id }
func (h *c02Host) Peerstore() peerstore.Peerstore { return h.ps }

func c02NewHost(id peer.ID) *c02Host {
	ps, err := pstoremem.NewPeerstore()
	if err != nil {
		panic(err)
	}
	return &c02Host{id: id, ps: ps}
}

// c02MuteComm: nothing is ever delivered, every send "succeeds".
type c02MuteComm struct {
	mu sync.Mutex
	n  int
}

func (c *c02MuteComm) CloseSession(string) {}
func (c *c02MuteComm) Broadcast(peer.IDSlice, []byte, comm.MessageType, string) error {
	return nil
}
func (c *c02MuteComm) Subscribe(sid string, t comm.MessageType, ch chan *comm.WrappedMessage) comm.SubscriptionID {
	return comm.NewSubscriptionID(sid, t)
}
func (c *c02MuteComm) UnSubscribe(comm.SubscriptionID) {}

func c02Nonces(ps []*transfer.TransferProposal) string {
	xs := []string{}
	for _, p := range ps {
		xs = append(xs, utoa(p.Data.DepositNonce))
	}
	return joinOr(xs, ",")
}

// c02Members: n proposals, deposit nonce = member index.
func c02Members(n int) []*transfer.TransferProposal {
	ps := []*transfer.TransferProposal{}
	for i := 0; i < n; i++ {
		ps = append(ps, &transfer.TransferProposal{Source: 1, Destination: 2, MessageID: "m",
			Data: transfer.TransferProposalData{DepositNonce: uint64(i), Data: []byte{byte(i)}}})
	}
	return ps
}

// ------------------------------------------------------------------------------------------------ watchsig

// c02WatchChain answers IsProposalExecuted sweep by sweep from a script; when the script is used up it lets the
// signature arrive. A lookup for a member index not larger than the previous one starts the next sweep.
type c02WatchChain struct {
	mu        sync.Mutex
	script    []string
	tick      int
	last      int
	sigChn    chan interface{}
	after     string // answers once the scripted sweeps are used up (while the signature is on its way / being submitted)
	sent      bool
	submitted []string
	cancel    context.CancelFunc
}

func (c *c02WatchChain) isExecuted(p *transfer.TransferProposal) (bool, error) {
	c.mu.Lock()
	defer c.mu.Unlock()
	idx := int(p.Data.DepositNonce)
	if c.last >= 0 && idx <= c.last {
		c.tick++
	}
	c.last = idx
	if c.tick >= len(c.script) {
		c.release()
		return idx < len(c.after) && c.after[idx] == 'e', nil
	}
	v := c.script[c.tick]
	if idx >= len(v) {
		return false, nil
	}
	switch v[idx] {
	case 'e':
		return true, nil
	case 'x':
		return false, errors.New("lookup failed")
	}
	return false, nil
}

// release lets the signature arrive (once). Caller holds mu.
func (c *c02WatchChain) release() {
	if !c.sent {
		c.sent = true
		go func() {
			c.sigChn <- &tsscommon.SignatureData{R: []byte{1}, S: []byte{2}, SignatureRecovery: []byte{0}}
		}()
	}
}

func (c *c02WatchChain) submit(ps []*transfer.TransferProposal, gas string, sig []byte) {
	c.mu.Lock()
	defer c.mu.Unlock()
	c.submitted = append(c.submitted, c02Nonces(ps)+"/"+gas+"/"+itoa(len(sig)))
	c.cancel()
}

type c02WatchBridge struct{ c *c02WatchChain }

func (b c02WatchBridge) IsProposalExecuted(p *transfer.TransferProposal) (bool, error) {
	return b.c.isExecuted(p)
}
func (b c02WatchBridge) ProposalsHash(ps []*transfer.TransferProposal) ([]byte, error) {
	return nil, errors.New("not reached")
}
func (b c02WatchBridge) ExecuteProposals(ps []*transfer.TransferProposal, sig []byte, opts transactor.TransactOptions) (*ethCommon.Hash, error) {
	b.c.submit(ps, utoa(opts.GasLimit), sig)
	return &ethCommon.Hash{}, nil
}

type c02WatchPallet struct{ c *c02WatchChain }

func (b c02WatchPallet) IsProposalExecuted(p *transfer.TransferProposal) (bool, error) {
	return b.c.isExecuted(p)
}
func (b c02WatchPallet) ProposalsHash(ps []*transfer.TransferProposal) ([]byte, error) {
	return nil, errors.New("not reached")
}
func (b c02WatchPallet) ExecuteProposals(ps []*transfer.TransferProposal, sig []byte) (types.Hash, *author.ExtrinsicStatusSubscription, error) {
	b.c.submit(ps, "-", sig)
	return types.Hash{}, nil, nil
}
func (b c02WatchPallet) TrackExtrinsic(h types.Hash, sub *author.ExtrinsicStatusSubscription) error {
	return nil
}

// ------------------------------------------------------------------------------------------------ execwatch

// c02ExecChain: "pending" while the delivery is being batched, "executed" for every poll after the first hash;
// records what was hashed and how often each member was polled afterwards.
type c02ExecChain struct {
	mu        sync.Mutex
	hashed    []string
	polls     map[uint64]int
	hashOn    bool
	before    map[uint64]bool // executed already when the delivery arrives
	failHash  map[uint64]bool // ProposalsHash fails for a batch that contains one of these
	reorder   bool            // the first executed-lookup gives way to any lookup that is in flight at the same time
	lookups   int
	completed int
}

func (c *c02ExecChain) isExecuted(p *transfer.TransferProposal) (bool, error) {
	c.mu.Lock()
	if !c.hashOn {
		first := c.lookups == 0
		c.lookups++
		if c.reorder && first {
			// A destination whose answers do not come back in request order: if further lookups are issued while this
			// one is outstanding (they can only be if the caller issues them concurrently), they are answered first.
			// A caller that looks up one proposal after the other is not affected (nothing else is in flight; it waits
			// the 30 ms and goes on).
			c0 := c.completed
			c.mu.Unlock()
			for t := 0; t < 30; t++ {
				time.Sleep(time.Millisecond)
				c.mu.Lock()
				moved := c.completed > c0
				c.mu.Unlock()
				if moved {
					time.Sleep(5 * time.Millisecond) // let the others that are in flight complete as well
					break
				}
			}
			c.mu.Lock()
		}
		c.completed++
		r := c.before[p.Data.DepositNonce]
		c.mu.Unlock()
		return r, nil
	}
	defer c.mu.Unlock()
	c.polls[p.Data.DepositNonce]++
	return true, nil
}
func (c *c02ExecChain) hash(ps []*transfer.TransferProposal) ([]byte, error) {
	c.mu.Lock()
	defer c.mu.Unlock()
	c.hashOn = true
	for _, p := range ps {
		if c.failHash[p.Data.DepositNonce] {
			c.hashed = append(c.hashed, "!"+c02Nonces(ps))
			return []byte{}, errors.New("eth_chainId failed")
		}
	}
	c.hashed = append(c.hashed, c02Nonces(ps))
	return bytes.Repeat([]byte{0x5a}, 32), nil
}

type c02ExecBridge struct{ c *c02ExecChain }

func (b c02ExecBridge) IsProposalExecuted(p *transfer.TransferProposal) (bool, error) {
	return b.c.isExecuted(p)
}
func (b c02ExecBridge) ProposalsHash(ps []*transfer.TransferProposal) ([]byte, error) {
	return b.c.hash(ps)
}
func (b c02ExecBridge) ExecuteProposals(ps []*transfer.TransferProposal, sig []byte, opts transactor.TransactOptions) (*ethCommon.Hash, error) {
	return nil, errors.New("no signature can arrive in this rig")
}

type c02ExecPallet struct{ c *c02ExecChain }

func (b c02ExecPallet) IsProposalExecuted(p *transfer.TransferProposal) (bool, error) {
	return b.c.isExecuted(p)
}
func (b c02ExecPallet) ProposalsHash(ps []*transfer.TransferProposal) ([]byte, error) {
	return b.c.hash(ps)
}
func (b c02ExecPallet) ExecuteProposals(ps []*transfer.TransferProposal, sig []byte) (types.Hash, *author.ExtrinsicStatusSubscription, error) {
	return types.Hash{}, nil, errors.New("no signature can arrive in this rig")
}
func (b c02ExecPallet) TrackExtrinsic(h types.Hash, sub *author.ExtrinsicStatusSubscription) error {
	return nil
}

// ------------------------------------------------------------------------------------------------ bseq

// c02CallClient answers eth_call by method selector and records nothing else.
type c02CallClient struct {
	c02Client
	ab      abi.ABI
	handler ethCommon.Address
}

func (c *c02CallClient) From() ethCommon.Address { return ethCommon.HexToAddress("0x00000000000000000000000000000000000000f1") }
func (c *c02CallClient) CodeAt(ctx context.Context, a ethCommon.Address, n *big.Int) ([]byte, error) {
	return []byte{1}, nil
}
func (c *c02CallClient) CallContract(ctx context.Context, args map[string]interface{}, n *big.Int) ([]byte, error) {
	data, _ := args["data"].(hexutil.Bytes)
	if len(data) < 4 {
		return nil, errors.New("no selector")
	}
	switch {
	case bytes.Equal(data[:4], c.ab.Methods["_resourceIDToHandlerAddress"].ID):
		return ethCommon.LeftPadBytes(c.handler.Bytes(), 32), nil
	case bytes.Equal(data[:4], c.ab.Methods["isProposalExecuted"].ID):
		return ethCommon.LeftPadBytes([]byte{1}, 32), nil
	}
	return nil, errors.New("unexpected call")
}

func init() {
	// watchsig <evm|sub> <n> <sweeps '/'-separated, each a word of length n over p|e|x, or -> <gas> <after>
	//   after: a word over p|e (not all e) answered to every lookup once the scripted sweeps are used up, i.e. while the
	//   signature is on its way and at submission time
	//   => closed|caller=<nonces>                 the loop ended as "already executed" before any signature
	//      sub:<nonces>/<gas>/<sig len>|caller=…  what ExecuteProposals received, and the caller's slice afterwards
	ops["C02.watchsig"] = func(a []string) string {
		n := int(u64(a[1]))
		ctx, cancel := context.WithTimeout(context.Background(), 15*time.Second)
		defer cancel()
		sigChn := make(chan interface{})
		ch := &c02WatchChain{script: items(a[2], "/"), last: -1, sigChn: sigChn, cancel: cancel}
		if len(a) > 4 && a[4] != "-" {
			ch.after = a[4]
		}
		ps := c02Members(n)
		h, cm := c02NewHost("self"), &c02MuteComm{}
		var err error
		if a[0] == "evm" {
			old := evmexec.VerifC02SetCheckPeriod(time.Millisecond)
			e := evmexec.NewExecutor(h, cm, nil, c02WatchBridge{ch}, nil, &sync.RWMutex{}, 1000, 60)
			err = e.VerifC02WatchExecution(ctx, func() {}, ps, u64(a[3]), sigChn, "m-0", "m")
			evmexec.VerifC02SetCheckPeriod(old)
		} else {
			old := subexec.VerifC02SetCheckPeriod(time.Millisecond)
			e := subexec.NewExecutor(h, cm, nil, c02WatchPallet{ch}, nil, nil, &sync.RWMutex{})
			err = e.VerifC02WatchExecution(ctx, func() {}, ps, sigChn, "m")
			subexec.VerifC02SetCheckPeriod(old)
		}
		ch.mu.Lock()
		defer ch.mu.Unlock()
		caller := "|caller=" + c02Nonces(ps)
		switch {
		case err != nil:
			return "err" + caller
		case len(ch.submitted) > 0:
			return "sub:" + strings.Join(ch.submitted, ";") + caller
		case ctx.Err() != nil:
			return "timeout" + caller
		}
		return "closed" + caller
	}

	// execwatch <evm|sub> <cap> <transfer gas> <per-proposal gas metadata g0,g1,… (n = none; suffix e = already executed when
	//   the delivery arrives, suffix x = ProposalsHash fails for the batch that contains it, e.g. n,40e,nx; prefix r: = the
	//   destination answers concurrent executed-lookups out of request order)>
	//   a batch whose hash failed is listed as !<nonces> in H
	//   => H=<hashed batches, sorted, ';'>|polls=<nonce:count,…>|ret=<nil|err>
	ops["C02.execwatch"] = func(a []string) string {
		store := keyshare.NewECDSAKeyshareStore(repoRoot() + "/tss/test/keyshares/0.keyshare")
		key, err := store.GetKeyshare()
		if err != nil {
			return "no-keyshare-fixture"
		}
		h, cm := c02NewHost(key.Peers[0]), &c02MuteComm{}
		co := tss.NewCoordinator(h, cm, &elector.CoordinatorElectorFactory{}) // only the static elector is reached
		co.TssTimeout, co.CoordinatorTimeout, co.InitiatePeriod = time.Hour, time.Hour, time.Hour
		props := []*proposal.Proposal{}
		ch := &c02ExecChain{polls: map[uint64]int{}, before: map[uint64]bool{}, failHash: map[uint64]bool{}}
		spec := a[3]
		if strings.HasPrefix(spec, "r:") {
			spec, ch.reorder = spec[2:], true
		}
		for i, gs := range items(spec, ",") {
			if strings.HasSuffix(gs, "x") {
				gs = strings.TrimSuffix(gs, "x")
				ch.failHash[uint64(i)] = true
			}
			if strings.HasSuffix(gs, "e") {
				gs = strings.TrimSuffix(gs, "e")
				ch.before[uint64(i)] = true
			}
			md := map[string]interface{}{}
			if gs != "n" {
				md["gasLimit"] = u64(gs)
			}
			props = append(props, proposal.NewProposal(1, 2, transfer.TransferProposalData{
				DepositNonce: uint64(i), Metadata: md, Data: []byte{byte(i)},
			}, "m", transfer.TransferProposalType))
		}
		done := make(chan error, 1)
		if a[0] == "evm" {
			old := evmexec.VerifC02SetCheckPeriod(time.Millisecond)
			defer evmexec.VerifC02SetCheckPeriod(old)
			e := evmexec.NewExecutor(h, cm, co, c02ExecBridge{ch}, store, &sync.RWMutex{}, u64(a[1]), u64(a[2]))
			go func() { done <- e.Execute(props) }()
		} else {
			old := subexec.VerifC02SetCheckPeriod(time.Millisecond)
			defer subexec.VerifC02SetCheckPeriod(old)
			e := subexec.NewExecutor(h, cm, co, c02ExecPallet{ch}, store, nil, &sync.RWMutex{})
			go func() { done <- e.Execute(props) }()
		}
		ret := "nil"
		select {
		case err := <-done:
			if err != nil {
				ret = "err"
			}
		case <-time.After(18 * time.Second):
			ret = "stuck" // some watcher never saw its batch executed
		}
		ch.mu.Lock()
		defer ch.mu.Unlock()
		hs := append([]string{}, ch.hashed...)
		sort.Strings(hs)
		ks := []uint64{}
		for k := range ch.polls {
			ks = append(ks, k)
		}
		sort.Slice(ks, func(i, j int) bool { return ks[i] < ks[j] })
		pl := []string{}
		for _, k := range ks {
			pl = append(pl, utoa(k)+":"+itoa(ch.polls[k]))
		}
		return "H=" + joinOr(hs, ";") + "|polls=" + joinOr(pl, ",") + "|ret=" + ret
	}

	// bseq <evm|sub> <chain id> <bridge address 20 bytes hex> <handler address hex> <steps> <batches '/'-separated>
	//   steps (',' separated): h handler lookup · x executed lookup · e<k> submit batch k · s<k> submit first proposal of
	//   batch k alone · r retry · p<k> hash batch k
	//   => <digest of each p step, ','>|addr=<contract address afterwards>|h=<handler lookups' results>
	ops["C02.bseq"] = func(a []string) string {
		chain, ok := new(big.Int).SetString(a[1], 10)
		if !ok {
			panic("bad chain id")
		}
		batches := [][]*transfer.TransferProposal{}
		for _, b := range strings.Split(a[5], "/") {
			batches = append(batches, c02Props(b))
		}
		digests, hs := []string{}, []string{}
		addrNow := "-"
		if a[0] == "evm" {
			ab, err := abi.JSON(strings.NewReader(consts.BridgeABI))
			if err != nil {
				panic(err)
			}
			cl := &c02CallClient{c02Client: c02Client{id: chain}, ab: ab, handler: ethCommon.BytesToAddress(unhx(a[3]))}
			bc := evmbridge.NewBridgeContract(cl, ethCommon.BytesToAddress(unhx(a[2])), &c02Transactor{})
			for _, st := range items(a[4], ",") {
				k := 0
				if len(st) > 1 {
					k = int(u64(st[1:])) % len(batches)
				}
				switch st[0] {
				case 'h':
					var rid [32]byte
					rid[31] = 3
					r, err := bc.GetHandlerAddressForResourceID(rid)
					if err != nil {
						hs = append(hs, "err")
					} else {
						hs = append(hs, hx(r.Bytes()))
					}
				case 'x':
					if len(batches[k]) > 0 {
						_, _ = bc.IsProposalExecuted(batches[k][0])
					}
				case 'e':
					_, _ = bc.ExecuteProposals(batches[k], bytes.Repeat([]byte{7}, 65), transactor.TransactOptions{GasLimit: 9})
				case 's':
					if len(batches[k]) > 0 {
						_, _ = bc.ExecuteProposal(batches[k][0], bytes.Repeat([]byte{7}, 65), transactor.TransactOptions{GasLimit: 9})
					}
				case 'r':
					_, _ = bc.Retry(ethCommon.Hash{1}, transactor.TransactOptions{})
				case 'p':
					d, err := bc.ProposalsHash(batches[k])
					if err != nil {
						digests = append(digests, "err")
					} else {
						digests = append(digests, hx(d))
					}
				default:
					panic("step")
				}
			}
			addrNow = hx(bc.ContractAddress().Bytes())
			if cl.id.Cmp(chain) != 0 {
				addrNow += "!chain-id-object-changed"
			}
		} else {
			id := new(big.Int).Set(chain)
			p := pallet.NewPallet(subclient.NewSubstrateClient(nil, nil, id, 0))
			for _, st := range items(a[4], ",") {
				if st[0] != 'p' {
					continue
				}
				k := int(u64(st[1:])) % len(batches)
				d, err := p.ProposalsHash(batches[k])
				if err != nil {
					digests = append(digests, "err")
				} else {
					digests = append(digests, hx(d))
				}
			}
			if id.Cmp(chain) != 0 {
				addrNow = "!chain-id-object-changed"
			}
		}
		return joinOr(digests, ",") + "|addr=" + addrNow + "|h=" + joinOr(hs, ",")
	}
}

// c02After: statuses at submission time — some members executed meanwhile, never all (the loop must not be able to close)
func c02After(g *G, n int) string {
	if n < 2 || g.Intn(2) == 0 {
		return "-"
	}
	w := make([]byte, n)
	for i := range w {
		w[i] = "pe"[g.Intn(2)]
	}
	w[g.Intn(n)] = 'p'
	return string(w)
}

func genC02Seq(g *G) {
	// watchsig: every script of 0..2 sweeps for batches of 1..3 members (exhaustive), then random longer ones
	var words func(n int) []string
	words = func(n int) []string {
		if n == 0 {
			return []string{""}
		}
		out := []string{}
		for _, w := range words(n - 1) {
			for _, c := range "pex" {
				out = append(out, w+string(c))
			}
		}
		return out
	}
	for _, kind := range []string{"evm", "sub"} {
		for n := 1; n <= 3; n++ {
			g.Emit("watchsig", kind, itoa(n), "-", "120", "-")
			ws := words(n)
			for _, w1 := range ws {
				g.Emit("watchsig", kind, itoa(n), w1, "120", c02After(g, n))
				if n <= 2 || g.Thorough() {
					for _, w2 := range ws {
						g.Emit("watchsig", kind, itoa(n), w1+"/"+w2, "120", c02After(g, n))
					}
				}
			}
		}
		for i := 0; i < g.Count(150, 6000); i++ {
			n := 2 + g.Intn(5)
			k := 1 + g.Intn(4)
			sw := []string{}
			for j := 0; j < k; j++ {
				w := make([]byte, n)
				for x := range w {
					w[x] = "ppeeex"[g.Intn(6)]
				}
				sw = append(sw, string(w))
			}
			g.Emit("watchsig", kind, itoa(n), strings.Join(sw, "/"), utoa([]uint64{0, 60, 1 << 40, 1<<64 - 1}[g.Intn(4)]), c02After(g, n))
		}
	}
	// execwatch: one delivery split into 1..n batches (cap 100, transfer gas 60 → allowances 60/100/101/160 around the cap)
	gasAlpha := []string{"n", "0", "39", "40", "41", "100"}
	for _, kind := range []string{"evm", "sub"} {
		g.Emit("execwatch", kind, "100", "60", "n")
		for _, x := range gasAlpha {
			for _, y := range gasAlpha {
				g.Emit("execwatch", kind, "100", "60", x+","+y)
			}
		}
		// a failing ProposalsHash (after the executed-lookups succeeded): nothing may be signed or watched for that batch
		for _, spec := range []string{"nx", "nx,n", "n,nx", "nx,nx", "39,nx,n", "n,41e,nx", "39x,n,n"} {
			g.Emit("execwatch", kind, "100", "60", spec)
		}
		// a destination that answers concurrent lookups out of order: the hashed batch keeps the delivery's order
		for _, spec := range []string{"r:0,0", "r:0,0,0", "r:n,n", "r:0,39e,0", "r:39,0,0,n"} {
			g.Emit("execwatch", kind, "1000", "60", spec)
		}
		// partially executed deliveries: every executed/pending pattern over 1..3 proposals
		for n := 1; n <= 3; n++ {
			for m := 0; m < 1<<uint(n); m++ {
				xs := []string{}
				for j := 0; j < n; j++ {
					x := []string{"n", "41"}[(m+j)%2]
					if m>>uint(j)&1 == 1 {
						x += "e"
					}
					xs = append(xs, x)
				}
				g.Emit("execwatch", kind, "100", "60", strings.Join(xs, ","))
			}
		}
		for i := 0; i < g.Count(40, 1500); i++ {
			n := 3 + g.Intn(4)
			xs := []string{}
			for j := 0; j < n; j++ {
				x := g.Pick(gasAlpha)
				if g.Intn(4) == 0 {
					x += "e"
				}
				if g.Intn(12) == 0 {
					x += "x"
				}
				xs = append(xs, x)
			}
			c := []string{"100", "100", "1000", "130", "18446744073709551615"}[g.Intn(5)]
			g.Emit("execwatch", kind, c, "60", strings.Join(xs, ","))
		}
	}
	// bseq: every step sequence of length ≤ 3 that ends in a hash (exhaustive), then random longer ones over 3 batches
	addr, handler := "6cde2cd82a4f8b74693ff5e194c19ca08c2d1c68", "02091eeff969b33a5ce8a729dae325879bf76f90"
	b0, b1, b2 := c02RandProp(g), c02RandProp(g)+";"+c02RandProp(g), "-"
	bs := b0 + "/" + b1 + "/" + b2
	stepAlpha := []string{"h", "x", "e0", "e1", "s1", "r", "p0", "p1", "p2"}
	for _, s1 := range stepAlpha {
		g.Emit("bseq", "evm", "5", addr, handler, s1+",p1", bs)
		for _, s2 := range stepAlpha {
			g.Emit("bseq", "evm", "5", addr, handler, s1+","+s2+",p0", bs)
		}
	}
	for i := 0; i < g.Count(60, 3000); i++ {
		n := 2 + g.Intn(7)
		st := []string{}
		for j := 0; j < n; j++ {
			st = append(st, g.Pick(stepAlpha))
		}
		st = append(st, "p"+itoa(g.Intn(3)))
		chain := []string{"0", "1", "11155111", "9223372036854775807"}[g.Intn(4)]
		kind := "evm"
		if g.Intn(4) == 0 {
			kind = "sub"
		}
		g.Emit("bseq", kind, chain, hx(g.Bytes(20)), hx(g.Bytes(20)), strings.Join(st, ","), c02RandProps(g, 3)+"/"+c02RandProps(g, 4)+"/"+c02RandProps(g, 2))
	}
	genC02Sign(g)
}
