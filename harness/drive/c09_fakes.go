package main

// Fakes shared by C09 and C10: an in-process network of fake libp2p hosts (real peer ids, real in-memory
// peerstore, pipe-backed streams), the REAL comm/p2p.Libp2pCommunication on top of every host wrapped in a
// call ledger, and a recording TssProcess.

import (
	"context"
	"errors"
	"fmt"
	"io"
	"os"
	"sync"
	"sync/atomic"
	"time"

	"github.com/ChainSafe/sygma-relayer/comm"
	"github.com/ChainSafe/sygma-relayer/comm/p2p"
	"github.com/libp2p/go-libp2p/core/crypto"
	"github.com/libp2p/go-libp2p/core/host"
	"github.com/libp2p/go-libp2p/core/network"
	"github.com/libp2p/go-libp2p/core/peer"
	"github.com/libp2p/go-libp2p/core/peerstore"
	"github.com/libp2p/go-libp2p/core/protocol"
	"github.com/libp2p/go-libp2p/p2p/host/peerstore/pstoremem"
	ma "github.com/multiformats/go-multiaddr"
)

const fakeProto protocol.ID = "/verif/tss/1"

// ---------------------------------------------------------------- peer ids (the repository's test identities)

var (
	fixtureOnce sync.Once
	fixtureIDs  []peer.ID
)

// fixturePeers returns the peer ids of tss/test/pks/{0,1,2}.pk — the identities the fixture key shares were made for.
func fixturePeers() []peer.ID {
	fixtureOnce.Do(func() {
		for i := 0; i < 3; i++ {
			b, err := os.ReadFile(fmt.Sprintf("%s/tss/test/pks/%d.pk", repoRoot(), i))
			if err != nil {
				panic(err)
			}
			priv, err := crypto.UnmarshalPrivateKey(b)
			if err != nil {
				panic(err)
			}
			id, err := peer.IDFromPrivateKey(priv)
			if err != nil {
				panic(err)
			}
			fixtureIDs = append(fixtureIDs, id)
		}
	})
	return fixtureIDs
}

// ---------------------------------------------------------------- fake network

type fakeNet struct {
	mu    sync.Mutex
	hosts map[peer.ID]*fakeHost
}

func newFakeNet() *fakeNet { return &fakeNet{hosts: map[peer.ID]*fakeHost{}} }

type fakeHost struct {
	host.Host // nil: only the methods below are ever called
	id        peer.ID
	ps        peerstore.Peerstore
	net       *fakeNet
	mu        sync.Mutex
	handlers  map[protocol.ID]network.StreamHandler
	out       []*fakeStream // every stream this host opened
	// scripted fault: Close() of a stream opened to one of these peers returns an error (the remote side has reset it)
	failCloseTo map[peer.ID]bool
	// scripted fault: every Write on a stream opened to one of these peers fails (connection dropped right after NewStream)
	failWriteTo map[peer.ID]bool
	// scripted schedule point: Close() of a stream opened to one of these peers announces itself on gate.in and
	// waits for gate.out (so that the harness can run something else while a release is in the middle of closing)
	gateCloseTo map[peer.ID]*closeGate
	meet        int
	meetCh      chan struct{}
	dialGateTo  map[peer.ID]*closeGate
}

func (h *fakeHost) setDialGate(m map[peer.ID]*closeGate) {
	h.mu.Lock()
	h.dialGateTo = m
	h.mu.Unlock()
}

func (h *fakeHost) opened() int {
	h.mu.Lock()
	defer h.mu.Unlock()
	return len(h.out)
}

func (h *fakeHost) setMeet(n int) {
	h.mu.Lock()
	h.meet, h.meetCh = n, nil
	h.mu.Unlock()
}

type closeGate struct {
	in  chan struct{}
	out chan struct{}
}

func (h *fakeHost) setCloseGate(m map[peer.ID]*closeGate) {
	h.mu.Lock()
	h.gateCloseTo = m
	h.mu.Unlock()
}

func (h *fakeHost) setFailWrite(m map[peer.ID]bool) {
	h.mu.Lock()
	h.failWriteTo = m
	h.mu.Unlock()
}

func (h *fakeHost) setFailClose(m map[peer.ID]bool) {
	h.mu.Lock()
	h.failCloseTo = m
	h.mu.Unlock()
}

// misuse counts what must never happen to a stream: a Close after the first one, a Write after it was closed.
func (h *fakeHost) misuse() int {
	h.mu.Lock()
	defer h.mu.Unlock()
	n := 0
	for _, s := range h.out {
		if c := int(atomic.LoadInt32(&s.closeCalls)); c > 1 {
			n += c - 1
		}
		n += int(atomic.LoadInt32(&s.deadWrites))
	}
	return n
}

// addHost registers a host that knows `all` peers (itself included, like the repository's test set-up).
func (n *fakeNet) addHost(id peer.ID, all []peer.ID) *fakeHost {
	ps, err := pstoremem.NewPeerstore()
	if err != nil {
		panic(err)
	}
	for i, p := range all {
		a, _ := ma.NewMultiaddr(fmt.Sprintf("/ip4/127.0.0.1/tcp/%d", 4000+i))
		ps.AddAddr(p, a, peerstore.PermanentAddrTTL)
	}
	h := &fakeHost{id: id, ps: ps, net: n, handlers: map[protocol.ID]network.StreamHandler{}}
	n.mu.Lock()
	n.hosts[id] = h
	n.mu.Unlock()
	return h
}

func (h *fakeHost) ID() peer.ID                                         { return h.id }
func (h *fakeHost) Peerstore() peerstore.Peerstore                      { return h.ps }
func (h *fakeHost) Connect(ctx context.Context, pi peer.AddrInfo) error { return nil }
func (h *fakeHost) Close() error                                        { return h.ps.Close() }
func (h *fakeHost) SetStreamHandler(pid protocol.ID, f network.StreamHandler) {
	h.mu.Lock()
	h.handlers[pid] = f
	h.mu.Unlock()
}

// NewStream opens a pipe to the destination host's registered stream handler; a peer without a host
// (a relayer that is down) gets a stream whose writes are discarded.
func (h *fakeHost) NewStream(ctx context.Context, p peer.ID, pids ...protocol.ID) (network.Stream, error) {
	// scripted schedule point: the next `meet` callers leave NewStream together (all of them have missed in the
	// stream manager by then)
	h.mu.Lock()
	var wait chan struct{}
	if h.meet > 0 {
		h.meet--
		if h.meetCh == nil {
			h.meetCh = make(chan struct{})
		}
		wait = h.meetCh
		if h.meet == 0 {
			close(h.meetCh)
			h.meetCh = nil
		}
	}
	h.mu.Unlock()
	if wait != nil {
		select {
		case <-wait:
		case <-time.After(2 * time.Second):
		}
	}
	h.net.mu.Lock()
	dst := h.net.hosts[p]
	h.net.mu.Unlock()
	// scripted slow dial: NewStream to this peer announces itself and waits for the harness
	h.mu.Lock()
	dg := h.dialGateTo[p]
	h.mu.Unlock()
	if dg != nil {
		dg.in <- struct{}{}
		<-dg.out
	}
	h.mu.Lock()
	s := &fakeStream{remote: p, failClose: h.failCloseTo[p], failWrite: h.failWriteTo[p], closeGate: h.gateCloseTo[p]}
	h.mu.Unlock()
	if dst != nil {
		dst.mu.Lock()
		f := dst.handlers[pids[0]]
		dst.mu.Unlock()
		if f != nil {
			pr, pw := io.Pipe()
			s.w = pw
			in := &fakeStream{remote: h.id, r: pr}
			go f(in)
		}
	}
	h.mu.Lock()
	h.out = append(h.out, s)
	h.mu.Unlock()
	return s, nil
}

// openOut counts streams this host opened that were never closed.
func (h *fakeHost) openOut() int {
	h.mu.Lock()
	defer h.mu.Unlock()
	n := 0
	for _, s := range h.out {
		if atomic.LoadInt32(&s.closed) == 0 {
			n++
		}
	}
	return n
}

type fakeStream struct {
	network.Stream // nil
	remote         peer.ID
	r              *io.PipeReader
	w              *io.PipeWriter
	closed         int32
	failClose      bool
	failWrite      bool
	closeGate      *closeGate
	closeCalls     int32
	deadWrites     int32
}

func (s *fakeStream) Read(p []byte) (int, error) {
	if s.r == nil {
		return 0, io.EOF
	}
	return s.r.Read(p)
}
func (s *fakeStream) Write(p []byte) (int, error) {
	if atomic.LoadInt32(&s.closed) != 0 {
		atomic.AddInt32(&s.deadWrites, 1)
		return 0, errors.New("stream closed")
	}
	if s.failWrite {
		return 0, errors.New("connection reset by peer")
	}
	if s.w == nil {
		return len(p), nil
	}
	return s.w.Write(p)
}
func (s *fakeStream) Close() error {
	if g := s.closeGate; g != nil && atomic.LoadInt32(&s.closeCalls) == 0 {
		g.in <- struct{}{}
		<-g.out
	}
	atomic.AddInt32(&s.closeCalls, 1)
	atomic.StoreInt32(&s.closed, 1)
	if s.w != nil {
		s.w.Close()
	}
	if s.r != nil {
		s.r.Close()
	}
	if s.failClose {
		return errors.New("stream reset")
	}
	return nil
}
func (s *fakeStream) Reset() error                     { return s.Close() }
func (s *fakeStream) CloseWrite() error                { return s.Close() }
func (s *fakeStream) CloseRead() error                 { return nil }
func (s *fakeStream) SetDeadline(time.Time) error      { return nil }
func (s *fakeStream) SetReadDeadline(time.Time) error  { return nil }
func (s *fakeStream) SetWriteDeadline(time.Time) error { return nil }
func (s *fakeStream) Conn() network.Conn               { return &fakeConn{remote: s.remote} }
func (s *fakeStream) ID() string                       { return "fake" }
func (s *fakeStream) Protocol() protocol.ID            { return fakeProto }
func (s *fakeStream) SetProtocol(protocol.ID) error    { return nil }

type fakeConn struct {
	network.Conn
	remote peer.ID
}

func (c *fakeConn) RemotePeer() peer.ID { return c.remote }

// ---------------------------------------------------------------- ledger around the real communication

type ledgerComm struct {
	inner  p2p.Libp2pCommunication
	host   *fakeHost
	mu     sync.Mutex
	sub    map[string]int // per session id
	unsub  map[string]int
	closeN map[string]int
	live   map[comm.SubscriptionID]string // subscription id -> session id, as handed out and not yet released
	bcast  map[string]int                 // "<sid>/<msgType>"
	// hold the holdNth-th (counted from arming) release of a fail-watch subscription until holdFailUnsub is closed
	holdFailUnsub chan struct{}
	holding       chan struct{}
	holdNth       int
	failUnsubs    int
}

func (l *ledgerComm) armHold(nth int) {
	l.mu.Lock()
	l.holdFailUnsub, l.holding, l.holdNth, l.failUnsubs = make(chan struct{}), make(chan struct{}, 1), nth, 0
	l.mu.Unlock()
}

func newLedgerComm(h *fakeHost) *ledgerComm {
	return &ledgerComm{inner: p2p.NewCommunication(h, fakeProto), host: h,
		sub: map[string]int{}, unsub: map[string]int{}, closeN: map[string]int{},
		live: map[comm.SubscriptionID]string{}, bcast: map[string]int{}}
}

func (l *ledgerComm) CloseSession(sessionID string) {
	l.mu.Lock()
	l.closeN[sessionID]++
	l.mu.Unlock()
	l.inner.CloseSession(sessionID)
}
func (l *ledgerComm) Broadcast(peers peer.IDSlice, msg []byte, t comm.MessageType, sessionID string) error {
	l.mu.Lock()
	l.bcast[fmt.Sprintf("%s/%d", sessionID, t)]++
	l.mu.Unlock()
	return l.inner.Broadcast(peers, msg, t, sessionID)
}
func (l *ledgerComm) Subscribe(sessionID string, t comm.MessageType, ch chan *comm.WrappedMessage) comm.SubscriptionID {
	id := l.inner.Subscribe(sessionID, t, ch)
	l.mu.Lock()
	l.sub[sessionID]++
	l.live[id] = sessionID
	l.mu.Unlock()
	return id
}
func (l *ledgerComm) UnSubscribe(id comm.SubscriptionID) {
	// a scripted scheduling delay: the n-th release of a fail-watch subscription waits for the harness
	if string(id) != "" && id.MessageType() == comm.TssFailMsg {
		l.mu.Lock()
		l.failUnsubs++
		hold := l.holdFailUnsub
		if l.failUnsubs != l.holdNth {
			hold = nil
		}
		l.mu.Unlock()
		if hold != nil {
			l.holding <- struct{}{}
			<-hold
		}
	}
	l.inner.UnSubscribe(id)
	l.mu.Lock()
	if sid, ok := l.live[id]; ok {
		l.unsub[sid]++
		delete(l.live, id)
	}
	l.mu.Unlock()
}

// counters of one session id: subscriptions handed out, released, CloseSession calls
func (l *ledgerComm) counts(sid string) (int, int, int) {
	l.mu.Lock()
	defer l.mu.Unlock()
	return l.sub[sid], l.unsub[sid], l.closeN[sid]
}
func (l *ledgerComm) bcasts(sid string, t comm.MessageType) int {
	l.mu.Lock()
	defer l.mu.Unlock()
	return l.bcast[fmt.Sprintf("%s/%d", sid, t)]
}

// ---------------------------------------------------------------- recording process

type sidStats struct {
	mu      sync.Mutex
	running map[string]int
	max     map[string]int
}

func newSidStats() *sidStats { return &sidStats{running: map[string]int{}, max: map[string]int{}} }
func (s *sidStats) enter(sid string) {
	s.mu.Lock()
	s.running[sid]++
	if s.running[sid] > s.max[sid] {
		s.max[sid] = s.running[sid]
	}
	s.mu.Unlock()
}
func (s *sidStats) leave(sid string) {
	s.mu.Lock()
	s.running[sid]--
	s.mu.Unlock()
}
func (s *sidStats) maxima(sids []string) string {
	s.mu.Lock()
	defer s.mu.Unlock()
	xs := []string{}
	for _, k := range sids {
		xs = append(xs, k+"="+itoa(s.max[k]))
	}
	return joinOr(xs, ",")
}

// recProc is a TssProcess that does what every real process does around its protocol run
// (subscribe in Run, release in Stop) and otherwise waits for the harness.
type recProc struct {
	sid     string
	coords  []peer.ID
	comm    comm.Communication
	need    int // ready peers (self included) required by Ready
	stats   *sidStats
	retry   bool
	mu      sync.Mutex
	runs    int
	stops   int
	subID   comm.SubscriptionID
	entered chan struct{}
	finish  chan error
	params  []byte
}

func newRecProc(sid string, coords []peer.ID, c comm.Communication, st *sidStats) *recProc {
	return &recProc{sid: sid, coords: coords, comm: c, need: 2, stats: st,
		entered: make(chan struct{}, 8), finish: make(chan error, 1)}
}

func (p *recProc) Run(ctx context.Context, coordinator bool, resultChn chan interface{}, params []byte) error {
	p.mu.Lock()
	p.runs++
	p.params = params
	p.comm.UnSubscribe(p.subID) // like the repaired signing processes: a run replaces the previous run's subscription
	p.subID = p.comm.Subscribe(p.sid, comm.TssKeySignMsg, make(chan *comm.WrappedMessage))
	p.mu.Unlock()
	p.stats.enter(p.sid)
	defer p.stats.leave(p.sid)
	p.entered <- struct{}{}
	select {
	case err := <-p.finish:
		return err
	case <-ctx.Done():
		return nil
	}
}
func (p *recProc) Stop() {
	p.mu.Lock()
	p.stops++
	id := p.subID
	p.mu.Unlock()
	p.comm.UnSubscribe(id)
}
func (p *recProc) Ready(ready []peer.ID, excluded []peer.ID) (bool, error) {
	if p.need < 0 {
		return false, errors.New("not startable")
	}
	return len(ready) >= p.need, nil
}
func (p *recProc) Retryable() bool                    { return p.retry }
func (p *recProc) StartParams(ready []peer.ID) []byte { return []byte("go") }
func (p *recProc) SessionID() string                  { return p.sid }
func (p *recProc) ValidCoordinators() []peer.ID       { return p.coords }
func (p *recProc) counts() (int, int) {
	p.mu.Lock()
	defer p.mu.Unlock()
	return p.runs, p.stops
}

// waitUntil polls cond every 200µs; false after d.
func waitUntil(d time.Duration, cond func() bool) bool {
	end := time.Now().Add(d)
	for {
		if cond() {
			return true
		}
		if time.Now().After(end) {
			return false
		}
		time.Sleep(200 * time.Microsecond)
	}
}
