package main

// C09 — one live process per session id; sessions always clean up.
// Real tss.Coordinator.Execute over the real comm/p2p.Libp2pCommunication (subscription manager, stream manager,
// Broadcast) on a fake in-process network; recording processes; the interleaving of concurrent requests is
// replayed deterministically through verifhook.Yield.

import (
	"context"
	"errors"
	"fmt"
	"os"
	"runtime/debug"
	"sort"
	"strings"
	"sync"
	"time"

	"github.com/ChainSafe/sygma-relayer/comm"
	"github.com/ChainSafe/sygma-relayer/comm/elector"
	"github.com/ChainSafe/sygma-relayer/comm/p2p"
	"github.com/ChainSafe/sygma-relayer/config/relayer"
	"github.com/ChainSafe/sygma-relayer/tss"
	"github.com/ChainSafe/sygma-relayer/tss/message"
	"github.com/ChainSafe/sygma-relayer/tss/util"
	"github.com/ChainSafe/sygma-relayer/verifhook"
	"github.com/libp2p/go-libp2p/core/peer"
)

type tidKeyT struct{}

var tidKey = tidKeyT{}

// c9world: relayer under test (self) + the session coordinator's relayer (ghost) + a third relayer (stranger).
type c9world struct {
	net       *fakeNet
	self      *fakeHost
	ledger    *ledgerComm
	ghost     *ledgerComm
	stranger  *ledgerComm
	coord     *tss.Coordinator
	stats     *sidStats
	ids       []peer.ID
	factory   *elector.CoordinatorElectorFactory
	strangerE p2p.Libp2pCommunication // the third relayer's communication on the election protocol
	sids      map[string]string
}

func newC9World() *c9world {
	ids := fixturePeers()
	n := newFakeNet()
	w := &c9world{net: n, ids: ids, stats: newSidStats()}
	w.self = n.addHost(ids[0], ids)
	w.ledger = newLedgerComm(w.self)
	w.ghost = newLedgerComm(n.addHost(ids[1], ids))
	sh := n.addHost(ids[2], ids)
	w.stranger = newLedgerComm(sh)
	w.strangerE = p2p.NewCommunication(sh, elector.ProtocolID)
	// an election waits BullyWaitTime whatever happens; a Select message of another relayer counts only if it is
	// processed after ElectionWaitTime and before that
	w.factory = elector.NewCoordinatorElectorFactory(w.self, relayer.BullyConfig{ElectionWaitTime: 3 * time.Millisecond, BullyWaitTime: 200 * time.Millisecond})
	w.sids = map[string]string{}
	w.coord = tss.NewCoordinator(w.self, w.ledger, w.factory)
	w.coord.CoordinatorTimeout = time.Hour
	w.coord.TssTimeout = time.Hour
	w.coord.InitiatePeriod = time.Hour
	return w
}

// electorComm: the communication the coordinator's bully electors use (their own protocol id, own registries).
func (w *c9world) electorComm() p2p.Libp2pCommunication {
	return w.factory.VerifC09Comm().(p2p.Libp2pCommunication)
}

// sid maps a session name of the wire format to a session id under which the relayers sort as 1 < 2 < 0 (self last):
// relayer 1 is the static coordinator, and relayer 2 outranks self in a bully election without relayer 1.
func (w *c9world) sid(name string) string {
	if s, ok := w.sids[name]; ok {
		return s
	}
	// names c, d, …: relayer 1 first, then SELF, then relayer 2 - in an election without relayer 1 this relayer ranks
	// first and relayer 2 behind it (its alive answers count)
	second := w.ids[2]
	if name[0] >= 'c' {
		second = w.ids[0]
	}
	for i := 0; ; i++ {
		s := name + itoa(i)
		o := util.SortPeersForSession(w.ids, s)
		if o[0].ID == w.ids[1] && o[1].ID == second {
			w.sids[name] = s
			return s
		}
	}
}

func (w *c9world) proc(sid, role string) *recProc {
	c := []peer.ID{w.ids[1]}
	if role == "c" {
		c = []peer.ID{w.ids[0]}
	}
	return newRecProc(sid, c, w.ledger, w.stats)
}

// kick sends what the session of `sid` is waiting for: the start message (participant) or a ready message (coordinator).
func (w *c9world) kick(sid, role string) {
	if role == "c" {
		_ = w.ghost.inner.Broadcast(peer.IDSlice{w.ids[0]}, []byte{}, comm.TssReadyMsg, sid)
		return
	}
	// the coordinator first asks who is ready (self answers with a ready message over a stream of the session), then starts
	_ = w.ghost.inner.Broadcast(peer.IDSlice{w.ids[0]}, []byte{}, comm.TssInitiateMsg, sid)
	b, _ := message.MarshalStartMessage([]byte("go"))
	_ = w.ghost.inner.Broadcast(peer.IDSlice{w.ids[0]}, b, comm.TssStartMsg, sid)
}

type c9thread struct {
	sid, role, out string
	proc           *recProc
	ctx            context.Context
	cancel         context.CancelFunc
	atYield        chan struct{}
	release        chan struct{}
	ret            chan error
	status         string
	step           int
	released       bool
}

// A refusal is recognised by what it DOES, never by the wording of its error: Execute returns a non-nil error without
// having registered anything for the session (no subscription handed out, nothing run). In the `race` and `stress`
// scripts nothing else can make Execute return an error before its process runs (all timers are at 1 h, no failure
// is scripted there), so there "returned an error before Run" is the refusal.
func refusedBy(err error, subsDuring int) bool { return err != nil && subsDuring == 0 }

var c9hookOnce sync.Once

func c9installHook() {
	c9hookOnce.Do(func() {
		verifhook.Set(func(ctx context.Context, site string) {
			if t, ok := ctx.Value(tidKey).(*c9thread); ok && t.release != nil {
				t.atYield <- struct{}{}
				<-t.release
			}
		})
	})
}

const c9wait = 8 * time.Second

// C09.race <sid:role:outcome,…> <schedule of thread indices>
//
//	k-th occurrence of a thread index = its k-th step: arrive (call Execute, run to the admission hook),
//	enter (pass admission; if admitted, be driven into Run), finish (end the run by its outcome ok|fail|cancel).
//	=> st=<I|Y|R|X|D per thread>;max=<sid=max concurrently running>;pend=<sid=0|1>;leak=<sid=live subs+streams, quiescent sids>
func c9race(a []string) string {
	if c9RegistriesUnsafe.Load() {
		return c9skipped
	}
	defer func() {
		if r := recover(); r != nil {
			if os.Getenv("VERIF_DUMP") != "" {
				fmt.Fprintln(os.Stderr, "PANIC:", r, string(debug.Stack()))
			}
			panic(r)
		}
	}()
	c9installHook()
	w := newC9World()
	ths := []*c9thread{}
	for _, it := range items(a[0], ",") {
		f := strings.Split(it, ":")
		t := &c9thread{sid: f[0], role: f[1], out: f[2], status: "I",
			atYield: make(chan struct{}, 1), release: make(chan struct{}), ret: make(chan error, 1)}
		t.proc = w.proc(t.sid, t.role)
		base, cancel := context.WithCancel(context.Background())
		t.cancel = cancel
		t.ctx = context.WithValue(base, tidKey, t)
		ths = append(ths, t)
	}
	bad := false
	for _, s := range items(a[1], ",") {
		i := int(u64(s))
		if i >= len(ths) {
			return "badschedule"
		}
		t := ths[i]
		t.step++
		switch {
		case t.step == 1:
			go func() { t.ret <- w.coord.Execute(t.ctx, []tss.TssProcess{t.proc}, make(chan interface{}, 4)) }()
			select {
			case <-t.atYield:
				t.status = "Y"
			case err := <-t.ret:
				t.status = "E"
				if err != nil {
					t.status = "X"
				}
			case <-time.After(c9wait):
				bad = true
			}
		case t.step == 2 && t.status == "Y":
			close(t.release)
			t.released = true
			deadline := time.Now().Add(c9wait)
			last := time.Time{}
		loop:
			for {
				select {
				case err := <-t.ret:
					t.status = "E"
					if err != nil {
						t.status = "X"
					}
					break loop
				case <-t.proc.entered:
					t.status = "R"
					break loop
				case <-time.After(300 * time.Microsecond):
				}
				if time.Since(last) > 3*time.Millisecond && w.ledger.inner.VerifLiveSubscriptions(t.sid) > 0 {
					w.kick(t.sid, t.role)
					last = time.Now()
				}
				if time.Now().After(deadline) {
					bad = true
					break loop
				}
			}
		case t.step == 3 && t.status == "R":
			switch t.out {
			case "fail":
				t.proc.finish <- errors.New("process failed")
			case "cancel":
				t.cancel()
			default:
				t.proc.finish <- nil
			}
			select {
			case <-t.ret:
				t.status = "D"
			case <-time.After(c9wait):
				bad = true
			}
		}
	}
	// observe
	st := []string{}
	sids := map[string]bool{}
	busy := map[string]bool{}
	for _, t := range ths {
		st = append(st, t.status)
		sids[t.sid] = true
		if t.status == "R" {
			busy[t.sid] = true
		}
	}
	keys := []string{}
	for k := range sids {
		keys = append(keys, k)
	}
	sort.Strings(keys)
	pend, leak := []string{}, []string{}
	for _, k := range keys {
		p := "0"
		if w.coord.VerifPending(k) {
			p = "1"
		}
		pend = append(pend, k+"="+p)
		if !busy[k] {
			leak = append(leak, k+"="+itoa(w.ledger.inner.VerifLiveSubscriptions(k)+w.ledger.inner.VerifStreamCount(k)))
		}
	}
	out := "st=" + strings.Join(st, ",") + ";max=" + w.stats.maxima(keys) + ";pend=" + joinOr(pend, ",") + ";leak=" + joinOr(leak, ",")
	// tear down: let everything return
	for _, t := range ths {
		if t.step >= 1 && t.status == "Y" && !t.released {
			close(t.release)
		}
		t.cancel()
	}
	for _, t := range ths {
		if t.step >= 1 && (t.status == "Y" || t.status == "R") {
			select {
			case <-t.ret:
			case <-time.After(c9wait):
				bad = true
			}
		}
	}
	if bad {
		return "hang"
	}
	return out
}

// C09.sess <sid:role:nproc:outcome[>elected:end],…>   sessions run one after another on ONE coordinator/communication
//
//	role p|c: this relayer participates | coordinates, processes not retryable;  P|C: the same with retryable processes
//	outcome = how the first attempt ends; for retryable processes the typed failures silent | comm | subset lead to a
//	second attempt, scripted by  elected (self | other | any) : end (ok | fail | cancel | idle | silent)
//	=> per session ret/sub/unsub/close/live/streams/open/runs/stops/pend/elive/estreams  joined by ','
func c9sess(a []string) string {
	if c9RegistriesUnsafe.Load() {
		return c9skipped
	}
	c9installHook()
	w := newC9World()
	outs := []string{}
	for _, it := range items(a[0], ",") {
		f := strings.Split(it, ":")
		oc, second := f[3], ""
		if k := strings.Index(it, ">"); k >= 0 {
			oc = strings.Split(it[:k], ":")[3]
			second = it[k+1:]
		}
		// process count, optionally followed by f<mask> and/or w<mask>: for this session's stream to relayer 1 (bit 0) /
		// relayer 2 (bit 1), Close() fails (f) / every Write fails from the first one on (w)
		np, fm, wm := f[2], 0, 0
		if k := strings.Index(np, "w"); k >= 0 {
			wm = int(u64(np[k+1:]))
			np = np[:k]
		}
		if k := strings.Index(np, "f"); k >= 0 {
			fm = int(u64(np[k+1:]))
			np = np[:k]
		}
		w.self.setFailClose(map[peer.ID]bool{w.ids[1]: fm&1 == 1, w.ids[2]: fm&2 == 2})
		w.self.setFailWrite(map[peer.ID]bool{w.ids[1]: wm&1 == 1, w.ids[2]: wm&2 == 2})
		r := w.session(f[0], f[1], int(u64(np)), oc, second)
		w.self.setFailClose(nil)
		w.self.setFailWrite(nil)
		if r == "hang" {
			return "hang"
		}
		outs = append(outs, r)
	}
	return joinOr(outs, ",")
}

func (w *c9world) session(name, role string, np int, oc, second string) string {
	sid := w.sid(name)
	retryable := role == "P" || role == "C"
	coordRole := role == "c" || role == "C"
	w.coord.CoordinatorTimeout, w.coord.TssTimeout, w.coord.InitiatePeriod = time.Hour, time.Hour, time.Hour
	switch oc {
	case "silent", "stranger":
		w.coord.CoordinatorTimeout = 25 * time.Millisecond
	case "gto":
		w.coord.TssTimeout = 25 * time.Millisecond
		w.coord.InitiatePeriod = 4 * time.Millisecond
	case "gtorun", "gtorunforeign":
		w.coord.TssTimeout = 2 * time.Second
	case "gtoforeign":
		w.coord.TssTimeout = 100 * time.Millisecond
	}
	procs := []*recProc{}
	tps := []tss.TssProcess{}
	for i := 0; i < np; i++ {
		p := w.proc(sid, strings.ToLower(role))
		if retryable {
			p.retry = true
			if !coordRole {
				p.coords = []peer.ID{w.ids[1], w.ids[2], w.ids[0]} // w.sid orders them like this for the session id
			}
		}
		if oc == "readyerr" {
			p.need = -1
		}
		procs = append(procs, p)
		tps = append(tps, p)
	}
	ecomm := w.electorComm()
	s0, u0, c0 := w.ledger.counts(sid)
	live0 := w.ledger.inner.VerifLiveSubscriptions(sid)
	ctx, cancel := context.WithCancel(context.Background())
	defer cancel()
	ret := make(chan error, 1)
	returned := make(chan struct{})
	if oc == "precancel" {
		cancel() // the caller gave up between constructing the processes and executing them
	}
	go func() {
		err := w.coord.Execute(ctx, tps, make(chan interface{}, 8))
		ret <- err
		close(returned)
	}()
	isReturned := func() bool {
		select {
		case <-returned:
			return true
		default:
			return false
		}
	}
	waiting := 3
	if coordRole {
		waiting = 2
	}
	subsNow := func() int { n, _, _ := w.ledger.counts(sid); return n - s0 }
	// (a session that has already returned — refused, or failed early — is not waited for)
	subscribed := func() bool { return isReturned() || w.ledger.inner.VerifLiveSubscriptions(sid) >= live0+waiting }
	// enteredRun drives the session into the k-th Run of every process; kick sends what the wait loop needs
	enteredRun := func(ready func() bool, kick func()) bool {
		deadline := time.Now().Add(c9wait)
		got := 0
		last := time.Time{}
		for got < np {
			select {
			case <-procs[got].entered:
				got++
				continue
			case <-time.After(300 * time.Microsecond):
			}
			if got == 0 && time.Since(last) > 3*time.Millisecond && ready() {
				kick()
				last = time.Now()
			}
			if isReturned() {
				return true
			}
			if time.Now().After(deadline) {
				return false
			}
		}
		return true
	}
	entered := func() bool {
		return enteredRun(subscribed, func() { w.kick(sid, strings.ToLower(role)) })
	}
	okFlow := true
	ran1 := 0
	early := false
	switch oc {
	case "ok":
		okFlow = entered()
		for _, p := range procs {
			p.finish <- nil
		}
	case "fail":
		okFlow = entered()
		procs[0].finish <- errors.New("process failed")
	case "failhold":
		// the process fails with an unclassified error while the release of handleError's fail-watch (the second
		// fail-watch of the session) is delayed: Execute must not return before that subscription is released
		w.ledger.armHold(2)
		okFlow = entered()
		procs[0].finish <- errors.New("process failed")
		select {
		case <-w.ledger.holding:
			select {
			case <-returned:
				early = true
			case <-time.After(150 * time.Millisecond):
			}
		case <-returned:
			// (processes that are not retryable have no second fail-watch)
			w.ledger.mu.Lock()
			early = retryable && w.ledger.failUnsubs < 2
			w.ledger.mu.Unlock()
		case <-time.After(c9wait):
			okFlow = false
		}
		close(w.ledger.holdFailUnsub)
		waitUntil(2*time.Second, func() bool { return isReturned() && w.ledger.inner.VerifLiveSubscriptions(sid) == live0 })
	case "comm":
		okFlow = entered()
		ran1 = np
		procs[0].finish <- &comm.CommunicationError{Peer: w.ids[2], Err: errors.New("peer does not answer")}
	case "subset":
		okFlow = entered()
		ran1 = np
		procs[0].finish <- &tss.SubsetError{Peer: w.ids[0]}
	case "cancelrun":
		okFlow = entered()
		cancel()
	case "gtorun":
		okFlow = entered()
	case "gtoforeign", "gtorunforeign":
		// only the global time-out can end the session, and meanwhile a relayer that is NOT the session's coordinator
		// keeps announcing failure (one fail message every 20 ms, until Execute has returned): the time-out must still
		// come TssTimeout after the session began
		if oc == "gtorunforeign" {
			okFlow = entered()
		} else {
			okFlow = waitUntil(c9wait, subscribed)
		}
		for end := time.Now().Add(c9wait); !isReturned() && time.Now().Before(end); {
			_ = w.stranger.inner.Broadcast(peer.IDSlice{w.ids[0]}, []byte{}, comm.TssFailMsg, sid)
			time.Sleep(20 * time.Millisecond)
		}
		okFlow = okFlow && isReturned() // still pending after 8 s of foreign fail messages: the time-out never came
	case "failmsg":
		okFlow = entered()
		_ = w.ghost.inner.Broadcast(peer.IDSlice{w.ids[0]}, []byte{}, comm.TssFailMsg, sid)
	case "cancel":
		okFlow = waitUntil(c9wait, subscribed)
		cancel()
	case "slowdial":
		// the coordinator asks who is ready; this relayer's ready reply needs a stream to the coordinator and the dial is
		// slow (NewStream is held at a gate); the caller gives the session up meanwhile; then the dial completes.
		// Whenever Execute returns, the reply's stream must not be left registered or open afterwards.
		gate := &closeGate{in: make(chan struct{}, 4), out: make(chan struct{})}
		w.self.setDialGate(map[peer.ID]*closeGate{w.ids[1]: gate})
		opened0 := w.self.opened()
		okFlow = waitUntil(c9wait, subscribed)
		_ = w.ghost.inner.Broadcast(peer.IDSlice{w.ids[0]}, []byte{}, comm.TssInitiateMsg, sid)
		select {
		case <-gate.in:
		case <-time.After(c9wait):
			okFlow = false
		}
		cancel()
		select { // (a session whose reply is sent inline is still inside the dial and cannot return yet)
		case <-returned:
		case <-time.After(60 * time.Millisecond):
		}
		w.self.setDialGate(nil)
		close(gate.out)
		okFlow = okFlow && waitUntil(c9wait, isReturned) && waitUntil(c9wait, func() bool { return w.self.opened() > opened0 })
		time.Sleep(20 * time.Millisecond) // let a send that outlived the session register its stream
	case "precancel": // (cancelled before Execute was entered, see below)
	case "badstart":
		okFlow = waitUntil(c9wait, subscribed)
		_ = w.ghost.inner.Broadcast(peer.IDSlice{w.ids[0]}, []byte("{not json"), comm.TssStartMsg, sid)
	case "stranger":
		okFlow = waitUntil(c9wait, subscribed)
		b, _ := message.MarshalStartMessage([]byte("go"))
		_ = w.stranger.inner.Broadcast(peer.IDSlice{w.ids[0]}, b, comm.TssStartMsg, sid)
		_ = w.stranger.inner.Broadcast(peer.IDSlice{w.ids[0]}, []byte{}, comm.TssInitiateMsg, sid)
	case "readyerr":
		okFlow = waitUntil(c9wait, subscribed)
		w.kick(sid, strings.ToLower(role))
	case "silent", "gto":
	}
	if second != "" && okFlow {
		sf := strings.Split(second, ":")
		elected, end := sf[0], sf[1]
		alive := 0 // selfA<k>: k alive answers of relayer 2 (ranked behind this relayer) arrive during the election
		if k := strings.Index(elected, "A"); k >= 0 {
			alive = int(u64(elected[k+1:]))
			elected = elected[:k]
		}
		// subscriptions handed out so far when the second wait loop stands: first attempt, handleError's watch, the loop's own
		base := waiting + ran1 + 1
		loop := 2
		if elected == "self" {
			loop = 1
		}
		if elected != "any" { // a bully election precedes the second attempt
			okFlow = waitUntil(c9wait, func() bool { return isReturned() || ecomm.VerifLiveSubscriptions(sid) >= 6 })
			if elected == "other" {
				_ = w.strangerE.Broadcast(peer.IDSlice{w.ids[0]}, []byte{}, comm.CoordinatorSelectMsg, sid)
			}
			for i := 0; i < alive; i++ {
				_ = w.strangerE.Broadcast(peer.IDSlice{w.ids[0]}, []byte{}, comm.CoordinatorAliveMsg, sid)
			}
		}
		standing := func() bool { return isReturned() || subsNow() >= base+loop }
		kick2 := func() {
			from := w.stranger
			if coordRole || elected == "any" {
				from = w.ghost
			}
			if elected == "self" {
				_ = from.inner.Broadcast(peer.IDSlice{w.ids[0]}, []byte{}, comm.TssReadyMsg, sid)
				return
			}
			_ = from.inner.Broadcast(peer.IDSlice{w.ids[0]}, []byte{}, comm.TssInitiateMsg, sid)
			b, _ := message.MarshalStartMessage([]byte("go"))
			_ = from.inner.Broadcast(peer.IDSlice{w.ids[0]}, b, comm.TssStartMsg, sid)
		}
		switch end {
		case "ok":
			okFlow = okFlow && enteredRun(standing, kick2)
			for _, p := range procs {
				p.finish <- nil
			}
		case "fail":
			okFlow = okFlow && enteredRun(standing, kick2)
			procs[0].finish <- errors.New("process failed")
		case "cancel":
			okFlow = okFlow && enteredRun(standing, kick2)
			cancel()
		case "idle":
			okFlow = okFlow && waitUntil(c9wait, standing)
			cancel()
		case "silent":
		}
	}
	r := "hang"
	select {
	case err := <-ret:
		switch {
		case err == nil:
			r = "ok"
		case refusedBy(err, subsNow()):
			r = "refused"
		default:
			r = "err"
		}
	case <-time.After(c9wait):
	}
	if early {
		r = "early" // Execute returned while a subscription of the session was still registered
	}
	cancel()
	if !okFlow || r == "hang" {
		if os.Getenv("VERIF_DUMP") != "" {
			fmt.Fprintf(os.Stderr, "HANG sess %s:%s:%d:%s>%s flow=%v r=%s subs=%d elive=%d\n", name, role, np, oc, second, okFlow, r, subsNow(), ecomm.VerifLiveSubscriptions(sid))
		}
		return "hang"
	}
	// (the elector's listener releases its subscriptions from its own goroutine once the election context is done)
	waitUntil(5*time.Second, func() bool { return ecomm.VerifLiveSubscriptions(sid) == 0 && ecomm.VerifStreamCount(sid) == 0 })
	s1, u1, c1 := w.ledger.counts(sid)
	runs, stops := []string{}, []string{}
	for _, p := range procs {
		rn, sp := p.counts()
		runs = append(runs, itoa(rn))
		stops = append(stops, itoa(sp))
	}
	pend := "0"
	if w.coord.VerifPending(sid) {
		pend = "1"
	}
	return strings.Join([]string{r, itoa(s1 - s0), itoa(u1 - u0), itoa(c1 - c0),
		itoa(w.ledger.inner.VerifLiveSubscriptions(sid)), itoa(w.ledger.inner.VerifStreamCount(sid)), itoa(w.self.openOut()),
		itoa(w.self.misuse()), strings.Join(runs, "+"), strings.Join(stops, "+"), pend,
		itoa(ecomm.VerifLiveSubscriptions(sid)), itoa(ecomm.VerifStreamCount(sid))}, "/")
}

// C09.stress <n>   n goroutines call Execute for ONE session id at the same time, with no schedule control (the
//
//	hook lets everybody through). The admitted session(s) stay alive until every other request has returned.
//	=> admitted=<k>,refused=<n-k>   (under -race this is also what exposes unsynchronised accesses)
func c9stress(a []string) string {
	if c9RegistriesUnsafe.Load() {
		return c9skipped
	}
	c9installHook()
	n := int(u64(a[0]))
	w := newC9World()
	ctx, cancel := context.WithCancel(context.Background())
	defer cancel()
	rets := make(chan error, n)
	start := make(chan struct{})
	for i := 0; i < n; i++ {
		p := w.proc("a", "p")
		go func() {
			<-start
			rets <- w.coord.Execute(ctx, []tss.TssProcess{p}, make(chan interface{}, 1))
		}()
	}
	close(start)
	refused, other := 0, 0
	deadline := time.After(c9wait)
collect:
	for refused+other < n-1 {
		select {
		case err := <-rets:
			if err != nil {
				refused++
			} else {
				other++
			}
		case <-deadline:
			break collect
		}
	}
	admitted := n - refused - other
	cancel()
	for i := 0; i < admitted; i++ {
		select {
		case <-rets:
		case <-time.After(c9wait):
			return "hang"
		}
	}
	if other > 0 {
		return "unexpected-return"
	}
	return "admitted=" + itoa(admitted) + ",refused=" + itoa(refused)
}

func init() {
	ops["C09.stress"] = c9stress
	ops["C09.race"] = c9race
	ops["C09.sess"] = c9sess
	gens["C09"] = genC09
}

var c9outsP = []string{"ok", "fail", "silent", "gto", "gtoforeign", "cancel", "precancel", "cancelrun", "badstart", "stranger", "failmsg"}
var c9outsC = []string{"ok", "fail", "gto", "gtoforeign", "cancel", "precancel", "cancelrun", "readyerr"}

// first-attempt failure > who coordinates the second attempt : how it ends
var c9retryP = []string{
	"silent>self:ok", "silent>self:fail", "silent>self:cancel", "silent>self:idle",
	"silent>other:ok", "silent>other:fail", "silent>other:cancel", "silent>other:idle", "silent>other:silent",
	"comm>self:ok", "comm>self:fail", "comm>self:cancel", "comm>self:idle",
	"comm>other:ok", "comm>other:fail", "comm>other:idle",
	"subset>any:ok", "subset>any:fail", "subset>any:cancel", "subset>any:idle",
}
var c9retryC = []string{"comm>self:ok", "comm>self:fail", "comm>self:cancel", "comm>self:idle"}

func genC09(g *G) {
	// the registries as shared objects: lock-exclusion probes and a late send against a release in progress
	g.Emit("excl", "-")
	g.out.Flush() // (registries that do not exclude can end the driver with Go's fatal "concurrent map" error anywhere below)
	g.Emit("latesend", "-")
	for _, n := range []string{"1", "2", "3", "5"} {
		g.Emit("twosends", n)
	}
	defer func() {
		// (last: on a tree where the registries are not mutually exclusive this can end the driver with Go's fatal
		// "concurrent map writes" - every other line has been compared by then)
		for i := 0; i < g.Count(2, 20); i++ {
			g.Emit("hammer", itoa(4+4*g.Intn(4)))
		}
	}()
	// retried process objects (real signing processes; FROST needs 10 s per run: thorough tier, started ahead)
	if g.Thorough() {
		c10prefetch("rerun", c9rerunRun, "fsigning", "2")
		c10prefetch("sigdrop", c9sigdropRun, "fsigning")
	}
	// a finished signing whose result nobody takes any more, then the caller's cancellation (real 2-relayer signing)
	// (not in the race-detector re-run: the probe that tells when the party has finished reads the process object's
	// internals from the harness goroutine, which the detector would rightly call a race - of the harness)
	if os.Getenv("VERIF_RACE") == "" {
		g.Emit("sigdrop", "esigning")
	}
	for _, n := range []string{"1", "2", "3"} {
		g.Emit("rerun", "esigning", n)
	}
	routs := []string{"ok", "fail", "cancel"}
	spec := func(sids []string) string {
		xs := []string{}
		for _, s := range sids {
			xs = append(xs, s+":"+[]string{"p", "c"}[g.Intn(2)]+":"+g.Pick(routs))
		}
		return strings.Join(xs, ",")
	}
	// all interleavings of k steps per thread
	var perms func(rem []int, cur []string, emit func([]string))
	perms = func(rem []int, cur []string, emit func([]string)) {
		done := true
		for i, r := range rem {
			if r > 0 {
				done = false
				rem[i]--
				perms(rem, append(cur, itoa(i)), emit)
				rem[i]++
			}
		}
		if done {
			emit(append([]string{}, cur...))
		}
	}
	// 2 threads, 3 steps each: all 20 interleavings × {same id, distinct ids}
	for _, sids := range [][]string{{"a", "a"}, {"a", "b"}} {
		perms([]int{3, 3}, nil, func(s []string) { g.Emit("race", spec(sids), strings.Join(s, ",")) })
	}
	// 3 threads: arrive+enter (all 90 interleavings) on one id; thorough: full 3 steps for every id pattern
	perms([]int{2, 2, 2}, nil, func(s []string) { g.Emit("race", spec([]string{"a", "a", "a"}), strings.Join(s, ",")) })
	if g.Thorough() {
		for _, sids := range [][]string{{"a", "a", "a"}, {"a", "a", "b"}, {"a", "b", "a"}, {"b", "a", "a"}, {"a", "b", "c"}} {
			perms([]int{3, 3, 3}, nil, func(s []string) { g.Emit("race", spec(sids), strings.Join(s, ",")) })
		}
	}
	// random: 2..8 threads over 1..3 ids, random interleaving of up to 3 steps each (re-use of an id after it finished)
	for i := 0; i < g.Count(120, 3000); i++ {
		n := 2 + g.Intn(7)
		k := 1 + g.Intn(3)
		sids := []string{}
		for j := 0; j < n; j++ {
			sids = append(sids, []string{"a", "b", "c"}[g.Intn(k)])
		}
		rem := make([]int, n)
		total := 0
		for j := range rem {
			rem[j] = 1 + g.Intn(3)
			if g.Intn(3) > 0 {
				rem[j] = 3
			}
			total += rem[j]
		}
		sch := []string{}
		for total > 0 {
			j := g.Intn(n)
			if rem[j] > 0 {
				rem[j]--
				total--
				sch = append(sch, itoa(j))
			}
		}
		g.Emit("race", spec(sids), strings.Join(sch, ","))
	}
	// unscheduled bursts of 2..8 simultaneous requests for one id
	for i := 0; i < g.Count(12, 400); i++ {
		g.Emit("stress", itoa(2+g.Intn(7)))
	}
	// sessions: every outcome × role × 1..3 processes, each followed by a re-use of the same id
	for _, np := range []string{"1", "2", "3"} {
		for _, oc := range c9outsP {
			g.Emit("sess", "a:p:"+np+":"+oc+",a:p:1:ok")
		}
		for _, oc := range c9outsC {
			g.Emit("sess", "a:c:"+np+":"+oc+",a:c:1:ok")
		}
	}
	// Close() of a session's stream fails at session end (every pattern), then the id is used again - twice
	for _, oc := range []string{"ok", "fail", "cancelrun", "gto"} {
		for _, m := range []string{"1", "2", "3"} {
			g.Emit("sess", "a:c:1f"+m+":"+oc+",a:c:1:ok,a:c:2f"+m+":ok,a:p:1:ok")
		}
		g.Emit("sess", "a:p:1f1:"+map[string]string{"ok": "ok", "fail": "fail", "cancelrun": "cancelrun", "gto": "failmsg"}[oc]+",a:p:1:ok,a:c:1:ok")
	}
	// every write on a session's fresh stream fails (every pattern), alone and together with a failing Close()
	for _, m := range []string{"1", "2", "3"} {
		g.Emit("sess", "a:c:1w"+m+":ok,a:c:1:ok,a:c:2f"+m+"w"+m+":fail,a:p:1:ok")
		g.Emit("sess", "b:c:1f"+m+"w3:cancelrun,b:c:1w"+m+":gto,b:c:1:ok")
	}
	g.Emit("sess", "a:p:1w1:ok,a:p:2w1:fail,a:p:1f1w1:failmsg,a:p:1:ok")
	// 0..4 alive answers of a relayer ranked behind this one arrive during the election (duplicated / late answers)
	for _, k := range []string{"0", "1", "2", "3", "4"} {
		end := []string{"ok", "idle", "fail", "ok", "cancel"}[int(k[0]-'0')]
		g.Emit("sess", "c:P:1:silent>selfA"+k+":"+end+",c:p:1:ok")
	}
	g.Emit("sess", "d:P:2:comm>selfA3:ok,d:P:1:comm>selfA1:fail,d:c:1:ok")
	g.Emit("sess", "a:p:1:gtorun,a:c:2:ok")
	g.Emit("sess", "a:p:1:slowdial,a:p:1:ok")
	g.Emit("sess", "b:P:2:slowdial,a:p:1:slowdial,b:c:1:ok")
	g.Emit("sess", "a:p:2:gtorunforeign,a:p:1:ok")
	g.Emit("sess", "a:P:1:gtoforeign,a:P:1:ok")
	if g.Thorough() {
		g.Emit("sess", "a:c:2:gtorun,a:p:1:ok")
	}
	// retryable processes: unclassified failures (handleError returns at once) and every scripted second attempt
	for _, np := range []string{"1", "2"} {
		for _, oc := range []string{"ok", "fail", "failhold", "failmsg", "gto", "cancel", "cancelrun", "badstart"} {
			g.Emit("sess", "a:P:"+np+":"+oc+",a:P:1:ok")
		}
		for i, it := range c9retryP {
			if np == "2" && !g.Thorough() && i%3 != 0 {
				continue
			}
			g.Emit("sess", "a:P:"+np+":"+it+",a:p:1:ok")
		}
		for _, it := range c9retryC {
			g.Emit("sess", "a:C:"+np+":"+it+",a:P:1:silent>self:ok")
		}
	}
	if g.Thorough() {
		g.Emit("rerun", "fsigning", "2")
		if os.Getenv("VERIF_RACE") == "" {
			g.Emit("sigdrop", "fsigning")
		}
		g.Emit("rerun", "esigning", "5")
	}
	// random sequences of sessions over two ids in any order, retried sessions mixed in
	for i := 0; i < g.Count(30, 700); i++ {
		n := 2 + g.Intn(5)
		xs := []string{}
		for j := 0; j < n; j++ {
			role := []string{"p", "c"}[g.Intn(2)]
			oc := g.Pick(c9outsP)
			if role == "c" {
				oc = g.Pick(c9outsC)
			}
			if g.Intn(4) == 0 {
				if role == "p" {
					role, oc = "P", g.Pick(c9retryP)
				} else {
					role, oc = "C", g.Pick(c9retryC)
				}
			}
			np := itoa(1 + g.Intn(3))
			if g.Intn(3) == 0 {
				np += "f" + itoa(1+g.Intn(3))
			}
			if g.Intn(4) == 0 {
				np += "w" + itoa(1+g.Intn(3))
			}
			xs = append(xs, []string{"a", "b"}[g.Intn(2)]+":"+role+":"+np+":"+oc)
		}
		g.Emit("sess", strings.Join(xs, ","))
	}
}
